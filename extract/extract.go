// Command extract is the translator half of the model↔code tie (DESIGN 1.3): it reads /repo's current
// source with go/ast and regenerates lean/RainModel/Generated/*.lean on every check run.
//
// Access.lean: the field-access table of package torrent used by C20 — for every function, which fields of
// the `torrent` struct it reads or writes, in which goroutine context it can run (reachable from the event
// loop `(*torrent).run` by plain calls / reachable from an exported method, an RPC handler, a `go` statement
// or a method value handed to another goroutine), and which mutex it lexically holds at the access.
// Standard library only, so it runs with the repository's own toolchain.
package main

import (
	"encoding/json"
	"flag"
	"fmt"
	"go/ast"
	"go/parser"
	"go/token"
	"os"
	"path/filepath"
	"sort"
	"strings"
)

type access struct {
	Fn    string `json:"fn"`
	Field string `json:"field"`
	Write bool   `json:"write"`
	Lock  string `json:"lock"` // mutex lexically held ("" = none)
	Pos   string `json:"pos"`
}

type fnInfo struct {
	name      string
	recvVar   string
	recvType  string // torrent | Torrent | Session | rpcHandler | ""
	exported  bool
	calls     map[string]bool // plain calls
	goCalls   map[string]bool // started by a go statement
	methodVal map[string]bool // method values (callbacks) taken
	accesses  []access
	// lock → blocking operations performed while holding it
	blocksHolding map[string][]string
	locksTaken    map[string]bool
}

var fset = token.NewFileSet()

func main() {
	repo := flag.String("repo", "/repo", "repository root")
	out := flag.String("out", ".", "output directory")
	flag.Parse()
	dir := filepath.Join(*repo, "torrent")
	pkgs, err := parser.ParseDir(fset, dir, func(fi os.FileInfo) bool {
		n := fi.Name()
		return !strings.HasSuffix(n, "_test.go") && !strings.HasPrefix(n, "zz_verif") &&
			!strings.HasSuffix(n, "_windows.go") && !strings.HasSuffix(n, "_freebsd.go")
	}, parser.ParseComments)
	if err != nil {
		fmt.Fprintln(os.Stderr, err)
		os.Exit(1)
	}
	pkg := pkgs["torrent"]
	if pkg == nil {
		fmt.Fprintln(os.Stderr, "package torrent not found")
		os.Exit(1)
	}
	// 1. fields of struct torrent
	fields := map[string]string{}
	var fieldOrder []string
	for _, f := range pkg.Files {
		for _, d := range f.Decls {
			gd, ok := d.(*ast.GenDecl)
			if !ok {
				continue
			}
			for _, sp := range gd.Specs {
				ts, ok := sp.(*ast.TypeSpec)
				if !ok || ts.Name.Name != "torrent" {
					continue
				}
				st, ok := ts.Type.(*ast.StructType)
				if !ok {
					continue
				}
				for _, fl := range st.Fields.List {
					for _, n := range fl.Names {
						fields[n.Name] = exprString(fl.Type)
						fieldOrder = append(fieldOrder, n.Name)
					}
				}
			}
		}
	}
	// 2. functions
	fns := map[string]*fnInfo{}
	for _, f := range pkg.Files {
		for _, d := range f.Decls {
			fd, ok := d.(*ast.FuncDecl)
			if !ok || fd.Body == nil {
				continue
			}
			fi := &fnInfo{calls: map[string]bool{}, goCalls: map[string]bool{}, methodVal: map[string]bool{},
				blocksHolding: map[string][]string{}, locksTaken: map[string]bool{}}
			if fd.Recv != nil && len(fd.Recv.List) == 1 {
				r := fd.Recv.List[0]
				fi.recvType = strings.TrimPrefix(exprString(r.Type), "*")
				if len(r.Names) == 1 {
					fi.recvVar = r.Names[0].Name
				}
				fi.name = fi.recvType + "." + fd.Name.Name
			} else {
				fi.name = fd.Name.Name
			}
			fi.exported = ast.IsExported(fd.Name.Name)
			fns[fi.name] = fi
			walkFn(fi, fd.Body, fields, fns)
		}
	}
	// 3. contexts
	loop := closure(fns, []string{"torrent.run"}, false)
	var extRoots []string
	for n, fi := range fns {
		if fi.exported && (fi.recvType == "Torrent" || fi.recvType == "torrent" || fi.recvType == "Session" || fi.recvType == "rpcHandler") {
			extRoots = append(extRoots, n)
		}
		for g := range fi.goCalls {
			if g != "torrent.run" {
				extRoots = append(extRoots, g)
			}
		}
		for m := range fi.methodVal {
			extRoots = append(extRoots, m)
		}
	}
	sort.Strings(extRoots)
	ext := closure(fns, extRoots, false)

	// 4. field classes
	writtenByLoop := map[string]bool{}
	writtenOutsideCtor := map[string]bool{}
	for n, fi := range fns {
		for _, a := range fi.accesses {
			if a.Write && n != "newTorrent" {
				writtenOutsideCtor[a.Field] = true
				if loop[n] {
					writtenByLoop[a.Field] = true
				}
			}
		}
	}
	class := func(f string) string {
		t := fields[f]
		switch {
		case strings.HasPrefix(t, "chan ") || strings.HasPrefix(t, "<-chan") || strings.Contains(t, "suspendchan.Chan"):
			return "chan"
		case strings.HasPrefix(t, "sync."):
			return "sync"
		case !writtenOutsideCtor[f]:
			return "immutable"
		case strings.HasPrefix(t, "metrics.Counter"):
			return "atomic"
		}
		return "owned"
	}

	// 5. table + violations
	var names []string
	for n := range fns {
		names = append(names, n)
	}
	sort.Strings(names)
	fnID := map[string]int{}
	for i, n := range names {
		fnID[n] = i
	}
	fieldID := map[string]int{}
	for i, f := range fieldOrder {
		fieldID[f] = i
	}
	lockID := func(l string) int {
		if l == "" {
			return 0
		}
		return fieldID[l] + 1
	}
	type row struct {
		fn, field int
		write     bool
		ctx       int // 0 loop only, 1 external only, 2 both
		lock      int
		cls       string
		fnName    string
		fieldName string
		pos       string
	}
	var rows []row
	viol := map[string]bool{}
	for _, n := range names {
		fi := fns[n]
		if n == "newTorrent" {
			continue
		}
		for _, a := range fi.accesses {
			ctx := -1
			switch {
			case loop[n] && ext[n]:
				ctx = 2
			case ext[n]:
				ctx = 1
			case loop[n]:
				ctx = 0
			default:
				continue // unreachable helper
			}
			rows = append(rows, row{fnID[n], fieldID[a.Field], a.Write, ctx, lockID(a.Lock), class(a.Field), n, a.Field, a.Pos})
		}
	}
	// a pair (external access, loop write to an owned field) without a common lock is a violation
	for _, r := range rows {
		if r.ctx == 0 || r.cls != "owned" {
			continue
		}
		for _, w := range rows {
			if w.field != r.field || !(w.write || r.write) || w.ctx == 1 {
				continue
			}
			if !(w.write) && !(r.write) {
				continue
			}
			if r.lock != 0 && r.lock == w.lock {
				continue
			}
			if r.fn == w.fn && r.ctx == 2 {
				continue
			}
			viol[r.fnName+"|"+r.fieldName] = true
		}
	}
	var violList []string
	for v := range viol {
		violList = append(violList, v)
	}
	sort.Strings(violList)

	// 6. lock-order edges: lock L held while blocking on the event loop; locks the loop takes
	var heldWhileWaiting []string
	loopTakes := map[string]bool{}
	for _, n := range names {
		fi := fns[n]
		for l, ops := range fi.blocksHolding {
			for _, op := range ops {
				heldWhileWaiting = append(heldWhileWaiting, fmt.Sprintf("%s|%s|%s", n, l, op))
			}
		}
		if loop[n] {
			for l := range fi.locksTaken {
				loopTakes[l] = true
			}
		}
	}
	sort.Strings(heldWhileWaiting)
	var loopLocks []string
	for l := range loopTakes {
		loopLocks = append(loopLocks, l)
	}
	sort.Strings(loopLocks)

	// 7. outputs
	facts := map[string]interface{}{"functions": len(names), "fields": len(fieldOrder), "accesses": len(rows),
		"violations": violList, "held_while_waiting_on_loop": heldWhileWaiting, "locks_taken_by_loop": loopLocks}
	// 6b. lock nesting (locks.go)
	lprog := loadLockProg(*repo)
	lfacts := analyseLocks(lprog)
	lfacts.addFacts(facts)
	sfacts := analyseSessionFields(lprog)
	sfacts.addFacts(facts)
	fb, _ := json.MarshalIndent(facts, "", " ")
	_ = os.WriteFile(filepath.Join(*out, "facts.json"), fb, 0o644)

	var sb strings.Builder
	sb.WriteString("/- GENERATED by /verif/extract from /repo/torrent/*.go — do not edit. -/\n")
	sb.WriteString("import RainModel.Model.Discipline\nnamespace Rain.Generated.Access\nopen Rain.Discipline\n\n")
	sb.WriteString("/-- Function names (index = id). -/\ndef fnNames : List String := [\n")
	for _, n := range names {
		fmt.Fprintf(&sb, "  %q,\n", n)
	}
	sb.WriteString("]\n\n/-- Fields of `torrent` (index = id). -/\ndef fieldNames : List String := [\n")
	for _, f := range fieldOrder {
		fmt.Fprintf(&sb, "  %q,\n", f)
	}
	sb.WriteString("]\n\n/-- Field classes: 0 owned by the loop, 1 channel, 2 sync primitive, 3 immutable after construction, 4 internally synchronised. -/\ndef fieldClass : List Nat := [")
	for i, f := range fieldOrder {
		if i > 0 {
			sb.WriteString(", ")
		}
		fmt.Fprintf(&sb, "%d", map[string]int{"owned": 0, "chan": 1, "sync": 2, "immutable": 3, "atomic": 4}[class(f)])
	}
	sb.WriteString("]\n\n/-- (function, field, write, context, lock): context 0 = loop only, 1 = outside the loop only, 2 = both; lock 0 = none, k+1 = field k. -/\ndef table : List Acc := [\n")
	for _, r := range rows {
		fmt.Fprintf(&sb, "  ⟨%d, %d, %v, %d, %d⟩,\n", r.fn, r.field, r.write, r.ctx, r.lock)
	}
	sb.WriteString("]\n\n/-- Locks the event loop acquires (as field ids + 1; Session locks are numbered from 1000). -/\ndef loopLocks : List String := [")
	for i, l := range loopLocks {
		if i > 0 {
			sb.WriteString(", ")
		}
		fmt.Fprintf(&sb, "%q", l)
	}
	sb.WriteString("]\n\n/-- (function, lock, operation): a lock held while the function waits for the event loop. -/\ndef heldWhileWaiting : List (String × String × String) := [\n")
	for _, h := range heldWhileWaiting {
		p := strings.SplitN(h, "|", 3)
		fmt.Fprintf(&sb, "  (%q, %q, %q),\n", p[0], p[1], p[2])
	}
	sb.WriteString("]\n")
	lfacts.lean(&sb)
	sfacts.lean(&sb)
	sb.WriteString("\nend Rain.Generated.Access\n")
	_ = os.WriteFile(filepath.Join(*out, "Access.lean"), []byte(sb.String()), 0o644)
	fmt.Printf("extract: %d functions, %d fields, %d accesses, %d violating (function, field) pairs\n", len(names), len(fieldOrder), len(rows), len(violList))
	fmt.Printf("extract: %d locks, %d nesting edges (%d loop-carried), %d cycle(s), %d unresolved lock expression(s)\n", len(lfacts.locks), len(lfacts.edges), len(lfacts.loopEdges), len(lfacts.cycles), len(lfacts.unresolved))
	fmt.Printf("extract: %d guarded Session fields, %d accesses, %d (function, field) pairs without the guard outside construction\n", len(sfacts.fields), len(sfacts.rows), len(sfacts.violations))
}

func closure(fns map[string]*fnInfo, roots []string, followGo bool) map[string]bool {
	seen := map[string]bool{}
	var stack []string
	for _, r := range roots {
		if _, ok := fns[r]; ok && !seen[r] {
			seen[r] = true
			stack = append(stack, r)
		}
	}
	for len(stack) > 0 {
		n := stack[len(stack)-1]
		stack = stack[:len(stack)-1]
		for c := range fns[n].calls {
			if _, ok := fns[c]; ok && !seen[c] {
				seen[c] = true
				stack = append(stack, c)
			}
		}
	}
	return seen
}

func exprString(e ast.Expr) string {
	switch x := e.(type) {
	case *ast.Ident:
		return x.Name
	case *ast.StarExpr:
		return "*" + exprString(x.X)
	case *ast.SelectorExpr:
		return exprString(x.X) + "." + x.Sel.Name
	case *ast.ArrayType:
		return "[]" + exprString(x.Elt)
	case *ast.MapType:
		return "map[" + exprString(x.Key) + "]" + exprString(x.Value)
	case *ast.ChanType:
		switch x.Dir {
		case ast.RECV:
			return "<-chan " + exprString(x.Value)
		default:
			return "chan " + exprString(x.Value)
		}
	case *ast.IndexExpr:
		return exprString(x.X) + "[" + exprString(x.Index) + "]"
	case *ast.FuncType:
		return "func"
	case *ast.InterfaceType:
		return "interface"
	case *ast.StructType:
		return "struct"
	case *ast.Ellipsis:
		return "..." + exprString(x.Elt)
	}
	return "?"
}

// torrentField returns the field name if e is an access to a field of the torrent struct.
func torrentField(fi *fnInfo, e ast.Expr, fields map[string]string) (string, bool) {
	se, ok := e.(*ast.SelectorExpr)
	if !ok {
		return "", false
	}
	if _, isField := fields[se.Sel.Name]; !isField {
		return "", false
	}
	switch x := se.X.(type) {
	case *ast.Ident:
		if fi.recvType == "torrent" && x.Name == fi.recvVar {
			return se.Sel.Name, true
		}
		// local variables conventionally named for a *torrent
		if x.Name == "tt" {
			return se.Sel.Name, true
		}
	case *ast.SelectorExpr:
		// t.torrent.field (Torrent wrapper, rpc handler, Session loops)
		if x.Sel.Name == "torrent" {
			return se.Sel.Name, true
		}
	}
	return "", false
}

func walkFn(fi *fnInfo, body *ast.BlockStmt, fields map[string]string, fns map[string]*fnInfo) {
	writes := map[ast.Expr]bool{}
	markWrite := func(e ast.Expr) {
		for {
			switch x := e.(type) {
			case *ast.IndexExpr:
				e = x.X
				continue
			case *ast.ParenExpr:
				e = x.X
				continue
			case *ast.StarExpr:
				e = x.X
				continue
			}
			break
		}
		writes[e] = true
	}
	type lockEvent struct {
		pos    token.Pos
		lock   string
		unlock bool
	}
	var lockEvents []lockEvent
	var blocking []struct {
		pos token.Pos
		op  string
	}
	calleeCalls := map[ast.Expr]bool{}
	ast.Inspect(body, func(n ast.Node) bool {
		switch x := n.(type) {
		case *ast.AssignStmt:
			for _, l := range x.Lhs {
				markWrite(l)
			}
		case *ast.IncDecStmt:
			markWrite(x.X)
		case *ast.UnaryExpr:
			if x.Op == token.AND {
				markWrite(x.X)
			}
			if x.Op == token.ARROW {
				blocking = append(blocking, struct {
					pos token.Pos
					op  string
				}{x.Pos(), "recv"})
			}
		case *ast.GoStmt:
			if name, ok := calleeName(fi, x.Call.Fun); ok {
				fi.goCalls[name] = true
				calleeCalls[x.Call.Fun] = true
			}
		case *ast.CallExpr:
			if id, ok := x.Fun.(*ast.Ident); ok && id.Name == "delete" && len(x.Args) > 0 {
				markWrite(x.Args[0])
			}
			if se, ok := x.Fun.(*ast.SelectorExpr); ok {
				// t.mBitfield.Lock() / RLock / Unlock / RUnlock ; s.mTorrents.Lock() …
				switch se.Sel.Name {
				case "Lock", "RLock", "Unlock", "RUnlock":
					if inner, ok := se.X.(*ast.SelectorExpr); ok && strings.HasPrefix(inner.Sel.Name, "m") {
						lockEvents = append(lockEvents, lockEvent{x.Pos(), inner.Sel.Name, strings.Contains(se.Sel.Name, "nlock")})
					}
				}
				// operations that wait for the event loop
				switch se.Sel.Name {
				case "Stats", "Close", "Stop", "Start", "Announce", "Verify", "AddPeers", "AddTrackers", "Trackers", "Peers", "Webseeds", "NotifyError", "NotifyListen":
					if inner, ok := se.X.(*ast.SelectorExpr); ok && inner.Sel.Name == "torrent" {
						blocking = append(blocking, struct {
							pos token.Pos
							op  string
						}{x.Pos(), "loop:" + se.Sel.Name})
					}
				}
			}
			if id, ok := x.Fun.(*ast.Ident); ok && (id.Name == "sendCommand" || id.Name == "recvResponse") {
				blocking = append(blocking, struct {
					pos token.Pos
					op  string
				}{x.Pos(), "loop:" + id.Name})
			}
			if name, ok := calleeName(fi, x.Fun); ok {
				if !calleeCalls[x.Fun] {
					fi.calls[name] = true
				}
				calleeCalls[x.Fun] = true
			}
		}
		return true
	})
	// lock held at a position: last lock event before it (per lock) is a Lock; a deferred Unlock keeps it held
	heldAt := func(pos token.Pos) string {
		held := ""
		state := map[string]bool{}
		for _, ev := range lockEvents {
			if ev.pos < pos {
				if ev.unlock {
					// deferred unlocks directly follow their lock in source: ignore unlocks that come right after a lock
					state[ev.lock] = state[ev.lock] && isDeferredUnlock(body, ev.pos)
				} else {
					state[ev.lock] = true
				}
			}
		}
		for l, h := range state {
			if h && (held == "" || l < held) {
				held = l
			}
		}
		return held
	}
	for _, ev := range lockEvents {
		if !ev.unlock {
			fi.locksTaken[ev.lock] = true
		}
	}
	for _, b := range blocking {
		if l := heldAt(b.pos); l != "" && strings.HasPrefix(b.op, "loop:") {
			fi.blocksHolding[l] = append(fi.blocksHolding[l], b.op)
		}
	}
	// accesses and method values
	ast.Inspect(body, func(n ast.Node) bool {
		se, ok := n.(*ast.SelectorExpr)
		if !ok {
			return true
		}
		if f, ok := torrentField(fi, se, fields); ok {
			p := fset.Position(se.Pos())
			fi.accesses = append(fi.accesses, access{Fn: fi.name, Field: f, Write: writes[se], Lock: heldAt(se.Pos()),
				Pos: fmt.Sprintf("%s:%d", filepath.Base(p.Filename), p.Line)})
			return true
		}
		// method value: t.method not in call position
		if !calleeCalls[se] {
			if name, ok := calleeName(fi, se); ok {
				if _, isFn := fnsLookup(fns, name); isFn || strings.HasPrefix(name, "torrent.") {
					fi.methodVal[name] = true
				}
			}
		}
		return true
	})
}

func fnsLookup(fns map[string]*fnInfo, n string) (*fnInfo, bool) { f, ok := fns[n]; return f, ok }

func isDeferredUnlock(body *ast.BlockStmt, pos token.Pos) bool {
	found := false
	ast.Inspect(body, func(n ast.Node) bool {
		if d, ok := n.(*ast.DeferStmt); ok && d.Call.Pos() == pos {
			found = true
		}
		return !found
	})
	return found
}

// calleeName resolves the statically known callee of a call / method value inside package torrent.
func calleeName(fi *fnInfo, fun ast.Expr) (string, bool) {
	switch x := fun.(type) {
	case *ast.Ident:
		return x.Name, true
	case *ast.SelectorExpr:
		switch r := x.X.(type) {
		case *ast.Ident:
			if r.Name == fi.recvVar && fi.recvType != "" {
				return fi.recvType + "." + x.Sel.Name, true
			}
			if r.Name == "tt" || r.Name == "t2" {
				return "torrent." + x.Sel.Name, true
			}
		case *ast.SelectorExpr:
			switch r.Sel.Name {
			case "torrent":
				return "torrent." + x.Sel.Name, true
			case "session":
				return "Session." + x.Sel.Name, true
			}
		}
	}
	return "", false
}
