// Lock-nesting extraction (C20): which lock is acquired while which other lock is held.
//
// The pass parses package torrent and the internal packages it calls, resolves — syntactically, with a small
// type table built from the struct declarations, no go/types — the receiver type of every `X.Lock()` /
// `X.RLock()` / `X.Unlock()` / `X.RUnlock()` and of every statically resolvable call, walks every function
// body in statement order with the set of locks held, and emits one edge (function, held, acquired, via) for
// every acquisition made while a lock is held: `via` is empty for a lexically nested acquisition and names the
// callee when the lock is taken (transitively) by a function called while the lock is held.
// A bbolt transaction is a pseudo-lock: `db.Update`/`db.Batch` hold `bbolt.rw` (bbolt's single-writer lock,
// not reentrant) and `db.View` holds `bbolt.ro` (the mmap read lock) for the duration of the closure.
package main

import (
	"fmt"
	"go/ast"
	"go/parser"
	"go/token"
	"os"
	"path/filepath"
	"sort"
	"strings"
)

// ---------------------------------------------------------------------------------------------
// program model
// ---------------------------------------------------------------------------------------------

type lpkg struct {
	name    string
	structs map[string]*ast.StructType
	named   map[string]ast.Expr // non-struct named types
	tfile   map[string]*ast.File
	funcs   map[string]*lfunc // "Recv.Name" | "Name"
	imports map[*ast.File]map[string]string
}

type heldLock struct {
	name    string
	pos     token.Pos
	excl    bool // Lock / bbolt.rw (exclusive) as opposed to RLock / bbolt.ro
	carried bool // still held from an earlier iteration of the enclosing loop
	loopDep bool // the lock's owner expression depends on a range variable (one lock per element)
}

type acqSite struct {
	lock    string
	pos     token.Pos
	excl    bool
	loopDep bool
	held    []heldLock
}

type callSite struct {
	callee *lfunc
	pos    token.Pos
	held   []heldLock
}

type lfunc struct {
	pkg   *lpkg
	file  *ast.File
	decl  *ast.FuncDecl
	body  *ast.BlockStmt
	name  string // display name: package torrent unqualified, others "pkg.Recv.Name"
	acqs  []acqSite
	calls []callSite
	// session-field accesses (filled by the same walk, see sessfields.go)
	sfAcc   []sfAccess
	parent  *lfunc   // for a closure run on another goroutine: the function that contains it
	goCalls []*lfunc // functions started with a go statement
	// transitive acquisitions: lock -> chain of function names ending with "file:line" of the Lock call
	acqT map[string][]string
}

type lockProg struct {
	pkgs       map[string]*lpkg
	funcs      []*lfunc
	unresolved map[string]bool
	objType    map[*ast.Object]string
	objBusy    map[*ast.Object]bool
	guards     map[string]string // guarded Session field -> mutex field
	goStarted  map[*lfunc]bool
	methodVals map[*lfunc]bool
}

type lctx struct {
	p    *lockProg
	pkg  *lpkg
	file *ast.File
	fn   *lfunc
}

func posStr(p token.Pos) string {
	q := fset.Position(p)
	dir := filepath.Base(filepath.Dir(q.Filename))
	return fmt.Sprintf("%s/%s:%d", dir, filepath.Base(q.Filename), q.Line)
}

func loadLockProg(repo string) *lockProg {
	p := &lockProg{pkgs: map[string]*lpkg{}, unresolved: map[string]bool{}, objType: map[*ast.Object]string{}, objBusy: map[*ast.Object]bool{},
		goStarted: map[*lfunc]bool{}, methodVals: map[*lfunc]bool{}}
	var dirs []string
	dirs = append(dirs, filepath.Join(repo, "torrent"))
	_ = filepath.Walk(filepath.Join(repo, "internal"), func(path string, fi os.FileInfo, err error) error {
		if err != nil || !fi.IsDir() {
			return nil
		}
		switch fi.Name() {
		case "console", "trackertest", "verifharness", "testdata":
			return filepath.SkipDir
		}
		dirs = append(dirs, path)
		return nil
	})
	for _, d := range dirs {
		pkgs, err := parser.ParseDir(fset, d, func(fi os.FileInfo) bool {
			n := fi.Name()
			return !strings.HasSuffix(n, "_test.go") && !strings.HasPrefix(n, "zz_verif") &&
				!strings.HasSuffix(n, "_windows.go") && !strings.HasSuffix(n, "_freebsd.go")
		}, parser.ParseComments)
		if err != nil {
			continue
		}
		for name, ap := range pkgs {
			if strings.HasSuffix(name, "_test") || name == "main" {
				continue
			}
			if _, dup := p.pkgs[name]; dup {
				continue
			}
			lp := &lpkg{name: name, structs: map[string]*ast.StructType{}, named: map[string]ast.Expr{}, tfile: map[string]*ast.File{},
				funcs: map[string]*lfunc{}, imports: map[*ast.File]map[string]string{}}
			p.pkgs[name] = lp
			var fnames []string
			for fn := range ap.Files {
				fnames = append(fnames, fn)
			}
			sort.Strings(fnames)
			for _, fn := range fnames {
				f := ap.Files[fn]
				im := map[string]string{}
				for _, is := range f.Imports {
					path := strings.Trim(is.Path.Value, `"`)
					base := path[strings.LastIndex(path, "/")+1:]
					if strings.HasPrefix(base, "v") && len(base) <= 3 && strings.Count(path, "/") > 0 { // …/v2
						rest := path[:strings.LastIndex(path, "/")]
						base = rest[strings.LastIndex(rest, "/")+1:]
					}
					local := base
					if is.Name != nil {
						local = is.Name.Name
					}
					im[local] = base
				}
				lp.imports[f] = im
				for _, d := range f.Decls {
					switch x := d.(type) {
					case *ast.GenDecl:
						for _, sp := range x.Specs {
							if ts, ok := sp.(*ast.TypeSpec); ok {
								lp.tfile[ts.Name.Name] = f
								if st, ok := ts.Type.(*ast.StructType); ok {
									lp.structs[ts.Name.Name] = st
								} else {
									lp.named[ts.Name.Name] = ts.Type
								}
							}
						}
					case *ast.FuncDecl:
						if x.Body == nil {
							continue
						}
						lf := &lfunc{pkg: lp, file: f, decl: x, body: x.Body}
						key := x.Name.Name
						if x.Recv != nil && len(x.Recv.List) == 1 {
							key = baseTypeName(x.Recv.List[0].Type) + "." + x.Name.Name
						}
						lf.name = key
						if name != "torrent" {
							lf.name = name + "." + key
						}
						lp.funcs[key] = lf
						p.funcs = append(p.funcs, lf)
					}
				}
			}
		}
	}
	sort.Slice(p.funcs, func(i, j int) bool { return p.funcs[i].name < p.funcs[j].name })
	return p
}

func baseTypeName(e ast.Expr) string {
	for {
		switch x := e.(type) {
		case *ast.StarExpr:
			e = x.X
			continue
		case *ast.ParenExpr:
			e = x.X
			continue
		case *ast.IndexExpr:
			e = x.X
			continue
		case *ast.IndexListExpr:
			e = x.X
			continue
		case *ast.Ident:
			return x.Name
		case *ast.SelectorExpr:
			return x.Sel.Name
		}
		return "?"
	}
}

// ---------------------------------------------------------------------------------------------
// types as strings: "pkg.T", "*T", "[]T", "map[K]V", "chan T", "func", "interface"
// ---------------------------------------------------------------------------------------------

func (c *lctx) typeStr(e ast.Expr) string {
	switch x := e.(type) {
	case *ast.Ident:
		if _, ok := c.pkg.structs[x.Name]; ok {
			return c.pkg.name + "." + x.Name
		}
		if _, ok := c.pkg.named[x.Name]; ok {
			return c.pkg.name + "." + x.Name
		}
		return x.Name
	case *ast.SelectorExpr:
		if id, ok := x.X.(*ast.Ident); ok {
			if base, ok := c.pkg.imports[c.file][id.Name]; ok {
				return base + "." + x.Sel.Name
			}
			return id.Name + "." + x.Sel.Name
		}
	case *ast.StarExpr:
		return "*" + c.typeStr(x.X)
	case *ast.ParenExpr:
		return c.typeStr(x.X)
	case *ast.ArrayType:
		return "[]" + c.typeStr(x.Elt)
	case *ast.Ellipsis:
		return "[]" + c.typeStr(x.Elt)
	case *ast.MapType:
		return "map[" + c.typeStr(x.Key) + "]" + c.typeStr(x.Value)
	case *ast.ChanType:
		return "chan " + c.typeStr(x.Value)
	case *ast.FuncType:
		return "func"
	case *ast.InterfaceType:
		return "interface"
	case *ast.IndexExpr: // generic instantiation
		return c.typeStr(x.X)
	case *ast.IndexListExpr:
		return c.typeStr(x.X)
	}
	return ""
}

func deref(t string) string { return strings.TrimLeft(t, "*") }

func splitNamed(t string) (pkg, name string, ok bool) {
	t = deref(t)
	if strings.ContainsAny(t, "[] ") {
		return "", "", false
	}
	i := strings.Index(t, ".")
	if i < 0 {
		return "", "", false
	}
	return t[:i], t[i+1:], true
}

func mapParts(t string) (k, v string, ok bool) {
	if !strings.HasPrefix(t, "map[") {
		return "", "", false
	}
	depth := 0
	for i := 3; i < len(t); i++ {
		switch t[i] {
		case '[':
			depth++
		case ']':
			depth--
			if depth == 0 {
				return t[4:i], t[i+1:], true
			}
		}
	}
	return "", "", false
}

// underlying resolves a named non-struct type to its declared underlying type string.
func (p *lockProg) underlying(t string) string {
	for i := 0; i < 5; i++ {
		pk, n, ok := splitNamed(t)
		if !ok || strings.HasPrefix(t, "*") {
			return t
		}
		lp := p.pkgs[pk]
		if lp == nil {
			return t
		}
		e, ok := lp.named[n]
		if !ok {
			return t
		}
		c := &lctx{p: p, pkg: lp, file: lp.tfile[n]}
		t = c.typeStr(e)
	}
	return t
}

func (p *lockProg) elemType(t string) string {
	t = p.underlying(deref(t))
	if _, v, ok := mapParts(t); ok {
		return v
	}
	if strings.HasPrefix(t, "[]") {
		return t[2:]
	}
	if strings.HasPrefix(t, "chan ") {
		return t[5:]
	}
	return ""
}

func (p *lockProg) keyType(t string) string {
	t = p.underlying(deref(t))
	if k, _, ok := mapParts(t); ok {
		return k
	}
	if strings.HasPrefix(t, "[]") {
		return "int"
	}
	return ""
}

// fieldType looks a field up in the named struct type t (following embedded structs).
func (p *lockProg) fieldType(t, field string, depth int) (string, bool) {
	pk, n, ok := splitNamed(t)
	if !ok || depth > 4 {
		return "", false
	}
	lp := p.pkgs[pk]
	if lp == nil {
		return "", false
	}
	st := lp.structs[n]
	if st == nil {
		return "", false
	}
	c := &lctx{p: p, pkg: lp, file: lp.tfile[n]}
	var embedded []string
	for _, fl := range st.Fields.List {
		ft := c.typeStr(fl.Type)
		if len(fl.Names) == 0 {
			if baseTypeName(fl.Type) == field {
				return ft, true
			}
			embedded = append(embedded, ft)
			continue
		}
		for _, nm := range fl.Names {
			if nm.Name == field {
				return ft, true
			}
		}
	}
	for _, e := range embedded {
		if ft, ok := p.fieldType(e, field, depth+1); ok {
			return ft, true
		}
	}
	return "", false
}

func (p *lockProg) findMethod(t, m string, depth int) *lfunc {
	pk, n, ok := splitNamed(t)
	if !ok || depth > 4 {
		return nil
	}
	lp := p.pkgs[pk]
	if lp == nil {
		return nil
	}
	if f, ok := lp.funcs[n+"."+m]; ok {
		return f
	}
	if st := lp.structs[n]; st != nil {
		c := &lctx{p: p, pkg: lp, file: lp.tfile[n]}
		for _, fl := range st.Fields.List {
			if len(fl.Names) == 0 {
				if f := p.findMethod(c.typeStr(fl.Type), m, depth+1); f != nil {
					return f
				}
			}
		}
	}
	return nil
}

func (c *lctx) resultType(f *lfunc, i int) string {
	if f == nil || f.decl == nil || f.decl.Type.Results == nil {
		return ""
	}
	fc := &lctx{p: c.p, pkg: f.pkg, file: f.file}
	k := 0
	for _, fl := range f.decl.Type.Results.List {
		n := len(fl.Names)
		if n == 0 {
			n = 1
		}
		for j := 0; j < n; j++ {
			if k == i {
				return fc.typeStr(fl.Type)
			}
			k++
		}
	}
	return ""
}

func (c *lctx) isImportName(id *ast.Ident) (string, bool) {
	if id.Obj != nil {
		return "", false
	}
	base, ok := c.pkg.imports[c.file][id.Name]
	return base, ok
}

func (c *lctx) typeOfIdent(id *ast.Ident) string {
	o := id.Obj
	if o == nil || o.Kind != ast.Var {
		return ""
	}
	if t, ok := c.p.objType[o]; ok {
		return t
	}
	if c.p.objBusy[o] {
		return ""
	}
	c.p.objBusy[o] = true
	t := c.declType(o)
	delete(c.p.objBusy, o)
	c.p.objType[o] = t
	return t
}

func (c *lctx) multiValue(rhs ast.Expr, i int) string {
	switch r := rhs.(type) {
	case *ast.CallExpr:
		if f := c.resolveCall(r); f != nil {
			return c.resultType(f, i)
		}
	case *ast.IndexExpr:
		if i == 0 {
			return c.typeOf(r)
		}
		return "bool"
	case *ast.TypeAssertExpr:
		if i == 0 {
			return c.typeOf(r)
		}
		return "bool"
	case *ast.UnaryExpr:
		if r.Op == token.RANGE { // `for k, v := range x`: the parser records the declaration as k, v := range x
			if i == 0 {
				return c.p.keyType(c.typeOf(r.X))
			}
			return c.p.elemType(c.typeOf(r.X))
		}
		if i == 0 {
			return c.typeOf(r)
		}
		return "bool"
	}
	return ""
}

func (c *lctx) declType(o *ast.Object) string {
	switch d := o.Decl.(type) {
	case *ast.Field:
		t := c.typeStr(d.Type)
		return t
	case *ast.ValueSpec:
		if d.Type != nil {
			return c.typeStr(d.Type)
		}
		for i, n := range d.Names {
			if n.Obj == o {
				if len(d.Values) == len(d.Names) {
					return c.typeOf(d.Values[i])
				}
				if len(d.Values) == 1 {
					return c.multiValue(d.Values[0], i)
				}
			}
		}
	case *ast.AssignStmt:
		for i, l := range d.Lhs {
			if id, ok := l.(*ast.Ident); ok && id.Obj == o {
				if len(d.Rhs) == len(d.Lhs) {
					return c.typeOf(d.Rhs[i])
				}
				if len(d.Rhs) == 1 {
					return c.multiValue(d.Rhs[0], i)
				}
			}
		}
	case *ast.RangeStmt:
		xt := c.typeOf(d.X)
		if id, ok := d.Key.(*ast.Ident); ok && id.Obj == o {
			return c.p.keyType(xt)
		}
		if id, ok := d.Value.(*ast.Ident); ok && id.Obj == o {
			return c.p.elemType(xt)
		}
	}
	return ""
}

func (c *lctx) typeOf(e ast.Expr) string {
	switch x := e.(type) {
	case *ast.Ident:
		return c.typeOfIdent(x)
	case *ast.ParenExpr:
		return c.typeOf(x.X)
	case *ast.StarExpr:
		return strings.TrimPrefix(c.typeOf(x.X), "*")
	case *ast.UnaryExpr:
		switch x.Op {
		case token.AND:
			if t := c.typeOf(x.X); t != "" {
				return "*" + t
			}
			return ""
		case token.ARROW:
			return c.p.elemType(c.typeOf(x.X))
		case token.RANGE:
			return c.p.keyType(c.typeOf(x.X))
		}
		return c.typeOf(x.X)
	case *ast.SelectorExpr:
		if id, ok := x.X.(*ast.Ident); ok {
			if _, isPkg := c.isImportName(id); isPkg {
				return ""
			}
		}
		t := c.typeOf(x.X)
		if t == "" {
			return ""
		}
		if ft, ok := c.p.fieldType(t, x.Sel.Name, 0); ok {
			return ft
		}
		return ""
	case *ast.CallExpr:
		if id, ok := x.Fun.(*ast.Ident); ok && id.Obj == nil {
			switch id.Name {
			case "make":
				if len(x.Args) > 0 {
					return c.typeStr(x.Args[0])
				}
			case "new":
				if len(x.Args) > 0 {
					return "*" + c.typeStr(x.Args[0])
				}
			case "append":
				if len(x.Args) > 0 {
					return c.typeOf(x.Args[0])
				}
			}
		}
		if f := c.resolveCall(x); f != nil {
			return c.resultType(f, 0)
		}
		// conversion T(x)
		switch x.Fun.(type) {
		case *ast.ArrayType, *ast.MapType, *ast.StarExpr:
			return c.typeStr(x.Fun)
		}
		return ""
	case *ast.IndexExpr:
		return c.p.elemType(c.typeOf(x.X))
	case *ast.SliceExpr:
		return c.typeOf(x.X)
	case *ast.CompositeLit:
		if x.Type != nil {
			return c.typeStr(x.Type)
		}
	case *ast.TypeAssertExpr:
		if x.Type != nil {
			return c.typeStr(x.Type)
		}
	case *ast.FuncLit:
		return "func"
	}
	return ""
}

// resolveCall returns the statically known callee (a function or a method of a concrete named type) of a call.
func (c *lctx) resolveCall(call *ast.CallExpr) *lfunc {
	switch f := call.Fun.(type) {
	case *ast.Ident:
		if f.Obj != nil && f.Obj.Kind != ast.Fun {
			return nil
		}
		return c.pkg.funcs[f.Name]
	case *ast.SelectorExpr:
		if id, ok := f.X.(*ast.Ident); ok {
			if base, isPkg := c.isImportName(id); isPkg {
				if lp := c.p.pkgs[base]; lp != nil {
					return lp.funcs[f.Sel.Name]
				}
				return nil
			}
		}
		t := c.typeOf(f.X)
		if t == "" {
			return nil
		}
		return c.p.findMethod(t, f.Sel.Name, 0)
	}
	return nil
}

func displayType(t string) string {
	t = deref(t)
	return strings.TrimPrefix(t, "torrent.")
}

func isSyncMutex(t string) bool {
	t = deref(t)
	return t == "sync.Mutex" || t == "sync.RWMutex"
}

func rootIdent(e ast.Expr) *ast.Ident {
	for {
		switch x := e.(type) {
		case *ast.Ident:
			return x
		case *ast.SelectorExpr:
			e = x.X
		case *ast.ParenExpr:
			e = x.X
		case *ast.StarExpr:
			e = x.X
		case *ast.IndexExpr:
			e = x.X
		case *ast.CallExpr:
			e = x.Fun
		default:
			return nil
		}
	}
}

// lockName names the mutex denoted by expression x (the receiver of Lock/RLock/Unlock/RUnlock) by owner type and field.
func (c *lctx) lockName(x ast.Expr) string {
	t := c.typeOf(x)
	switch {
	case isSyncMutex(t) || t == "":
		switch s := x.(type) {
		case *ast.SelectorExpr:
			if ot := c.typeOf(s.X); ot != "" {
				if _, _, ok := splitNamed(ot); ok {
					return displayType(ot) + "." + s.Sel.Name
				}
			}
			// fallback: a mutex field name declared in exactly one struct of the parsed packages
			var owners []string
			for _, lp := range c.p.pkgs {
				for sn, st := range lp.structs {
					fc := &lctx{p: c.p, pkg: lp, file: lp.tfile[sn]}
					for _, fl := range st.Fields.List {
						for _, n := range fl.Names {
							if n.Name == s.Sel.Name && isSyncMutex(fc.typeStr(fl.Type)) {
								owners = append(owners, displayType(lp.name+"."+sn))
							}
						}
					}
				}
			}
			if len(owners) == 1 {
				return owners[0] + "." + s.Sel.Name
			}
			c.p.unresolved[posStr(x.Pos())+" "+s.Sel.Name] = true
			return "?." + s.Sel.Name
		case *ast.Ident:
			if t == "" {
				c.p.unresolved[posStr(x.Pos())+" "+s.Name] = true
				return "?." + s.Name
			}
			if s.Obj != nil && c.fn != nil {
				return "local:" + c.fn.name + "." + s.Name
			}
			return c.pkg.name + "." + s.Name
		}
		c.p.unresolved[posStr(x.Pos())] = true
		return "?"
	default:
		// a struct embedding a sync mutex (`i.Lock()` with `type item struct{ sync.Mutex … }`) or a custom locker
		if _, ok := c.p.fieldType(t, "Mutex", 0); ok {
			return displayType(t) + ".Mutex"
		}
		if _, ok := c.p.fieldType(t, "RWMutex", 0); ok {
			return displayType(t) + ".RWMutex"
		}
		return displayType(t)
	}
}

// ---------------------------------------------------------------------------------------------
// the walk
// ---------------------------------------------------------------------------------------------

type lstate struct{ locks []heldLock }

func (s *lstate) copy() *lstate { return &lstate{locks: append([]heldLock(nil), s.locks...)} }
func (s *lstate) has(name string) bool {
	for _, l := range s.locks {
		if l.name == name {
			return true
		}
	}
	return false
}
func (s *lstate) add(l heldLock) {
	if !s.has(l.name) {
		s.locks = append(s.locks, l)
	}
}
func (s *lstate) remove(name string) {
	out := s.locks[:0:0]
	for _, l := range s.locks {
		if l.name != name {
			out = append(out, l)
		}
	}
	s.locks = out
}
func (s *lstate) union(o *lstate) {
	for _, l := range o.locks {
		s.add(l)
	}
}
func (s *lstate) snapshot() []heldLock { return append([]heldLock(nil), s.locks...) }

type walker struct {
	c      *lctx
	fn     *lfunc
	asyncN int
	joins  bool // the function waits for the goroutines it starts (sync.WaitGroup.Wait): their bodies run while its locks are held
}

// loopLock is the pseudo-lock of a torrent's event loop: the loop goroutine holds it while it handles an event
// (`torrent.run` is walked with it held) and a function that waits for the loop to take a command or to exit
// (`sendCommand`, `recvResponse`, `<-t.doneC`) acquires it for an instant.
const loopLock = "torrent.loop"

func (w *walker) touch(st *lstate, name string, pos token.Pos) {
	w.fn.acqs = append(w.fn.acqs, acqSite{lock: name, pos: pos, excl: true, held: st.snapshot()})
}

func (w *walker) scanJoins(body *ast.BlockStmt) {
	ast.Inspect(body, func(n ast.Node) bool {
		if call, ok := n.(*ast.CallExpr); ok {
			if se, ok := call.Fun.(*ast.SelectorExpr); ok && se.Sel.Name == "Wait" && len(call.Args) == 0 && deref(w.c.typeOf(se.X)) == "sync.WaitGroup" {
				w.joins = true
			}
		}
		return !w.joins
	})
}

func (w *walker) acquire(st *lstate, name string, pos token.Pos, excl, loopDep bool) {
	w.fn.acqs = append(w.fn.acqs, acqSite{lock: name, pos: pos, excl: excl, loopDep: loopDep, held: st.snapshot()})
	st.add(heldLock{name: name, pos: pos, excl: excl, loopDep: loopDep})
}

// async analyses a function literal that runs on another goroutine (go statement, time.AfterFunc) as a function of its own.
func (w *walker) async(lit *ast.FuncLit, kind string) {
	w.asyncN++
	nf := &lfunc{pkg: w.fn.pkg, file: w.fn.file, body: lit.Body, name: fmt.Sprintf("%s$%s%d", w.fn.name, kind, w.asyncN), parent: w.fn}
	w.c.p.funcs = append(w.c.p.funcs, nf)
	nw := &walker{c: &lctx{p: w.c.p, pkg: w.c.pkg, file: w.c.file, fn: nf}, fn: nf}
	nw.block(lit.Body.List, &lstate{})
}

func (w *walker) isLoopDep(x ast.Expr) bool {
	id := rootIdent(x)
	if id == nil || id.Obj == nil {
		return false
	}
	switch d := id.Obj.Decl.(type) {
	case *ast.RangeStmt:
		return true
	case *ast.AssignStmt: // go/parser records `for k, v := range x` as an assignment from a RANGE expression
		if len(d.Rhs) == 1 {
			if u, ok := d.Rhs[0].(*ast.UnaryExpr); ok && u.Op == token.RANGE {
				return true
			}
		}
	}
	return false
}

func isBoltTx(c *lctx, call *ast.CallExpr) (string, bool) {
	se, ok := call.Fun.(*ast.SelectorExpr)
	if !ok {
		return "", false
	}
	var name string
	switch se.Sel.Name {
	case "Update", "Batch":
		name = "bbolt.rw"
	case "View":
		name = "bbolt.ro"
	default:
		return "", false
	}
	if deref(c.typeOf(se.X)) == "bbolt.DB" {
		return name, true
	}
	for _, a := range call.Args {
		if fl, ok := a.(*ast.FuncLit); ok && fl.Type.Params != nil {
			for _, p := range fl.Type.Params.List {
				if c.typeStr(p.Type) == "*bbolt.Tx" {
					return name, true
				}
			}
		}
	}
	return "", false
}

func (w *walker) call(x *ast.CallExpr, st *lstate) {
	// receiver / function expression and plain arguments first
	var lits []*ast.FuncLit
	switch f := x.Fun.(type) {
	case *ast.SelectorExpr:
		w.expr(f.X, st)
	case *ast.FuncLit:
		lits = append(lits, f)
	case *ast.Ident:
	default:
		w.expr(x.Fun, st)
	}
	for i, a := range x.Args {
		if fl, ok := a.(*ast.FuncLit); ok {
			lits = append(lits, fl)
			continue
		}
		if id, ok := x.Fun.(*ast.Ident); ok && id.Name == "delete" && id.Obj == nil && i == 0 {
			w.lhs(a, st) // delete(m, k) writes m
			continue
		}
		w.expr(a, st)
	}
	if se, ok := x.Fun.(*ast.SelectorExpr); ok && len(x.Args) == 0 {
		switch se.Sel.Name {
		case "Lock", "RLock":
			w.acquire(st, w.c.lockName(se.X), x.Pos(), se.Sel.Name == "Lock", w.isLoopDep(se.X))
			return
		case "Unlock", "RUnlock":
			st.remove(w.c.lockName(se.X))
			return
		}
	}
	if name, ok := isBoltTx(w.c, x); ok {
		inner := st.copy()
		w.acquire(inner, name, x.Pos(), name == "bbolt.rw", false)
		for _, fl := range lits {
			w.block(fl.Body.List, inner.copy())
		}
		return
	}
	if se, ok := x.Fun.(*ast.SelectorExpr); ok && se.Sel.Name == "AfterFunc" {
		if id, ok := se.X.(*ast.Ident); ok && id.Name == "time" {
			for _, fl := range lits {
				w.async(fl, "timer")
			}
			return
		}
	}
	if id, ok := x.Fun.(*ast.Ident); ok && (id.Name == "sendCommand" || id.Name == "recvResponse") && w.c.pkg.name == "torrent" {
		w.touch(st, loopLock, x.Pos())
	}
	if f := w.c.resolveCall(x); f != nil {
		w.fn.calls = append(w.fn.calls, callSite{callee: f, pos: x.Pos(), held: st.snapshot()})
	}
	// function literals passed as arguments (or invoked on the spot) are taken to run during the call
	for _, fl := range lits {
		w.block(fl.Body.List, st.copy())
	}
}

func (w *walker) expr(e ast.Expr, st *lstate) {
	if e == nil {
		return
	}
	ast.Inspect(e, func(n ast.Node) bool {
		switch x := n.(type) {
		case *ast.CallExpr:
			w.call(x, st)
			return false
		case *ast.FuncLit:
			w.block(x.Body.List, st.copy())
			return false
		case *ast.SelectorExpr:
			w.sessionFieldAccess(x, st, false)
			// a method value (not in call position) may be called from anywhere later
			if t := w.c.typeOf(x.X); t != "" {
				if _, isField := w.c.p.fieldType(t, x.Sel.Name, 0); !isField {
					if m := w.c.p.findMethod(t, x.Sel.Name, 0); m != nil {
						w.c.p.methodVals[m] = true
					}
				}
			}
		case *ast.UnaryExpr:
			if se, ok := x.X.(*ast.SelectorExpr); ok && x.Op == token.ARROW && se.Sel.Name == "doneC" && deref(w.c.typeOf(se.X)) == "torrent.torrent" {
				w.touch(st, loopLock, x.Pos())
			}
		}
		return true
	})
}

func isTerminatingCall(e ast.Expr) bool {
	call, ok := e.(*ast.CallExpr)
	if !ok {
		return false
	}
	switch f := call.Fun.(type) {
	case *ast.Ident:
		return f.Name == "panic"
	case *ast.SelectorExpr:
		if id, ok := f.X.(*ast.Ident); ok {
			return (id.Name == "os" && f.Sel.Name == "Exit") || (id.Name == "log" && strings.HasPrefix(f.Sel.Name, "Fatal"))
		}
	}
	return false
}

// block walks statements in order; returns true if control cannot fall off the end.
func (w *walker) block(list []ast.Stmt, st *lstate) bool {
	for _, s := range list {
		if w.stmt(s, st) {
			return true
		}
	}
	return false
}

func (w *walker) loop(body *ast.BlockStmt, st *lstate) {
	pre := st.copy()
	b1 := st.copy()
	w.block(body.List, b1)
	var carried bool
	for i := range b1.locks {
		if !pre.has(b1.locks[i].name) {
			b1.locks[i].carried = true
			carried = true
		}
	}
	if carried {
		// second iteration: the locks taken and not released by the first are still held
		w.block(body.List, b1.copy())
	}
	// after the loop: union of "zero iterations" and "some iterations"; a carried lock released in the body is released
	for _, l := range pre.locks {
		if !b1.has(l.name) && l.carried {
			st.remove(l.name)
		}
	}
	st.union(b1)
	for i := range st.locks {
		if !pre.has(st.locks[i].name) {
			st.locks[i].carried = true
		}
	}
}

func (w *walker) stmt(s ast.Stmt, st *lstate) bool {
	switch x := s.(type) {
	case nil:
		return false
	case *ast.ExprStmt:
		w.expr(x.X, st)
		return isTerminatingCall(x.X)
	case *ast.DeferStmt:
		if se, ok := x.Call.Fun.(*ast.SelectorExpr); ok && (se.Sel.Name == "Unlock" || se.Sel.Name == "RUnlock") && len(x.Call.Args) == 0 {
			return false // held until the function returns
		}
		// a deferred call runs while the locks released by earlier defers are still held: the current set
		w.call(x.Call, st.copy())
	case *ast.GoStmt:
		for _, a := range x.Call.Args {
			if _, ok := a.(*ast.FuncLit); !ok {
				w.expr(a, st)
			}
		}
		if fl, ok := x.Call.Fun.(*ast.FuncLit); ok {
			w.async(fl, "go")
			if w.joins {
				w.block(fl.Body.List, st.copy())
			}
		} else if f := w.c.resolveCall(x.Call); f != nil {
			w.c.p.goStarted[f] = true
			w.fn.goCalls = append(w.fn.goCalls, f)
			if w.joins {
				w.fn.calls = append(w.fn.calls, callSite{callee: f, pos: x.Call.Pos(), held: st.snapshot()})
			}
		}
	case *ast.AssignStmt:
		for _, r := range x.Rhs {
			w.expr(r, st)
		}
		for _, l := range x.Lhs {
			w.lhs(l, st)
		}
	case *ast.IncDecStmt:
		w.lhs(x.X, st)
	case *ast.SendStmt:
		w.expr(x.Chan, st)
		w.expr(x.Value, st)
	case *ast.ReturnStmt:
		for _, r := range x.Results {
			w.expr(r, st)
		}
		return true
	case *ast.BranchStmt:
		return true
	case *ast.BlockStmt:
		return w.block(x.List, st)
	case *ast.LabeledStmt:
		return w.stmt(x.Stmt, st)
	case *ast.DeclStmt:
		if gd, ok := x.Decl.(*ast.GenDecl); ok {
			for _, sp := range gd.Specs {
				if vs, ok := sp.(*ast.ValueSpec); ok {
					for _, v := range vs.Values {
						w.expr(v, st)
					}
				}
			}
		}
	case *ast.IfStmt:
		w.stmt(x.Init, st)
		w.expr(x.Cond, st)
		a := st.copy()
		ta := w.block(x.Body.List, a)
		b := st.copy()
		tb := false
		if x.Else != nil {
			tb = w.stmt(x.Else, b)
		}
		switch {
		case ta && tb:
			return true
		case ta:
			*st = *b
		case tb:
			*st = *a
		default:
			a.union(b)
			*st = *a
		}
	case *ast.ForStmt:
		w.stmt(x.Init, st)
		w.expr(x.Cond, st)
		w.loop(x.Body, st)
		w.stmt(x.Post, st.copy())
	case *ast.RangeStmt:
		w.expr(x.X, st)
		w.loop(x.Body, st)
	case *ast.SwitchStmt:
		w.stmt(x.Init, st)
		w.expr(x.Tag, st)
		return w.clauses(x.Body, st)
	case *ast.TypeSwitchStmt:
		w.stmt(x.Init, st)
		w.stmt(x.Assign, st)
		return w.clauses(x.Body, st)
	case *ast.SelectStmt:
		return w.clauses(x.Body, st)
	}
	return false
}

func (w *walker) clauses(body *ast.BlockStmt, st *lstate) bool {
	pre := st.copy()
	out := &lstate{}
	hasDefault := false
	allTerm := true
	for _, cl := range body.List {
		b := pre.copy()
		var stmts []ast.Stmt
		switch c := cl.(type) {
		case *ast.CaseClause:
			if c.List == nil {
				hasDefault = true
			}
			for _, e := range c.List {
				w.expr(e, b)
			}
			stmts = c.Body
		case *ast.CommClause:
			if c.Comm == nil {
				hasDefault = true
			} else {
				w.stmt(c.Comm, b)
			}
			stmts = c.Body
		}
		// `break` inside a clause leaves the switch, not the function
		term := w.block(stmts, b)
		if term && len(stmts) > 0 {
			if br, ok := stmts[len(stmts)-1].(*ast.BranchStmt); ok && br.Tok == token.BREAK && br.Label == nil {
				term = false
			}
		}
		if !term {
			allTerm = false
			out.union(b)
		}
	}
	if !hasDefault {
		// a switch without default may fall through untouched; a select without default always runs one clause:
		// the union is conservative for both
		out.union(pre)
		allTerm = false
	}
	*st = *out
	return allTerm && hasDefault
}

// lhs walks an assignment target: sub-expressions are evaluated, the target itself is written.
func (w *walker) lhs(e ast.Expr, st *lstate) {
	switch x := e.(type) {
	case *ast.SelectorExpr:
		w.expr(x.X, st)
		w.sessionFieldAccess(x, st, true)
	case *ast.IndexExpr:
		// m[k] = v writes the map
		w.expr(x.Index, st)
		w.lhs(x.X, st)
	case *ast.StarExpr:
		w.lhs(x.X, st)
	case *ast.ParenExpr:
		w.lhs(x.X, st)
	default:
		w.expr(e, st)
	}
}

// ---------------------------------------------------------------------------------------------
// edges
// ---------------------------------------------------------------------------------------------

type lockEdge struct {
	Fn      string   `json:"fn"`
	Held    string   `json:"held"`
	Acq     string   `json:"acquired"`
	Via     string   `json:"via"` // "" = lexically nested; otherwise the callee through which the lock is taken
	Pos     string   `json:"pos"`
	HeldPos string   `json:"held_pos"`
	Chain   []string `json:"chain,omitempty"`
}

type loopEdge struct {
	Fn   string `json:"fn"`
	Lock string `json:"lock"`
	Gate string `json:"gate"` // an exclusive lock held around the whole acquisition sequence ("" = none)
	Pos  string `json:"pos"`
}

type lockCycle struct {
	Locks []string `json:"locks"`
	Edges []string `json:"edges"`
}

type lockFacts struct {
	locks      []string
	fnNames    []string
	edges      []lockEdge
	loopEdges  []loopEdge
	cycles     []lockCycle
	unresolved []string
	nfuncs     int
	funcs      []*lfunc
	ncalls     int
	nacq       int
}

func analyseLocks(p *lockProg) *lockFacts {
	p.guards, _ = sessionGuards(p)
	base := append([]*lfunc(nil), p.funcs...)
	for _, f := range base {
		w := &walker{c: &lctx{p: p, pkg: f.pkg, file: f.file, fn: f}, fn: f}
		w.scanJoins(f.body)
		st := &lstate{}
		if f.name == "torrent.run" {
			st.add(heldLock{name: loopLock, pos: f.body.Pos(), excl: true})
		}
		w.block(f.body.List, st)
	}
	sort.SliceStable(p.funcs, func(i, j int) bool { return p.funcs[i].name < p.funcs[j].name })
	lf := &lockFacts{nfuncs: len(p.funcs), funcs: p.funcs}
	// transitive acquisitions
	for _, f := range p.funcs {
		f.acqT = map[string][]string{}
		for _, a := range f.acqs {
			if _, ok := f.acqT[a.lock]; !ok {
				f.acqT[a.lock] = []string{f.name, posStr(a.pos)}
			}
		}
		lf.nacq += len(f.acqs)
		lf.ncalls += len(f.calls)
	}
	for changed := true; changed; {
		changed = false
		for _, f := range p.funcs {
			for _, cs := range f.calls {
				var ls []string
				for l := range cs.callee.acqT {
					ls = append(ls, l)
				}
				sort.Strings(ls)
				for _, l := range ls {
					if _, ok := f.acqT[l]; !ok {
						f.acqT[l] = append([]string{f.name}, cs.callee.acqT[l]...)
						changed = true
					}
				}
			}
		}
	}
	seen := map[string]bool{}
	addEdge := func(e lockEdge) {
		k := e.Fn + "|" + e.Held + "|" + e.Acq + "|" + e.Via
		if seen[k] {
			return
		}
		seen[k] = true
		lf.edges = append(lf.edges, e)
	}
	seenLoop := map[string]bool{}
	for _, f := range p.funcs {
		for _, a := range f.acqs {
			for _, h := range a.held {
				if h.name == a.lock && h.carried && h.loopDep && a.loopDep {
					// the same lock *name* re-acquired for the next element of the collection ranged over:
					// distinct instances, reported apart with the exclusive gate that serialises the sequence
					gate := ""
					for _, g := range a.held {
						if g.excl && g.name != a.lock && !g.carried {
							gate = g.name
						}
					}
					k := f.name + "|" + a.lock
					if !seenLoop[k] {
						seenLoop[k] = true
						lf.loopEdges = append(lf.loopEdges, loopEdge{Fn: f.name, Lock: a.lock, Gate: gate, Pos: posStr(a.pos)})
					}
					continue
				}
				addEdge(lockEdge{Fn: f.name, Held: h.name, Acq: a.lock, Pos: posStr(a.pos), HeldPos: posStr(h.pos)})
			}
		}
		for _, cs := range f.calls {
			if len(cs.held) == 0 {
				continue
			}
			var ls []string
			for l := range cs.callee.acqT {
				ls = append(ls, l)
			}
			sort.Strings(ls)
			for _, h := range cs.held {
				for _, l := range ls {
					addEdge(lockEdge{Fn: f.name, Held: h.name, Acq: l, Via: cs.callee.name, Pos: posStr(cs.pos), HeldPos: posStr(h.pos), Chain: cs.callee.acqT[l]})
				}
			}
		}
	}
	// bbolt itself: a write transaction that has to grow the file remaps it and takes the mmap lock exclusively,
	// which every open read transaction holds shared — so a write transaction started inside a View can deadlock.
	hasBolt := false
	for _, f := range p.funcs {
		if _, ok := f.acqT["bbolt.rw"]; ok {
			hasBolt = true
		}
	}
	if hasBolt {
		addEdge(lockEdge{Fn: "bbolt(intrinsic)", Held: "bbolt.rw", Acq: "bbolt.ro", Pos: "bbolt/db.go", HeldPos: "bbolt/db.go"})
	}
	sort.SliceStable(lf.edges, func(i, j int) bool {
		a, b := lf.edges[i], lf.edges[j]
		if a.Held != b.Held {
			return a.Held < b.Held
		}
		if a.Acq != b.Acq {
			return a.Acq < b.Acq
		}
		if a.Fn != b.Fn {
			return a.Fn < b.Fn
		}
		return a.Via < b.Via
	})
	// names
	lockSet := map[string]bool{}
	fnSet := map[string]bool{}
	for _, f := range p.funcs {
		for _, a := range f.acqs {
			lockSet[a.lock] = true
		}
	}
	for _, e := range lf.edges {
		lockSet[e.Held], lockSet[e.Acq] = true, true
		fnSet[e.Fn] = true
		if e.Via != "" {
			fnSet[e.Via] = true
		}
	}
	for _, e := range lf.loopEdges {
		fnSet[e.Fn] = true
	}
	for l := range lockSet {
		lf.locks = append(lf.locks, l)
	}
	sort.Strings(lf.locks)
	for f := range fnSet {
		lf.fnNames = append(lf.fnNames, f)
	}
	sort.Strings(lf.fnNames)
	for u := range p.unresolved {
		lf.unresolved = append(lf.unresolved, u)
	}
	sort.Strings(lf.unresolved)
	lf.cycles = findCycles(lf.edges)
	return lf
}

// findCycles lists, for every edge that lies on a cycle of the lock graph, one shortest cycle through it (deduplicated).
func findCycles(edges []lockEdge) []lockCycle {
	succ := map[string][]string{}
	has := map[string]bool{}
	for _, e := range edges {
		if !has[e.Held+"|"+e.Acq] {
			has[e.Held+"|"+e.Acq] = true
			succ[e.Held] = append(succ[e.Held], e.Acq)
		}
	}
	path := func(from, to string) []string { // shortest path from → … → to (at least the node itself when equal)
		prev := map[string]string{from: ""}
		q := []string{from}
		for len(q) > 0 {
			n := q[0]
			q = q[1:]
			if n == to {
				var out []string
				for x := n; x != ""; x = prev[x] {
					out = append([]string{x}, out...)
					if x == from {
						break
					}
				}
				return out
			}
			for _, m := range succ[n] {
				if _, ok := prev[m]; !ok {
					prev[m] = n
					q = append(q, m)
				}
			}
		}
		return nil
	}
	var out []lockCycle
	seen := map[string]bool{}
	for _, e := range edges {
		var cyc []string
		if e.Held == e.Acq {
			cyc = []string{e.Held}
		} else if p := path(e.Acq, e.Held); p != nil {
			cyc = append([]string{e.Held}, p[:len(p)-1]...)
		} else {
			continue
		}
		// canonical rotation
		mi := 0
		for i := range cyc {
			if cyc[i] < cyc[mi] {
				mi = i
			}
		}
		cyc = append(append([]string{}, cyc[mi:]...), cyc[:mi]...)
		key := strings.Join(cyc, ">")
		if seen[key] {
			continue
		}
		seen[key] = true
		c := lockCycle{Locks: cyc}
		for i := range cyc {
			a, b := cyc[i], cyc[(i+1)%len(cyc)]
			for _, e2 := range edges {
				if e2.Held == a && e2.Acq == b {
					s := fmt.Sprintf("%s -> %s in %s at %s (held since %s)", a, b, e2.Fn, e2.Pos, e2.HeldPos)
					if e2.Via != "" {
						s += " through " + strings.Join(e2.Chain, " > ")
					}
					c.Edges = append(c.Edges, s)
				}
			}
		}
		out = append(out, c)
	}
	return out
}

// ---------------------------------------------------------------------------------------------
// output
// ---------------------------------------------------------------------------------------------

func indexOf(xs []string, x string) int {
	for i, y := range xs {
		if y == x {
			return i
		}
	}
	return -1
}

func (lf *lockFacts) addFacts(facts map[string]interface{}) {
	if lf.loopEdges == nil {
		lf.loopEdges = []loopEdge{}
	}
	if lf.cycles == nil {
		lf.cycles = []lockCycle{}
	}
	if lf.unresolved == nil {
		lf.unresolved = []string{}
	}
	acq := map[string][]string{}
	for _, f := range lf.funcs {
		if len(f.acqT) == 0 {
			continue
		}
		var ls []string
		for l := range f.acqT {
			ls = append(ls, l)
		}
		sort.Strings(ls)
		acq[f.name] = ls
	}
	facts["lock_may_acquire"] = acq
	facts["locks"] = lf.locks
	facts["lock_edges"] = lf.edges
	facts["lock_loop_carried"] = lf.loopEdges
	facts["lock_cycles"] = lf.cycles
	facts["lock_unresolved"] = lf.unresolved
	facts["lock_functions_walked"] = lf.nfuncs
	facts["lock_acquisition_sites"] = lf.nacq
	facts["lock_resolved_call_sites"] = lf.ncalls
}

func (lf *lockFacts) lean(sb *strings.Builder) {
	sb.WriteString("\n/-- Lock names (index = id): mutexes by owner type and field; `bbolt.rw` / `bbolt.ro` stand for a bbolt write / read transaction. -/\ndef lockNames : List String := [\n")
	for _, l := range lf.locks {
		fmt.Fprintf(sb, "  %q,\n", l)
	}
	sb.WriteString("]\n\n/-- Functions that appear in a lock edge (index = id). -/\ndef lockFnNames : List String := [\n")
	for _, f := range lf.fnNames {
		fmt.Fprintf(sb, "  %q,\n", f)
	}
	sb.WriteString("]\n\n/-- ⟨function, held, acquired, via⟩: `function` acquires lock `acquired` while it holds `held`; via = 0: the\nacquisition is lexically inside the critical section, via = k+1: it happens (transitively) inside the callee `lockFnNames[k]`\ncalled from the critical section. -/\ndef lockEdges : List LockEdge := [\n")
	for _, e := range lf.edges {
		via := 0
		if e.Via != "" {
			via = indexOf(lf.fnNames, e.Via) + 1
		}
		fmt.Fprintf(sb, "  ⟨%d, %d, %d, %d⟩,  -- %s: %s → %s", indexOf(lf.fnNames, e.Fn), indexOf(lf.locks, e.Held), indexOf(lf.locks, e.Acq), via, e.Fn, e.Held, e.Acq)
		if e.Via != "" {
			fmt.Fprintf(sb, " (via %s)", e.Via)
		}
		sb.WriteString("\n")
	}
	sb.WriteString("]\n\n/-- ⟨function, lock, gate⟩: inside a loop over a collection `function` acquires the lock `lock` of the next element while it\nstill holds the one of the previous element (same lock name, distinct instances); gate = 0: no exclusive lock is held around\nthe sequence, gate = k+1: the exclusive lock `lockNames[k]` is. -/\ndef loopCarried : List LoopLock := [\n")
	for _, e := range lf.loopEdges {
		g := 0
		if e.Gate != "" {
			g = indexOf(lf.locks, e.Gate) + 1
		}
		fmt.Fprintf(sb, "  ⟨%d, %d, %d⟩,  -- %s: %s under %q\n", indexOf(lf.fnNames, e.Fn), indexOf(lf.locks, e.Lock), g, e.Fn, e.Lock, e.Gate)
	}
	sb.WriteString("]\n")
}
