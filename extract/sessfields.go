package main

import (
	"go/ast"
	"go/token"
)

type sfAccess struct {
	field string
	write bool
	pos   token.Pos
	held  []heldLock
}

func (w *walker) sessionFieldAccess(se *ast.SelectorExpr, st *lstate, write bool) {}
