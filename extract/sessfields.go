// Lock-guarded fields of Session (C20): every read/write of a field that the struct layout places under a mutex
// (`mTorrents` guards torrents, torrentsByInfoHash, invalidTorrentIDs, pendingIDs; `mPorts` guards availablePorts; …)
// with the locks held there — lexically, or by every caller of the function (helpers called with the lock held).
package main

import (
	"fmt"
	"go/ast"
	"go/token"
	"sort"
	"strings"
)

type sfAccess struct {
	field string
	write bool
	pos   token.Pos
	held  []heldLock
}

// sessionGuards reads the guard relation off the struct layout: a field `mX sync.(RW)Mutex` guards the fields that
// follow it without a blank line.
func sessionGuards(p *lockProg) (guards map[string]string, order []string) {
	guards = map[string]string{}
	lp := p.pkgs["torrent"]
	if lp == nil {
		return
	}
	st := lp.structs["Session"]
	if st == nil {
		return
	}
	c := &lctx{p: p, pkg: lp, file: lp.tfile["Session"]}
	cur, lastLine := "", 0
	for _, fl := range st.Fields.List {
		start := fset.Position(fl.Pos()).Line
		if fl.Doc != nil {
			start = fset.Position(fl.Doc.Pos()).Line
		}
		if cur != "" && start > lastLine+1 {
			cur = ""
		}
		lastLine = fset.Position(fl.End()).Line
		if isSyncMutex(c.typeStr(fl.Type)) && len(fl.Names) == 1 {
			cur = fl.Names[0].Name
			continue
		}
		if cur != "" {
			for _, n := range fl.Names {
				guards[n.Name] = cur
				order = append(order, n.Name)
			}
		}
	}
	return
}

func (w *walker) sessionFieldAccess(se *ast.SelectorExpr, st *lstate, write bool) {
	if w.c.p.guards == nil {
		return
	}
	if _, ok := w.c.p.guards[se.Sel.Name]; !ok {
		return
	}
	if deref(w.c.typeOf(se.X)) != "torrent.Session" {
		return
	}
	if write {
		// the read recorded for the same expression by the generic walk is superseded
		for i := range w.fn.sfAcc {
			if w.fn.sfAcc[i].pos == se.Pos() {
				w.fn.sfAcc[i].write = true
				return
			}
		}
	}
	w.fn.sfAcc = append(w.fn.sfAcc, sfAccess{field: se.Sel.Name, write: write, pos: se.Pos(), held: st.snapshot()})
}

type sessRow struct {
	Fn     string `json:"fn"`
	Field  string `json:"field"`
	Write  bool   `json:"write"`
	Guard  string `json:"guard"`
	Mode   int    `json:"mode"` // 0 guard not held, 1 held shared (RLock), 2 held exclusive (Lock)
	Ctor   bool   `json:"construction"`
	Entry  bool   `json:"held_by_all_callers"` // the guard comes from the callers, not from the function itself
	Pos    string `json:"pos"`
	Reach  string `json:"reachable_after_startup,omitempty"`
	fnFull *lfunc
}

type sessFacts struct {
	guards         map[string]string
	fields         []string
	rows           []sessRow
	violations     []string
	violationSites []string
}

// analyseSessionFields must run after analyseLocks (it uses the walk results).
func analyseSessionFields(p *lockProg) *sessFacts {
	sf := &sessFacts{guards: p.guards}
	_, sf.fields = sessionGuards(p)
	// call graph of package torrent (resolved static calls, `go` calls included)
	callers := map[*lfunc][]callSite{} // callee -> call sites (held = locks at the site, callee field reused for the caller)
	for _, f := range p.funcs {
		for _, cs := range f.calls {
			callers[cs.callee] = append(callers[cs.callee], callSite{callee: f, pos: cs.pos, held: cs.held})
		}
		for _, g := range f.goCalls {
			callers[g] = append(callers[g], callSite{callee: f, held: nil})
		}
	}
	parentOf := func(f *lfunc) *lfunc { return f.parent }
	isRoot := func(f *lfunc) bool {
		if f.decl == nil {
			return false // closure run on another goroutine: context of its parent decides construction, holds nothing on entry
		}
		return ast.IsExported(f.decl.Name.Name) && f.name != "NewSession" || p.goStarted[f] || p.methodVals[f]
	}
	// construction-only: NewSession and the functions whose every caller is construction-only
	ctor := map[*lfunc]bool{}
	for _, f := range p.funcs {
		if f.pkg.name != "torrent" {
			continue
		}
		if f.name == "NewSession" || (f.decl != nil && !isRoot(f) && len(callers[f]) > 0) {
			ctor[f] = true
		}
	}
	for changed := true; changed; {
		changed = false
		for f := range ctor {
			if f.name == "NewSession" {
				continue
			}
			for _, cs := range callers[f] {
				c := cs.callee
				for c != nil && c.decl == nil {
					c = parentOf(c)
				}
				if c == nil || !ctor[c] {
					delete(ctor, f)
					changed = true
					break
				}
			}
		}
	}
	inCtor := func(f *lfunc) bool {
		for f != nil && f.decl == nil {
			// a closure started with `go` during construction runs concurrently with everything later: not construction
			return false
		}
		return ctor[f]
	}
	// locks held on entry by every (non-construction) caller: greatest fixed point of the intersection
	type lockset map[string]bool // name -> exclusive
	entry := map[*lfunc]lockset{}
	top := map[*lfunc]bool{}
	for _, f := range p.funcs {
		if f.pkg.name == "torrent" && f.decl != nil && !isRoot(f) && len(callers[f]) > 0 && f.name != "NewSession" {
			top[f] = true // ⊤ until a caller says otherwise
		} else {
			entry[f] = lockset{}
		}
	}
	for changed := true; changed; {
		changed = false
		for _, f := range p.funcs {
			if f.pkg.name != "torrent" || f.decl == nil || isRoot(f) || len(callers[f]) == 0 || f.name == "NewSession" {
				continue
			}
			var acc lockset
			accTop := true
			for _, cs := range callers[f] {
				c := cs.callee
				if inCtor(c) && !ctor[f] {
					continue // construction-time call of a function that also runs later: judged by its later callers
				}
				if top[c] {
					continue // caller still ⊤: no constraint yet
				}
				site := lockset{}
				for n, x := range entry[c] {
					site[n] = x
				}
				for _, h := range cs.held {
					site[h.name] = site[h.name] || h.excl
				}
				if accTop {
					acc, accTop = site, false
					continue
				}
				for n, x := range acc {
					y, ok := site[n]
					if !ok {
						delete(acc, n)
					} else {
						acc[n] = x && y
					}
				}
			}
			if accTop {
				continue
			}
			old, had := entry[f]
			same := had && !top[f] && len(old) == len(acc)
			if same {
				for n, x := range acc {
					if y, ok := old[n]; !ok || x != y {
						same = false
					}
				}
			}
			if !same {
				entry[f] = acc
				delete(top, f)
				changed = true
			}
		}
	}
	// reachability after startup, for the report: from exported methods, RPC handlers, goroutines
	after := map[*lfunc]string{}
	var q []*lfunc
	for _, f := range p.funcs {
		if f.pkg.name == "torrent" && f.name != "NewSession" && (isRoot(f) || f.decl == nil) {
			after[f] = f.name
			q = append(q, f)
		}
	}
	for len(q) > 0 {
		f := q[0]
		q = q[1:]
		for _, cs := range f.calls {
			if _, ok := after[cs.callee]; !ok {
				after[cs.callee] = after[f]
				q = append(q, cs.callee)
			}
		}
	}
	seenV := map[string]bool{}
	for _, f := range p.funcs {
		for _, a := range f.sfAcc {
			g := p.guards[a.field]
			owner := f
			for owner.decl == nil && owner.parent != nil {
				owner = owner.parent
			}
			mode, fromEntry := 0, false
			for _, h := range a.held {
				if h.name == "Session."+g {
					mode = 1
					if h.excl {
						mode = 2
					}
				}
			}
			if mode == 0 && f.decl != nil {
				if x, ok := entry[f]["Session."+g]; ok && !top[f] {
					mode, fromEntry = 1, true
					if x {
						mode = 2
					}
				}
			}
			r := sessRow{Fn: f.name, Field: a.field, Write: a.write, Guard: g, Mode: mode, Ctor: inCtor(f), Entry: fromEntry, Pos: posStr(a.pos), fnFull: f}
			if root, ok := after[f]; ok {
				r.Reach = root
			}
			sf.rows = append(sf.rows, r)
		}
	}
	// a field that is never written outside construction needs no guard (the pointer to the internally
	// synchronised blocklist); the same rule is recomputed in Lean (`sessFieldWritten`)
	written := map[string]bool{}
	for _, r := range sf.rows {
		if r.Write && !r.Ctor {
			written[r.Field] = true
		}
	}
	for _, r := range sf.rows {
		if !r.Ctor && written[r.Field] && (r.Mode == 0 || (r.Write && r.Mode != 2)) {
			k := r.Fn + "|" + r.Field
			if !seenV[k] {
				seenV[k] = true
				sf.violations = append(sf.violations, k)
			}
			sf.violationSites = append(sf.violationSites, fmt.Sprintf("%s|%s|%s|%s|after-startup:%s", r.Fn, r.Field, map[bool]string{true: "write", false: "read"}[r.Write], r.Pos, r.Reach))
		}
	}
	sort.SliceStable(sf.rows, func(i, j int) bool {
		if sf.rows[i].Fn != sf.rows[j].Fn {
			return sf.rows[i].Fn < sf.rows[j].Fn
		}
		return sf.rows[i].Pos < sf.rows[j].Pos
	})
	sort.Strings(sf.violations)
	return sf
}

func (sf *sessFacts) addFacts(facts map[string]interface{}) {
	facts["session_guards"] = sf.guards
	facts["session_field_accesses"] = sf.rows
	if sf.violations == nil {
		sf.violations = []string{}
	}
	facts["session_field_violations"] = sf.violations
	if sf.violationSites == nil {
		sf.violationSites = []string{}
	}
	facts["session_field_violation_sites"] = sf.violationSites
}

func (sf *sessFacts) lean(sb *strings.Builder) {
	var fns []string
	seen := map[string]bool{}
	for _, r := range sf.rows {
		if !seen[r.Fn] {
			seen[r.Fn] = true
			fns = append(fns, r.Fn)
		}
	}
	sort.Strings(fns)
	sb.WriteString("\n/-- Fields of `Session` that the struct layout places under a mutex (index = id), with their guard. -/\ndef sessFieldNames : List String := [")
	for i, f := range sf.fields {
		if i > 0 {
			sb.WriteString(", ")
		}
		fmt.Fprintf(sb, "%q", f)
	}
	sb.WriteString("]\ndef sessFieldGuard : List String := [")
	for i, f := range sf.fields {
		if i > 0 {
			sb.WriteString(", ")
		}
		fmt.Fprintf(sb, "%q", sf.guards[f])
	}
	sb.WriteString("]\n\n/-- Functions that touch a guarded field of `Session` (index = id). -/\ndef sessFnNames : List String := [\n")
	for _, f := range fns {
		fmt.Fprintf(sb, "  %q,\n", f)
	}
	sb.WriteString("]\n\n/-- ⟨function, field, write, mode, construction⟩: mode 0 = the guard is not held at the access, 1 = held shared (RLock),\n2 = held exclusive (Lock) — lexically or by every caller of the function; construction = the access can only run inside\n`NewSession` (directly or in a function that only it calls). -/\ndef sessAccesses : List SessAcc := [\n")
	for _, r := range sf.rows {
		fmt.Fprintf(sb, "  ⟨%d, %d, %v, %d, %v⟩,  -- %s %s %s\n", indexOf(fns, r.Fn), indexOf(sf.fields, r.Field), r.Write, r.Mode, r.Ctor, r.Fn, r.Field, r.Pos)
	}
	sb.WriteString("]\n")
}
