#!/bin/sh
# tools/seedeval.sh <patch.diff> <prop> [more props…]
# Applies a seeded change, runs the quick checks of the given properties against it, and undoes it.
# By default the change is applied to /repo itself (git -C /repo apply … / git -C /repo checkout -- .);
# SEED_REPO=<worktree> evaluates against another checkout instead (used while a background run needs /repo).
patch=$1; shift
repo=${SEED_REPO:-/repo}
cd "$(dirname "$0")/.."
git -C "$repo" checkout -q -- . 2>/dev/null
if ! git -C "$repo" apply "$patch"; then echo "APPLY-FAILED $patch"; exit 2; fi
for p in "$@"; do
  out=$(VERIF_REPO=$repo timeout 1800 ./check $p ${SEED_TIER:-quick} 2>&1); rc=$?
  echo "$(basename $(dirname $patch))/$(basename $patch) $p rc=$rc $(echo "$out" | grep -E '^VIOLATION' | head -2 | tr '\n' ' ')"
  echo "$out" | grep -E "violation in suite|broken:" | head -3 | cut -c1-300
done
git -C "$repo" checkout -q -- .
git -C "$repo" clean -fdq 2>/dev/null
