#!/bin/sh
# tools/allchecks.sh [quick|thorough] — runs every check of MANIFEST.json in turn and prints one line per property.
cd "$(dirname "$0")/.."
tier=${1:-quick}
for i in 01 02 03 04 05 06 07 08 09 10 11 12 13 14 15 16 17 18 19 20; do
  s=$(date +%s)
  out=$(./check C$i $tier 2>&1); rc=$?
  e=$(date +%s)
  echo "C$i $tier rc=$rc $((e-s))s $(echo "$out" | grep -E '^VIOLATION' | head -2 | tr '\n' ' ') $(echo "$out" | tail -1)"
done
