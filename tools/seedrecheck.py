#!/usr/bin/env python3
"""tools/seedrecheck.py <worktree> <id> [<id> …] — re-run the quick check of a seeded change's property against the
change (seeded/<id>/patch.diff applied to the scratch worktree) and record the result in seeded/<id>/meta.json.
Used after the generators or oracles changed: detection of the multi-step changes is a matter of generator odds.
A change that no longer applies to the current tree (the code it touched was repaired) is recorded as such."""
import json, os, subprocess, sys
V = os.path.dirname(os.path.dirname(os.path.abspath(__file__)))
wt = sys.argv[1]
env = dict(os.environ, GOFLAGS="-mod=mod", GOPROXY="off")
for sid in sys.argv[2:]:
    d = os.path.join(V, "seeded", sid)
    mp = os.path.join(d, "meta.json")
    meta = json.load(open(mp))
    if str(meta.get("check_result", "")).startswith("obsolete"):
        print(sid, "obsolete, skipped"); continue
    prop = meta["property"]
    p = subprocess.run(f"SEED_REPO={wt} {V}/tools/seedeval.sh {d}/patch.diff {prop}", shell=True, cwd=V, env=env,
                       stdout=subprocess.PIPE, stderr=subprocess.STDOUT, text=True, timeout=3000)
    out = p.stdout
    if "APPLY-FAILED" in out:
        print(sid, "APPLY-FAILED"); meta["recheck"] = "patch does not apply to the final tree"; json.dump(meta, open(mp, "w"), indent=1); continue
    line = [l for l in out.split("\n") if " rc=" in l]
    r = (line[0] if line else out[-200:]).strip()
    caught = " rc=1" in r and "VIOLATION" in r
    meta["checks_run"] = {prop: r}
    meta["caught"] = caught
    meta["check_result"] = f"{prop}: " + ("VIOLATION no-failing-input-found" if "no-failing-input-found" in r else ("VIOLATION with replay" if caught else "not caught"))
    json.dump(meta, open(mp, "w"), indent=1)
    print(sid, meta["check_result"], flush=True)
