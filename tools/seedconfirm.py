#!/usr/bin/env python3
"""tools/seedconfirm.py <Cxx> — confirm the seeded changes delivered in /tmp/seed/<Cxx>/ in a scratch worktree
(/tmp/seedeval/repo): the demonstration must pass without the change and fail with it, and the module must build.
Then run the checks against the change and store everything under /verif/seeded/<Cxx>-<i>/."""
import json, os, re, shutil, subprocess, sys
pid = sys.argv[1]
extra_props = sys.argv[2:]
SRC = os.path.join(os.environ.get("SEED_SRC", "/tmp/seed"), pid)
OFF = int(os.environ.get("SEED_OFFSET", "0"))
WT = os.environ.get("SEEDEVAL_WT", "/tmp/seedeval/repo")
V = os.path.dirname(os.path.dirname(os.path.abspath(__file__)))
env = dict(os.environ, GOFLAGS="-mod=mod", GOPROXY="off")
def sh(cmd, cwd=None, timeout=900):
    try:
        p = subprocess.run(cmd, shell=True, cwd=cwd, env=env, stdout=subprocess.PIPE, stderr=subprocess.STDOUT, text=True, timeout=timeout)
        return p.returncode, p.stdout
    except subprocess.TimeoutExpired as e:
        return -9, (e.stdout or "") + "[timeout]"
def clean():
    sh("git checkout -q -- . && git clean -fdq", WT)
meta = json.load(open(os.path.join(SRC, "meta.json")))
for i, e in enumerate(meta, 1 + OFF):
    patch = os.path.join(SRC, e["patch"])
    demo = e["demo_cmd"].replace(f"{SRC}/repo", WT).replace("../demo", f"{SRC}/demo")
    demo = re.sub(r"git apply [^&;]*(&&|;)", "", demo)   # the tool applies / removes the change itself
    if re.search(r"(^|&&|;)\s*cd " + re.escape(SRC) + r"/?\s*(&&|;)", demo):
        # the command works from the seeder's directory with relative paths: point its `repo` at the scratch worktree
        demo = re.sub(r"(?<![\w/.-])repo/", WT + "/", demo)
        demo = re.sub(r"cd repo(?![\w/.-])", "cd " + WT, demo)
    clean()
    rc0, out0 = sh(demo, WT)
    if re.search(r"^(FAIL|--- FAIL|panic:|fatal error)", out0, re.M): rc0 = rc0 or 1
    clean()
    rca, outa = sh(f"git apply {patch}", WT)
    if rca != 0:
        print(f"{pid}-{i}: APPLY FAILED {outa[:300]}"); continue
    rcb, outb = sh("go build ./...", WT)
    rc1, out1 = sh(demo, WT)
    if re.search(r"^(FAIL|--- FAIL|panic:|fatal error)", out1, re.M): rc1 = rc1 or 1
    clean()
    ok = rc0 == 0 and rc1 != 0 and rcb == 0
    print(f"{pid}-{i}: demo without change rc={rc0}, with change rc={rc1}, build rc={rcb} -> {'CONFIRMED' if ok else 'NOT CONFIRMED'}")
    if not ok:
        print(out0[-400:], "\n---\n", out1[-400:]); continue
    # run the checks
    props = [pid] + extra_props
    results = {}
    for p in props:
        rc, out = sh(f"SEED_REPO={WT} {V}/tools/seedeval.sh {patch} {p}", V, timeout=2400)
        line = [l for l in out.split("\n") if " rc=" in l]
        results[p] = (line[0] if line else out[-200:]).strip()
        print("   ", results[p][:300])
    caught = any(" rc=1" in r and "VIOLATION" in r for r in results.values())
    d = os.path.join(V, "seeded", f"{pid}-{i}")
    os.makedirs(d, exist_ok=True)
    shutil.copy(patch, os.path.join(d, "patch.diff"))
    for f in e.get("demo_files", []):
        src = os.path.join(SRC, f)
        if os.path.exists(src): shutil.copy(src, os.path.join(d, os.path.basename(f)))
    json.dump({"id": f"{pid}-{i}", "property": pid, "what_it_breaks": e.get("what_it_breaks"), "needs_to_manifest": e.get("needs_to_manifest"),
               "files_touched": e.get("files_touched"), "demo_cmd": e["demo_cmd"],
               "confirmed": {"demo_without_change_rc": rc0, "demo_with_change_rc": rc1, "build_rc": rcb, "in": WT},
               "checks_run": results, "caught": caught,
               "check_result": "; ".join(f"{p}: " + ("VIOLATION no-failing-input-found" if "no-failing-input-found" in r else ("VIOLATION with replay" if "VIOLATION" in r else "not caught")) for p, r in results.items())},
              open(os.path.join(d, "meta.json"), "w"), indent=1)
