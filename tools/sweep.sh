#!/bin/sh
# tools/sweep.sh "<props>" "<seeds>" [tier]  — unchanged-tree sweep: runs the checks for several VERIF_SEED values
# and prints one line per run; any non-zero exit on the unchanged tree is a false alarm (or a new finding) to look at.
cd "$(dirname "$0")/.."
[ -x lean/.lake/build/bin/driver ] || ./setup.sh >/dev/null 2>&1
tier=${3:-quick}
for seed in $2; do
  for p in $1; do
    out=$(VERIF_SEED=$seed ./check $p $tier 2>&1); rc=$?
    echo "seed=$seed $p rc=$rc $(echo "$out" | grep -E 'VIOLATION' | head -2 | tr '\n' ' ') $(echo "$out" | tail -1)"
    if [ $rc -ne 0 ]; then mkdir -p sweep-fail; for f in $(echo "$out" | grep -o 'replay=[^ ]*' | cut -d= -f2); do cp "$f" sweep-fail/ 2>/dev/null; done; fi
  done
done
