import RainModel.Model.Blocks
/-
M-PD — transliteration of `internal/piecedownloader/piecedownloader.go`.

Go state: `blocks map[uint32]uint32` (begin → length), `remaining []uint32`, `pending` and
`done` (`map[uint32]struct{}`), `Buffer.Data []byte`, `AllowedFast`.  Here: Go maps are
association lists / duplicate-free lists with the map operations `mapInsert` (overwrite),
`setInsert` (no-op when present), `setDelete`; `len(map)` is `List.length` (the lists are
duplicate-free by construction of `setInsert` / `mapInsert`).

* `uint32` arithmetic is on `Nat`: `begin + uint32(len(data))` is evaluated only after
  `findBlock` accepted `(begin, len)`, i.e. for a block of the piece, which lies inside the
  piece (length < 2^32, C06); `uint32(len(data))` is `len(data)` for messages below 4 GiB
  (peerreader caps piece messages far below that, C08).
* `copy(d.Buffer.Data[begin:begin+n], data)`: the slice expression is in range exactly when
  `begin+n ≤ cap(Data)`.  The model knows only `len(Data)`; `begin+n > len(Data)` is the explicit
  outcome `oob` (Go: panic, or a write into the pool buffer's slack capacity) and is proved
  unreachable when the buffer has the piece's length (`Lemmas/PieceDownloader`).
* `Choked` iterates the `pending` map while deleting: every key is visited exactly once, in an
  order chosen by the runtime.  The order is an input (`order`); it is *admissible* iff it is a
  permutation of `pending` (`chokedAdmissible`).
* `Peer.EnabledFast()` is an input of `choked`; `Peer.RequestPiece/CancelPiece` calls are
  returned as lists of `(begin, length)`.
* `panic("cannot get block")` in `RequestBlocks` / `CancelPending` is the result `none`.

Core Lean only.
-/
namespace Rain.PD
open Rain.Blocks

abbrev Bytes := List Nat

/-! ### Go maps -/

/-- `m[k] = v` on a `map[uint32]uint32` kept as an association list. -/
def mapInsert (m : List (Nat × Nat)) (k v : Nat) : List (Nat × Nat) :=
  if m.any (fun e => e.1 == k) then m.map (fun e => if e.1 == k then (k, v) else e)
  else m ++ [(k, v)]

/-- `v, ok := m[k]`. -/
def mapGet (m : List (Nat × Nat)) (k : Nat) : Option Nat := m.lookup k

/-- `s[k] = struct{}{}`. -/
def setInsert (s : List Nat) (k : Nat) : List Nat := if s.contains k then s else s ++ [k]

/-- `delete(s, k)`. -/
def setDelete (s : List Nat) (k : Nat) : List Nat := s.filter (fun x => x != k)

/-- `makeBlocks`. -/
def makeBlocks (bl : List Block) : List (Nat × Nat) :=
  bl.foldl (fun m b => mapInsert m b.b b.l) []

/-- `makeRemaining`. -/
def makeRemaining (bl : List Block) : List Nat := bl.map (·.b)

/-! ### State -/

structure State where
  blocks : List (Nat × Nat)
  remaining : List Nat
  pending : List Nat
  done : List Nat
  buf : Bytes
  allowedFast : Bool
  deriving Repr, DecidableEq

/-- `New(pi, pe, allowedFast, buf)` given `pi.CalculateBlocks()`. -/
def init (bl : List Block) (allowedFast : Bool) (buf : Bytes) : State :=
  { blocks := makeBlocks bl, remaining := makeRemaining bl, pending := [], done := [],
    buf := buf, allowedFast := allowedFast }

/-- `copy(buf[begin:begin+len(data)], data)` for `begin + len(data) ≤ len(buf)`. -/
def writeAt (buf : Bytes) (begin : Nat) (data : Bytes) : Bytes :=
  buf.take begin ++ data ++ buf.drop (begin + data.length)

/-- `findBlock`. -/
def findBlock (s : State) (begin length : Nat) : Bool := mapGet s.blocks begin == some length

inductive GotResult
  | ok            -- nil
  | invalid       -- ErrBlockInvalid
  | duplicate     -- ErrBlockDuplicate
  | notRequested  -- ErrBlockNotRequested (data IS stored)
  | oob           -- slice bounds beyond len(Buffer.Data) (unreachable for a piece-sized buffer)
  deriving Repr, DecidableEq

/-- The results after which the block's bytes have been copied into the buffer. -/
def GotResult.stored : GotResult → Bool
  | .ok => true
  | .notRequested => true
  | _ => false

/-- `GotBlock(begin, data)`. -/
def gotBlock (s : State) (begin : Nat) (data : Bytes) : State × GotResult :=
  if !findBlock s begin data.length then (s, .invalid)
  else if s.done.contains begin then (s, .duplicate)
  else if s.buf.length < begin + data.length then (s, .oob)
  else
    let s1 := { s with buf := writeAt s.buf begin data, done := setInsert s.done begin }
    if !s.pending.contains begin then (s1, .notRequested)
    else ({ s1 with pending := setDelete s1.pending begin }, .ok)

/-- Is `order` a possible iteration order of the `pending` map? -/
def chokedAdmissible (s : State) (order : List Nat) : Bool := order.isPerm s.pending

/-- Does `Choked()` move the pending requests back to `remaining`? -/
def chokedRequeues (s : State) (peerFast : Bool) : Bool := !s.allowedFast && !peerFast

/-- `Choked()` with the runtime's iteration order of `pending`. -/
def choked (s : State) (peerFast : Bool) (order : List Nat) : State :=
  if s.allowedFast then s
  else if peerFast then s
  else { s with pending := [], remaining := s.remaining ++ order }

/-- `Rejected(begin, length)`. -/
def rejected (s : State) (begin length : Nat) : State × Bool :=
  if !findBlock s begin length then (s, false)
  -- a reject for a block with no request outstanding (rejected twice, or never requested): nothing to put back
  -- (fix for finding C17-F5 — it used to be appended to `remaining` every time, and was then requested twice)
  else if !s.pending.contains begin then (s, true)
  else ({ s with pending := setDelete s.pending begin, remaining := s.remaining ++ [begin] }, true)

/-- The `for _, begin := range remaining` loop of `RequestBlocks`.  `snap` is what is left of
the snapshot taken before the loop; `d.remaining = d.remaining[1:]` drops the head of the live
slice, which is the element being visited (`s.remaining = snap ++ appended-later`; nothing is
appended inside the loop), so it is written `drop 1`.  `acc` = `RequestPiece` calls (reversed). -/
def requestLoop (q : Int) : List Nat → State → List (Nat × Nat) → Option (State × List (Nat × Nat))
  | [], s, acc => some (s, acc.reverse)
  | begin :: rest, s, acc =>
    if (s.pending.length : Int) ≥ q then some (s, acc.reverse)
    else
      match mapGet s.blocks begin with
      | none => none
      | some len =>
        -- a block that has arrived meanwhile (it was in flight when a choke put it back into `remaining`) is
        -- dropped from the list: nothing to request, nothing outstanding (fix for finding C10-F3 — it used to
        -- be entered into `pending`, where nothing ever removed it)
        if s.done.contains begin then
          requestLoop q rest { s with remaining := s.remaining.drop 1 } acc
        else
          requestLoop q rest
            { s with remaining := s.remaining.drop 1, pending := setInsert s.pending begin } ((begin, len) :: acc)

/-- `RequestBlocks(queueLength)`; `none` = `panic("cannot get block")`. -/
def requestBlocks (s : State) (q : Int) : Option (State × List (Nat × Nat)) :=
  requestLoop q s.remaining s []

/-- `CancelPending()`: the `CancelPiece` calls in the model's order of `pending` (the Go order
is the map's; compare as sets).  `none` = `panic("cannot get block")`. -/
def cancelPending (s : State) : Option (List (Nat × Nat)) :=
  s.pending.mapM fun b => (mapGet s.blocks b).map fun l => (b, l)

/-- `Done()`. -/
def isDone (s : State) : Bool := s.done.length == s.blocks.length

/-! ### Operation sequences -/

inductive Op
  | gotBlock (begin : Nat) (data : Bytes)
  | choked (peerFast : Bool) (order : List Nat)
  | rejected (begin length : Nat)
  | requestBlocks (q : Int)
  | cancelPending
  | done
  deriving Repr, DecidableEq

/-- One call.  `none` = the Go code panics. -/
def step (s : State) : Op → Option State
  | .gotBlock b d => some (gotBlock s b d).1
  | .choked pf order => some (choked s pf order)
  | .rejected b l => some (rejected s b l).1
  | .requestBlocks q => (requestBlocks s q).map (·.1)
  | .cancelPending => (cancelPending s).map fun _ => s
  | .done => some s

def run (s : State) (ops : List Op) : Option State := ops.foldlM step s

/-- All choices made by the runtime in `ops`, run from `s`, are admissible. -/
def admissibleRun : State → List Op → Bool
  | _, [] => true
  | s, op :: rest =>
    (match op with
      | .choked pf order => !chokedRequeues s pf || chokedAdmissible s order
      | _ => true) &&
    match step s op with
    | none => true
    | some s' => admissibleRun s' rest

/-! ### Specification vocabulary (shared by theorems and the driver's oracle) -/

/-- The data of the first `gotBlock` call in `ops` that names block `(b, l)` exactly. -/
def firstData (ops : List Op) (b l : Nat) : Option Bytes :=
  ops.findSome? fun
    | .gotBlock b' d => if b' = b ∧ d.length = l then some d else none
    | _ => none

/-- Largest queue length passed to `RequestBlocks` in `ops` (0 if none / all negative). -/
def maxQ (ops : List Op) : Int :=
  ops.foldl (fun m op => match op with | .requestBlocks q => max m q | _ => m) 0

/-- The buffer a correct assembly must hold: zero everywhere, then for each block the first
data received for exactly that block. -/
def assembled (n : Nat) (bl : List Block) (ops : List Op) : Bytes :=
  bl.foldl (fun buf b => match firstData ops b.b b.l with
    | some d => writeAt buf b.b d
    | none => buf) (List.replicate n 0)

/-- Oracle for one `GotBlock` observation (the content of `pd_accept_iff`): given the block
table, the `done` set and the buffer before the call, the result class and the buffer after. -/
def acceptOK (bl : List Block) (doneBefore : List Nat) (bufBefore : Bytes) (begin : Nat) (data : Bytes)
    (stored : Bool) (bufAfter : Bytes) : Bool :=
  let should := bl.any (fun b => b.b == begin && b.l == data.length) && !doneBefore.contains begin
  stored == should &&
  bufAfter == (if should then writeAt bufBefore begin data else bufBefore)

end Rain.PD
