/-
M-LOOP.Download building block — the *decision logic* of

* `(*torrent).handlePieceWriteDone`      (torrent/torrent_write.go)
* `(*torrent).handleWebseedPieceResult`  (torrent/torrent_webseed.go, incl. the stale-result guard)

as pure functions from a small record of the facts the handler reads to the list of effects it
performs, in program order.  The event-loop model (`Model/Loop`, built separately) interprets the
effects on its state; the theorems in `Props/C01` about these functions are the local half of
`IntegrityInv` (ii), (iii), (v).

Transliteration notes
* Effects appear in the order of the Go statements; `crash` (health-check panic, `t.crash`) ends
  the list: nothing after it is executed.
* Loops over peers / downloaders are summarised by one effect carrying the count the caller
  supplies (`sendHave n` = "a Have for this piece to each of the `n` peers whose bitfield lacks
  it"); their order is a map iteration order and irrelevant here.
* `checkCompletion()` is split into its decision (`completedBefore`, `allAfter` = `bitfield.All()`
  after the bit was set) and the effect `complete` (sets `completed`, closes `completeC`, …).

Core Lean only.
-/
namespace Rain.WriteDone

/-- Dynamic type of `pw.Source`. -/
inductive Source
  | peer      -- *peer.Peer
  | webseed   -- *urldownloader.URLDownloader
  | other     -- anything else (`default:` → crash)
  deriving Repr, DecidableEq

/-- What `handlePieceWriteDone` reads. -/
structure In where
  hashOK : Bool              -- pw.HashOK
  writeError : Bool          -- pw.Error != nil
  source : Source
  bitBefore : Bool           -- t.bitfield.Test(pw.Piece.Index) on entry
  picker : Bool              -- t.piecePicker != nil
  webseedRequested : Bool    -- piecePicker.RequestedWebseedSource(index) != nil
  webseedStopClosed : Bool   -- WebseedStopAt(src, index) reported the downloader closed
  otherDownloaders : Nat     -- len(piecePicker.RequestedPeers(index))
  peers : Nat                -- len(t.peers)
  peersLacking : Nat         -- peers whose bitfield lacks the piece
  completedBefore : Bool     -- t.completed on entry
  allAfter : Bool            -- t.bitfield.All() once the bit is set
  persistFails : Bool        -- writeBitfield() returns an error
  stopAfterDownload : Bool
  deriving Repr, DecidableEq

inductive Effect
  | clearWriting            -- pw.Piece.Writing = false
  | resumePieceMessages     -- t.pieceMessagesC.Resume()
  | resumeWebseedResults    -- t.webseedPieceResultC.Resume()
  | releaseBuffer           -- pw.Buffer.Release()
  | addWasted               -- t.bytesWasted.Inc(len(buffer))
  | closePeer               -- t.closePeer(src)
  | banIP                   -- t.bannedPeerIPs[src.IP()] = struct{}{}
  | disableSource           -- t.disableSource(src.URL, "corrupt piece", false)
  | decWebseedActive        -- t.webseedActiveDownloads--
  | startPieceDownloaders   -- t.startPieceDownloaders()
  | stopWithError           -- t.stop(pw.Error)
  | markDone                -- pw.Piece.Done = true
  | crash (why : String)    -- t.crash(…): health-check panic, handler does not continue
  | setBit                  -- t.bitfield.Set(index)
  | webseedStopAt           -- t.piecePicker.WebseedStopAt(src, index): truncate the web-seed range at this piece
  | restartWebseed          -- t.startPieceDownloaderForWebseed(src) after WebseedStopAt closed it
  | cancelOthers (n : Nat)  -- close + CancelPending + restart for each other downloader of the piece
  | updateInterest (n : Nat)-- t.updateInterestedState(pe) for every peer
  | sendHave (n : Nat)      -- Have{index} to every peer lacking the piece
  | complete                -- checkCompletion() transitions to completed
  | persistBitfield         -- t.writeBitfield()
  | stopOnComplete          -- t.stopAndSetStoppedOnComplete()
  deriving Repr, DecidableEq

section
open Effect

/-- The unconditional prologue. -/
def prologue : List Effect := [clearWriting, resumePieceMessages, resumeWebseedResults, releaseBuffer]

/-- Tail of the success path, from `checkCompletion()` on. -/
def completionTail (i : In) : List Effect :=
  if i.completedBefore then
    -- checkCompletion returns true without transition; handler still persists
    [persistBitfield] ++ (if i.persistFails then [stopWithError] else if i.stopAfterDownload then [stopOnComplete] else [])
  else if !i.allAfter then []
  else
    [complete, persistBitfield] ++
      (if i.persistFails then [stopWithError] else if i.stopAfterDownload then [stopOnComplete] else [])

/-- `handlePieceWriteDone(pw)`. -/
def writeDone (i : In) : List Effect :=
  prologue ++
  if !i.hashOK then
    [addWasted] ++
    (match i.source with
      | .peer => [closePeer, banIP, startPieceDownloaders]
      | .webseed => [disableSource, decWebseedActive, startPieceDownloaders]
      | .other => [crash "unhandled piece source"])
  else if i.writeError then [stopWithError]
  else
    [markDone] ++
    if i.bitBefore then [crash "already have the piece"]
    else
      [setBit] ++
      (if i.picker then
        (if i.source ≠ .webseed ∧ i.webseedRequested
          then [webseedStopAt] ++ (if i.webseedStopClosed then [decWebseedActive, restartWebseed] else [])
          else []) ++
        [cancelOthers i.otherDownloaders]
       else []) ++
      [updateInterest i.peers, sendHave i.peersLacking] ++
      completionTail i

end

/-- Does effect `a` occur strictly before the first occurrence of `b`? -/
def before (a b : Effect) : List Effect → Bool
  | [] => false
  | e :: rest => if e = b then false else if e = a then rest.contains b else before a b rest

/-! ### `handleWebseedPieceResult` -/

/-- What `handleWebseedPieceResult` reads. -/
structure WsIn where
  error : Bool              -- msg.Error != nil
  pieceDone : Bool          -- t.pieces[msg.Index].Done
  pieceWriting : Bool       -- t.pieces[msg.Index].Writing
  msgDone : Bool            -- msg.Done (last piece of the downloader's range)
  downloaderCurrent : Bool  -- some source still has src.Downloader == msg.Downloader
  sourceKnown : Bool        -- some source has src.URL == msg.Downloader.URL
  deriving Repr, DecidableEq

inductive WsEffect
  | disableSourceRetry      -- t.disableSource(url, err, true)
  | decWebseedActive
  | startPieceDownloaders
  | addWasted
  | releaseBuffer
  | closeDownloader         -- t.closeWebseedDownloader(src)
  | restartSource           -- t.startPieceDownloaderForWebseed(src)
  | countDownloaded         -- bytesDownloaded / speed marks
  | crash (why : String)
  | setWriting              -- piece.Writing = true
  | suspendPieceMessages
  | suspendWebseedResults
  | startWriter             -- go piecewriter.New(piece, msg.Downloader, msg.Buffer).Run(…)
  deriving Repr, DecidableEq

open WsEffect in
/-- `handleWebseedPieceResult(msg)`. -/
def webseedResult (i : WsIn) : List WsEffect :=
  if i.error then [disableSourceRetry, decWebseedActive, startPieceDownloaders]
  else if i.pieceDone then
    -- stale result: the piece was completed by a peer meanwhile; discard
    [addWasted, releaseBuffer] ++
    (if i.msgDone ∧ i.downloaderCurrent then [closeDownloader, decWebseedActive, restartSource] else [])
  else
    [countDownloaded] ++
    if i.pieceWriting then [crash "piece is already writing"]
    else
      [setWriting, suspendPieceMessages, suspendWebseedResults, startWriter] ++
      (if i.msgDone ∧ i.sourceKnown then [closeDownloader, decWebseedActive, restartSource] else [])

end Rain.WriteDone
