import RainModel.Model.Bencode
/-
M-CODEC — the peer wire codec.

* `encode` — what `PeerWriter.messageWriter` puts on the connection for one message
  (`internal/peerconn/peerwriter/peerwriter.go`: reserve 5 bytes, serialise the body with
  `Message.Read` / `ExtensionMessage.WriteTo`, patch `uint32(1+len(body))` big-endian and the id),
  bodies from `internal/peerprotocol/messages.go`, `extension.go`, `peerwriter/piece.go`.
* `step` / `run` — transliteration of the loop of `PeerReader.Run`
  (`internal/peerconn/peerreader/peerreader.go`), one message per `step`: same order of reads and
  checks, `uint32` wrap of `length -= 8` kept, every `make([]byte, n)` and `blockPool.Get(n)`
  recorded as an effect.  The reader is a function of the whole remaining byte stream: how TCP
  fragments it is invisible behind `bufio.Reader`/`io.ReadFull` (validated by random
  fragmentation in the suites, not modelled).
* `handshakeBytes` / `readHandshake` — `internal/btconn/handshake.go`.
* `countUpload` — `PeerWriter.countUploadBytes`.

The reader does *not* check that the length prefix of a fixed-size message (choke … port) matches
the bytes it reads for it; the model keeps that (see notes/C11.md).  Core Lean only.
-/
namespace Rain.Codec
open Rain.Bencode (Bytes ExtPayload take?)

def be32 (n : Nat) : Bytes := [n / 16777216 % 256, n / 65536 % 256, n / 256 % 256, n % 256]
def be16 (n : Nat) : Bytes := [n / 256 % 256, n % 256]
def rd32 (a b c d : Nat) : Nat := a * 16777216 + b * 65536 + c * 256 + d

/-- Messages as delivered on `PeerReader.Messages()` / accepted by `PeerWriter.SendMessage`.
`piece` carries the block bytes (writer: read from the `io.ReaderAt`; reader: `Buffer.Data`).
`ext eid p`: extension-protocol message with extended id `eid`. `suggest` exists only as an id
constant in rain: it is neither written nor decoded (the reader discards it like an unknown id). -/
inductive Msg
  | choke | unchoke | interested | notInterested
  | have (index : Nat)
  | bitfield (data : Bytes)
  | request (index begin_ length : Nat)
  | piece (index begin_ : Nat) (data : Bytes)
  | cancel (index begin_ length : Nat)
  | port (port : Nat)
  | haveAll | haveNone
  | reject (index begin_ length : Nat)
  | allowedFast (index : Nat)
  | ext (eid : Nat) (p : ExtPayload)
  deriving Repr, DecidableEq

/-- `messageid.go`. -/
def msgId : Msg → Nat
  | .choke => 0 | .unchoke => 1 | .interested => 2 | .notInterested => 3
  | .have _ => 4 | .bitfield _ => 5 | .request .. => 6 | .piece .. => 7 | .cancel .. => 8
  | .port _ => 9 | .haveAll => 14 | .haveNone => 15 | .reject .. => 16 | .allowedFast _ => 17
  | .ext .. => 20

/-- Message kind without fields (for the id table). -/
inductive Kind
  | choke | unchoke | interested | notInterested | have | bitfield | request | piece | cancel
  | port | haveAll | haveNone | reject | allowedFast | ext
  deriving Repr, DecidableEq

def Msg.kind : Msg → Kind
  | .choke => .choke | .unchoke => .unchoke | .interested => .interested
  | .notInterested => .notInterested | .have _ => .have | .bitfield _ => .bitfield
  | .request .. => .request | .piece .. => .piece | .cancel .. => .cancel | .port _ => .port
  | .haveAll => .haveAll | .haveNone => .haveNone | .reject .. => .reject
  | .allowedFast _ => .allowedFast | .ext .. => .ext

def Kind.id : Kind → Nat
  | .choke => 0 | .unchoke => 1 | .interested => 2 | .notInterested => 3 | .have => 4
  | .bitfield => 5 | .request => 6 | .piece => 7 | .cancel => 8 | .port => 9 | .haveAll => 14
  | .haveNone => 15 | .reject => 16 | .allowedFast => 17 | .ext => 20

def Kind.all : List Kind :=
  [.choke, .unchoke, .interested, .notInterested, .have, .bitfield, .request, .piece, .cancel,
   .port, .haveAll, .haveNone, .reject, .allowedFast, .ext]

/-- Body after the id byte. -/
def body : Msg → Bytes
  | .choke | .unchoke | .interested | .notInterested | .haveAll | .haveNone => []
  | .have i => be32 i
  | .allowedFast i => be32 i
  | .bitfield d => d
  | .request i b l => be32 i ++ be32 b ++ be32 l
  | .cancel i b l => be32 i ++ be32 b ++ be32 l
  | .reject i b l => be32 i ++ be32 b ++ be32 l
  | .piece i b d => be32 i ++ be32 b ++ d
  | .port p => be16 p
  | .ext eid p => eid :: Bencode.encPayload p

/-- One frame as written by `messageWriter`. -/
def encode (m : Msg) : Bytes := be32 (1 + (body m).length) ++ msgId m :: body m

def encodeAll (ms : List Msg) : Bytes := ms.flatMap encode

/-- Keep-alive written by the ticker. -/
def keepAlive : Bytes := [0, 0, 0, 0]

/-! ### reader -/

/-- `MaxBlockSize` (request length cap) and `piece.BlockSize` (block cap, pool buffer size). -/
def maxBlock : Nat := 16384

/-- Length of the buffers of `blockPool` (`bufferpool.New(piece.BlockSize)`): `Get(n)` re-slices
one to `n` bytes and panics for larger `n`. -/
def poolBufLen : Nat := 16384

/-- How `Run` ends. `eof`: `io.EOF` / `io.ErrUnexpectedEOF` (stream ended, silently);
`oversize`: length prefix above `maxMsgSize`; `blockSize`: request length / piece block above
16 KiB; `ext`: `UnmarshalBinary` returned an error; `panic`: a Go run-time panic (slice bounds in
`blockPool.Get`, `panic("msg unset")`); `fuel`: model artefact. The last two are proved unreachable
(`reader_total`). -/
inductive Err
  | eof | oversize | blockSize | ext | panic | fuel
  deriving Repr, DecidableEq

/-- Allocation effects: `make([]byte, n)` and `blockPool.Get(n)` (re-slice of a pooled 16 KiB
buffer: panics if `n > 16384`). -/
inductive Eff
  | make (n : Nat)
  | poolGet (n : Nat)
  deriving Repr, DecidableEq

inductive Step
  | msg (m : Msg) (effs : List Eff) (rest : Bytes)
  | skip (rest : Bytes)                      -- keep-alive, or unknown id discarded
  | stop (e : Err) (effs : List Eff)
  deriving Repr, DecidableEq

def get32 : Bytes → Option (Nat × Bytes)
  | a :: b :: c :: d :: r => some (rd32 a b c d, r)
  | _ => none

def get16 : Bytes → Option (Nat × Bytes)
  | a :: b :: r => some (a * 256 + b, r)
  | _ => none

def get32x3 (bs : Bytes) : Option (Nat × Nat × Nat × Bytes) :=
  match get32 bs with
  | none => none
  | some (i, r1) =>
    match get32 r1 with
    | none => none
    | some (b, r2) =>
      match get32 r2 with
      | none => none
      | some (l, r3) => some (i, b, l, r3)

/-- `length -= 8` on `uint32` (wraps when the frame is shorter than the piece header). -/
def pieceLen (len : Nat) : Nat := (len + 4294967296 - 8) % 4294967296

/-- The `switch id` of `PeerReader.Run`; `len` is the length prefix minus one, `r` the stream
after the id byte. -/
def dispatch (id len : Nat) (r : Bytes) : Step :=
  if id = 0 then .msg .choke [] r
  else if id = 1 then .msg .unchoke [] r
  else if id = 2 then .msg .interested [] r
  else if id = 3 then .msg .notInterested [] r
  else if id = 4 then
    match get32 r with
    | none => .stop .eof []
    | some (i, r') => .msg (.have i) [] r'
  else if id = 5 then
    match take? len r with
    | none => .stop .eof [.make len]
    | some (d, r') => .msg (.bitfield d) [.make len] r'
  else if id = 6 then
    match get32x3 r with
    | none => .stop .eof []
    | some (i, b, l, r') => if l > maxBlock then .stop .blockSize [] else .msg (.request i b l) [] r'
  else if id = 16 then
    match get32x3 r with
    | none => .stop .eof []
    | some (i, b, l, r') => .msg (.reject i b l) [] r'
  else if id = 8 then
    match get32x3 r with
    | none => .stop .eof []
    | some (i, b, l, r') => .msg (.cancel i b l) [] r'
  else if id = 7 then
    match get32 r with
    | none => .stop .eof []
    | some (i, r1) =>
      match get32 r1 with
      | none => .stop .eof []
      | some (b, r2) =>
        if pieceLen len > maxBlock then .stop .blockSize [] else
        if pieceLen len > poolBufLen then .stop .panic [] else       -- `(*buf)[:length]` in `blockPool.Get`
        match take? (pieceLen len) r2 with
        | none => .stop .eof [.poolGet (pieceLen len)]
        | some (d, r3) => .msg (.piece i b d) [.poolGet (pieceLen len)] r3
  else if id = 14 then .msg .haveAll [] r
  else if id = 15 then .msg .haveNone [] r
  else if id = 17 then
    match get32 r with
    | none => .stop .eof []
    | some (i, r') => .msg (.allowedFast i) [] r'
  else if id = 9 then
    match get16 r with
    | none => .stop .eof []
    | some (p, r') => .msg (.port p) [] r'
  else if id = 20 then
    match take? len r with
    | none => .stop .eof [.make len]
    | some (buf, r') =>
      match buf with
      | [] => .stop .eof [.make len]
      | eid :: payload =>
        match Bencode.parseExt eid payload with
        | (none, ls) => .stop .ext (.make len :: ls.map .make)
        | (some p, ls) => .msg (.ext eid p) (.make len :: ls.map .make) r'
  else
    match take? len r with
    | none => .stop .eof []
    | some (_, r') => .skip r'

/-- One trip through the `for` loop of `PeerReader.Run`: length prefix, keep-alive, id byte,
`maxMsgSize` guard, then the switch. -/
def step (max : Nat) (bs : Bytes) : Step :=
  match get32 bs with
  | none => .stop .eof []
  | some (len0, r0) =>
    if len0 = 0 then .skip r0 else
    match r0 with
    | [] => .stop .eof []
    | id :: r =>
      if len0 - 1 > max then .stop .oversize [] else dispatch id (len0 - 1) r

structure Out where
  msgs : List Msg
  effs : List Eff
  err : Err
  deriving Repr, DecidableEq

/-- The loop, on explicit fuel (`run_fuel` in Props: `bs.length + 1` is never exhausted). -/
def runAux (max : Nat) : Nat → Bytes → Out
  | 0, _ => ⟨[], [], .fuel⟩
  | f + 1, bs =>
    match step max bs with
    | .stop e effs => ⟨[], effs, e⟩
    | .skip rest => runAux max f rest
    | .msg m effs rest =>
      let o := runAux max f rest
      ⟨m :: o.msgs, effs ++ o.effs, o.err⟩

def run (max : Nat) (bs : Bytes) : Out := runAux max (bs.length + 1) bs

/-! ### handshake -/

def pstr : Bytes := [19, 66, 105, 116, 84, 111, 114, 114, 101, 110, 116, 32, 112, 114, 111, 116, 111, 99, 111, 108]

/-- `writeHandshake`. -/
def handshakeBytes (ext ih pid : Bytes) : Bytes := pstr ++ ext ++ ih ++ pid

inductive HsResult
  | ok (ext ih pid rest : Bytes)
  | invalidProtocol
  | short
  deriving Repr, DecidableEq

/-- `readHandshake1` followed by `readHandshake2`. -/
def readHandshake (bs : Bytes) : HsResult :=
  match take? 20 bs with
  | none => .short
  | some (p, r0) =>
    if p ≠ pstr then .invalidProtocol else
    match take? 8 r0 with
    | none => .short
    | some (ext, r1) =>
      match take? 20 r1 with
      | none => .short
      | some (ih, r2) =>
        match take? 20 r2 with
        | none => .short
        | some (pid, r3) => .ok ext ih pid r3

/-! ### writer: duplicate-request substitution and upload counter -/

/-- `countUploadBytes(n)` for `n` bytes accepted by `conn.Write`: the `BlockUploaded.Length`
reported (0 = no event is sent). -/
def countUpload (n : Nat) : Nat := n - 13

/-- What `messageWriter` does with a queued `Piece{RequestMessage{i,b,l}, Data}`: a request
already served on this connection is answered with `reject`. `served` is `servedRequests`. -/
def writePiece (served : List (Nat × Nat × Nat)) (i b l : Nat) (data : Bytes) :
    List (Nat × Nat × Nat) × Msg :=
  if served.contains (i, b, l) then (served, .reject i b l)
  else ((i, b, l) :: served, .piece i b data)

/-! ### size limits as predicates (conclusions of `reader_alloc_bound`, also run as oracle) -/

/-- A `make` never exceeds the maximum message size, a pooled block never 16 KiB. -/
def EffOk (max : Nat) : Eff → Prop
  | .make n => n ≤ max
  | .poolGet n => n ≤ maxBlock

/-- What the reader hands on respects the size limits. -/
def MsgOk (max : Nat) : Msg → Prop
  | .bitfield d => d.length ≤ max
  | .piece _ _ d => d.length ≤ maxBlock
  | .request _ _ l => l ≤ maxBlock
  | _ => True

end Rain.Codec
