/-
M-TB — `github.com/juju/ratelimit` v1.0.2 `Bucket` as used by rain (`Take` only), with an explicit
clock, and the take-then-sleep-then-transfer pattern of the three use sites
(peerreader.readPiece, peerwriter.messageWriter, urldownloader.Run):

    d := bucket.Take(n)          -- under the bucket's mutex: serialised, clock read inside
    select { <-time.After(d) | <-stopC → return }
    transfer at most n bytes

`take` is a transliteration of `(*Bucket).take` (with `maxWait = infinity`), `adjust` of
`adjustavailableTokens`, `currentTick` of `currentTick`.  Time is nanoseconds since the bucket's
`startTime` (a `Nat`: the clock does not run backwards); token counts are `Int` because
`availableTokens` goes negative while consumers wait.  `int64` overflow is not modelled (rates
are KiB/s, times are process lifetimes).  Core Lean only.
-/
namespace Rain.TokenBucket

structure Bucket where
  capacity : Nat
  quantum : Nat
  fillInterval : Nat
  availableTokens : Int
  latestTick : Nat
  deriving Repr, DecidableEq

/-- `NewBucketWithQuantumAndClock` (panics unless all three are positive: `none`). -/
def new (fillInterval capacity quantum : Nat) : Option Bucket :=
  if fillInterval = 0 ∨ capacity = 0 ∨ quantum = 0 then none
  else some { capacity := capacity, quantum := quantum, fillInterval := fillInterval,
              availableTokens := capacity, latestTick := 0 }

def currentTick (b : Bucket) (now : Nat) : Nat := now / b.fillInterval

/-- `adjustavailableTokens(tick)`. -/
def adjust (b : Bucket) (tick : Nat) : Bucket :=
  let b1 := { b with latestTick := tick }
  if b.availableTokens ≥ b.capacity then b1
  else
    let a := b.availableTokens + ((tick : Int) - (b.latestTick : Int)) * b.quantum
    { b1 with availableTokens := if a > b.capacity then b.capacity else a }

/-- `take(now, count, infinityDuration)`: new bucket state and the wait in nanoseconds. -/
def take (b : Bucket) (now : Nat) (count : Int) : Bucket × Nat :=
  if count ≤ 0 then (b, 0)
  else
    let tick := currentTick b now
    let b1 := adjust b tick
    let avail := b1.availableTokens - count
    if avail ≥ 0 then ({ b1 with availableTokens := avail }, 0)
    else
      let endTick := tick + ((-avail).toNat + b.quantum - 1) / b.quantum
      let endTime := endTick * b.fillInterval
      ({ b1 with availableTokens := avail }, endTime - now)

/-- `Available()` at time `now`. -/
def available (b : Bucket) (now : Nat) : Bucket × Int :=
  let b1 := adjust b (currentTick b now)
  (b1, b1.availableTokens)

/-- One `Take` call: clock value inside the mutex, and the count. -/
structure Call where
  now : Nat
  count : Nat
  deriving Repr, DecidableEq

/-- What the caller may do after the call: transfer up to `count` bytes at or after `ready`. -/
structure Grant where
  ready : Nat
  count : Nat
  deriving Repr, DecidableEq

/-- Run a sequence of `Take` calls (in mutex order); grants newest first. -/
def run (b : Bucket) (log : List Grant) : List Call → Bucket × List Grant
  | [] => (b, log)
  | c :: cs =>
    let (b', d) := take b c.now c.count
    run b' ({ ready := c.now + d, count := c.count } :: log) cs

/-- Calls are issued at non-decreasing clock values, starting not before `t0`. -/
def Monotone (t0 : Nat) : List Call → Prop
  | [] => True
  | c :: cs => t0 ≤ c.now ∧ Monotone c.now cs

/-- Tokens granted with `ready ≤ t`. -/
def grantedBy (t : Nat) : List Grant → Nat
  | [] => 0
  | g :: gs => (if g.ready ≤ t then g.count else 0) + grantedBy t gs

/-- A transfer: `bytes` moved at time `time`. -/
structure Transfer where
  time : Nat
  bytes : Nat
  deriving Repr, DecidableEq

def passedBy (t : Nat) : List Transfer → Nat
  | [] => 0
  | x :: xs => (if x.time ≤ t then x.bytes else 0) + passedBy t xs

/-- The use-site discipline: the i-th transfer happens after the i-th grant is ready and moves at
most the granted count (0 if the goroutine was stopped while waiting). -/
def Follows : List Transfer → List Grant → Prop
  | [], [] => True
  | x :: xs, g :: gs => g.ready ≤ x.time ∧ x.bytes ≤ g.count ∧ Follows xs gs
  | _, _ => False

/-- Executable form of the bound, used as the oracle of suite `bucket`:
every prefix of grants (oldest first) fits under `capacity + quantum · tick(ready of its last)`. -/
def boundHolds (capacity quantum fillInterval : Nat) (t : Nat) (gs : List Grant) : Bool :=
  decide (grantedBy t gs ≤ capacity + quantum * (t / fillInterval))

end Rain.TokenBucket
