/-
M-PICK — transliteration of `internal/piecepicker` (piecepicker.go, webseed.go) together with the
parts of `internal/sliceset`, `internal/webseedsource`, `internal/urldownloader` it reads and the
caller protocol of package `torrent` (torrent_start.go, torrent_close.go, torrent_write.go,
torrent_messagehandler.go, torrent_peer.go, torrent_webseed.go) reduced to what the picker sees.

Representation
* `pieces : Nat → Piece` with bound `n` (the Go slice `p.pieces`; an index `≥ n` is an explicit
  `error "index"` outcome, never a silent default), peers `peers : Nat → PeerSt` with bound `np`
  (peer ids are handed out by `connect`; a `*peer.Peer` is its id), web-seed sources
  `srcs : Nat → Option Dl` with bound `ns` (`none` = `src.Downloader == nil`).
* `sliceset.SliceSet` as a duplicate-free `List Nat`: `Add` = `sadd` (append if absent), `Remove` =
  `List.erase`.  The Go `Remove` swaps the last element into the hole; the picker itself only ever
  calls `Has`/`Len` on the four per-piece sets, so the order is not observable through it and the
  dumps are compared sorted (see notes/C09.md).  `ReceivedAllowedFast` is only appended to, its
  order is kept (it decides the non-sequential allowed-fast pick).
* Where Go picks among equals through an unstable `slices.SortFunc` or `math/rand`, the model
  returns the *list of admissible outcomes* (DESIGN 6.1); deterministic steps return one outcome.
* Go panics are `Except.error` outcomes.

Core Lean only.
-/
namespace Rain.Picker

/-- `myPiece` (+ the `Writing`/`Done` flags of the embedded `piece.Piece`). -/
structure Piece where
  having : List Nat := []
  requested : List Nat := []
  snubbed : List Nat := []
  choked : List Nat := []
  /-- `RequestedWebseed` (index into `webseedSources`). -/
  webseed : Option Nat := none
  writing : Bool := false
  done : Bool := false
  head : Bool := false
  tail : Bool := false
  deriving Inhabited, Repr, DecidableEq

/-- `urldownloader.URLDownloader{Begin, End, current}`. -/
structure Dl where
  b : Nat
  e : Nat
  c : Nat
  deriving Inhabited, Repr, DecidableEq

/-- What the picker and the loop glue read/write of a `peer.Peer`, plus the loop's
`pieceDownloaders[pe]` entry (`dl`: piece index and the `AllowedFast` flag of the downloader;
`pe.Downloading` is `dl.isSome`, the loop sets both together). -/
structure PeerSt where
  choking : Bool := true
  dl : Option (Nat × Bool) := none
  af : List Nat := []
  closed : Bool := false
  deriving Inhabited, Repr, DecidableEq

structure State where
  n : Nat
  pieces : Nat → Piece
  np : Nat
  peers : Nat → PeerSt
  ns : Nat
  srcs : Nat → Option Dl
  /-- `maxDuplicateDownload` (the end-game limit). -/
  maxDup : Nat
  /-- `maxWebseedPieces`. -/
  maxWeb : Nat
  available : Nat
  endgame : Bool
  sequential : Bool

abbrev R := Except String

/-! ### sliceset -/

/-- `SliceSet.Add`. -/
def sadd (l : List Nat) (x : Nat) : List Nat := if x ∈ l then l else l ++ [x]

/-- `SliceSet.Remove` as written in Go: the last element is moved into the hole and the slice is
shortened.  The model uses `List.erase`; `removeSwap_perm_erase` (Lemmas) shows the two agree up to
the order of the remaining elements, which the picker never observes (`Has`/`Len` only). -/
def removeSwap : List Nat → Nat → List Nat
  | [], _ => []
  | y :: r, x =>
    if y = x then
      match r.getLast? with
      | none => []
      | some z => z :: r.dropLast
    else y :: removeSwap r x

/-! ### state updates -/

def setPiece (s : State) (i : Nat) (pc : Piece) : State :=
  { s with pieces := fun j => if j = i then pc else s.pieces j }

def setPeer (s : State) (p : Nat) (ps : PeerSt) : State :=
  { s with peers := fun q => if q = p then ps else s.peers q }

def setSrc (s : State) (k : Nat) (d : Option Dl) : State :=
  { s with srcs := fun j => if j = k then d else s.srcs j }

/-! ### per-piece helpers (methods of `myPiece`) -/

def Piece.stalled (pc : Piece) : Nat := pc.snubbed.length + pc.choked.length
def Piece.running (pc : Piece) : Int := (pc.requested.length : Int) - (pc.stalled : Int)
def Piece.availWeb (pc : Piece) : Bool := !(pc.done || pc.writing) && pc.webseed.isNone
/-- `PickableBy`. -/
def Piece.pickable (pc : Piece) (p : Nat) : Bool :=
  !(pc.done || pc.writing) && pc.requested.isEmpty && pc.having.contains p

/-- `uint32` decrement of `available`. -/
def decU32 (a : Nat) : Nat := if a = 0 then 4294967295 else a - 1

/-! ### event handlers (piecepicker.go:215-272) -/

def handleHave (s : State) (p i : Nat) : R State :=
  if i < s.n then
    let pc := s.pieces i
    if p ∈ pc.having then .ok s
    else
      let pc' := { pc with having := pc.having ++ [p] }
      .ok { setPiece s i pc' with available := if pc'.having.length = 1 then s.available + 1 else s.available }
  else .error "index"

def handleAllowedFast (s : State) (p i : Nat) : R State :=
  if i < s.n then
    let ps := s.peers p
    .ok (setPeer s p { ps with af := sadd ps.af i })
  else .error "index"

def handleSnubbed (s : State) (p i : Nat) : R State :=
  if i < s.n then
    let pc := s.pieces i
    if p ∈ pc.choked then .error "peer snubbed while choked"
    else .ok (setPiece s i { pc with snubbed := sadd pc.snubbed p })
  else .error "index"

def handleChoke (s : State) (p i : Nat) : R State :=
  if i < s.n then
    let pc := s.pieces i
    .ok (setPiece s i { pc with snubbed := pc.snubbed.erase p, choked := sadd pc.choked p })
  else .error "index"

def handleUnchoke (s : State) (p i : Nat) : R State :=
  if i < s.n then
    let pc := s.pieces i
    .ok (setPiece s i { pc with choked := pc.choked.erase p })
  else .error "index"

/-- `HandleCancelDownload` on a piece. -/
def Piece.cancel (pc : Piece) (p : Nat) : Piece :=
  { pc with requested := pc.requested.erase p, snubbed := pc.snubbed.erase p, choked := pc.choked.erase p }

def handleCancelDownload (s : State) (p i : Nat) : R State :=
  if i < s.n then .ok (setPiece s i ((s.pieces i).cancel p)) else .error "index"

/-- `removeHavingPeer`. -/
def removeHavingPeer (s : State) (i p : Nat) : State :=
  let pc := s.pieces i
  if p ∈ pc.having then
    let pc' := { pc with having := pc.having.erase p }
    { setPiece s i pc' with available := if pc'.having.length = 0 then decU32 s.available else s.available }
  else s

/-- `HandleDisconnect`: `for i := range p.pieces { HandleCancelDownload(pe,i); removeHavingPeer(i,pe) }`,
pieces `0 … k-1`. -/
def disconnectLoop (p : Nat) : Nat → State → State
  | 0, s => s
  | k + 1, s =>
    let s1 := disconnectLoop p k s
    removeHavingPeer (setPiece s1 k ((s1.pieces k).cancel p)) k p

def handleDisconnect (s : State) (p : Nat) : State := disconnectLoop p s.n s

/-! ### web-seed bookkeeping (piecepicker.go:165-197) -/

/-- `for i := lo; i < lo+fuel; i++ { if pieces[i].RequestedWebseed != src {panic}; … = nil }`.
`deref`: `WebseedStopAt` formats its message with `RequestedWebseed.URL`, so for a piece without
a source the assertion dies with a nil dereference instead of its message. -/
def clearRange (k : Nat) (deref : Bool) : Nat → Nat → State → R State
  | 0, _, s => .ok s
  | fuel + 1, i, s =>
    if i < s.n then
      if (s.pieces i).webseed = some k then
        clearRange k deref fuel (i + 1) (setPiece s i { s.pieces i with webseed := none })
      else if deref && (s.pieces i).webseed.isNone then .error "nil source"
      else .error "invalid source in piece"
    else .error "index"

/-- `CloseWebseedDownloader`. -/
def closeWebseed (s : State) (k : Nat) : R State :=
  match s.srcs k with
  | none => .ok s
  | some d => do
    let s1 ← clearRange k false (d.e - d.b) d.b s
    pure (setSrc s1 k none)

/-- `WebseedStopAt(src, i)`; the Boolean is `closed`. -/
def webseedStopAt (s : State) (k i : Nat) : R (State × Bool) :=
  match s.srcs k with
  | none => .error "nil downloader"
  | some d => do
    let s1 ← clearRange k true (d.e - i) i s
    let s2 := setSrc s1 k (some { d with e := i })
    if d.c ≥ i then do
      let s3 ← closeWebseed s2 k
      pure (s3, true)
    else pure (s2, false)

def downloadingWebseed (s : State) : Bool :=
  (List.range s.ns).any fun k => (s.srcs k).isSome

/-- `getDownloadingSources` (in `webseedSources` order). -/
def downloadingSources (s : State) : List (Nat × Dl) :=
  (List.range s.ns).filterMap fun k => (s.srcs k).map fun d => (k, d)

/-- `WebseedSource.Remaining` (on `Nat`; `c < e` is part of `PickInv`). -/
def Dl.remaining (d : Dl) : Nat := d.e - d.c - 1

/-! ### findGaps (webseed.go:133) -/

/-- Loop state `(inGap, begin, gaps)`, piece index `i`, `fuel = n - i`. -/
def gapsGo (s : State) : Nat → Nat → Bool → Nat → List (Nat × Nat) → Bool × Nat × List (Nat × Nat)
  | 0, _, inGap, b, acc => (inGap, b, acc)
  | fuel + 1, i, inGap, b, acc =>
    if !inGap then
      if (s.pieces i).availWeb then gapsGo s fuel (i + 1) true i acc
      else gapsGo s fuel (i + 1) false b acc
    else
      if !(s.pieces i).availWeb then gapsGo s fuel (i + 1) false b (acc ++ [(b, i)])
      else if i - b = s.maxWeb then gapsGo s fuel (i + 1) true i (acc ++ [(b, i)])
      else gapsGo s fuel (i + 1) true b acc

def findGaps (s : State) : List (Nat × Nat) :=
  match gapsGo s s.n 0 false 0 [] with
  | (true, b, acc) => acc ++ [(b, s.n)]
  | (false, _, acc) => acc

/-! ### choosing among equals -/

/-- Elements of `c` whose key is minimal in `c`: what the first qualifying element of an
(unstably) sorted slice can be. -/
def argmins (key : Nat → Int) (c : List Nat) : List Nat :=
  c.filter fun i => c.all fun j => key i ≤ key j

/-! ### the pick ladder for peers (piecepicker.go:262-460) -/

/-- `pickAllowedFast`: loop over `ReceivedAllowedFast.Items` with accumulator `picked`. -/
def pickAllowedFastLoop (s : State) (p : Nat) : List Nat → Option Nat → Option Nat
  | [], acc => acc
  | i :: rest, acc =>
    if i < s.n && (s.pieces i).pickable p then
      if !s.sequential then some i
      else pickAllowedFastLoop s p rest (match acc with
        | none => some i
        | some k => if i < k then some i else some k)
    else pickAllowedFastLoop s p rest acc

def pickAllowedFast (s : State) (p : Nat) : Option Nat :=
  pickAllowedFastLoop s p (s.peers p).af none

/-- `pickFileEdge`. -/
def pickFileEdge (s : State) (p : Nat) : Option Nat :=
  (List.range s.n).find? fun i => ((s.pieces i).head || (s.pieces i).tail) && (s.pieces i).pickable p

/-- some piece is not done, not writing and unrequested (`hasUnrequested` after a full scan). -/
def hasUnrequested (s : State) : Bool :=
  (List.range s.n).any fun i => !((s.pieces i).done || (s.pieces i).writing) && (s.pieces i).requested.isEmpty

/-- `pickSequential`: outcome state (end-game flag) and pick. -/
def pickSequential (s : State) (p : Nat) : State × Option Nat :=
  match (List.range s.n).find? fun i => (s.pieces i).pickable p with
  | some i => (s, some i)
  | none => (if hasUnrequested s then s else { s with endgame := true }, none)

/-- `pickRarest`: any pickable piece of minimal `|Having|`. -/
def pickRarest (s : State) (p : Nat) : List (State × Option Nat) :=
  let c := (List.range s.n).filter fun i => (s.pieces i).pickable p
  if c.isEmpty then [(if hasUnrequested s then s else { s with endgame := true }, none)]
  else (argmins (fun i => ((s.pieces i).having.length : Int)) c).map fun i => (s, some i)

/-- `pickEndgame`. -/
def pickEndgame (s : State) (p : Nat) : List (Option Nat) :=
  let c := (List.range s.n).filter fun i =>
    let pc := s.pieces i
    !(pc.done || pc.writing) && decide (pc.requested.length < s.maxDup) && pc.having.contains p
  if c.isEmpty then [none] else (argmins (fun i => (s.pieces i).running) c).map some

/-- `pickStalled`. -/
def pickStalled (s : State) (p : Nat) : List (Option Nat) :=
  let c := (List.range s.n).filter fun i =>
    let pc := s.pieces i
    !(pc.done || pc.writing) && !decide (pc.running > 0) && decide (pc.requested.length < s.maxDup) && pc.having.contains p
  if c.isEmpty then [none] else (argmins (fun i => ((s.pieces i).stalled : Int)) c).map some

/-- Inner loop of `pickLastPieceOfSmallestGap` for one gap `[b, b+fuel)`, scanning downwards. -/
def gapScan (s : State) (p : Nat) (b : Nat) : Nat → Option Nat
  | 0 => none
  | f + 1 =>
    let i := b + f
    let pc := s.pieces i
    if pc.requested.isEmpty && pc.having.contains p &&
        (!(s.peers p).choking || (s.peers p).af.contains i) then some i
    else gapScan s p b f

/-- `pickLastPieceOfSmallestGap`: the gaps are sorted by length (unstably); the first gap with a
qualifying piece wins, so any qualifying gap of minimal length among the qualifying ones. -/
def pickLastPieceOfSmallestGap (s : State) (p : Nat) : List Nat :=
  let gaps := findGaps s
  let q := gaps.filterMap fun g => (gapScan s p g.1 (g.2 - g.1)).map fun i => (g.2 - g.1, i)
  (q.filter fun x => q.all fun y => x.1 ≤ y.1).map (·.2)

/-- Inner loop of `peerStealsFromWebseed`: `for i := End-1; i > current; i--`, `i = c + f`. -/
def stealScan (s : State) (p : Nat) (c : Nat) : Nat → Option Nat
  | 0 => none
  | f + 1 => if (s.pieces (c + f + 1)).pickable p then some (c + f + 1) else stealScan s p c f

/-- `peerStealsFromWebseed` over the downloading sources in order. -/
def peerSteals (s : State) (p : Nat) : List (Nat × Dl) → R (State × Option Nat)
  | [] => .ok (s, none)
  | (k, d) :: rest =>
    if d.remaining = 0 then peerSteals s p rest
    else match stealScan s p d.c (d.e - 1 - d.c) with
      | some i => do
        let (s1, _) ← webseedStopAt s k i
        pure (s1, some i)
      | none => peerSteals s p rest

/-- `findPiece`.  `legacy = true` is the ladder before the two `fix:` commits of C09 (8da1edd:
allowed-fast pieces consulted first also for an unchoking peer in sequential mode; 166d17e: the
end-game short path taken before `pickSequential`); `legacy = false` is the code as it is now.  Result: admissible `(state, pick, allowedFast)` outcomes. -/
def findPiece (legacy : Bool) (s : State) (p : Nat) : List (R (State × Option (Nat × Bool))) :=
  let ps := s.peers p
  if ps.dl.isSome then [.ok (s, none)]
  else if downloadingWebseed s then
    if ps.choking then [.ok (s, none)]
    else
      let g := pickLastPieceOfSmallestGap s p
      if !g.isEmpty then g.map fun i => .ok (s, some (i, ps.af.contains i))
      else [ (peerSteals s p (downloadingSources s)).map fun (s1, r) =>
               (s1, r.map fun i => (i, ps.af.contains i)) ]
  else
    match (if s.sequential && !ps.choking then pickFileEdge s p else none) with
    | some i => [.ok (s, some (i, false))]
    | none =>
    match (if legacy || !s.sequential || ps.choking then pickAllowedFast s p else none) with
    | some i => [.ok (s, some (i, true))]
    | none =>
    if ps.choking then [.ok (s, none)]
    else if s.endgame && (legacy || !s.sequential) then (pickEndgame s p).map fun r => .ok (s, r.map (·, false))
    else
      let firsts : List (State × Option Nat) :=
        if s.sequential then [pickSequential s p] else pickRarest s p
      firsts.flatMap fun (s1, r) =>
        match r with
        | some i => [.ok (s1, some (i, !legacy && s.sequential && ps.af.contains i))]
        | none =>
          if s1.endgame then (pickEndgame s1 p).map fun r => .ok (s1, r.map (·, false))
          else (pickStalled s1 p).map fun r => .ok (s1, r.map (·, false))

/-- `PickFor` + `startSinglePieceDownloader`: the pick is recorded in `Requested` and the loop
stores the downloader (`pe.Downloading = true`). -/
def pickFor (legacy : Bool) (s : State) (p : Nat) : List (R (State × Option (Nat × Bool))) :=
  (findPiece legacy s p).map fun r => r.map fun (s1, res) =>
    match res with
    | none => (s1, none)
    | some (i, af) =>
      let pc := s1.pieces i
      let s2 := setPiece s1 i { pc with requested := sadd pc.requested p }
      (setPeer s2 p { s2.peers p with dl := some (i, af) }, some (i, af))

/-! ### PickWebseed (webseed.go:20-110) -/

/-- `webseedStealsFromAnotherWebseed`: any downloading source of maximal `Remaining`. -/
def webseedSteals (s : State) : List (R (State × Option (Nat × Nat))) :=
  let ds := downloadingSources s
  if ds.isEmpty then [.ok (s, none)]
  else
    (ds.filter fun x => ds.all fun y => y.2.remaining ≤ x.2.remaining).map fun (k, d) =>
      let rb := (d.c + d.e + 1) / 2
      if rb ≥ d.e then .ok (s, none)
      else (webseedStopAt s k rb).map fun (s1, _) => (s1, some (rb, d.e))

/-- `findPieceRangeForWebseed`. -/
def findRange (s : State) : List (R (State × Option (Nat × Nat))) :=
  let gaps := findGaps s
  if gaps.isEmpty then webseedSteals s
  else if s.sequential then
    match (List.range s.n).find? fun i => (s.pieces i).tail && (s.pieces i).availWeb with
    | some i => [.ok (s, some (i, i + 1))]
    | none => [.ok (s, gaps.head?)]
  else
    (gaps.filter fun g => gaps.all fun h => h.2 - h.1 ≤ g.2 - g.1).map fun g => .ok (s, some g)

/-- `for i := r.Begin; i < r.End; i++ { if RequestedWebseed != nil {panic}; … = src }`. -/
def markRange (k : Nat) : Nat → Nat → State → R State
  | 0, _, s => .ok s
  | fuel + 1, i, s =>
    if i < s.n then
      if (s.pieces i).webseed.isSome then .error "already downloading from webseed url"
      else markRange k fuel (i + 1) (setPiece s i { s.pieces i with webseed := some k })
    else .error "index"

/-- `PickWebseed(src)` + `startWebseedDownloader` (a fresh downloader with `current = Begin`). -/
def pickWebseed (s : State) (k : Nat) : List (R (State × Option (Nat × Nat))) :=
  (findRange s).map fun r => r.bind fun (s1, res) =>
    match res with
    | none => .ok (s1, none)
    | some (b, e) => do
      let s2 ← markRange k (e - b) b s1
      pure (setSrc s2 k (some ⟨b, e, b⟩), some (b, e))

/-! ### the caller protocol: what the event loop does around the picker -/

/-- `closePieceDownloader(t.pieceDownloaders[pe])`; without a downloader the loop's map lookup
yields nil and `closePieceDownloader` is not called (or returns at `!open`). -/
def cancelPeer (s : State) (p : Nat) : R State :=
  match (s.peers p).dl with
  | none => .ok s
  | some (i, _) => do
    let s1 ← handleCancelDownload s p i
    pure (setPeer s1 p { s1.peers p with dl := none })

/-- `handlePieceWriteDone`, success path: `for _, pe := range RequestedPeers(i) { closePieceDownloader(t.pieceDownloaders[pe]) … }`.
A peer in `Requested` without a downloader would make the loop dereference nil. -/
def cancelAll (s : State) : List Nat → R State
  | [] => .ok s
  | p :: rest =>
    match (s.peers p).dl with
    | none => .error "nil piece downloader"
    | some _ => do
      let s1 ← cancelPeer s p
      cancelAll s1 rest

inductive Op where
  /-- a new `*peer.Peer` (handshake done); its id is `np`. -/
  | connect
  | have (p i : Nat)
  | afast (p i : Nat)
  | unchoke (p : Nat)
  | choke (p : Nat)
  | snub (p : Nat)
  /-- `closePieceDownloader` of the peer's downloader. -/
  | cancel (p : Nat)
  /-- `closePeer`. -/
  | disc (p : Nat)
  /-- `startSinglePieceDownloader`. -/
  | pick (p : Nat)
  /-- last block of the peer's piece arrived: downloader closed, `Writing = true`. -/
  | pdone (p : Nat)
  /-- web-seed result for piece `i` accepted: `Writing = true`. -/
  | wwrite (i : Nat)
  /-- piece writer finished, hash OK; `web` = the source was a URL downloader. -/
  | wok (i : Nat) (web : Bool)
  /-- piece writer finished, hash mismatch: `Writing = false`. -/
  | wfail (i : Nat)
  /-- `startPieceDownloaderForWebseed`. -/
  | pickweb (k : Nat)
  /-- the URL downloader moved on to its next piece (`incrCurrent`). -/
  | wadv (k : Nat)
  /-- `closeWebseedDownloader`. -/
  | closeweb (k : Nat)
  deriving Repr, DecidableEq

inductive Obs where
  | done
  /-- the loop's own guards do not let this call through. -/
  | skip
  | pick (r : Option (Nat × Bool))
  | web (r : Option (Nat × Nat))
  deriving Repr, DecidableEq

def freshPeer : PeerSt := {}

/-- One step of the protocol: all admissible outcomes. -/
def step (legacy : Bool) (s : State) : Op → List (R (State × Obs))
  | .connect => [.ok (setPeer { s with np := s.np + 1 } s.np freshPeer, .done)]
  | .have p i =>
    if p < s.np ∧ (s.peers p).closed = false ∧ i < s.n then [(handleHave s p i).map (·, .done)]
    else [.ok (s, .skip)]
  | .afast p i =>
    if p < s.np ∧ (s.peers p).closed = false ∧ i < s.n then [(handleAllowedFast s p i).map (·, .done)]
    else [.ok (s, .skip)]
  | .unchoke p =>
    if p < s.np ∧ (s.peers p).closed = false then
      let s1 := setPeer s p { s.peers p with choking := false }
      match (s.peers p).dl with
      | some (i, false) => [(handleUnchoke s1 p i).map (·, .done)]
      | _ => [.ok (s1, .done)]
    else [.ok (s, .skip)]
  | .choke p =>
    if p < s.np ∧ (s.peers p).closed = false then
      let s1 := setPeer s p { s.peers p with choking := true }
      match (s.peers p).dl with
      | some (i, false) => [(handleChoke s1 p i).map (·, .done)]
      | _ => [.ok (s1, .done)]
    else [.ok (s, .skip)]
  | .snub p =>
    if p < s.np ∧ (s.peers p).closed = false then
      match (s.peers p).dl with
      | some (i, _) =>
        if (s.peers p).choking then [.ok (s, .skip)]
        else [(handleSnubbed s p i).map (·, .done)]
      | none => [.ok (s, .skip)]
    else [.ok (s, .skip)]
  | .cancel p =>
    if p < s.np ∧ (s.peers p).closed = false then [(cancelPeer s p).map (·, .done)]
    else [.ok (s, .skip)]
  | .disc p =>
    if p < s.np ∧ (s.peers p).closed = false then
      [(cancelPeer s p).map fun s1 =>
        let s2 := handleDisconnect s1 p
        (setPeer s2 p { s2.peers p with closed := true }, .done)]
    else [.ok (s, .skip)]
  | .pick p =>
    if p < s.np ∧ (s.peers p).closed = false then
      (pickFor legacy s p).map fun r => r.map fun (s1, res) => (s1, .pick res)
    else [.ok (s, .skip)]
  | .pdone p =>
    if p < s.np ∧ (s.peers p).closed = false then
      match (s.peers p).dl with
      | some (i, _) =>
        if (s.pieces i).writing || (s.pieces i).done then [.ok (s, .skip)]
        else [(cancelPeer s p).map fun s1 => (setPiece s1 i { s1.pieces i with writing := true }, .done)]
      | none => [.ok (s, .skip)]
    else [.ok (s, .skip)]
  | .wwrite i =>
    if i < s.n ∧ (s.pieces i).writing = false ∧ (s.pieces i).done = false then
      [.ok (setPiece s i { s.pieces i with writing := true }, .done)]
    else [.ok (s, .skip)]
  | .wok i web =>
    if i < s.n ∧ (s.pieces i).writing = true ∧ (s.pieces i).done = false then
      let s1 := setPiece s i { s.pieces i with writing := false, done := true }
      let r1 : R State :=
        match web, (s1.pieces i).webseed with
        | false, some k => (webseedStopAt s1 k i).map (·.1)
        | _, _ => .ok s1
      [r1.bind fun s2 => (cancelAll s2 (s2.pieces i).requested).map (·, .done)]
    else [.ok (s, .skip)]
  | .wfail i =>
    if i < s.n ∧ (s.pieces i).writing = true then
      [.ok (setPiece s i { s.pieces i with writing := false }, .done)]
    else [.ok (s, .skip)]
  | .pickweb k =>
    if k < s.ns ∧ (s.srcs k).isNone then
      (pickWebseed s k).map fun r => r.map fun (s1, res) => (s1, .web res)
    else [.ok (s, .skip)]
  | .wadv k =>
    if k < s.ns then
      match s.srcs k with
      | some d => if d.c + 1 < d.e then [.ok (setSrc s k (some { d with c := d.c + 1 }), .done)] else [.ok (s, .skip)]
      | none => [.ok (s, .skip)]
    else [.ok (s, .skip)]
  | .closeweb k =>
    if k < s.ns then [(closeWebseed s k).map (·, .done)] else [.ok (s, .skip)]

/-! ### construction (`piecepicker.New`) -/

/-- A file section of a piece as `markFileEdges` reads it. -/
structure Sec where
  name : Nat
  off : Nat
  len : Nat
  pad : Bool
  deriving Repr, DecidableEq, Inhabited

def maxFileEdgeSize : Nat := 8 * 1024 * 1024

def fileEdgeSize (size : Nat) : Nat := max (min (size / 100) maxFileEdgeSize) 1

/-- `sizes[name]` of `markFileEdges`. -/
def fileSize (secs : List (List Sec)) (name : Nat) : Nat :=
  (secs.flatten.filter fun x => !x.pad && x.name = name).foldl (fun m x => max m (x.off + x.len)) 0

/-- `markFileEdges`: `(FileHead, FileTail)` of a piece. -/
def fileEdges (all : List (List Sec)) (mine : List Sec) : Bool × Bool :=
  let ds := mine.filter fun x => !x.pad
  (ds.any fun x => x.off < fileEdgeSize (fileSize all x.name),
   ds.any fun x => x.off + x.len + fileEdgeSize (fileSize all x.name) > fileSize all x.name)

/-- `piecepicker.New` on pieces with the given `Done` flags and edge flags. -/
def init (flags : List (Bool × Bool × Bool)) (maxDup ns : Nat) (sequential : Bool) : State :=
  { n := flags.length
    pieces := fun i =>
      match flags[i]? with
      | some (d, h, t) => { done := d, head := sequential && h, tail := sequential && t }
      | none => {}
    np := 0
    peers := fun _ => freshPeer
    ns := ns
    srcs := fun _ => none
    maxDup := maxDup
    maxWeb := if flags.length / 20 = 0 then 1 else flags.length / 20
    available := 0
    endgame := false
    sequential := sequential }

end Rain.Picker
