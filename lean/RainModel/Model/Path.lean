/-
M-PATH — byte-level model of the path handling of cenkalti/rain (C07).

Go anchors
* `internal/metainfo/info.go`: `cleanName`/`cleanNameN`, `trimName`, `replaceSeparator`, the
  `strings.TrimSpace(path) == ".."` rejection, `filepath.Join(parts...)`;
* `internal/storage/filestorage/filestorage.go`: `Open` (`Clean(name)`, `Join(dest, name)`);
* `torrent/session_storage.go`: `getDataDir` (`Join(DataDir, torrentID)`);
* `torrent/session_move_torrent.go`: `readData` (`Join(dir, hdr.Name)` + `HasPrefix(name, dir+"/")`).

Standard-library functions the logic runs through are modelled here and validated by the `paths`
suite like our own code: `utf8.DecodeRune` (well-formedness table), `strings.ToValidUTF8` (the
slow loop; the fast path returns the same value), `path.Ext`, `strings.TrimSpace`
(`unicode.IsSpace` on decoded runes, from the left and from the right), `filepath.Clean` /
`filepath.Join` on Unix (component level: split on `/`, fold with a stack — the lexical algorithm
of `Clean` expressed on components).

Strings are `List Nat` (bytes; every value ≥ 0x80 that is not part of a well-formed sequence is an
invalid byte, so values ≥ 256 are harmless). Core Lean only.
-/
namespace Rain.Path

abbrev Bytes := List Nat

def SLASH : Nat := 0x2F
def DOT : Nat := 0x2E
def UNDERSCORE : Nat := 0x5F
/-- `".."` -/
def dotdot : Bytes := [0x2E, 0x2E]
/-- `"."` -/
def dot : Bytes := [0x2E]
/-- `string(unicode.ReplacementChar)` = U+FFFD = EF BF BD. -/
def replacementChar : Bytes := [0xEF, 0xBF, 0xBD]

/-! ### UTF-8 decoding (`utf8.DecodeRuneInString`) -/

def isCont (b : Nat) : Bool := 0x80 ≤ b && b ≤ 0xBF

/-- Width of the well-formed UTF-8 sequence at the head of `s`; `0` when the head is not the
start of a well-formed sequence (Go: `(RuneError, 1)`) or `s` is empty.  Unicode table 3-7, the
same acceptance ranges as Go's `first`/`acceptRanges` tables. -/
def runeLen : Bytes → Nat
  | [] => 0
  | c0 :: t =>
    if c0 < 0x80 then 1
    else if c0 < 0xC2 then 0
    else if c0 < 0xE0 then
      match t with
      | c1 :: _ => if isCont c1 then 2 else 0
      | _ => 0
    else if c0 < 0xF0 then
      match t with
      | c1 :: c2 :: _ =>
        if (if c0 = 0xE0 then 0xA0 else 0x80) ≤ c1 && c1 ≤ (if c0 = 0xED then 0x9F else 0xBF) && isCont c2
        then 3 else 0
      | _ => 0
    else if c0 < 0xF5 then
      match t with
      | c1 :: c2 :: c3 :: _ =>
        if (if c0 = 0xF0 then 0x90 else 0x80) ≤ c1 && c1 ≤ (if c0 = 0xF4 then 0x8F else 0xBF)
            && isCont c2 && isCont c3
        then 4 else 0
      | _ => 0
    else 0

/-- `strings.ToValidUTF8(s, repl)`, the slow loop: ASCII bytes and well-formed sequences are
copied, every maximal run of invalid bytes is replaced by one `repl`.  `inv` = "previous byte was
from an invalid sequence".  Fuel: one unit per loop iteration (`s.length` suffices). -/
def toValidAux (repl : Bytes) : Nat → Bool → Bytes → Bytes
  | 0, _, _ => []
  | _ + 1, _, [] => []
  | f + 1, inv, c :: rest =>
    if c < 0x80 then c :: toValidAux repl f false rest
    else
      let w := runeLen (c :: rest)
      if w = 0 then (if inv then [] else repl) ++ toValidAux repl f true rest
      else (c :: rest).take w ++ toValidAux repl f false ((c :: rest).drop w)

def toValidUTF8 (s repl : Bytes) : Bytes := toValidAux repl s.length false s

/-! ### `cleanName` -/

/-- `path.Ext` scanning a reversed string: the suffix from the last `.` of the last
slash-separated element, or empty. -/
def extAux : Bytes → Bytes → Bytes
  | [], _ => []
  | c :: rest, acc =>
    if c = SLASH then [] else if c = DOT then c :: acc else extAux rest (c :: acc)

def pathExt (s : Bytes) : Bytes := extAux s.reverse []

/-- `trimName(s, max)`: keep the extension, cut the stem (a raw byte cut). -/
def trimName (s : Bytes) (max : Nat) : Bytes :=
  if s.length ≤ max then s
  else
    let ext := pathExt s
    if ext.length > max then s.take max
    else s.take (max - ext.length) ++ ext

/-- `replaceSeparator`: `strings.Map` turning `/` into `_`.  Its argument is always valid UTF-8
(output of `ToValidUTF8(·, "")`, lemma `toValid_valid`), on which `strings.Map` is a byte map. -/
def replaceSeparator (s : Bytes) : Bytes := s.map fun b => if b = SLASH then UNDERSCORE else b

def cleanNameN (s : Bytes) (max : Nat) : Bytes :=
  let s := toValidUTF8 s replacementChar
  let s := trimName s max
  let s := toValidUTF8 s []
  replaceSeparator s

def cleanName (s : Bytes) : Bytes := cleanNameN s 255

/-! ### `strings.TrimSpace` -/

def asciiSpace (c : Nat) : Bool := c = 9 || c = 10 || c = 11 || c = 12 || c = 13 || c = 32

/-- Length of the encoding of a `unicode.IsSpace` rune at the head of `s`, `0` if none.
White_Space: U+0009–000D, 0020, 0085, 00A0, 1680, 2000–200A, 2028, 2029, 202F, 205F, 3000. -/
def wsLen : Bytes → Nat
  | [] => 0
  | c :: rest =>
    if asciiSpace c then 1 else
    match c, rest with
    | 0xC2, c1 :: _ => if c1 = 0x85 || c1 = 0xA0 then 2 else 0
    | 0xE1, c1 :: c2 :: _ => if c1 = 0x9A && c2 = 0x80 then 3 else 0
    | 0xE2, c1 :: c2 :: _ =>
      if c1 = 0x80 && ((0x80 ≤ c2 && c2 ≤ 0x8A) || c2 = 0xA8 || c2 = 0xA9 || c2 = 0xAF) then 3
      else if c1 = 0x81 && c2 = 0x9F then 3 else 0
    | 0xE3, c1 :: c2 :: _ => if c1 = 0x80 && c2 = 0x80 then 3 else 0
    | _, _ => 0

/-- The same for the *last* rune (`utf8.DecodeLastRuneInString`), on the reversed string. -/
def wsLenRev : Bytes → Nat
  | [] => 0
  | c :: rest =>
    if asciiSpace c then 1 else
    match rest with
    | c1 :: rest1 =>
      if c1 = 0xC2 && (c = 0x85 || c = 0xA0) then 2 else
      match rest1 with
      | c2 :: _ => if wsLen [c2, c1, c] = 3 then 3 else 0
      | _ => 0
    | _ => 0

def trimLeftWs : Nat → Bytes → Bytes
  | 0, s => s
  | f + 1, s => let w := wsLen s; if w = 0 then s else trimLeftWs f (s.drop w)

def trimRightWsRev : Nat → Bytes → Bytes
  | 0, s => s
  | f + 1, s => let w := wsLenRev s; if w = 0 then s else trimRightWsRev f (s.drop w)

def trimSpace (s : Bytes) : Bytes :=
  let l := trimLeftWs s.length s
  (trimRightWsRev l.length l.reverse).reverse

/-- The rejection test of `NewInfo`: `strings.TrimSpace(p) == ".."`. -/
def isDotDotName (p : Bytes) : Bool := trimSpace p == dotdot

/-- The name test of the repaired `NewInfo`: `TrimSpace(name)` is `".."` or `"."`. -/
def isDotOrDotDotName (p : Bytes) : Bool := trimSpace p == dotdot || trimSpace p == dot

/-! ### `filepath.Clean` / `filepath.Join` (Unix) -/

/-- `strings.Split(s, "/")`. -/
def splitSlash : Bytes → List Bytes
  | [] => [[]]
  | c :: rest =>
    if c = SLASH then [] :: splitSlash rest
    else match splitSlash rest with
      | [] => [[c]]
      | h :: t => (c :: h) :: t

def joinSlash : List Bytes → Bytes
  | [] => []
  | [a] => a
  | a :: rest => a ++ SLASH :: joinSlash rest

/-- One component of `Clean`'s scan; the stack holds the output components, newest first. -/
def cleanStep (rooted : Bool) (st : List Bytes) (c : Bytes) : List Bytes :=
  if c = [] || c = dot then st
  else if c = dotdot then
    match st with
    | top :: below => if top = dotdot then c :: st else below
    | [] => if rooted then [] else [c]
  else c :: st

def cleanComps (rooted : Bool) (comps : List Bytes) : List Bytes :=
  (comps.foldl (cleanStep rooted) []).reverse

def fpClean (p : Bytes) : Bytes :=
  match p with
  | [] => dot
  | c :: _ =>
    let rooted := c = SLASH
    let body := joinSlash (cleanComps rooted (splitSlash p))
    if rooted then SLASH :: body else if body = [] then dot else body

/-- `filepath.Join`: skip leading empty elements, join the rest with `/`, `Clean`. -/
def fpJoin (elems : List Bytes) : Bytes :=
  match elems.dropWhile (· = []) with
  | [] => []
  | l => fpClean (joinSlash l)

/-! ### Storage and archive joins -/

/-- `filestorage.(*FileStorage).Open`: the path handed to the OS. `dest` is `filepath.Abs` of
the data directory (absolute and clean). -/
def storagePath (dest name : Bytes) : Bytes := fpJoin [dest, fpClean name]

/-- `fileStorageProvider.getDataDir`. -/
def dataDirOf (dataDir id : Bytes) (includesID : Bool) : Bytes :=
  if includesID then fpJoin [dataDir, id] else dataDir

def isPrefixOfB : Bytes → Bytes → Bool
  | [], _ => true
  | _ :: _, [] => false
  | a :: as, b :: bs => a = b && isPrefixOfB as bs

/-- One entry of `readData`: the file it will create, or `none` when the entry is refused
(`tar entry … escapes destination directory`). -/
def tarTarget (dir hdrName : Bytes) : Option Bytes :=
  let d := fpClean dir
  let name := fpJoin [d, hdrName]
  if isPrefixOfB (d ++ [SLASH]) name then some name else none

/-! ### Confinement, stated on components (shared by theorems and oracles) -/

/-- `p` names something strictly below the directory it is resolved against: relative, and every
slash-separated component is a real name (non-empty, not `.`, not `..`). -/
def Confined (p : Bytes) : Bool :=
  (splitSlash p).all fun c => c ≠ [] && c ≠ dot && c ≠ dotdot

/-- `p` is `root` followed by `/` and a confined relative path: component-wise below `root`. -/
def Under (root p : Bytes) : Bool :=
  isPrefixOfB (root ++ [SLASH]) p && Confined (p.drop (root.length + 1))

end Rain.Path
