import RainModel.Model.Path
/-
M-VALID — transliteration of the checks of `metainfo.NewInfo` (internal/metainfo/info.go) as a
decision function over already-decoded fields, `parsePrivateField`, and the session limit guards
(`parseMetaInfo` in torrent/session_add.go, `parseInfo` in torrent/session_load.go — also used for
peer-supplied info by torrent/torrent_metadataextension.go).

Integer widths: `PieceLength` is `uint32`, `NumPieces` is `uint32(len(pieces)/20)`, lengths are
`int64`.  `int64` arithmetic is modelled on `Int` with an explicit `wrap64` wherever Go would wrap,
so "the sum wrapped" is a behaviour of the model, not an assumption.

`newInfo` is the model of the code after the `fix:` commit (negative lengths, overflowing sums and
the dot-dot *name* are rejected); `newInfoPre` is the code as it was, kept for the counterexample
theorems.  Core Lean only.
-/
namespace Rain.Validate
open Rain.Path

/-! ### int64 -/

def two63 : Int := 9223372036854775808
def two64 : Int := 18446744073709551616
def two32 : Nat := 4294967296
def maxInt64 : Int := 9223372036854775807

/-- Two's-complement wrap of a mathematical integer into `int64`. -/
def wrap64 (x : Int) : Int := (x + two63) % two64 - two63

def inInt64 (x : Int) : Bool := -two63 ≤ x && x ≤ maxInt64

/-! ### Decoded input (what `bencode.DecodeBytes(b, &ib)` produced) -/

/-- `metainfo.file`. -/
structure FileIn where
  length : Int            -- int64
  path : List Bytes
  pathUtf8 : List Bytes
  attr : Bytes
  deriving Repr, DecidableEq, Inhabited

/-- `metainfo.infoType`, with the piece string reduced to its length. -/
structure InfoIn where
  pieceLength : Nat       -- uint32
  piecesLen : Nat         -- len(ib.Pieces)
  name : Bytes
  nameUtf8 : Bytes
  priv : Bytes            -- bencode.RawMessage
  length : Int            -- int64, single-file mode
  files : List FileIn
  deriving Repr, DecidableEq, Inhabited

/-- `metainfo.File`. -/
structure FileOut where
  length : Int
  path : Bytes
  padding : Bool
  deriving Repr, DecidableEq, Inhabited

/-- `metainfo.Info` (the fields a consumer reads). -/
structure InfoOut where
  pieceLength : Nat
  numPieces : Nat
  length : Int
  padding : Int
  name : Bytes
  priv : Bool
  files : List FileOut
  deriving Repr, DecidableEq, Inhabited

inductive Reject where
  | zeroPieceLength | pieceData | zeroPieces | dotdot | negativeLength | lengthOverflow | duplicate
  deriving Repr, DecidableEq, Inhabited

def Reject.toString : Reject → String
  | .zeroPieceLength => "zero-piece-length"
  | .pieceData => "piece-data"
  | .zeroPieces => "zero-pieces"
  | .dotdot => "dotdot"
  | .negativeLength => "negative-length"
  | .lengthOverflow => "length-overflow"
  | .duplicate => "duplicate"

/-! ### `parsePrivateField` -/

def isDigit (c : Nat) : Bool := 0x30 ≤ c && c ≤ 0x39

def digitsVal (ds : Bytes) : Nat := ds.foldl (fun a d => a * 10 + (d - 0x30)) 0

/-- `strconv.ParseInt(s, 10, 64)`: optional sign, at least one digit, digits only, in range. -/
def parseInt64 (s : Bytes) : Option Int :=
  let (neg, ds) := match s with
    | 0x2D :: r => (true, r)
    | 0x2B :: r => (false, r)
    | r => (false, r)
  if ds.isEmpty || !ds.all isDigit then none
  else
    let v : Int := digitsVal ds
    let v := if neg then -v else v
    if inInt64 v then some v else none

/-- `strconv.ParseUint(s, 10, 64)`: no sign. -/
def parseUint64 (s : Bytes) : Option Nat :=
  if s.isEmpty || !s.all isDigit then none
  else
    let v := digitsVal s
    if (v : Int) < two64 then some v else none

def takeUntil (d : Nat) : Bytes → Option (Bytes × Bytes)
  | [] => none
  | c :: rest => if c = d then some ([], rest) else
    match takeUntil d rest with
    | some (a, b) => some (c :: a, b)
    | none => none

/-- `parsePrivateField(raw)`: raw is one bencode value as scanned by the decoder in raw mode. -/
def parsePrivate (raw : Bytes) : Bool :=
  match raw with
  | [] => false
  | c :: rest =>
    if c = 0x69 then   -- 'i': integer, else (as a string) an error => true
      match takeUntil 0x65 rest with
      | some (ds, _) => match parseInt64 ds with
        | some v => v ≠ 0
        | none => true
      | none => true
    else if isDigit c then   -- string
      match takeUntil 0x3A raw with
      | some (ds, body) =>
        match parseInt64 ds with   -- ParseInt(…, 10, 32); lengths here are tiny
        | some n =>
          let s := body.take n.toNat
          if n < 0 || body.length < n.toNat then true else (s ≠ [] && s ≠ [0x30])
        | none => true
      | none => true
    else true   -- list / dict: both decodes fail

/-! ### `NewInfo` -/

/-- `(*infoType).overrideUTF8Keys` on one file. -/
def FileIn.effPath (utf8 : Bool) (f : FileIn) : List Bytes :=
  if utf8 && !f.pathUtf8.isEmpty then f.pathUtf8 else f.path

/-- `"_____padding_file"` -/
def paddingPrefix : Bytes :=
  [0x5F, 0x5F, 0x5F, 0x5F, 0x5F, 0x70, 0x61, 0x64, 0x64, 0x69, 0x6E, 0x67, 0x5F, 0x66, 0x69, 0x6C, 0x65]

/-- `(*file).isPadding` (on the path after the UTF-8 override). -/
def isPaddingFile (attr : Bytes) (path : List Bytes) : Bool :=
  attr.contains 0x70 ||
  match path.getLast? with
  | some l => isPrefixOfB paddingPrefix l
  | none => false

/-- The length loop of the repaired code: reject a negative length, reject a sum that leaves
`int64`; otherwise accumulate `Length` and `Padding`. -/
def sumLengths : List (Int × Bool) → Int → Int → Except Reject (Int × Int)
  | [], len, pad => .ok (len, pad)
  | (l, isPad) :: rest, len, pad =>
    if l < 0 then .error .negativeLength
    else if l > maxInt64 - len then .error .lengthOverflow
    else sumLengths rest (len + l) (if isPad then pad + l else pad)

/-- The length loop as it was: wrapping `+=`. -/
def sumLengthsPre : List (Int × Bool) → Int → Int → Int × Int
  | [], len, pad => (len, pad)
  | (l, isPad) :: rest, len, pad =>
    sumLengthsPre rest (wrap64 (len + l)) (if isPad then wrap64 (pad + l) else pad)

/-- `delta >= int64(PieceLength) || delta < 0` with Go's wrapping subtraction. -/
def deltaBad (pl np : Nat) (len : Int) : Bool :=
  let total : Int := wrap64 ((pl : Int) * (np : Int))
  let delta := wrap64 (total - len)
  delta ≥ (pl : Int) || delta < 0

/-- The "construct files" loop: join cleaned parts, refuse a repeated non-padding path. -/
def buildFiles (pad : Bool) (cname : Bytes) :
    List (Int × List Bytes × Bool) → List Bytes → List FileOut → Except Reject (List FileOut)
  | [], _, acc => .ok acc.reverse
  | (l, path, isPadF) :: rest, seen, acc =>
    let joined := fpJoin (cname :: path.map cleanName)
    let isPad := pad && isPadF
    if !isPad && seen.contains joined then .error .duplicate
    else buildFiles pad cname rest (if isPad then seen else joined :: seen)
          ({ length := l, path := joined, padding := isPad } :: acc)

/-- Parameters of a call: the two flags of `NewInfo` and the SHA-1 of the info bytes rendered in
hex (external function; used as the name when the `name` key is empty). -/
structure Params where
  utf8 : Bool
  pad : Bool
  hashHex : Bytes
  deriving Repr, DecidableEq, Inhabited

/-- The files of the decoded dictionary as the later loops see them:
`(length, path after the UTF-8 override, isPadding())`. -/
def effFiles (utf8 : Bool) (ib : InfoIn) : List (Int × List Bytes × Bool) :=
  ib.files.map fun f =>
    let path := f.effPath utf8
    (f.length, path, isPaddingFile f.attr path)

def effName (utf8 : Bool) (ib : InfoIn) : Bytes :=
  if utf8 && !ib.nameUtf8.isEmpty then ib.nameUtf8 else ib.name

/-- `i.Length` / `i.Padding` as computed by the length loop (multi-file) or taken from the
`length` key (single-file). -/
def lengthsOf (fixed : Bool) (files : List (Int × List Bytes × Bool)) (single : Int) :
    Except Reject (Int × Int) :=
  if files.isEmpty then .ok (single, 0)
  else if fixed then sumLengths (files.map fun f => (f.1, f.2.2)) 0 0
  else .ok (sumLengthsPre (files.map fun f => (f.1, f.2.2)) 0 0)

/-- Shared body, in the statement order of the Go function; `fixed = false` gives the code
before the `fix:` commit. -/
def newInfoWith (fixed : Bool) (p : Params) (ib : InfoIn) : Except Reject InfoOut :=
  if ib.pieceLength = 0 then .error .zeroPieceLength else
  if ib.piecesLen % 20 ≠ 0 then .error .pieceData else
  if ib.piecesLen / 20 = 0 then .error .zeroPieces else
  let name := effName p.utf8 ib
  let files := effFiles p.utf8 ib
  -- ".." is not allowed in file names
  if fixed && isDotOrDotDotName name then .error .dotdot else
  if files.any (fun f => f.2.1.any isDotDotName) then .error .dotdot else
  let np32 := (ib.piecesLen / 20) % two32      -- uint32(numPieces)
  match lengthsOf fixed files ib.length with
  | .error e => .error e
  | .ok (length, padding) =>
    if deltaBad ib.pieceLength np32 length then .error .pieceData else
    let name := if name ≠ [] then name else p.hashHex
    let outFiles :=
      if files.isEmpty then .ok [{ length := length, path := cleanName name, padding := false }]
      else buildFiles p.pad (cleanName name) files [] []
    match outFiles with
    | .error e => .error e
    | .ok fs =>
      .ok { pieceLength := ib.pieceLength, numPieces := np32, length := length, padding := padding,
            name := name, priv := parsePrivate ib.priv, files := fs }

/-- `metainfo.NewInfo` after decoding (repaired code). -/
def newInfo : Params → InfoIn → Except Reject InfoOut := newInfoWith true

/-- `metainfo.NewInfo` as it was before the `fix:` commits. -/
def newInfoPre : Params → InfoIn → Except Reject InfoOut := newInfoWith false

/-! ### Well-formedness (theorem conclusion and oracle) -/

def sumInt : List Int → Int
  | [] => 0
  | a :: r => a + sumInt r

/-- The description a consumer (`piece.NewPieces`, allocator, verifier) may rely on. -/
def WF (o : InfoOut) : Bool :=
  0 < o.pieceLength && o.pieceLength < two32 &&
  1 ≤ o.numPieces && o.numPieces < two32 &&
  !o.files.isEmpty &&
  o.files.all (fun f => 0 ≤ f.length) &&
  sumInt (o.files.map (·.length)) == o.length &&          -- the true (non-wrapping) sum
  o.length ≤ maxInt64 &&
  ((o.numPieces : Int) - 1) * (o.pieceLength : Int) < o.length &&
  o.length ≤ (o.numPieces : Int) * (o.pieceLength : Int) &&
  0 ≤ o.padding && o.padding ≤ o.length

/-- "accepted, but the description is not well-formed" — what the oracle reports and what the
counterexample theorems exhibit for the code as it was. -/
def acceptedNotWF (r : Except Reject InfoOut) : Bool :=
  match r with
  | .ok o => !WF o
  | .error _ => false

/-! ### Session limits -/

/-- `io.LimitReader(r, MaxTorrentSize)`: the decoder sees at most that many bytes. -/
def limitRead (maxTorrentSize : Nat) (body : Bytes) : Bytes := body.take maxTorrentSize

/-- The guard shared by `Session.parseMetaInfo` and `Session.parseInfo`:
`if NumPieces > MaxPieces { reject }`. -/
def piecesGuard (maxPieces : Nat) (o : InfoOut) : Except Unit InfoOut :=
  if o.numPieces > maxPieces then .error () else .ok o

/-- `addURL`: `if resp.ContentLength > MaxTorrentSize { reject }` (ContentLength may be −1 =
unknown) before the limited read. -/
def contentLengthGuard (maxTorrentSize : Nat) (contentLength : Int) : Bool :=
  contentLength > (maxTorrentSize : Int)

/-- `parseInfo`'s version switch: which `(utf8, pad)` flags resume data / peer info are parsed with. -/
def versionFlags (version : Int) : Option (Bool × Bool) :=
  if version = 1 then some (false, false)
  else if version = 2 then some (true, false)
  else if version = 3 then some (true, true)
  else none

/-- Session-level parse of an info dictionary (resume data, peer-supplied): `parseInfo`. -/
def sessionParseInfo (maxPieces : Nat) (version : Int) (hashHex : Bytes) (ib : InfoIn) :
    Option InfoOut :=
  match versionFlags version with
  | none => none
  | some (u, pd) =>
    match newInfo { utf8 := u, pad := pd, hashHex := hashHex } ib with
    | .error _ => none
    | .ok o => match piecesGuard maxPieces o with
      | .ok o => some o
      | .error _ => none

/-- Session-level parse of a metainfo file (`.torrent`, URL body): `parseMetaInfo` after
`metainfo.New` (which calls `NewInfo(info, true, true)`). -/
def sessionParseMetaInfo (maxPieces : Nat) (hashHex : Bytes) (ib : InfoIn) : Option InfoOut :=
  match newInfo { utf8 := true, pad := true, hashHex := hashHex } ib with
  | .error _ => none
  | .ok o => match piecesGuard maxPieces o with
    | .ok o => some o
    | .error _ => none

end Rain.Validate
