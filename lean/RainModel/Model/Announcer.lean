/-
M-ANN — `announcer.PeriodicalAnnouncer` (internal/announcer/periodic.go, announce.go) as an event
machine with explicit time stamps, and the stop filter of `torrent.stop` (torrent/torrent_stop.go)
with `announcer.StopAnnouncer` (stop.go).

One `In` per `case` of the `select` in `Run` (plus the prologue `start`); `step` is the body of
that case, in the same order of assignments.  Time is an `Int` in an arbitrary unit (the suite uses
microseconds); durations may have any sign.  The Go timer is `timer : Option Int` (deadline;
`none` = never armed / already consumed); `resetTimer(d)` sets the deadline to `now + d`, and a
deadline in the past fires at once, exactly like `time.Timer.Reset` with `d ≤ 0`.  A `timer`
input before its deadline, any input before `start` or after `close`, and a `completed` input
when `completedC` is nil cannot happen in Go; here they are no-ops, so theorems may quantify over
*all* input lists.

Outcomes of the announce goroutine (`announce.go`) are mapped to inputs by `deliver`: the repaired
code drops a `context.Canceled` only when the announcer's own context is cancelled; a foreign
cancellation (the UDP connect shared with a torrent that was just stopped) arrives on `errC`.
`deliverStale` is the pre-fix mapping (every `context.Canceled` dropped).

The repaired response branch replaces a non-positive interval by `minInterval` (pre-fix:
`interval := resp.Interval` unconditionally, `stepStale`).

`backoff.ExponentialBackOff` (cenkalti/backoff v7; Multiplier 2, RandomizationFactor 0.5): the
randomised value is an input `bo`, admissible when `boAdmissible cur bo`; `boNext` is
`incrementCurrentInterval`.

Core Lean only.
-/
namespace Rain.Announcer

inductive Status where
  | notContactedYet | contacting | working | notWorking
  deriving Repr, DecidableEq, Inhabited

/-- `tracker.Event`. -/
inductive Event where
  | none | completed | started | stopped
  deriving Repr, DecidableEq, Inhabited

/-- Constructor arguments that matter: the client's minimum announce interval and the back-off
parameters (`InitialInterval` 5 s, `MaxInterval` 30 min in production). -/
structure Cfg where
  clientMin : Int
  boInit : Int
  boMax : Int
  deriving Repr, DecidableEq

structure St where
  status : Status
  interval : Int
  minInterval : Int
  needMore : Bool
  /-- `a.completedC != nil` -/
  completedArmed : Bool
  hasAnnounced : Bool
  lastAnnounce : Int
  timer : Option Int
  /-- `backoff.currentInterval` -/
  boCur : Int
  /-- between the prologue of `Run` and `closeC` -/
  running : Bool
  closed : Bool
  deriving Repr, DecidableEq

/-- `NewPeriodicalAnnouncer`. -/
def init (c : Cfg) : St :=
  { status := .notContactedYet, interval := 0, minInterval := c.clientMin, needMore := false,
    completedArmed := true, hasAnnounced := false, lastAnnounce := 0, timer := none, boCur := 0,
    running := false, closed := false }

/-- An announce handed to the tracker: event, time (`a.lastAnnounce`), and — for stating gap
properties — the time of the previous announce and the status the announcer was in when this one
was triggered (`working` = the previous announce was answered by a reply, `notWorking` = by an
error). `cancelsPrev`: the outstanding announce's context was cancelled first. -/
structure Ann where
  ev : Event
  time : Int
  prevAt : Int
  after : Status
  cancelsPrev : Bool
  deriving Repr, DecidableEq

inductive In where
  /-- prologue of `Run`; `completedAlready` = `completedC` was already closed -/
  | start (completedAlready : Bool)
  /-- `<-timer.C` -/
  | timer
  /-- `resp := <-a.responseC`, durations as the tracker object delivered them (0 = absent) -/
  | response (interval minInterval : Int)
  /-- `err := <-a.errC`; `retryIn` = `RetryIn` of a `*tracker.Error`, else 0; `bo` = what
  `NextBackOff()` returns if it is called -/
  | error (retryIn bo : Int)
  /-- `NeedMorePeers(v)`: the flag is written under the mutex at once … -/
  | setNeed (v : Bool)
  /-- … and the loop later takes the signal from `needMorePeersC` -/
  | needSignal
  /-- `<-a.completedC` -/
  | completed
  /-- `<-a.closeC` -/
  | close
  deriving Repr, DecidableEq

def getNextInterval (s : St) : Int := if s.needMore then s.minInterval else s.interval

def resetTimer (s : St) (now d : Int) : St := { s with timer := some (now + d) }

def doAnnounce (s : St) (now : Int) (ev : Event) (cancels : Bool) : St × List Ann :=
  ({ s with status := .contacting, lastAnnounce := now },
   [{ ev := ev, time := now, prevAt := s.lastAnnounce, after := s.status, cancelsPrev := cancels }])

/-- `incrementCurrentInterval` (Multiplier 2). -/
def boNext (c : Cfg) (cur : Int) : Int := if 2 * cur ≥ c.boMax then c.boMax else 2 * cur

/-- `getRandomValueFromInterval` with factor 0.5: a value in `[cur/2, 3·cur/2 + 1)`. -/
def boAdmissible (cur bo : Int) : Prop := cur ≤ 2 * bo + 1 ∧ 2 * bo ≤ 3 * cur + 2

instance (cur bo : Int) : Decidable (boAdmissible cur bo) := by unfold boAdmissible; exact inferInstance

def timerDue (s : St) (now : Int) : Bool :=
  match s.timer with
  | some d => d ≤ now
  | none => false

/-- The response branch, parametrised by what is stored as `a.interval`. -/
def onResponse (s : St) (now : Int) (storedInterval : Int → Int → Int) (iv mi : Int) : St :=
  let minI := if mi > 0 then mi else s.minInterval
  let s1 : St := { s with status := .working, interval := storedInterval iv minI, minInterval := minI,
                          hasAnnounced := true }
  resetTimer s1 now (getNextInterval s1)

/-- Repaired: a non-positive interval is replaced by the minimum interval. -/
def storeFixed (iv minI : Int) : Int := if iv ≤ 0 then minI else iv
/-- Pre-fix: stored as sent. -/
def storeStale (iv _minI : Int) : Int := iv

def stepWith (store : Int → Int → Int) (c : Cfg) (s : St) (now : Int) : In → St × List Ann
  | .start completedAlready =>
    if s.running ∨ s.closed then (s, []) else
    let s1 : St := { s with running := true, boCur := c.boInit,
                            completedArmed := if completedAlready then false else s.completedArmed }
    doAnnounce s1 now .started false
  | .timer =>
    if ¬ s.running ∨ ¬ timerDue s now then (s, []) else
    let s1 : St := { s with timer := none }
    if s1.status = .contacting then (s1, []) else doAnnounce s1 now .none false
  | .response iv mi =>
    if ¬ s.running then (s, []) else
    ({ onResponse s now store iv mi with boCur := c.boInit }, [])
  | .error retryIn bo =>
    if ¬ s.running then (s, []) else
    let s1 : St := { s with status := .notWorking }
    if retryIn > 0 then (resetTimer s1 now retryIn, [])
    else (resetTimer { s1 with boCur := boNext c s1.boCur } now bo, [])
  | .setNeed v => ({ s with needMore := v }, [])
  | .needSignal =>
    if ¬ s.running then (s, []) else
    if s.status = .contacting ∨ s.status = .notWorking then (s, []) else
    (resetTimer s now (s.lastAnnounce + getNextInterval s - now), [])
  | .completed =>
    if ¬ s.running ∨ ¬ s.completedArmed then (s, []) else
    let (s1, out) := doAnnounce s now .completed (s.status = .contacting)
    ({ s1 with completedArmed := false }, out)
  | .close =>
    if ¬ s.running then (s, []) else ({ s with running := false, closed := true }, [])

/-- The repaired announcer. -/
def step := stepWith storeFixed
/-- The pre-fix announcer (interval stored as sent). -/
def stepStale := stepWith storeStale

/-- A history: time-stamped inputs; the announces that went out, in order. -/
def runWith (store : Int → Int → Int) (c : Cfg) : St → List (Int × In) → St × List Ann
  | s, [] => (s, [])
  | s, (now, i) :: rest =>
    let (s1, o1) := stepWith store c s now i
    let (s2, o2) := runWith store c s1 rest
    (s2, o1 ++ o2)

def run := runWith storeFixed
def runStale := runWith storeStale

/-- Time stamps do not go backwards (`T` = time of the previous input). -/
def Mono : Int → List (Int × In) → Prop
  | _, [] => True
  | T, (now, _) :: rest => T ≤ now ∧ Mono now rest

/-- `fl` is a lower bound of the client's minimum and of every positive interval / min-interval
value contained in the replies of the history. -/
def FloorFor (c : Cfg) (fl : Int) : List (Int × In) → Prop
  | [] => fl ≤ c.clientMin
  | (_, .response iv mi) :: rest => (0 < iv → fl ≤ iv) ∧ (0 < mi → fl ≤ mi) ∧ FloorFor c fl rest
  | _ :: rest => FloorFor c fl rest

/-- The largest such bound, computed (used by the driver as the oracle's floor). -/
def floorOf (c : Cfg) : List (Int × In) → Int
  | [] => c.clientMin
  | (_, .response iv mi) :: rest =>
    let f := floorOf c rest
    let f := if 0 < iv ∧ iv < f then iv else f
    if 0 < mi ∧ mi < f then mi else f
  | _ :: rest => floorOf c rest

/-! ### outcomes of the announce goroutine (`announce.go`) -/

inductive Outcome where
  | reply (interval minInterval : Int)
  /-- any error; `retryIn` as in `In.error` -/
  | fail (retryIn : Int)
  /-- `context.Canceled` and the announcer's own context is cancelled (it did that itself:
  `completed` while contacting — a new announce is already out — or `close`) -/
  | canceledOwn
  /-- `context.Canceled` although the announcer's context is alive -/
  | canceledForeign
  deriving Repr, DecidableEq

/-- Repaired `announce()`: which input the loop receives, if any. -/
def deliver (bo : Int) : Outcome → Option In
  | .reply iv mi => some (.response iv mi)
  | .fail r => some (.error r bo)
  | .canceledOwn => none
  | .canceledForeign => some (.error 0 bo)

/-- Pre-fix `announce()`: `errors.Is(err, context.Canceled)` → return, whoever cancelled. -/
def deliverStale (bo : Int) : Outcome → Option In
  | .reply iv mi => some (.response iv mi)
  | .fail r => some (.error r bo)
  | .canceledOwn => none
  | .canceledForeign => none

/-! ### stop: `torrent.stop` + `StopAnnouncer` -/

/-- `for _, an := range announcers { if an.HasAnnounced { trackers = append(trackers, an.Tracker) } }`;
the `StopAnnouncer` then sends `stopped` to exactly these. -/
def stopTargets {τ : Type} (announcers : List (τ × St)) : List τ :=
  (announcers.filter (·.2.hasAnnounced)).map (·.1)

end Rain.Announcer
