/-
M-RESUME — field-wise encoding of a resume record as `boltdbresumer.Write` stores it and
`boltdbresumer.Read` reads it back (internal/resumer/boltdbresumer/boltdbresumer.go).

A record is one bbolt bucket with 19 keys; `write` gives the key/value pairs, `read` decodes them.
Value formats, as the code uses them:

* `info_hash`, `name`, `info`, `bitfield`            raw bytes
* `port`, `version`                                   `strconv.Itoa` / `strconv.Atoi`
* `bytes_downloaded/uploaded/wasted`                  `strconv.FormatInt(_, 10)` / `ParseInt(_, 10, 64)`
* `started`, `stop_after_*`, `complete_cmd_run`, `sequential`   `FormatBool` / `ParseBool`
* `trackers` ([][]string), `url_list`, `fixed_peers` ([]string)  `encoding/json` (compact, HTML-escaping,
  invalid UTF-8 → U+FFFD) — modelled byte for byte: `encJsonString` / `decJsonString`
* `added_at`    `time.Format(RFC3339Nano)` after the `fix:` commit (`RFC3339` before: whole seconds)
* `seeded_for`  `time.Duration.String()` / `time.ParseDuration`

The calendar rendering of RFC 3339 and the unit rendering of `Duration.String` are Go's `time`
package and are NOT modelled: the model's value for `added_at` is `T<unix seconds>[.<fraction>]` and
for `seeded_for` `D<nanoseconds>` (constructors `Val.time`, `Val.dur`); the harness converts the
stored texts to this form with `time` itself.  What is modelled exactly is what the property is about: which part of the instant is stored.

Strings are byte lists (`List Nat`, every element < 256).  Core Lean only.
-/
namespace Rain.ResumeCodec

abbrev Bytes := List Nat

/-- `time.Time` reduced to the instant: Unix seconds and nanoseconds within the second. -/
structure Time where
  sec : Int
  nsec : Nat
  deriving Repr, DecidableEq, Inhabited

/-- `boltdbresumer.Spec`. -/
structure Spec where
  infoHash : Bytes
  port : Int
  name : Bytes
  trackers : List (List Bytes)
  urlList : List Bytes
  fixedPeers : List Bytes
  info : Bytes
  bitfield : Bytes
  addedAt : Time
  bytesDownloaded : Int
  bytesUploaded : Int
  bytesWasted : Int
  seededFor : Int
  started : Bool
  stopAfterDownload : Bool
  stopAfterMetadata : Bool
  completeCmdRun : Bool
  sequential : Bool
  version : Int
  deriving Repr, DecidableEq, Inhabited

def ascii (s : String) : Bytes := s.toList.map Char.toNat

/-! ### Decimal numbers -/

/-- Decimal digits of `n`, least significant first; `fuel` bounds the number of digits. -/
def digitsRev : Nat → Nat → List Nat
  | 0, _ => []
  | fuel + 1, n => if n < 10 then [n] else (n % 10) :: digitsRev fuel (n / 10)

/-- `strconv.FormatUint(n, 10)` as bytes. -/
def natToDec (n : Nat) : Bytes := ((digitsRev (n + 1) n).reverse).map (· + 48)

/-- One more character of a decimal number. -/
def decStep (acc : Option Nat) (c : Nat) : Option Nat :=
  match acc with
  | none => none
  | some v => if 48 ≤ c ∧ c ≤ 57 then some (v * 10 + (c - 48)) else none

/-- Value of a digit string (most significant first); `none` if a byte is not a digit or it is empty. -/
def decToNat (b : Bytes) : Option Nat :=
  if b = [] then none else b.foldl decStep (some 0)

/-- `strconv.Itoa` / `FormatInt(_, 10)`. -/
def itoa (i : Int) : Bytes :=
  if i < 0 then 45 :: natToDec i.natAbs else natToDec i.natAbs

def minInt64 : Int := -9223372036854775808
def maxInt64 : Int := 9223372036854775807
def inInt64 (i : Int) : Prop := minInt64 ≤ i ∧ i ≤ maxInt64
instance (i : Int) : Decidable (inInt64 i) := by unfold inInt64; infer_instance

/-- `strconv.Atoi` / `ParseInt(_, 10, 64)`: optional sign, digits, result must fit `int64`. -/
def atoi (b : Bytes) : Option Int :=
  match b with
  | [] => none
  | c :: r =>
    if c = 45 then (decToNat r).bind fun n => if inInt64 (-(n : Int)) then some (-(n : Int)) else none
    else if c = 43 then (decToNat r).bind fun n => if inInt64 (n : Int) then some (n : Int) else none
    else (decToNat (c :: r)).bind fun n => if inInt64 (n : Int) then some (n : Int) else none

/-! ### Booleans -/

def trueBytes : Bytes := [116, 114, 117, 101]
def falseBytes : Bytes := [102, 97, 108, 115, 101]

/-- `strconv.FormatBool`. -/
def fmtBool (b : Bool) : Bytes := if b then trueBytes else falseBytes

/-- `strconv.ParseBool`: accepts 1 t T TRUE true True / 0 f F FALSE false False. -/
def parseBool (b : Bytes) : Option Bool :=
  if b ∈ [[49], [116], [84], [84, 82, 85, 69], trueBytes, [84, 114, 117, 101]] then some true
  else if b ∈ [[48], [102], [70], [70, 65, 76, 83, 69], falseBytes, [70, 97, 108, 115, 101]] then some false
  else none

/-! ### JSON strings and string lists, as `encoding/json` writes and reads them -/

def hexDigit (n : Nat) : Nat := if n < 10 then 48 + n else 87 + n   -- 'a' = 97

/-- `\u00XX`. -/
def escU (c : Nat) : Bytes := [92, 117, 48, 48, hexDigit (c / 16), hexDigit (c % 16)]

/-- One step of `utf8.DecodeRune` on the bytes at the head: `some (rune, size)` for a valid encoding,
`none` for an invalid one (Go then yields `RuneError` with width 1). -/
def decodeRune : Bytes → Option (Nat × Nat)
  | [] => none
  | b0 :: rest =>
    if b0 < 0x80 then some (b0, 1)
    else if b0 < 0xC2 then none
    else if b0 < 0xE0 then
      match rest with
      | b1 :: _ => if 0x80 ≤ b1 ∧ b1 < 0xC0 then some ((b0 - 0xC0) * 64 + (b1 - 0x80), 2) else none
      | _ => none
    else if b0 < 0xF0 then
      match rest with
      | b1 :: b2 :: _ =>
        let lo := if b0 = 0xE0 then 0xA0 else 0x80
        let hi := if b0 = 0xED then 0xA0 else 0xC0
        if lo ≤ b1 ∧ b1 < hi ∧ 0x80 ≤ b2 ∧ b2 < 0xC0 then
          some ((b0 - 0xE0) * 4096 + (b1 - 0x80) * 64 + (b2 - 0x80), 3) else none
      | _ => none
    else if b0 < 0xF5 then
      match rest with
      | b1 :: b2 :: b3 :: _ =>
        let lo := if b0 = 0xF0 then 0x90 else 0x80
        let hi := if b0 = 0xF4 then 0x90 else 0xC0
        if lo ≤ b1 ∧ b1 < hi ∧ 0x80 ≤ b2 ∧ b2 < 0xC0 ∧ 0x80 ≤ b3 ∧ b3 < 0xC0 then
          some ((b0 - 0xF0) * 262144 + (b1 - 0x80) * 4096 + (b2 - 0x80) * 64 + (b3 - 0x80), 4) else none
      | _ => none
    else none

/-- `utf8.Valid`, on explicit fuel = number of bytes. -/
def validUtf8Aux : Nat → Bytes → Bool
  | 0, l => l.isEmpty
  | _, [] => true
  | fuel + 1, b :: rest =>
    match decodeRune (b :: rest) with
    | none => false
    | some (_, size) => validUtf8Aux fuel (rest.drop (size - 1))

def validUtf8 (s : Bytes) : Bool := validUtf8Aux s.length s

/-- Body of `encodeState.string` (escapeHTML = true), on explicit fuel = number of bytes. -/
def encJsonBody : Nat → Bytes → Bytes
  | 0, _ => []
  | _, [] => []
  | fuel + 1, b :: rest =>
    if b < 0x80 then
      let out :=
        if b = 34 then [92, 34]             -- \"
        else if b = 92 then [92, 92]        -- \\
        else if b = 8 then [92, 98]         -- \b
        else if b = 12 then [92, 102]       -- \f
        else if b = 10 then [92, 110]       -- \n
        else if b = 13 then [92, 114]       -- \r
        else if b = 9 then [92, 116]        -- \t
        else if b < 0x20 ∨ b = 60 ∨ b = 62 ∨ b = 38 then escU b   -- control, < > &
        else [b]
      out ++ encJsonBody fuel rest
    else
      match decodeRune (b :: rest) with
      | none => [92, 117, 102, 102, 102, 100] ++ encJsonBody fuel rest          -- �, width 1
      | some (r, size) =>
        if r = 0x2028 then [92, 117, 50, 48, 50, 56] ++ encJsonBody fuel (rest.drop (size - 1))
        else if r = 0x2029 then [92, 117, 50, 48, 50, 57] ++ encJsonBody fuel (rest.drop (size - 1))
        else (b :: rest.take (size - 1)) ++ encJsonBody fuel (rest.drop (size - 1))

def encJsonString (s : Bytes) : Bytes := [34] ++ encJsonBody s.length s ++ [34]

def hexVal (c : Nat) : Option Nat :=
  if 48 ≤ c ∧ c ≤ 57 then some (c - 48)
  else if 97 ≤ c ∧ c ≤ 102 then some (c - 87)
  else if 65 ≤ c ∧ c ≤ 70 then some (c - 55)
  else none

/-- UTF-8 encoding of a BMP code point that is not a surrogate. -/
def encodeRuneBmp (r : Nat) : Bytes :=
  if r < 0x80 then [r]
  else if r < 0x800 then [0xC0 + r / 64, 0x80 + r % 64]
  else [0xE0 + r / 4096, 0x80 + (r / 64) % 64, 0x80 + r % 64]

/-- Body of a JSON string after the opening quote: returns the decoded bytes and the input after the
closing quote.  Escapes as `encoding/json` accepts them; a lone surrogate escape becomes U+FFFD
(surrogate pairs, which the encoder never writes, are not combined). -/
def decJsonBody : Nat → Bytes → Bytes → Option (Bytes × Bytes)
  | 0, _, _ => none
  | _, [], _ => none
  | fuel + 1, c :: rest, acc =>
    if c = 34 then some (acc.reverse, rest)
    else if c = 92 then
      match rest with
      | 34 :: r => decJsonBody fuel r (34 :: acc)
      | 92 :: r => decJsonBody fuel r (92 :: acc)
      | 47 :: r => decJsonBody fuel r (47 :: acc)
      | 98 :: r => decJsonBody fuel r (8 :: acc)
      | 102 :: r => decJsonBody fuel r (12 :: acc)
      | 110 :: r => decJsonBody fuel r (10 :: acc)
      | 114 :: r => decJsonBody fuel r (13 :: acc)
      | 116 :: r => decJsonBody fuel r (9 :: acc)
      | 117 :: a :: b :: c2 :: d :: r =>
        match hexVal a, hexVal b, hexVal c2, hexVal d with
        | some x, some y, some z, some w =>
          let cp := ((x * 16 + y) * 16 + z) * 16 + w
          let cp := if 0xD800 ≤ cp ∧ cp < 0xE000 then 0xFFFD else cp
          decJsonBody fuel r ((encodeRuneBmp cp).reverse ++ acc)
        | _, _, _, _ => none
      | _ => none
    else if c < 0x20 then none
    else decJsonBody fuel rest (c :: acc)

/-- A JSON string at the head of the input. -/
def decJsonString (inp : Bytes) : Option (Bytes × Bytes) :=
  match inp with
  | 34 :: rest => decJsonBody (rest.length + 1) rest []
  | _ => none

def nullBytes : Bytes := ascii "null"

/-- `json.Marshal([]string)`: `null` for a nil slice (the model does not distinguish nil from empty:
an empty list is written as `null`; Go writes `[]` for an empty non-nil slice — see `encStrListNN`). -/
def joinComma : List Bytes → Bytes
  | [] => []
  | [x] => x
  | x :: xs => x ++ [44] ++ joinComma xs

/-- A non-nil `[]string`: `[...]`. -/
def encStrListNN (l : List Bytes) : Bytes := [91] ++ joinComma (l.map encJsonString) ++ [93]

def encStrList (l : List Bytes) : Bytes := if l = [] then nullBytes else encStrListNN l

def encTiers (t : List (List Bytes)) : Bytes :=
  if t = [] then nullBytes else [91] ++ joinComma (t.map encStrListNN) ++ [93]

/-- Elements of a JSON array of strings after `[`: returns the list and the rest after `]`. -/
def decStrElems : Nat → Bytes → List Bytes → Option (List Bytes × Bytes)
  | 0, _, _ => none
  | fuel + 1, inp, acc =>
    match decJsonString inp with
    | none => none
    | some (s, rest) =>
      match rest with
      | 44 :: r => decStrElems fuel r (s :: acc)
      | 93 :: r => some ((s :: acc).reverse, r)
      | _ => none

/-- A JSON array of strings (or `null`) at the head of the input. -/
def decStrListAt (inp : Bytes) : Option (List Bytes × Bytes) :=
  match inp with
  | 91 :: 93 :: r => some ([], r)
  | 91 :: r => decStrElems (r.length + 1) r []
  | 110 :: 117 :: 108 :: 108 :: r => some ([], r)
  | _ => none

def decStrList (inp : Bytes) : Option (List Bytes) :=
  match decStrListAt inp with
  | some (l, []) => some l
  | _ => none

def decTierElems : Nat → Bytes → List (List Bytes) → Option (List (List Bytes) × Bytes)
  | 0, _, _ => none
  | fuel + 1, inp, acc =>
    match decStrListAt inp with
    | none => none
    | some (l, rest) =>
      match rest with
      | 44 :: r => decTierElems fuel r (l :: acc)
      | 93 :: r => some ((l :: acc).reverse, r)
      | _ => none

def decTiers (inp : Bytes) : Option (List (List Bytes)) :=
  match inp with
  | [91, 93] => some []
  | 91 :: r =>
    match decTierElems (r.length + 1) r [] with
    | some (t, []) => some t
    | _ => none
  | [110, 117, 108, 108] => some []
  | _ => none

/-! ### Time and duration (canonical structured forms, see the header) -/

/-- A stored value: raw bytes, or — for `added_at` and `seeded_for` — the number the stored text
denotes (the text itself is rendered and parsed by Go's `time`). -/
inductive Val
  | raw (b : Bytes)
  /-- RFC 3339 text of the instant `sec` with the fraction digits `frac` written after the seconds -/
  | time (sec : Int) (frac : List Nat)
  /-- `Duration.String()` of `ns` nanoseconds -/
  | dur (ns : Int)
  deriving Repr, DecidableEq, Inhabited

/-- Nine fraction digits of `nsec`, most significant first. -/
def nineDigits (n : Nat) : List Nat :=
  [n / 100000000 % 10, n / 10000000 % 10, n / 1000000 % 10, n / 100000 % 10, n / 10000 % 10,
   n / 1000 % 10, n / 100 % 10, n / 10 % 10, n % 10]

def stripTrailingZeros (l : List Nat) : List Nat := (l.reverse.dropWhile (· = 0)).reverse

/-- `AddedAt.Format(time.RFC3339Nano)`: the fraction is the nanoseconds with trailing zeros removed
(no fraction at all when they are zero). -/
def encTime (t : Time) : Val := .time t.sec (stripTrailingZeros (nineDigits t.nsec))

/-- The pre-fix format `time.RFC3339`: whole seconds only. -/
def encTimeSeconds (t : Time) : Val := .time t.sec []

def ofDigits (l : List Nat) : Nat := l.foldl (fun a d => a * 10 + d) 0

/-- `time.Parse(time.RFC3339, _)`, which accepts an optional fraction of up to nine digits. -/
def decTime : Val → Option Time
  | .time sec frac =>
    if frac.length ≤ 9 ∧ frac.all (· < 10) then
      some ⟨sec, ofDigits (frac ++ List.replicate (9 - frac.length) 0)⟩
    else none
  | _ => none

def encDuration (d : Int) : Val := .dur d
def decDuration : Val → Option Int
  | .dur ns => if inInt64 ns then some ns else none
  | _ => none

/-! ### The record -/

def latestVersion : Int := 3

/-- `Resumer.Write`: the key/value pairs put into the torrent's bucket (`encT` = the time format). -/
def writeWith (encT : Time → Val) (s : Spec) : List (String × Val) :=
  [ ("info_hash", .raw s.infoHash), ("port", .raw (itoa s.port)), ("name", .raw s.name),
    ("trackers", .raw (encTiers s.trackers)), ("url_list", .raw (encStrList s.urlList)),
    ("fixed_peers", .raw (encStrList s.fixedPeers)),
    ("info", .raw s.info), ("bitfield", .raw s.bitfield), ("added_at", encT s.addedAt),
    ("bytes_downloaded", .raw (itoa s.bytesDownloaded)), ("bytes_uploaded", .raw (itoa s.bytesUploaded)),
    ("bytes_wasted", .raw (itoa s.bytesWasted)), ("seeded_for", encDuration s.seededFor),
    ("started", .raw (fmtBool s.started)), ("stop_after_download", .raw (fmtBool s.stopAfterDownload)),
    ("stop_after_metadata", .raw (fmtBool s.stopAfterMetadata)), ("complete_cmd_run", .raw (fmtBool s.completeCmdRun)),
    ("sequential", .raw (fmtBool s.sequential)),
    ("version", .raw (itoa (if s.version = 0 then latestVersion else s.version))) ]

def write := writeWith encTime
/-- `Write` before the fix (`AddedAt` with second resolution). -/
def writeUnfixed := writeWith encTimeSeconds

def get (kv : List (String × Val)) (k : String) : Option Val := (kv.find? (·.1 == k)).map (·.2)

/-- `b.Get(key)` for a key holding plain bytes. -/
def getRaw (kv : List (String × Val)) (k : String) : Option Bytes :=
  match get kv k with
  | some (.raw b) => some b
  | _ => none

/-- `Resumer.Read`.  A key that is absent keeps the zero value (only `info_hash` is mandatory; a
missing `version` means 1); a value that does not parse makes the whole read fail. -/
def read (kv : List (String × Val)) : Option Spec := do
  let infoHash ← getRaw kv "info_hash"
  let port ← atoi ((getRaw kv "port").getD [])
  let name := (getRaw kv "name").getD []
  let trackers ← match getRaw kv "trackers" with
    | some v => decTiers v
    | none => some []
  let urlList ← match getRaw kv "url_list" with
    | some v => decStrList v
    | none => some []
  let fixedPeers ← match getRaw kv "fixed_peers" with
    | some v => decStrList v
    | none => some []
  let info := (getRaw kv "info").getD []
  let bitfield := (getRaw kv "bitfield").getD []
  let addedAt ← match get kv "added_at" with
    | some v => decTime v
    | none => some ⟨-62135596800, 0⟩
  let num := fun (k : String) => match getRaw kv k with
    | some v => atoi v
    | none => some 0
  let dl ← num "bytes_downloaded"
  let ul ← num "bytes_uploaded"
  let wa ← num "bytes_wasted"
  let se ← match get kv "seeded_for" with
    | some v => decDuration v
    | none => some 0
  let bool := fun (k : String) => match getRaw kv k with
    | some v => parseBool v
    | none => some false
  let st ← bool "started"
  let sad ← bool "stop_after_download"
  let sam ← bool "stop_after_metadata"
  let ccr ← bool "complete_cmd_run"
  let sq ← bool "sequential"
  let ver ← match getRaw kv "version" with
    | some v => atoi v
    | none => some 1
  pure ⟨infoHash, port, name, trackers, urlList, fixedPeers, info, bitfield, addedAt, dl, ul, wa, se,
        st, sad, sam, ccr, sq, ver⟩

/-- What `Read(Write(s))` has to be: `s`, with the version that was actually stored. -/
def stored (s : Spec) : Spec := { s with version := if s.version = 0 then latestVersion else s.version }

/-- The executable oracle: the spec read back equals the spec written, field by field. Returns the
names of the fields that differ. -/
def diffFields (w r : Spec) : List String :=
  (if w.infoHash = r.infoHash then [] else ["info_hash"]) ++ (if w.port = r.port then [] else ["port"]) ++
  (if w.name = r.name then [] else ["name"]) ++ (if w.trackers = r.trackers then [] else ["trackers"]) ++
  (if w.urlList = r.urlList then [] else ["url_list"]) ++ (if w.fixedPeers = r.fixedPeers then [] else ["fixed_peers"]) ++
  (if w.info = r.info then [] else ["info"]) ++ (if w.bitfield = r.bitfield then [] else ["bitfield"]) ++
  (if w.addedAt = r.addedAt then [] else ["added_at"]) ++
  (if w.bytesDownloaded = r.bytesDownloaded then [] else ["bytes_downloaded"]) ++
  (if w.bytesUploaded = r.bytesUploaded then [] else ["bytes_uploaded"]) ++
  (if w.bytesWasted = r.bytesWasted then [] else ["bytes_wasted"]) ++
  (if w.seededFor = r.seededFor then [] else ["seeded_for"]) ++ (if w.started = r.started then [] else ["started"]) ++
  (if w.stopAfterDownload = r.stopAfterDownload then [] else ["stop_after_download"]) ++
  (if w.stopAfterMetadata = r.stopAfterMetadata then [] else ["stop_after_metadata"]) ++
  (if w.completeCmdRun = r.completeCmdRun then [] else ["complete_cmd_run"]) ++
  (if w.sequential = r.sequential then [] else ["sequential"]) ++ (if w.version = r.version then [] else ["version"])

end Rain.ResumeCodec
