/-
M-WSCAP — the web-seed source cap of `newTorrent` (torrent/torrent.go) together with the two
steps that produce its input: the scheme filter of `metainfo.New` (`isWebseedSupported`) and
`webseedsource.NewList`, which allocates `make([]*WebseedSource, len(sources))` — so the slice
that is cut has capacity = length.  A Go slice expression `s[:k]` panics unless
`0 ≤ k ≤ cap(s)`; that is the `none` outcome here.

`capSources` is the code after the `fix:` commit (`t.webseedSources[:s.config.WebseedMaxSources]`),
`capSourcesOld` the original (`t.webseedSources[:10]`).  Core Lean only.
-/
namespace Rain.WebseedCap

/-- Scheme of a url-list entry, as far as `isWebseedSupported` distinguishes. -/
inductive Scheme where
  | http | https | other
  deriving Repr, DecidableEq

def supported : Scheme → Bool
  | .http => true
  | .https => true
  | .other => false

/-- `s[:k]` on a slice with `cap(s) = len(s)`: `none` is the run-time panic. -/
def sliceTo {α : Type} (s : List α) (k : Int) : Option (List α) :=
  if k < 0 ∨ k > s.length then none else some (s.take k.toNat)

/-- `if len(ws) > cfg.WebseedMaxSources { ws = ws[:cfg.WebseedMaxSources] }` (fixed code). -/
def capSources {α : Type} (cap : Int) (ws : List α) : Option (List α) :=
  if (ws.length : Int) > cap then sliceTo ws cap else some ws

/-- `if len(ws) > cfg.WebseedMaxSources { ws = ws[:10] }` (original code). -/
def capSourcesOld {α : Type} (cap : Int) (ws : List α) : Option (List α) :=
  if (ws.length : Int) > cap then sliceTo ws 10 else some ws

/-- url-list of the metainfo → sources of the torrent. -/
def sourcesOf (cap : Int) (urls : List Scheme) : Option (List Scheme) :=
  capSources cap (urls.filter supported)

def sourcesOfOld (cap : Int) (urls : List Scheme) : Option (List Scheme) :=
  capSourcesOld cap (urls.filter supported)

/-- The part of `torrent.Config` the package-level C17 models read. -/
structure Config where
  webseedMaxSources : Int
  speedLimitDownload : Int
  speedLimitUpload : Int
  writeCacheSize : Int
  deriving Repr, DecidableEq

/-- Legal values: counts ≥ 0, `0` = "no sources" / "rate limit disabled". -/
def LegalConfig (c : Config) : Prop :=
  0 ≤ c.webseedMaxSources ∧ 0 ≤ c.speedLimitDownload ∧ 0 ≤ c.speedLimitUpload ∧ 0 ≤ c.writeCacheSize

end Rain.WebseedCap
