/-
M-BLK — transliteration of `piece.(*Piece).calculateBlocks` (internal/piece/piece.go).

Go cursor machine: `blk{Begin,Length}`, `pieceOffset`, `secOffset`, `secIndex`; closures
`nextBlock`, `nextSection`.  Here: recursion over the section list, inner loop over one data
section on explicit fuel (`secLeft + 1`; `fillData_fuel` in Lemmas shows it is never exhausted
when `0 < bs`).  `uint32` arithmetic is modelled on `Nat`: under the metainfo well-formedness
(piece length < 2^32, C06) no value here exceeds the piece length, so nothing wraps.

Core Lean only.
-/
namespace Rain.Blocks

/-- A file section of a piece, reduced to what `calculateBlocks` reads. -/
structure Sec where
  len : Nat
  pad : Bool
  deriving Repr, DecidableEq, Inhabited

/-- `piece.Block`. -/
structure Block where
  b : Nat
  l : Nat
  deriving Repr, DecidableEq, Inhabited

/-- Cursor state: finished blocks (newest first), the open block, `pieceOffset`. -/
structure CB where
  out : List Block
  bb : Nat
  bl : Nat
  off : Nat
  deriving Repr, DecidableEq

/-- `nextBlock()`: close the open block if it is non-empty; in either case the next block
begins at the current piece offset. -/
def CB.nextBlock (c : CB) : CB :=
  if c.bl = 0 then { c with bb := c.off }
  else { out := ⟨c.bb, c.bl⟩ :: c.out, bb := c.off, bl := 0, off := c.off }

/-- The pre-fix `nextBlock()`: returns early on an empty block and leaves `Begin` stale.
Kept so the historical defect stays a checked counterexample (`Props/C02`). -/
def CB.nextBlockStale (c : CB) : CB :=
  if c.bl = 0 then c
  else { out := ⟨c.bb, c.bl⟩ :: c.out, bb := c.off, bl := 0, off := c.off }

/-- Body of the `for` loop for a non-padding section with `left` bytes still to assign. -/
def fillData (nb : CB → CB) (bs : Nat) : Nat → Nat → CB → CB
  | 0, _, c => c
  | fuel + 1, left, c =>
    let n := min left (bs - c.bl)
    let c1 : CB := { c with bl := c.bl + n, off := c.off + n }
    let left1 := left - n
    let c2 := if bs - c1.bl = 0 then nb c1 else c1
    if left1 = 0 then c2 else fillData nb bs fuel left1 c2

/-- One trip through the loop per section. -/
def stepSec (nb : CB → CB) (bs : Nat) (c : CB) (s : Sec) : CB :=
  if s.pad then nb { c with off := c.off + s.len }
  else fillData nb bs (s.len + 1) s.len c

def runWith (nb : CB → CB) (bs : Nat) (secs : List Sec) : List Block :=
  let c := secs.foldl (stepSec nb bs) { out := [], bb := 0, bl := 0, off := 0 }
  (nb c).out.reverse

/-- `calculateBlocks(blockSize)`.  `none` = the Go code panics (`p.Data[0]` on an empty
piece); every piece of an accepted torrent has at least one section. -/
def calcBlocks (bs : Nat) (secs : List Sec) : Option (List Block) :=
  if secs.isEmpty then none else some (runWith CB.nextBlock bs secs)

/-- The pre-fix function (stale `Begin`). -/
def calcBlocksStale (bs : Nat) (secs : List Sec) : Option (List Block) :=
  if secs.isEmpty then none else some (runWith CB.nextBlockStale bs secs)

/-! ### Executable specification (per-byte masks), shared by theorem and oracle -/

/-- `true` = byte must be requested (non-padding). -/
def secMask (secs : List Sec) : List Bool :=
  secs.flatMap fun s => List.replicate s.len (!s.pad)

/-- Paint one block after the mask so far; `none` if it starts inside what is already
painted (overlap / unsorted). Gaps are unrequested (`false`) positions. -/
def paint (m : List Bool) (b : Block) : Option (List Bool) :=
  if b.b < m.length then none
  else some (m ++ List.replicate (b.b - m.length) false ++ List.replicate b.l true)

/-- Mask painted by a block list given in ascending order. -/
def blkMask (blocks : List Block) : Option (List Bool) := blocks.foldlM paint []

def padTo (n : Nat) (m : List Bool) : List Bool := m ++ List.replicate (n - m.length) false

def total (secs : List Sec) : Nat := (secs.map (·.len)).sum

/-- The blocks tile the non-padding bytes: sorted, disjoint, each `0 < l ≤ bs`, and their
union is exactly the set of non-padding byte positions. -/
def Tiles (bs : Nat) (secs : List Sec) (blocks : List Block) : Bool :=
  blocks.all (fun b => 0 < b.l && b.l ≤ bs) &&
  match blkMask blocks with
  | none => false
  | some m => m.length ≤ total secs && padTo (total secs) m == secMask secs

end Rain.Blocks
