/-!
# M-UDPSHARED — the transaction table and connection state machine of `udptracker.Transport`

Transliteration of the `select` loop of `Transport.Run` (`internal/tracker/udptracker/transport.go`)
for SEVERAL announce requests that share one transport (one UDP socket, one `transactions` map, one
`connections` map keyed by the destination `host:port`).

* `transactions map[int32]*transaction`  → `State.txs : Nat → Option Trx` (transaction ids are handed
  out from the counter `nextTx`; the implementation draws them at random and refuses collisions).
  `Trx.alive` = the transaction's context is not done = its `retryTransaction` goroutine is still
  running, i.e. **a retransmission is scheduled** for it.
* `connections map[string]*connection` → `State.conns : Nat → Option Conn`; `connecting` carries
  the connect transaction, the request whose context the connect runs under (`newConnection(req)`
  takes `req.ctx`) and `conn.requests`, the announces waiting for the connection id.
* a request = one call of `UDPTracker.Announce` / `Transport.Do`; `Req.result` is what that call
  returned (or `none` while it blocks).

One model step = one message handled by the run loop TOGETHER WITH the goroutine work it triggers
and that is over before the harness looks (datagrams written, `connectDone` delivered): the
cancellation of the context of the request that opened a connection is one step
`cancel → sendAndReceiveConnect returns ctx.Err() → connectDone(err) → every waiting request
gets the error`.  Not modelled: DNS, the one minute connection-id expiry, transaction id collisions,
the listen error path.  Core Lean only (linked into the driver).
-/
namespace Rain.UdpShared

/-- What a transaction asks for. -/
inductive Kind where
  /-- BEP 15 connect request for destination `d` -/
  | connect (d : Nat)
  /-- announce request of call `r` -/
  | announce (r : Nat)
  deriving DecidableEq, Repr

/-- Shape of a datagram that is long enough (≥ 8 bytes) to carry a transaction id. -/
inductive Content where
  /-- the well-formed reply for the kind of transaction it answers -/
  | good
  /-- complete header, but another action than the request's (and not the error action) -/
  | wrongAction
  /-- the 8 byte header with the right action and nothing else -/
  | header
  /-- action 3 with a bencoded failure reason -/
  | errAction
  /-- action 3 followed by bytes that are not bencode -/
  | errGarbage
  deriving DecidableEq, Repr

structure Trx where
  kind : Kind
  /-- context not done: the retransmission goroutine of this transaction is running -/
  alive : Bool
  deriving DecidableEq, Repr

inductive Conn where
  /-- `connectedAt.IsZero()`: connect transaction `tx` runs under the context of request `opener`;
  `waiting` = `conn.requests` (starts with the opener) -/
  | connecting (tx : Nat) (opener : Nat) (waiting : List Nat)
  | connected
  deriving DecidableEq, Repr

/-- Result of one call of `Transport.Do` (class of what `UDPTracker.Announce` returns). -/
inductive Res where
  /-- the bytes of a datagram that answered announce transaction `tx` -/
  | reply (tx : Nat) (c : Content)
  /-- `context.Canceled`: the caller's own cancellation, or the cancellation of the request that
  opened the shared connection (told apart by `Req.cancelled`) -/
  | canceled
  /-- the connect transaction was answered by something that is not a connection id -/
  | connectFailed (c : Content)
  /-- the transport was closed -/
  | closed
  deriving DecidableEq, Repr

structure Req where
  dest : Nat
  /-- the caller cancelled the context it passed to `Announce` -/
  cancelled : Bool
  result : Option Res
  deriving DecidableEq, Repr

structure State where
  conns : Nat → Option Conn
  txs : Nat → Option Trx
  reqs : Nat → Option Req
  /-- ids of the requests in the order they were started (enumeration only) -/
  ids : List Nat
  nextTx : Nat
  closed : Bool

def State.init : State :=
  { conns := fun _ => none, txs := fun _ => none, reqs := fun _ => none, ids := [], nextTx := 0, closed := false }

/-- Messages of the run loop. -/
inductive In where
  /-- `req := <-t.requestC`: call `r` for destination `d` -/
  | request (r d : Nat)
  /-- the caller of `r` cancels its context -/
  | cancel (r : Nat)
  /-- `buf := <-t.readC`; `tx = none`: fewer than 8 bytes -/
  | dgram (tx : Option Nat) (c : Content)
  /-- the back-off ticker of transaction `tx` fires (`retryTransaction`) -/
  | tick (tx : Nat)
  /-- `<-t.closeC` -/
  | close
  deriving DecidableEq, Repr

/-- What a step makes visible. -/
inductive Out where
  /-- a datagram of transaction `tx` is written to the socket -/
  | send (tx : Nat) (k : Kind)
  /-- call `r` returns -/
  | deliver (r : Nat) (res : Res)
  deriving DecidableEq, Repr

def upd {α : Type} (f : Nat → Option α) (k : Nat) (v : Option α) : Nat → Option α :=
  fun i => if i = k then v else f i

/-- `req.SetResponse(nil, err)` for every request of `conn.requests` that still blocks. -/
def failAll (res : Res) : List Nat → (Nat → Option Req) → (Nat → Option Req) × List Out
  | [], reqs => (reqs, [])
  | w :: ws, reqs =>
    match reqs w with
    | some q =>
      if q.result = none then
        let fa := failAll res ws (upd reqs w (some { q with result := some res }))
        (fa.1, Out.deliver w res :: fa.2)
      else failAll res ws reqs
    | none => failAll res ws reqs

/-- "Start announce transaction for all waiting requests": `beginTransaction(req)` +
`go retryTransaction` for each; a request whose context is already done gets a transaction that
never sends (its goroutine returns at once). -/
def beginAll (reqs : Nat → Option Req) : List Nat → (Nat → Option Trx) → Nat → (Nat → Option Trx) × Nat × List Out
  | [], txs, n => (txs, n, [])
  | w :: ws, txs, n =>
    let live := match reqs w with
      | some q => !q.cancelled
      | none => false
    let ba := beginAll reqs ws (upd txs n (some ⟨.announce w, live⟩)) (n + 1)
    (ba.1, ba.2.1, if live then Out.send n (.announce w) :: ba.2.2 else ba.2.2)

/-- The context of request `r` is done: its announce transaction stops retransmitting. -/
def killAnnounce (r : Nat) (txs : Nat → Option Trx) : Nat → Option Trx :=
  fun i => match txs i with
    | some ⟨.announce r', a⟩ => if r' = r then some ⟨.announce r', false⟩ else some ⟨.announce r', a⟩
    | o => o

def step (s : State) : In → State × List Out
  | .request r d =>
    match s.reqs r with
    | some _ => (s, [])                      -- the harness never reuses a call id
    | none =>
      if s.closed then
        ({ s with reqs := upd s.reqs r (some ⟨d, false, some .closed⟩), ids := s.ids ++ [r] }, [.deliver r .closed])
      else
        let reqs := upd s.reqs r (some ⟨d, false, none⟩)
        let ids := s.ids ++ [r]
        match s.conns d with
        | none =>
          ({ s with reqs := reqs, ids := ids, conns := upd s.conns d (some (.connecting s.nextTx r [r])),
                    txs := upd s.txs s.nextTx (some ⟨.connect d, true⟩), nextTx := s.nextTx + 1 },
           [.send s.nextTx (.connect d)])
        | some .connected =>
          ({ s with reqs := reqs, ids := ids, txs := upd s.txs s.nextTx (some ⟨.announce r, true⟩), nextTx := s.nextTx + 1 },
           [.send s.nextTx (.announce r)])
        | some (.connecting tx o ws) =>
          ({ s with reqs := reqs, ids := ids, conns := upd s.conns d (some (.connecting tx o (ws ++ [r]))) }, [])
  | .cancel r =>
    match s.reqs r with
    | none => (s, [])
    | some q =>
      if q.result ≠ none then (s, []) else
      let reqs := upd s.reqs r (some { q with cancelled := true, result := some .canceled })
      let txs := killAnnounce r s.txs
      match s.conns q.dest with
      | some (.connecting tx o ws) =>
        if o = r then
          -- the connect ran under r's context: connectDone(err = context.Canceled)
          let fa := failAll .canceled ws reqs
          ({ s with reqs := fa.1, txs := upd txs tx none, conns := upd s.conns q.dest none }, .deliver r .canceled :: fa.2)
        else ({ s with reqs := reqs, txs := txs }, [.deliver r .canceled])
      | _ => ({ s with reqs := reqs, txs := txs }, [.deliver r .canceled])
  | .dgram none _ => (s, [])
  | .dgram (some tx) c =>
    match s.txs tx with
    | none => (s, [])                                     -- "Unexpected transaction ID"
    | some ⟨.announce r, _⟩ =>
      let txs := upd s.txs tx none
      match s.reqs r with
      | some q =>
        if q.result = none then
          ({ s with txs := txs, reqs := upd s.reqs r (some { q with result := some (.reply tx c) }) }, [.deliver r (.reply tx c)])
        else ({ s with txs := txs }, [])
      | none => ({ s with txs := txs }, [])
    | some ⟨.connect d, _⟩ =>
      let txs := upd s.txs tx none
      match s.conns d with
      | some (.connecting _ _ ws) =>
        if c = .good then
          let ba := beginAll s.reqs ws txs s.nextTx
          ({ s with txs := ba.1, nextTx := ba.2.1, conns := upd s.conns d (some .connected) }, ba.2.2)
        else
          let fa := failAll (.connectFailed c) ws s.reqs
          ({ s with txs := txs, reqs := fa.1, conns := upd s.conns d none }, fa.2)
      | _ => ({ s with txs := txs }, [])
  | .tick tx =>
    match s.txs tx with
    | some ⟨k, true⟩ => (s, [.send tx k])
    | _ => (s, [])
  | .close =>
    if s.closed then (s, []) else
    let fa := failAll .closed s.ids s.reqs
    ({ s with reqs := fa.1, txs := fun _ => none, conns := fun _ => none, closed := true }, fa.2)

/-- Run a list of messages; outputs in order. -/
def run (s : State) : List In → State × List Out
  | [] => (s, [])
  | i :: is =>
    let a := step s i
    let b := run a.1 is
    (b.1, a.2 ++ b.2)

/-- Number of transactions below `n` for which a retransmission is scheduled. -/
def liveCount (txs : Nat → Option Trx) : Nat → Nat
  | 0 => 0
  | n + 1 => liveCount txs n + (match txs n with | some ⟨_, true⟩ => 1 | _ => 0)

/-- Ids below `n` of the transactions for which a retransmission is scheduled (ascending). -/
def liveIds (txs : Nat → Option Trx) : Nat → List Nat
  | 0 => []
  | n + 1 => liveIds txs n ++ (match txs n with | some ⟨_, true⟩ => [n] | _ => [])

/-! ### The change `resolveDestinationAndConnect returns when the connect was cancelled` (seeded
defect, kept as an executable counter-model): the cancellation of the opener tells nobody. -/
def stepSilentAbort (s : State) : In → State × List Out
  | .cancel r =>
    match s.reqs r with
    | none => (s, [])
    | some q =>
      if q.result ≠ none then (s, []) else
      let reqs := upd s.reqs r (some { q with cancelled := true, result := some .canceled })
      let txs := killAnnounce r s.txs
      match s.conns q.dest with
      | some (.connecting tx o _) =>
        -- the connect transaction's context is done (no retransmission), but nobody is told
        ({ s with reqs := reqs, txs := if o = r then upd txs tx (some ⟨.connect q.dest, false⟩) else txs }, [.deliver r .canceled])
      | _ => ({ s with reqs := reqs, txs := txs }, [.deliver r .canceled])
  | i => step s i

end Rain.UdpShared
