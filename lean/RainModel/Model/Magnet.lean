/-
M-MAG — transliteration of `internal/magnet/magnet.go` (`New`, `String`, `parseInfoHash`,
`infoHashString`) at the level of decoded query parameters.

* Go strings are byte strings: `Str := List Nat` (bytes).
* The query is modelled as the **ordered list of already-decoded `(key, value)` pairs**, i.e. what
  `url.ParseQuery` yields / what `String()` writes before `url.QueryEscape`.  Percent-escaping,
  `url.Parse` and `url.ParseQuery` themselves are *not* modelled; they are tied by the `magnet`
  suite (the harness decodes the string written by the real `String()` with an independent
  splitter and prints the pairs; it builds the strings given to the real `New` from pairs).
* `url.Values` is a Go map: `for key, tier := range params` visits every distinct key once in an
  unspecified order.  `parse` takes that order as the parameter `order`; theorems quantify over
  every duplicate-free `order` with the right members.  `slices.SortFunc` is not stable; the
  model sorts stably, and different tie-breaks correspond to different `order`s.
* `strconv.Atoi`, `hex.DecodeString`, `hex.EncodeToString`, `strconv.Itoa` are modelled;
  `base32.StdEncoding.DecodeString` is modelled for inputs made of alphabet characters only
  (no `=` padding, no CR/LF, which Go strips): other inputs give `Err.unmodelled`.

Core Lean only.
-/
namespace Rain.Magnet

abbrev Str := List Nat
abbrev Param := Str × Str

structure Magnet where
  ih : List Nat            -- [20]byte
  name : Str
  trackers : List (List Str)
  peers : List Str
  deriving Repr, DecidableEq

inductive Err
  | notMagnet | missingXt | emptyXt | v2Only | badXt | hashLen | hexErr | b32Err | unmodelled
  deriving Repr, DecidableEq

/-! ### Literals -/
def kXt : Str := [120, 116]                               -- "xt"
def kDn : Str := [100, 110]                               -- "dn"
def kTr : Str := [116, 114]                               -- "tr"
def kTrDot : Str := [116, 114, 46]                        -- "tr."
def kPe : Str := [120, 46, 112, 101]                      -- "x.pe"
def pBtih : Str := [117, 114, 110, 58, 98, 116, 105, 104, 58]   -- "urn:btih:"
def pBtmh : Str := [117, 114, 110, 58, 98, 116, 109, 104, 58]   -- "urn:btmh:"

/-- `strings.CutPrefix`. -/
def cutPrefix : Str → Str → Option Str
  | s, [] => some s
  | [], _ :: _ => none
  | c :: s, p :: ps => if c = p then cutPrefix s ps else none

/-! ### hex -/
def hexDigitLower (n : Nat) : Nat := if n < 10 then 48 + n else 87 + n    -- '0'.. / 'a'..

/-- `hex.EncodeToString`. -/
def hexEncode : List Nat → Str
  | [] => []
  | b :: bs => hexDigitLower (b / 16 % 16) :: hexDigitLower (b % 16) :: hexEncode bs

def fromHexChar (c : Nat) : Option Nat :=
  if 48 ≤ c ∧ c ≤ 57 then some (c - 48)
  else if 97 ≤ c ∧ c ≤ 102 then some (c - 87)
  else if 65 ≤ c ∧ c ≤ 70 then some (c - 55)
  else none

/-- `hex.DecodeString` on an even-length string (`none` = `InvalidByteError`). -/
def hexDecode : Str → Option (List Nat)
  | [] => some []
  | [_] => none
  | a :: b :: rest =>
    match fromHexChar a, fromHexChar b, hexDecode rest with
    | some x, some y, some r => some ((x * 16 + y) :: r)
    | _, _, _ => none

/-! ### base32 (RFC 4648 alphabet, no padding in the modelled domain) -/
def fromB32Char (c : Nat) : Option Nat :=
  if 65 ≤ c ∧ c ≤ 90 then some (c - 65)
  else if 50 ≤ c ∧ c ≤ 55 then some (c - 24)
  else none

/-- 8 characters (5 bits each) → 5 bytes. -/
def b32Quantum (v : List Nat) : List Nat :=
  let n := v.foldl (fun acc x => acc * 32 + x) 0
  [n / 2 ^ 32 % 256, n / 2 ^ 24 % 256, n / 2 ^ 16 % 256, n / 2 ^ 8 % 256, n % 256]

def b32Groups : Nat → List Nat → List Nat
  | 0, _ => []
  | fuel + 1, v => if v.length < 8 then [] else b32Quantum (v.take 8) ++ b32Groups fuel (v.drop 8)

inductive B32 | ok (b : List Nat) | corrupt | unmodelled

/-- `base32.StdEncoding.DecodeString` on a string whose length is a multiple of 8. -/
def b32Decode (s : Str) : B32 :=
  if s.any (fun c => c = 61 ∨ c = 10 ∨ c = 13) then .unmodelled else
  match s.mapM fromB32Char with
  | none => .corrupt
  | some v => .ok (b32Groups (v.length / 8 + 1) v)

/-! ### decimal -/
def itoaAux : Nat → Nat → Str → Str
  | 0, _, acc => acc
  | f + 1, n, acc =>
    let acc' := (48 + n % 10) :: acc
    if n / 10 = 0 then acc' else itoaAux f (n / 10) acc'

/-- `strconv.Itoa` on a non-negative int. -/
def itoa (n : Nat) : Str := itoaAux (n + 1) n []

def atoiDigits : Str → Nat → Option Nat
  | [], acc => some acc
  | c :: cs, acc => if 48 ≤ c ∧ c ≤ 57 then atoiDigits cs (acc * 10 + (c - 48)) else none

/-- Optional leading sign of `strconv.Atoi`. -/
def splitSign (s : Str) : Bool × Str :=
  match s with
  | 43 :: r => (false, r)
  | 45 :: r => (true, r)
  | r => (false, r)

/-- `strconv.Atoi` (64-bit int): optional sign, at least one digit, digits only, range check. -/
def atoi (s : Str) : Option Int :=
  let sd := splitSign s
  if sd.2.isEmpty then none else
  match atoiDigits sd.2 0 with
  | none => none
  | some n =>
    if sd.1 then (if n ≤ 2 ^ 63 then some (-(n : Int)) else none)
    else (if n < 2 ^ 63 then some (n : Int) else none)

/-! ### parse -/

/-- `params[key]` of `url.Values`: the values of `key` in order of appearance. -/
def valuesOf (key : Str) (ps : List Param) : List Str :=
  (ps.filter (fun p => p.1 = key)).map (·.2)

/-- Zero-pad / truncate to `[20]byte` (`copy(ih[:], b)`). -/
def toIH (b : List Nat) : List Nat := (b ++ List.replicate 20 0).take 20

/-- `infoHashString`. -/
def infoHashString (s : Str) : Except Err (List Nat) :=
  if s.length = 40 then
    match hexDecode s with
    | some b => .ok (toIH b)
    | none => .error .hexErr
  else if s.length = 32 then
    match b32Decode s with
    | .ok b => .ok (toIH b)
    | .corrupt => .error .b32Err
    | .unmodelled => .error .unmodelled
  else .error .hashLen

/-- `parseInfoHash`: the first `urn:btih:` topic decides. -/
def parseInfoHash : List Str → Bool → Except Err (List Nat)
  | [], v2 => if v2 then .error .v2Only else .error .badXt
  | xt :: rest, v2 =>
    match cutPrefix xt pBtih with
    | some s => infoHashString s
    | none => parseInfoHash rest (v2 || (cutPrefix xt pBtmh).isSome)

structure TrackerTier where
  trackers : List Str
  index : Int
  deriving Repr, DecidableEq

def singleTiers (vals : List Str) (n : Nat) : Nat → List TrackerTier
  | i => match vals with
    | [] => []
    | v :: rest => ⟨[v], (i : Int) - (n : Int)⟩ :: singleTiers rest n (i + 1)

/-- Body of `for key, tier := range params`. -/
def tiersOfKey (ps : List Param) (key : Str) : List TrackerTier :=
  if key = kTr then
    let vals := valuesOf key ps
    singleTiers vals vals.length 0
  else match cutPrefix key kTrDot with
    | none => []
    | some rest =>
      match atoi rest with
      | some index => if index ≥ 0 then [⟨valuesOf key ps, index⟩] else []
      | none => []

def insertTier (t : TrackerTier) : List TrackerTier → List TrackerTier
  | [] => [t]
  | x :: xs => if t.index ≤ x.index then t :: x :: xs else x :: insertTier t xs

/-- Stable sort by `index`. -/
def sortTiers : List TrackerTier → List TrackerTier
  | [] => []
  | t :: ts => insertTier t (sortTiers ts)

/-- The unsorted tier list for a given map-iteration order. -/
def rawTiers (order : List Str) (ps : List Param) : List TrackerTier :=
  order.flatMap (tiersOfKey ps)

/-- `New`, after `url.Parse`/`u.Query()`: `scheme` is `u.Scheme` (already lower-cased by
`url.Parse`), `ps` the decoded pairs, `order` the map-iteration order of the distinct keys. -/
def parse (scheme : Str) (order : List Str) (ps : List Param) : Except Err Magnet :=
  if scheme ≠ [109, 97, 103, 110, 101, 116] then .error .notMagnet else
  let xts := valuesOf kXt ps
  if xts.isEmpty then .error .missingXt else
  match parseInfoHash xts false with
  | .error e => .error e
  | .ok ih =>
    let name := (valuesOf kDn ps).headD []
    let tiers := sortTiers (rawTiers order ps)
    .ok { ih := ih, name := name, trackers := tiers.map (·.trackers), peers := valuesOf kPe ps }

/-- Distinct keys in order of first appearance (one admissible iteration order). -/
def distinctKeys : List Param → List Str
  | [] => []
  | p :: ps => p.1 :: (distinctKeys ps).filter (· ≠ p.1)

/-! ### render -/

def renderTier (i : Nat) (ti : List Str) : List Param :=
  match ti with
  | [t] => [(kTr, t)]
  | _ => ti.map fun t => (kTrDot ++ itoa i, t)

def renderTiers : List (List Str) → Nat → List Param
  | [], _ => []
  | ti :: rest, i => renderTier i ti ++ renderTiers rest (i + 1)

/-- `String()`, before escaping: the pairs in the order written. -/
def render (m : Magnet) : List Param :=
  [(kXt, pBtih ++ hexEncode m.ih)] ++
  (if m.name ≠ [] then [(kDn, m.name)] else []) ++
  renderTiers m.trackers 0 ++
  m.peers.map fun p => (kPe, p)

/-! ### Specification vocabulary -/

/-- "Same multiset of tiers, each tier with the same members", decidable form used by the
driver: the two lists are permutations of each other. -/
def sameTiers (a b : List (List Str)) : Bool := a.isPerm b

/-- Round-trip oracle on an observed parse result. -/
def roundtripOk (m m' : Magnet) : Bool :=
  m'.ih = m.ih && m'.name = m.name && m'.peers = m.peers &&
  sameTiers m'.trackers (m.trackers.filter (· ≠ []))

end Rain.Magnet
