import RainModel.Model.Picker
/-!
C09 — the invariant `PickInv` of M-PICK and the per-pick predicates, as *decidable* propositions:
the same definitions are the conclusions of the theorems in `Props/C09.lean` and the oracle the
driver evaluates (`decide`) on the state dumped by the real `PiecePicker` after every operation.
Core Lean only.
-/
namespace Rain.Picker

/-- `|{i | Having i ≠ ∅}|`. -/
def countAvail (s : State) : Nat :=
  (List.range s.n).countP fun i => !(s.pieces i).having.isEmpty

/-- the four per-piece sets are sets. -/
def NodupOk (s : State) : Prop :=
  ∀ i, i < s.n → (s.pieces i).having.Nodup ∧ (s.pieces i).requested.Nodup ∧
    (s.pieces i).snubbed.Nodup ∧ (s.pieces i).choked.Nodup

/-- `Requested ⊆ Having`. -/
def ReqSubHaving (s : State) : Prop :=
  ∀ i, i < s.n → ∀ p ∈ (s.pieces i).requested, p ∈ (s.pieces i).having

/-- `Snubbed ∪ Choked ⊆ Requested`, `Snubbed ∩ Choked = ∅`. -/
def StalledOk (s : State) : Prop :=
  ∀ i, i < s.n → (∀ p ∈ (s.pieces i).snubbed, p ∈ (s.pieces i).requested ∧ p ∉ (s.pieces i).choked) ∧
    (∀ p ∈ (s.pieces i).choked, p ∈ (s.pieces i).requested)

/-- `|Requested i| ≤ max 1 limit`. -/
def DupLimit (s : State) : Prop :=
  ∀ i, i < s.n → (s.pieces i).requested.length ≤ max 1 s.maxDup

/-- a finished piece is not being downloaded. -/
def DoneIdle (s : State) : Prop :=
  ∀ i, i < s.n → (s.pieces i).done = true → (s.pieces i).requested = []

/-- whoever is in `Requested i` has its (single) downloader on piece `i`: at most one download per peer. -/
def ReqDl (s : State) : Prop :=
  ∀ i, i < s.n → ∀ p ∈ (s.pieces i).requested, (s.peers p).dl.map (·.1) = some i

/-- a peer in `Choked i` is choking us and downloads `i` without the allowed-fast privilege
(so `HandleSnubbed`'s assertion cannot fire: the loop never snubs a choking peer). -/
def ChokedOk (s : State) : Prop :=
  ∀ i, i < s.n → ∀ p ∈ (s.pieces i).choked, (s.peers p).choking = true ∧ (s.peers p).dl = some (i, false)

/-- only connected peers are in `Having`. -/
def HavingOpen (s : State) : Prop :=
  ∀ i, i < s.n → ∀ p ∈ (s.pieces i).having, p < s.np ∧ (s.peers p).closed = false

/-- `RequestedWebseed i = src` only inside `src`'s `[Begin, End)`. -/
def WebOwner (s : State) : Prop :=
  ∀ i, i < s.n → ∀ k ∈ (s.pieces i).webseed, k < s.ns ∧ ∃ d ∈ s.srcs k, d.b ≤ i ∧ i < d.e

/-- the loop's downloader of a peer is recorded in `Requested`. -/
def DlReq (s : State) : Prop :=
  ∀ p, p < s.np → ∀ x ∈ (s.peers p).dl, x.1 < s.n ∧ p ∈ (s.pieces x.1).requested

def ClosedIdle (s : State) : Prop :=
  ∀ p, p < s.np → (s.peers p).closed = true → (s.peers p).dl = none

def AfRange (s : State) : Prop :=
  ∀ p, p < s.np → ∀ i ∈ (s.peers p).af, i < s.n

/-- an active web-seed downloader has `Begin ≤ current < End ≤ n` and owns every piece of `[Begin, End)`. -/
def SrcOk (s : State) : Prop :=
  ∀ k, k < s.ns → ∀ d ∈ s.srcs k, d.b ≤ d.c ∧ d.c < d.e ∧ d.e ≤ s.n ∧
    ∀ i, i < d.e → d.b ≤ i → (s.pieces i).webseed = some k

/-- `available = |{i | Having i ≠ ∅}|`. -/
def AvailOk (s : State) : Prop := s.available = countAvail s

def MaxWebOk (s : State) : Prop := 1 ≤ s.maxWeb

/-- The inductive invariant of C09. -/
structure PickInv (s : State) : Prop where
  nodup : NodupOk s
  reqSubHaving : ReqSubHaving s
  stalled : StalledOk s
  dupLimit : DupLimit s
  doneIdle : DoneIdle s
  reqDl : ReqDl s
  chokedOk : ChokedOk s
  havingOpen : HavingOpen s
  webOwner : WebOwner s
  dlReq : DlReq s
  closedIdle : ClosedIdle s
  afRange : AfRange s
  srcOk : SrcOk s
  avail : AvailOk s
  maxWeb : MaxWebOk s

instance (s : State) : Decidable (NodupOk s) := by unfold NodupOk; exact inferInstance
instance (s : State) : Decidable (ReqSubHaving s) := by unfold ReqSubHaving; exact inferInstance
instance (s : State) : Decidable (StalledOk s) := by unfold StalledOk; exact inferInstance
instance (s : State) : Decidable (DupLimit s) := by unfold DupLimit; exact inferInstance
instance (s : State) : Decidable (DoneIdle s) := by unfold DoneIdle; exact inferInstance
instance (s : State) : Decidable (ReqDl s) := by unfold ReqDl; exact inferInstance
instance (s : State) : Decidable (ChokedOk s) := by unfold ChokedOk; exact inferInstance
instance (s : State) : Decidable (HavingOpen s) := by unfold HavingOpen; exact inferInstance
instance (s : State) : Decidable (WebOwner s) := by unfold WebOwner; exact inferInstance
instance (s : State) : Decidable (DlReq s) := by unfold DlReq; exact inferInstance
instance (s : State) : Decidable (ClosedIdle s) := by unfold ClosedIdle; exact inferInstance
instance (s : State) : Decidable (AfRange s) := by unfold AfRange; exact inferInstance
instance (s : State) : Decidable (SrcOk s) := by unfold SrcOk; exact inferInstance
instance (s : State) : Decidable (AvailOk s) := by unfold AvailOk; exact inferInstance
instance (s : State) : Decidable (MaxWebOk s) := by unfold MaxWebOk; exact inferInstance

/-- The clauses of `PickInv` by name (what the oracle reports). -/
def clauses (s : State) : List (String × Bool) :=
  [ ("nodup", decide (NodupOk s)), ("requested-sub-having", decide (ReqSubHaving s)),
    ("stalled-sub-requested-disjoint", decide (StalledOk s)), ("duplicate-limit", decide (DupLimit s)),
    ("done-idle", decide (DoneIdle s)), ("one-download-per-peer", decide (ReqDl s)),
    ("choked-is-choking", decide (ChokedOk s)), ("having-connected", decide (HavingOpen s)),
    ("webseed-owner", decide (WebOwner s)), ("downloader-recorded", decide (DlReq s)),
    ("closed-idle", decide (ClosedIdle s)), ("allowed-fast-range", decide (AfRange s)),
    ("webseed-range", decide (SrcOk s)), ("available-count", decide (AvailOk s)),
    ("max-webseed-pieces", decide (MaxWebOk s)) ]

theorem pickInv_iff_clauses (s : State) : PickInv s ↔ ∀ c ∈ clauses s, c.2 = true := by
  constructor
  · intro h
    simp [clauses, h.nodup, h.reqSubHaving, h.stalled, h.dupLimit, h.doneIdle, h.reqDl, h.chokedOk,
      h.havingOpen, h.webOwner, h.dlReq, h.closedIdle, h.afRange, h.srcOk, h.avail, h.maxWeb]
  · intro h
    simp [clauses] at h
    obtain ⟨h1, h2, h3, h4, h5, h6, h7, h8, h9, h10, h11, h12, h13, h14, h15⟩ := h
    exact ⟨h1, h2, h3, h4, h5, h6, h7, h8, h9, h10, h11, h12, h13, h14, h15⟩

instance (s : State) : Decidable (PickInv s) := decidable_of_iff _ (pickInv_iff_clauses s).symm

/-- A pick `(i, allowedFast)` for peer `p` made in state `s` is safe. -/
def PickSafe (s : State) (p i : Nat) : Prop :=
  i < s.n ∧ (s.pieces i).done = false ∧ (s.pieces i).writing = false ∧ p ∈ (s.pieces i).having ∧
    ((s.peers p).choking = false ∨ i ∈ (s.peers p).af) ∧ (s.peers p).dl = none

instance (s : State) (p i : Nat) : Decidable (PickSafe s p i) := by unfold PickSafe; exact inferInstance

/-- The lowest-indexed piece that can be requested from `p` right away (`PickableBy`). -/
def lowestPickable (s : State) (p : Nat) : Option Nat :=
  (List.range s.n).find? fun i => (s.pieces i).pickable p

/-- Hypotheses of `sequential_lowest`: sequential mode, the peer is unchoking and idle, no web seed
is downloading, no pickable piece at a file edge is left for this peer. -/
def SeqHyp (s : State) (p : Nat) : Prop :=
  s.sequential = true ∧ (s.peers p).choking = false ∧ (s.peers p).dl = none ∧
    downloadingWebseed s = false ∧ pickFileEdge s p = none

instance (s : State) (p : Nat) : Decidable (SeqHyp s p) := by unfold SeqHyp; exact inferInstance

/-- `sequential_lowest` for one pick result `r` (piece index or nothing) made in state `s`:
if some piece is pickable, the pick is the lowest-indexed pickable piece. -/
def SeqLowest (s : State) (p : Nat) (r : Option Nat) : Prop :=
  SeqHyp s p → ∀ j ∈ lowestPickable s p, r = some j

instance (s : State) (p : Nat) (r : Option Nat) : Decidable (SeqLowest s p r) := by
  unfold SeqLowest; exact inferInstance

end Rain.Picker
