/-
M-REQ — the decision logic applied to a peer's `request` message.

Go anchors
* `torrent/torrent_messagehandler.go`: `validPieceRequest(begin, length, pieceLength uint32)` and the
  `case peerprotocol.RequestMessage:` branch of `handlePeerMessage`;
* `internal/peerconn/peerreader/peerreader.go`: `if rm.Length > MaxBlockSize { err = &blockSizeError… }`.

The three request fields are attacker-chosen `uint32`s, so they are `BitVec 32` here and the bounds
check is done exactly as the Go code does it: both operands widened to 64 bits, added *in 64 bits*
(wrapping `BitVec 64` addition — which cannot wrap for widened 32-bit operands, and that is what
`validReq_iff` proves), compared unsigned.  Core Lean only.
-/
namespace Rain.Request

abbrev U32 := BitVec 32

/-- `validPieceRequest`: `length != 0 && uint64(begin)+uint64(length) <= uint64(pieceLength)`. -/
def validPieceRequest (b l pl : U32) : Bool :=
  l != 0#32 && decide (b.setWidth 64 + l.setWidth 64 ≤ pl.setWidth 64)

/-- What the check would be *without* the `uint64` widening (32-bit wrapping sum).  Not the code;
kept to show (`Props/C03.validReq32_counterexample`) that the widening is load-bearing. -/
def validPieceRequest32 (b l pl : U32) : Bool :=
  l != 0#32 && decide (b + l ≤ pl)

/-- `peerreader.MaxBlockSize`. -/
def maxBlockSize : Nat := 16 * 1024

/-- The reader turns a `request` whose length field exceeds `MaxBlockSize` into a
`blockSizeError` (the connection is closed, the message never reaches the handler). -/
def readerAccepts (l : U32) : Bool := !(decide (l > BitVec.ofNat 32 maxBlockSize))

/-- What the handler reads of `t.pieces[i]`. -/
structure PieceInfo where
  length : U32
  done : Bool
  deriving Repr, DecidableEq

/-- The part of torrent/peer state the request branch reads. -/
structure Ctx where
  /-- `t.pieces != nil && t.bitfield != nil` -/
  haveInfo : Bool
  /-- `t.info.NumPieces` -/
  numPieces : U32
  /-- `t.pieces` -/
  pieces : List PieceInfo
  /-- `pe.ClientChoking` -/
  choking : Bool
  /-- `pe.FastEnabled` -/
  fast : Bool
  /-- `pe.SentAllowedFast` (a set of `*piece.Piece`; a pointer into `t.pieces` is its index) -/
  allowedFast : List Nat
  deriving Repr

inductive Outcome
  /-- "request received but we don't have info" → `closePeer` -/
  | closeNoInfo
  /-- "invalid request index" → `closePeer` -/
  | closeBadIndex
  /-- "invalid request begin/length" → `closePeer` -/
  | closeBadRange
  /-- `pe.SendMessage(RejectMessage{msg})` -/
  | reject
  /-- choking a peer without the fast extension: nothing is sent -/
  | ignore
  /-- `pe.SendPiece(msg, cachedpiece.New(pi, …))` -/
  | serve
  /-- `t.pieces[msg.Index]` out of range (cannot happen when `len(pieces) = NumPieces`) -/
  | panicIndex
  deriving Repr, DecidableEq

def Outcome.toString : Outcome → String
  | .closeNoInfo => "close-noinfo"
  | .closeBadIndex => "close-index"
  | .closeBadRange => "close-range"
  | .reject => "reject"
  | .ignore => "ignore"
  | .serve => "serve"
  | .panicIndex => "panic-index"

/-- The `RequestMessage` branch of `handlePeerMessage`, same order of tests. -/
def handleRequest (c : Ctx) (idx b l : U32) : Outcome :=
  if !c.haveInfo then .closeNoInfo
  else if idx ≥ c.numPieces then .closeBadIndex
  else match c.pieces[idx.toNat]? with
    | none => .panicIndex
    | some pi =>
      if !validPieceRequest b l pi.length then .closeBadRange
      else if !pi.done then .reject
      else if c.choking then
        if c.fast then
          if c.allowedFast.contains idx.toNat then .serve else .reject
        else .ignore
      else .serve

/-- Reader and handler composed: what happens to a `request` frame with these three fields.
`none` = the reader closed the connection (`blockSizeError`). -/
def wireRequest (c : Ctx) (idx b l : U32) : Option Outcome :=
  if readerAccepts l then some (handleRequest c idx b l) else none

/-- The specification side of `serve_sound`, as an executable predicate (also used by drivers). -/
def ServeOK (c : Ctx) (idx b l : U32) : Bool :=
  c.haveInfo && decide (idx.toNat < c.numPieces.toNat) &&
  match c.pieces[idx.toNat]? with
  | none => false
  | some pi =>
    l != 0#32 && decide (b.toNat + l.toNat ≤ pi.length.toNat) && pi.done &&
    (!c.choking || (c.fast && c.allowedFast.contains idx.toNat))

end Rain.Request
