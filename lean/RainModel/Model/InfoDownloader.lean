/-
M-ID (part 1) — transliteration of `internal/infodownloader/infodownloader.go`.

Go state: `Peer` (only `MetadataSize()` is read, `RequestMetadataPiece` is the output),
`Bytes []byte`, `blocks []block{size uint32, requested bool}`, `pending int`,
`nextBlockIndex uint32`.

* The block size is the Go constant `blockSize = 16*1024`; the model takes it as a parameter
  `bs` (production value `blockSize`) so that witnesses can be evaluated by `decide` on small
  instances.  All theorems are for every `bs > 0`.
* `uint32` arithmetic is on `Nat`: `MetadataSize()` is a `uint32`, so `sz < 2^32`; every index
  that passes the `index >= len(blocks)` guard satisfies `index*bs + size ≤ sz`
  (`Lemmas.InfoDownloader.range_le`), so nothing wraps.
* `pending` is a Go `int`, decremented by every accepted answer. Since the repair of finding C17-F6 a block
  remembers that it was received and a repeated answer is refused (`GotErr.duplicate`), so `pending` is the number
  of requested, not yet received blocks (`idl_pending_counts_outstanding`); before, a repeated answer was counted
  again and `pending` went negative (`idl_repeat_unfixed_counterexample`).
* `copy(d.Bytes[begin:end], data)` panics when `end > len(Bytes)`; that is an explicit outcome
  (`GotRes.panic`), shown unreachable from `new` in Lemmas.

Core Lean only.
-/
namespace Rain.InfoDL

abbrev Bytes := List Nat

/-- `const blockSize = 16 * 1024`. -/
def blockSize : Nat := 16 * 1024

structure Blk where
  size : Nat
  requested : Bool
  /-- an answer for this block has been stored (fix for finding C17-F6: a repeated answer is an error) -/
  received : Bool := false
  deriving Repr, DecidableEq, Inhabited

structure ID where
  /-- `Peer.MetadataSize()` (constant for the lifetime of the downloader at package level). -/
  msize : Nat
  bytes : Bytes
  blocks : List Blk
  pending : Int
  next : Nat
  deriving Repr, DecidableEq

/-- `createBlocks()`. -/
def createBlocks (bs sz : Nat) : List Blk :=
  let numBlocks := sz / bs
  let mod := sz % bs
  let numBlocks := if mod ≠ 0 then numBlocks + 1 else numBlocks
  let blocks : List Blk := List.replicate numBlocks ⟨bs, false, false⟩
  if mod ≠ 0 ∧ blocks.length > 0 then blocks.set (blocks.length - 1) ⟨mod, false, false⟩ else blocks

/-- `New(pe)`: `Bytes = make([]byte, size)` is zero-filled. -/
def newWith (bs sz : Nat) : ID :=
  { msize := sz, bytes := List.replicate sz 0, blocks := createBlocks bs sz, pending := 0, next := 0 }

def new (sz : Nat) : ID := newWith blockSize sz

inductive GotErr
  | index        -- "peer sent invalid metadata piece index"
  | unrequested  -- "peer sent unrequested index for metadata message"
  | size         -- "peer sent invalid size for metadata message"
  | duplicate    -- "peer sent metadata piece again"
  deriving Repr, DecidableEq

inductive GotRes
  | ok
  | err (e : GotErr)
  | panic        -- slice bounds out of range in `d.Bytes[begin:end]`
  deriving Repr, DecidableEq

/-- `GotBlock(index, data)`. -/
def gotBlock (bs : Nat) (d : ID) (index : Nat) (data : Bytes) : ID × GotRes :=
  if index ≥ d.blocks.length then (d, .err .index) else
  match d.blocks[index]? with
  | none => (d, .panic)
  | some b =>
    if !b.requested then (d, .err .unrequested) else
    if data.length ≠ b.size then (d, .err .size) else
    -- a second answer for a block is refused: it used to be counted as the answer to another request, so that
    -- `pending` went negative and `RequestBlocks` asked for more than its window (finding C17-F6)
    if b.received then (d, .err .duplicate) else
    let d1 := { d with pending := d.pending - 1, blocks := d.blocks.set index { b with received := true } }
    let begin := index * bs
    let end_ := begin + b.size
    if end_ > d.bytes.length then (d1, .panic) else
    ({ d1 with bytes := d.bytes.take begin ++ data ++ d.bytes.drop end_ }, .ok)

/-- The `for` loop of `RequestBlocks(queueLength)`; the second component lists the indexes
passed to `Peer.RequestMetadataPiece`, in order. Fuel: number of blocks not yet requested. -/
def requestLoop (q : Int) : Nat → ID → List Nat → ID × List Nat
  | 0, d, acc => (d, acc.reverse)
  | fuel + 1, d, acc =>
    match d.blocks[d.next]? with
    | none => (d, acc.reverse)                    -- nextBlockIndex ≥ len(blocks)
    | some b =>
      if d.pending < q then
        requestLoop q fuel
          { d with blocks := d.blocks.set d.next { b with requested := true },
                   pending := d.pending + 1, next := d.next + 1 }
          (d.next :: acc)
      else (d, acc.reverse)

def requestBlocks (d : ID) (q : Int) : ID × List Nat :=
  requestLoop q (d.blocks.length - d.next) d []

/-- `Done()`. -/
def done (d : ID) : Bool := d.next == d.blocks.length && d.pending == 0

/-! ### Histories at package level -/

inductive Op
  | req (q : Int)
  | got (index : Nat) (data : Bytes)
  deriving Repr, DecidableEq

def step (bs : Nat) (d : ID) : Op → ID
  | .req q => (requestBlocks d q).1
  | .got i data => (gotBlock bs d i data).1

def run (bs : Nat) (d : ID) (ops : List Op) : ID := ops.foldl (step bs) d

/-- The answers accepted (result `ok`) along a history, oldest first. -/
def accepted (bs : Nat) : ID → List Op → List (Nat × Bytes)
  | _, [] => []
  | d, .req q :: rest => accepted bs (requestBlocks d q).1 rest
  | d, .got i data :: rest =>
    let r := gotBlock bs d i data
    if r.2 = .ok then (i, data) :: accepted bs r.1 rest else accepted bs r.1 rest

/-- Indexes requested along a history, in order. -/
def requestedIdx (bs : Nat) : ID → List Op → List Nat
  | _, [] => []
  | d, .req q :: rest => (requestBlocks d q).2 ++ requestedIdx bs (requestBlocks d q).1 rest
  | d, .got i data :: rest => requestedIdx bs (gotBlock bs d i data).1 rest

/-! ### Specification vocabulary (shared by theorems and the driver's oracle) -/

/-- Number of metadata pieces of a `sz`-byte info dictionary. -/
def numBlocks (bs sz : Nat) : Nat := (sz + bs - 1) / bs

/-- Size of piece `i`: `bs`, except the last which carries the remainder. -/
def blockLen (bs sz i : Nat) : Nat := min bs (sz - i * bs)

/-- `splice old off data`: `old` with `data` written at `off` (must fit). -/
def splice (old : Bytes) (off : Nat) (data : Bytes) : Bytes :=
  old.take off ++ data ++ old.drop (off + data.length)

/-- `b[off, off+len)` (shorter if the buffer ends earlier). -/
def slice (b : Bytes) (off len : Nat) : Bytes := (b.drop off).take len

/-- The (first) accepted answer for index `i` in a list of accepted answers; `[]` if none. -/
def answerOf (A : List (Nat × Bytes)) (i : Nat) : Bytes :=
  ((A.find? (fun p => p.1 == i)).map (·.2)).getD []

/-- Concatenation of the answers by index. -/
def assembled (bs sz : Nat) (A : List (Nat × Bytes)) : Bytes :=
  (List.range (numBlocks bs sz)).flatMap (answerOf A)

/-- Oracle for one `GotBlock` call, on observations: `reqd` = indexes requested so far,
`before`/`after` = `Bytes` before and after the call, `ok` = the call returned nil. -/
def acceptOk (bs sz : Nat) (reqd : List Nat) (index : Nat) (data before after : Bytes) (ok : Bool) : Bool :=
  if ok then
    reqd.contains index && decide (index < numBlocks bs sz) && decide (data.length = blockLen bs sz index) &&
    decide (after = splice before (index * bs) data)
  else decide (after = before)

end Rain.InfoDL
