/-
M-TRK (tier part) — transliteration of `tracker.Tier` (internal/tracker/tier.go).

Go state: `Trackers []Tracker` (only its length `n` matters here) and `index atomic.Int32`.

    func (t *Tier) Announce(ctx, req) {
        index := t.loadIndex()                       -- `load`
        resp, err := t.Trackers[index].Announce(…)   -- outcome `ok : Bool`, supplied by the environment
        if err != nil {
            next := index + 1
            if next >= int32(len(t.Trackers)) { next = 0 }   -- the repair ("wrap on store")
            t.index.CompareAndSwap(index, next)              -- `finish`
        }
    }
    func (t *Tier) loadIndex() int32 { index := t.index.Load(); if index >= len { index = 0 }; return index }

An announce is two atomic steps (`load`, then `finish` with the index that was loaded), so that
concurrent announcers are interleavings of these steps: `finish` takes the *previously loaded*
index as an argument, which may be stale.  `int32` is modelled on `Nat`; the stored value never
exceeds `n` (`Lemmas/Tier: finish_lt`), and tiers have at most a handful of members.

`finishStale` is the pre-fix store (`CompareAndSwap(index, index+1)`, no wrap): kept so that the
historical defect stays a checked counterexample.

Core Lean only.
-/
namespace Rain.Tier

/-- The tier: number of member trackers and the stored value of `t.index`. -/
structure T where
  n : Nat
  idx : Nat
  deriving Repr, DecidableEq, Inhabited

/-- `&Tier{Trackers: trackers}`: the index starts at 0. -/
def new (n : Nat) : T := { n := n, idx := 0 }

/-- `loadIndex()`: wrap on load. -/
def load (t : T) : Nat := if t.idx ≥ t.n then 0 else t.idx

/-- The value stored after a failure at index `i` (repaired code): `i+1`, wrapped. -/
def next (n i : Nat) : Nat := if i + 1 ≥ n then 0 else i + 1

/-- Second half of `Announce`, for an announce that had loaded `i`: nothing on success,
`CompareAndSwap(i, next i)` on error. -/
def finish (t : T) (i : Nat) (ok : Bool) : T :=
  if ok then t else if t.idx = i then { t with idx := next t.n i } else t

/-- Pre-fix second half: `CompareAndSwap(i, i+1)` without wrapping. -/
def finishStale (t : T) (i : Nat) (ok : Bool) : T :=
  if ok then t else if t.idx = i then { t with idx := i + 1 } else t

/-- One sequential announce: which member is contacted, and the state afterwards. -/
def announce (t : T) (ok : Bool) : Nat × T := (load t, finish t (load t) ok)

def announceStale (t : T) (ok : Bool) : Nat × T := (load t, finishStale t (load t) ok)

/-- A sequential history of announce outcomes: the members contacted, in order, and the final state. -/
def run : T → List Bool → List Nat × T
  | t, [] => ([], t)
  | t, ok :: rest =>
    let (i, t1) := announce t ok
    let (is, t2) := run t1 rest
    (i :: is, t2)

def runStale : T → List Bool → List Nat × T
  | t, [] => ([], t)
  | t, ok :: rest =>
    let (i, t1) := announceStale t ok
    let (is, t2) := runStale t1 rest
    (i :: is, t2)

/-- `k` consecutive failing sequential announces. -/
def failN : Nat → T → T
  | 0, t => t
  | k + 1, t => failN k (announce t false).2

/-- Steps of concurrent announcers: `begin` performs the load (the environment remembers the
result), `fin i ok` is the end of an announce that had loaded `i`. -/
inductive Op where
  | begin
  | fin (i : Nat) (ok : Bool)
  deriving Repr, DecidableEq

def step (t : T) : Op → T
  | .begin => t
  | .fin i ok => finish t i ok

def steps (t : T) (ops : List Op) : T := ops.foldl step t

/-- The oracle the check evaluates on the implementation's observations: after an announce to
member `prev` of a tier of `n` with outcome `ok`, the next sequential announce must go to `want`. -/
def expectedNext (n prev : Nat) (ok : Bool) : Nat := if ok then prev else (prev + 1) % n

end Rain.Tier
