import RainModel.Model.Cache
/-
M-WQ — transliteration of `internal/peerconn/peerwriter` (peerwriter.go, piece.go): the per-peer
upload queue, cancel / choke handling, the duplicate filter and the framing of what is written.

Two goroutines share the state: the `Run` loop owns `writeQueue` and `currentQueuedRequests`; the
`messageWriter` owns `servedRequests` and serialises one message at a time.  Their only interaction
is the hand-off `writeC <- front`.  The model is the product machine with the events
`enqueue m` (`queueC`), `cancel r` (`cancelC`), `handoff d` (`writeC`; `d` = what `Data.ReadAt`
returns if the message is a piece that is not a duplicate).  A hand-off is possible whenever the
queue is non-empty and the writer is idle; the theorems hold for every interleaving of the events.

Core Lean only.
-/
namespace Rain.WriteQueue
open Rain.Cache (Bytes)

/-- `peerprotocol.RequestMessage`. -/
structure Req where
  idx : Nat
  b : Nat
  l : Nat
  deriving Repr, DecidableEq

inductive Msg
  /-- `peerwriter.Piece{Data, RequestMessage}` -/
  | piece (r : Req)
  /-- `peerprotocol.RejectMessage` -/
  | reject (r : Req)
  /-- `peerprotocol.ChokeMessage` -/
  | choke
  /-- any other protocol message: id and payload bytes -/
  | other (id : Nat) (payload : Bytes)
  deriving Repr, DecidableEq

def Msg.isPiece : Msg → Bool
  | .piece _ => true
  | _ => false

structure WQ where
  /-- `maxQueuedRequests` -/
  maxQueued : Int
  /-- `fastEnabled` -/
  fast : Bool
  /-- `writeQueue` -/
  queue : List Msg
  /-- `currentQueuedRequests` -/
  queued : Int
  /-- `servedRequests` -/
  served : List Req
  /-- the `messageWriter` goroutine has returned (serialisation or write error; the conn is closed) -/
  dead : Bool
  deriving Repr

def new (maxQueued : Int) (fast : Bool) : WQ :=
  { maxQueued := maxQueued, fast := fast, queue := [], queued := 0, served := [], dead := false }

def countPieces (q : List Msg) : Nat := (q.filter Msg.isPiece).length

/-- `cancelQueuedPieceMessages`. -/
def dropPieces (s : WQ) : WQ :=
  { s with queue := s.queue.filter (fun m => !m.isPiece), queued := s.queued - countPieces s.queue }

/-- `queueMessage(msg)`. -/
def enqueue (s : WQ) (m : Msg) : WQ :=
  match m with
  | .choke =>
    let s := dropPieces s
    { s with queue := s.queue ++ [.choke] }
  | .piece r =>
    if s.queued ≥ s.maxQueued then
      if s.fast then { s with queue := s.queue ++ [.reject r] }   -- "Reject request if peer queued to many requests"
      else s                                                        -- "Drop message silently"
    else { s with queued := s.queued + 1, queue := s.queue ++ [.piece r] }
  | m => { s with queue := s.queue ++ [m] }

/-- `cancelRequest(cm)`: the first queued piece message for that request is removed. -/
def cancel (s : WQ) (r : Req) : WQ :=
  if Msg.piece r ∈ s.queue then { s with queue := s.queue.erase (.piece r), queued := s.queued - 1 }
  else s

def be32 (n : Nat) : Bytes := [n / 16777216 % 256, n / 65536 % 256, n / 256 % 256, n % 256]

/-- `be32(1 + len(payload)) ‖ id ‖ payload`. -/
def frame (id : Nat) (payload : Bytes) : Bytes := be32 (1 + payload.length) ++ [id] ++ payload

def reqBytes (r : Req) : Bytes := be32 r.idx ++ be32 r.b ++ be32 r.l

/-- What `p.Data.ReadAt(b[8:8+Length], Begin)` returned. -/
inductive DataRes
  /-- `(len(bytes), nil)` -/
  | ok (bytes : Bytes)
  /-- `(len(bytes), io.EOF)`: `Piece.Read` passes the error on and `bytes.Buffer.ReadFrom` takes
  `io.EOF` for the regular end of the message, so the bytes read so far ARE framed.  Arises only for
  a request that ends outside the piece, which the request validation never lets through
  (`Props/C03.serve_sound`); see notes/C03.md. -/
  | eof (bytes : Bytes)
  /-- any other non-nil error -/
  | err
  deriving Repr, DecidableEq

inductive Sent
  /-- bytes passed to `conn.Write` -/
  | frame (bs : Bytes)
  /-- serialisation failed: "cannot serialize message", the writer returns and closes the conn -/
  | died
  /-- `b[8:8+p.Length]` out of range of the 16 KiB + 13 byte buffer -/
  | panic
  deriving Repr, DecidableEq

/-- `peerreader.MaxBlockSize`: the serialisation buffer has room for exactly that much piece data. -/
def maxBlock : Nat := 16384

/-- `messageWriter`, one message: duplicate filter, serialisation. -/
def writeMsg (served : List Req) (m : Msg) (d : DataRes) : List Req × Sent :=
  match m with
  | .piece r =>
    if r ∈ served then (served, .frame (frame 16 (reqBytes r)))     -- "Reject duplicate requests"
    else
      let served := r :: served
      if r.l > maxBlock then (served, .panic)
      else match d with
        | .ok bytes => (served, .frame (frame 7 (be32 r.idx ++ be32 r.b ++ bytes)))
        | .eof bytes => (served, .frame (frame 7 (be32 r.idx ++ be32 r.b ++ bytes)))
        | .err => (served, .died)
  | .reject r => (served, .frame (frame 16 (reqBytes r)))
  | .choke => (served, .frame (frame 0 []))
  | .other id payload => (served, .frame (frame id payload))

/-- `case writeC <- msg:` of `Run` followed by the writer's processing of `msg`: the message taken
from the queue and what was written.  `none` = no hand-off possible (queue empty or writer gone). -/
def handoff (s : WQ) (d : DataRes) : WQ × Option (Msg × Sent) :=
  if s.dead then (s, none) else
  match s.queue with
  | [] => (s, none)
  | m :: rest =>
    let out := writeMsg s.served m d
    ({ s with queue := rest, queued := if m.isPiece then s.queued - 1 else s.queued,
              served := out.1, dead := match out.2 with | .frame _ => false | _ => true }, some (m, out.2))

inductive Op
  | enqueue (m : Msg)
  | cancel (r : Req)
  | handoff (d : DataRes)
  deriving Repr, DecidableEq

def step (s : WQ) : Op → WQ × Option (Msg × Sent)
  | .enqueue m => (enqueue s m, none)
  | .cancel r => (cancel s r, none)
  | .handoff d => handoff s d

def run (s : WQ) (ops : List Op) : WQ := ops.foldl (fun s o => (step s o).1) s

/-- Every message taken by the writer during a history with what was written for it, in order. -/
def handed : WQ → List Op → List (Msg × Sent)
  | _, [] => []
  | s, o :: r =>
    match step s o with
    | (s', some x) => x :: handed s' r
    | (s', none) => handed s' r

/-- The frame of a piece message for request `r` carrying `bytes`. -/
def pieceFrame (r : Req) (bytes : Bytes) : Bytes :=
  be32 (9 + bytes.length) ++ [7] ++ be32 r.idx ++ be32 r.b ++ bytes

/-- The frame's message id is 7 (`piece`). -/
def isDataFrame (bs : Bytes) : Bool := (bs.drop 4).head? == some 7

/-- The request answered with a data-carrying piece frame by one hand-off, if any. -/
def dataOf : Msg × Sent → Option Req
  | (.piece r, .frame bs) => if isDataFrame bs then some r else none
  | _ => none

/-- Requests answered with a data-carrying piece frame in a hand-off list. -/
def dataSent (h : List (Msg × Sent)) : List Req := h.filterMap dataOf

/-- The invariant of the `Run` loop state (`wq_bound`). -/
structure Inv (s : WQ) : Prop where
  count : s.queued = countPieces s.queue
  bound : s.queued ≤ max s.maxQueued 0

end Rain.WriteQueue
