/-
M-TRK (wire part) — what goes on the wire to a tracker and what is accepted back.

Go anchors
  * `udptracker/request.go: newTransportRequest` + `messages.go: announceRequest` (98-byte
    big-endian struct written by `binary.Write`) + `transferAnnounceRequest.WriteTo` (BEP 41 URL-data
    option in chunks of ≤ 255 bytes), `connectRequest` (16 bytes);
  * `udptracker/transport.go: Run`, branch `buf := <-t.readC` (header read, transaction lookup,
    error action), `sendAndReceiveConnect` (connect reply), `udptracker.go: parseAnnounceResponse`;
  * `httptracker.go: Announce`, the query string as an ordered `(key, value)` list;
  * `tracker/compact.go: DecodePeersCompact`.

Bytes are `Nat`s below 256 (`List Nat`, the representation the driver reads from hex).  Fixed-width
Go integers are encoded through `be k` (big-endian, `k` bytes, value taken modulo `256^k` — exactly
what a Go conversion + `binary.BigEndian` does) and signed values through two's complement
(`toU`/`ofU`).

The repaired `newTransportRequest` derives `Key` from the last four peer-id bytes, the same four
bytes the HTTP transport sends as `key=`; `encodeAnnounceStale` keeps the pre-fix behaviour (the
zero `Key` written *into* the peer id) as a checked counterexample.

Core Lean only.
-/
namespace Rain.TrackerWire

abbrev Bytes := List Nat

/-! ### fixed-width integers -/

/-- `k` bytes, big-endian, of `v mod 256^k`. -/
def be : Nat → Nat → Bytes
  | 0, _ => []
  | k + 1, v => (v / 256 ^ k) % 256 :: be k v

/-- Big-endian bytes → number. -/
def unbe : Bytes → Nat
  | [] => 0
  | x :: r => x * 256 ^ r.length + unbe r

/-- Two's complement of a Go signed integer of `bits` bits. -/
def toU (bits : Nat) (v : Int) : Nat := (v % (2 ^ bits : Int)).toNat

/-- … and back. -/
def ofU (bits : Nat) (u : Nat) : Int := if u ≥ 2 ^ (bits - 1) then (u : Int) - (2 ^ bits : Int) else u

/-- `n` bytes off the front, or `none` when the input is shorter (`binary.Read` → `io.ErrUnexpectedEOF`). -/
def takeN (n : Nat) (b : Bytes) : Option (Bytes × Bytes) :=
  if b.length < n then none else some (b.take n, b.drop n)

def isBytes (b : Bytes) : Bool := b.all (· < 256)

/-! ### what an announce carries -/

/-- `tracker.Torrent`. -/
structure Torrent where
  infoHash : Bytes
  peerID : Bytes
  port : Int
  up : Int
  down : Int
  left : Int
  deriving Repr, DecidableEq

/-- What Go's types already guarantee (`[20]byte`, `int64`) plus a valid TCP port. -/
def Torrent.wf (t : Torrent) : Prop :=
  t.infoHash.length = 20 ∧ t.peerID.length = 20 ∧ isBytes t.infoHash = true ∧ isBytes t.peerID = true ∧
  0 ≤ t.port ∧ t.port < 65536 ∧
  -(2 ^ 63 : Int) ≤ t.up ∧ t.up < 2 ^ 63 ∧ -(2 ^ 63 : Int) ≤ t.down ∧ t.down < 2 ^ 63 ∧
  -(2 ^ 63 : Int) ≤ t.left ∧ t.left < 2 ^ 63

instance (t : Torrent) : Decidable t.wf := by unfold Torrent.wf; exact inferInstance

/-- The announce key as the code derives it (both transports): the last four peer-id bytes. -/
def keyBytes (t : Torrent) : Bytes := t.peerID.drop 16

/-- A concrete well-formed torrent (peer id `ABC…T`, not ending in zero bytes) for non-vacuity examples. -/
def sampleTorrent : Torrent :=
  { infoHash := List.replicate 20 0xab, peerID := (List.range 20).map (· + 0x41), port := 6881,
    up := 1, down := 2 ^ 40, left := 0 }

/-! ### UDP requests -/

def connectionIDMagic : Nat := 0x41727101980

/-- `connectRequest.WriteTo`. -/
def encodeConnect (tx : Nat) : Bytes := be 8 connectionIDMagic ++ (be 4 0 ++ be 4 tx)

/-- BEP 41 option bytes of `transferAnnounceRequest.WriteTo` (loop over `urlData` in chunks of 255;
fuel = remaining length + 1, never exhausted because every trip consumes ≥ 1 byte). -/
def urlOpt : Nat → Bytes → Bytes
  | 0, _ => []
  | fuel + 1, d =>
    if d.length = 0 then [] else
    let size := min d.length 255
    2 :: size :: (d.take size ++ urlOpt fuel (d.drop size))

/-- The fixed 98-byte part: `binary.Write(buf, BigEndian, r.announceRequest)` with an explicit peer
id and key field (so the repaired and the pre-fix builder share it). -/
def encodeFixed (conn tx : Nat) (t : Torrent) (pid : Bytes) (key : Nat) (event : Nat) (numWant : Int) : Bytes :=
  be 8 conn ++ (be 4 1 ++ (be 4 tx ++ (t.infoHash ++ (pid ++ (be 8 (toU 64 t.down) ++ (be 8 (toU 64 t.left) ++
  (be 8 (toU 64 t.up) ++ (be 4 event ++ (be 4 0 ++ (be 4 key ++ (be 4 (toU 32 numWant) ++
  (be 2 (toU 16 t.port) ++ be 2 0))))))))))))

/-- `newTransportRequest` + `WriteTo` (repaired): peer id untouched, `Key` = its last four bytes. -/
def encodeAnnounce (conn tx : Nat) (t : Torrent) (event : Nat) (numWant : Int) (urlData : Bytes) : Bytes :=
  encodeFixed conn tx t t.peerID (unbe (keyBytes t)) event numWant ++ urlOpt (urlData.length + 1) urlData

/-- Pre-fix builder: `binary.BigEndian.PutUint32(request.PeerID[16:20], request.Key)` with
`Key == 0` zeroes the last four peer-id bytes and sends key 0. -/
def encodeAnnounceStale (conn tx : Nat) (t : Torrent) (event : Nat) (numWant : Int) (urlData : Bytes) : Bytes :=
  encodeFixed conn tx t (t.peerID.take 16 ++ [0, 0, 0, 0]) 0 event numWant ++ urlOpt (urlData.length + 1) urlData

/-- A decoded UDP announce request, as an independent BEP 15 tracker reads it. -/
structure UdpAnnounce where
  conn : Nat
  action : Nat
  tx : Nat
  infoHash : Bytes
  peerID : Bytes
  down : Int
  left : Int
  up : Int
  event : Nat
  ip : Nat
  key : Nat
  numWant : Int
  port : Nat
  ext : Nat
  deriving Repr, DecidableEq

/-- BEP 15 announce request decoder (returns the option bytes that follow the fixed part). -/
def decodeAnnounce (b : Bytes) : Option (UdpAnnounce × Bytes) := do
  let (conn, b) ← takeN 8 b
  let (action, b) ← takeN 4 b
  let (tx, b) ← takeN 4 b
  let (ih, b) ← takeN 20 b
  let (pid, b) ← takeN 20 b
  let (down, b) ← takeN 8 b
  let (left, b) ← takeN 8 b
  let (up, b) ← takeN 8 b
  let (event, b) ← takeN 4 b
  let (ip, b) ← takeN 4 b
  let (key, b) ← takeN 4 b
  let (nw, b) ← takeN 4 b
  let (port, b) ← takeN 2 b
  let (ext, b) ← takeN 2 b
  pure ({ conn := unbe conn, action := unbe action, tx := unbe tx, infoHash := ih, peerID := pid,
          down := ofU 64 (unbe down), left := ofU 64 (unbe left), up := ofU 64 (unbe up),
          event := unbe event, ip := unbe ip, key := unbe key, numWant := ofU 32 (unbe nw),
          port := unbe port, ext := unbe ext }, b)

/-- The identity part of the C15 oracle, evaluated on the bytes a tracker received. -/
def udpIdentityOK (t : Torrent) (event : Nat) (numWant : Int) (pkt : Bytes) : Bool :=
  match decodeAnnounce pkt with
  | none => false
  | some (a, _) =>
    a.action = 1 ∧ a.infoHash = t.infoHash ∧ a.peerID = t.peerID ∧ a.port = t.port.toNat ∧
    a.up = t.up ∧ a.down = t.down ∧ a.left = t.left ∧ a.event = event ∧ a.numWant = numWant ∧
    a.key = unbe (keyBytes t)

/-! ### UDP replies -/

/-- Outcome of the `readC` branch of `Transport.Run` for one datagram. -/
inductive Recv where
  /-- fewer than 8 bytes: the header cannot be read, the datagram is logged and dropped -/
  | dropShort
  /-- no outstanding transaction has this id: dropped -/
  | dropUnknown (tx : Nat)
  /-- handed to transaction `tx` (and that transaction is finished); `isErr` when action = 3 -/
  | deliver (tx : Nat) (isErr : Bool)
  deriving Repr, DecidableEq

def actionOf (buf : Bytes) : Nat := unbe (buf.take 4)
def txOf (buf : Bytes) : Nat := unbe ((buf.drop 4).take 4)

/-- `txs` = ids of the outstanding transactions (keys of the `transactions` map). -/
def recv (txs : List Nat) (buf : Bytes) : Recv :=
  if buf.length < 8 then .dropShort
  else if txOf buf ∈ txs then .deliver (txOf buf) (actionOf buf = 3)
  else .dropUnknown (txOf buf)

/-- Result classes of one request, as the caller of `Announce` sees them. -/
inductive Reply (α : Type) where
  | ok (v : α)
  /-- `tracker.ErrDecode` / `io.ErrUnexpectedEOF` / "invalid action" -/
  | errDecode
  /-- action 3: a `*tracker.Error` (or `ErrDecode` when its bencoded body does not parse) -/
  | errTracker
  deriving Repr, DecidableEq

/-- `sendAndReceiveConnect` on a delivered datagram: connection id or error. -/
def parseConnect (buf : Bytes) : Reply Nat :=
  if actionOf buf = 3 ∧ buf.length ≥ 8 then .errTracker
  else if buf.length < 16 then .errDecode
  else if actionOf buf ≠ 0 then .errDecode
  else .ok (unbe ((buf.drop 8).take 8))

/-- A peer address: four address bytes and a port. -/
structure Peer where
  ip : Bytes
  port : Nat
  deriving Repr, DecidableEq

/-- `tracker.DecodePeersCompact`: loop `for i := 0; i < len(b); i += 6` (fuel = number of groups). -/
def compactLoop : Nat → Bytes → List Peer
  | 0, _ => []
  | fuel + 1, b =>
    if b.length < 6 then [] else
    { ip := b.take 4, port := unbe ((b.drop 4).take 2) } :: compactLoop fuel (b.drop 6)

def decodeCompact (b : Bytes) : Option (List Peer) :=
  if b.length % 6 ≠ 0 then none else some (compactLoop (b.length / 6) b)

def encodeCompact : List Peer → Bytes
  | [] => []
  | p :: r => p.ip ++ (be 2 p.port ++ encodeCompact r)

def Peer.wf (p : Peer) : Bool := p.ip.length = 4 ∧ isBytes p.ip ∧ p.port < 65536

/-- Decoded announce reply. -/
structure AnnounceReply where
  interval : Int
  leechers : Int
  seeders : Int
  peers : List Peer
  deriving Repr, DecidableEq

/-- `UDPTracker.Announce` after `transport.Do` returned datagram `buf` for our transaction:
error action (decided in the run loop), short packet, wrong action, ragged peer list → error. -/
def parseAnnounce (buf : Bytes) : Reply AnnounceReply :=
  if actionOf buf = 3 ∧ buf.length ≥ 8 then .errTracker
  else if buf.length < 20 then .errDecode
  else if actionOf buf ≠ 1 then .errDecode
  else match decodeCompact (buf.drop 20) with
    | none => .errDecode
    | some ps => .ok { interval := ofU 32 (unbe ((buf.drop 8).take 4)),
                       leechers := ofU 32 (unbe ((buf.drop 12).take 4)),
                       seeders := ofU 32 (unbe ((buf.drop 16).take 4)), peers := ps }

/-- One announce transaction against a stream of datagrams: the first datagram that `recv`
delivers to `tx` decides the result; everything else is skipped. `none` = still waiting. -/
def firstDelivered (tx : Nat) : List Bytes → Option Bytes
  | [] => none
  | d :: r => match recv [tx] d with
    | .deliver _ _ => some d
    | _ => firstDelivered tx r

/-! ### HTTP announce query -/

def hexNib (n : Nat) : Char := if n < 10 then Char.ofNat (48 + n) else Char.ofNat (87 + n)

def nibVal (c : Char) : Option Nat :=
  if '0' ≤ c ∧ c ≤ '9' then some (c.toNat - 48)
  else if 'a' ≤ c ∧ c ≤ 'f' then some (c.toNat - 87)
  else none

/-- `hex.EncodeToString`. -/
def hexEnc : Bytes → List Char
  | [] => []
  | b :: r => hexNib (b / 16) :: hexNib (b % 16) :: hexEnc r

def hexDec : List Char → Option Bytes
  | [] => some []
  | [_] => none
  | a :: b :: r => do
    let x ← nibVal a
    let y ← nibVal b
    let rest ← hexDec r
    pure ((x * 16 + y) :: rest)

/-- `percentEscape`: `%xx` for every byte. -/
def percentEscape : Bytes → List Char
  | [] => []
  | b :: r => '%' :: hexNib (b / 16) :: hexNib (b % 16) :: percentEscape r

/-- What a tracker does to read the value back. -/
def percentUnescape : List Char → Option Bytes
  | [] => some []
  | '%' :: a :: b :: r => do
    let x ← nibVal a
    let y ← nibVal b
    let rest ← percentUnescape r
    pure ((x * 16 + y) :: rest)
  | _ => none

/-- A query value before rendering. -/
inductive Val where
  | esc (b : Bytes)      -- percent-escaped bytes
  | int (v : Int)        -- `strconv.Itoa` / `FormatInt(…, 10)`
  | lit (s : String)     -- literal text
  | hexs (b : Bytes)     -- `hex.EncodeToString`
  deriving Repr, DecidableEq

def eventName : Nat → String
  | 0 => "empty"
  | 1 => "completed"
  | 2 => "started"
  | 3 => "stopped"
  | _ => "?"

/-- The query `HTTPTracker.Announce` appends to the tracker URL, in order. -/
def httpQuery (t : Torrent) (event : Nat) (numWant : Int) (trackerID : Bytes) : List (String × Val) :=
  [("info_hash", .esc t.infoHash), ("peer_id", .esc t.peerID), ("port", .int t.port),
   ("uploaded", .int t.up), ("downloaded", .int t.down), ("left", .int t.left),
   ("compact", .lit "1"), ("no_peer_id", .lit "1"), ("numwant", .int numWant)] ++
  (if event ≠ 0 then [("event", .lit (eventName event))] else []) ++
  -- the tracker id is whatever bytes the tracker sent: percent-escaped like the info hash (fix for finding
  -- C16-F4 — it used to be appended as it came, so a space, `&`, `#` or a control byte in it broke or rewrote
  -- every later announce to that tracker)
  (if trackerID ≠ [] then [("trackerid", .esc trackerID)] else []) ++
  [("key", .hexs (keyBytes t))]

def renderVal : Val → String
  | .esc b => String.ofList (percentEscape b)
  | .int v => toString v
  | .lit s => s
  | .hexs b => String.ofList (hexEnc b)

def renderQuery (q : List (String × Val)) : String :=
  "&".intercalate (q.map fun (k, v) => k ++ "=" ++ renderVal v)

def lookup (k : String) : List (String × Val) → Option Val
  | [] => none
  | (k', v) :: r => if k' = k then some v else lookup k r

/-! ### HTTP body -/

/-- `httptracker.Announce`, closure `doReq`: a declared `Content-Length` above `maxResponseLength`
is refused; otherwise the body is read through `io.LimitReader(resp.Body, maxResponseLength)`.
`contentLength = none` for a chunked reply (Go reports −1). -/
def httpBodyRead (limit : Nat) (contentLength : Option Nat) (body : Bytes) : Option Bytes :=
  match contentLength with
  | some n => if n > limit then none else some (body.take limit)
  | none => some (body.take limit)

/-! ### HTTP dictionary-model peers -/

/-- `parsePeersDictionary` (repaired): entries whose `ip` is not an IP literal (`net.ParseIP` gives
nil — a DNS name, an empty string, garbage) are skipped. `ip?` is the result of `net.ParseIP`
(4 or 16 bytes), an input here. -/
def dictPeers : List (Option Bytes × Nat) → List Peer
  | [] => []
  | (none, _) :: r => dictPeers r
  | (some ip, port) :: r => { ip := ip, port := port } :: dictPeers r

/-- Pre-fix: every entry became an address, with an empty IP when parsing failed. -/
def dictPeersStale : List (Option Bytes × Nat) → List Peer
  | [] => []
  | (ip?, port) :: r => { ip := ip?.getD [], port := port } :: dictPeersStale r

/-! ### `retry in` of a failure reply -/

/-- The delay a failure reply's `retry in` (minutes, a decimal string) asks for, in nanoseconds, as the repaired
`tracker.ParseRetryIn` computes it (fix for finding C15-F4): nothing for anything but a positive decimal number that fits an int, at most a day. -/
def retryMinutesOf (n : Nat) : Nat :=
  if n = 0 ∨ n > 9223372036854775807 then 0 else min n 1440

def retryDigits (t : String) : Nat :=
  if t.isEmpty ∨ !t.toList.all Char.isDigit then 0 else retryMinutesOf t.toNat! * 60000000000

def retryInNs (s : String) : Nat :=
  -- strconv.Atoi: an optional sign, then decimal digits only
  retryDigits (if s.startsWith "+" then (s.drop 1).toString else s)

end Rain.TrackerWire
