/-
M-WSACCT — the torrent-level bookkeeping of web seed downloads (package `torrent`):
`t.webseedActiveDownloads` against `Config.WebseedMaxDownloads` and against the sources that really have a
downloader (`WebseedSource.Downloader != nil`), `WebseedSource.Disabled`, and the one-minute retry.

Transliterated (same branch order):
  * `startPieceDownloaderForWebseed` / `startWebseedDownloader`  (torrent_start.go)      → `startFor`
  * the web seed loop of `startPieceDownloaders`                  (torrent_start.go)      → `startAll`
  * `handleWebseedPieceResult`: error, and `msg.Done` in both branches (torrent_webseed.go) → `Ev.wsError`, `Ev.rangeEnd`
  * `disableSource` / `notifyWebseedRetry` / `case src := <-t.webseedRetryC`             → `disable`, `Ev.retry`
  * `handlePieceWriteDone`: `!HashOK` with a web seed as source; `WebseedStopAt` returned `closed`
                                                                   (torrent_write.go)      → `Ev.wsCorrupt`, `Ev.stopAtClosed`
  * `stopWebseedDownloads` (called by `stop` and by `checkCompletion`) (torrent_stop.go)   → `Ev.stopAll`

What the piece picker answers (`PickWebseed` returns a range or nil) is an input of the events (`pick`, or `k` =
for how many sources in a row a range is found); which pieces are downloaded is not modelled here.
`step` is the code as it is, `stepFixed` the code with the smallest repair of finding C17-F3 (the slot of a corrupt
web seed is only given back if the source still has a downloader).  Core Lean only.
-/
/-! NOTE (after the repair of finding C17-F3, rain commit b821f33): `stepFixed` / `runFixed` is now the code as it is
(the driver of suite `wsloop` replays with `runFixed`); `step` / `run` is the behaviour before the repair, kept for
the counterexample theorems (`…_full_false`, `active_drift_counterexample`). -/
namespace Rain.WsAcct

/-- One `webseedsource.WebseedSource` as far as the bookkeeping looks at it. -/
structure Src where
  /-- `Disabled` -/
  disabled : Bool := false
  /-- `Downloader != nil` -/
  dl : Bool := false
  /-- a `notifyWebseedRetry` goroutine is waiting for its minute to pass -/
  retryDue : Bool := false
  deriving DecidableEq, Repr, Inhabited

structure St where
  srcs : List Src
  /-- `t.webseedActiveDownloads` (a Go `int`) -/
  active : Int
  /-- `Config.WebseedMaxDownloads` -/
  cap : Int
  /-- `t.status() == Downloading && t.piecePicker != nil` -/
  running : Bool
  deriving DecidableEq, Repr

def init (n : Nat) (cap : Int) : St := ⟨List.replicate n {}, 0, cap, false⟩

/-- Number of sources that have a downloader. -/
def countDl : List Src → Nat
  | [] => 0
  | x :: r => (if x.dl then 1 else 0) + countDl r

/-- Apply `f` to the source with index `i` (nothing happens for an index that does not exist). -/
def upd (f : Src → Src) : List Src → Nat → List Src
  | [], _ => []
  | x :: r, 0 => f x :: r
  | x :: r, i + 1 => x :: upd f r i

def hasDl (s : St) (i : Nat) : Bool :=
  match s.srcs[i]? with
  | some x => x.dl
  | none => false

def isDue (s : St) (i : Nat) : Bool :=
  match s.srcs[i]? with
  | some x => x.retryDue
  | none => false

/-- `startWebseedDownloader`: `if src.Downloader != nil { return }`, else the downloader is set and
`Disabled = false`. -/
def openDl (x : Src) : Src := if x.dl then x else { x with dl := true, disabled := false }

/-- `piecePicker.CloseWebseedDownloader(src)` -/
def closeDl (x : Src) : Src := { x with dl := false }

/-- `disableSource(url, err, retry)` for the matching source. -/
def disable (retry : Bool) (x : Src) : Src :=
  { x with disabled := true, dl := false, retryDue := x.retryDue || retry }

/-- the retry timer of the source has fired: the pause after the download error is over, whatever can be done with
the source at this moment (fix for finding C10-F4 — `Disabled` used to stay set when the retry found the torrent
stopped, every slot taken or nothing to pick, and nothing ever cleared it) -/
def clearDue (x : Src) : Src := { x with retryDue := false, disabled := false }

/-- `startPieceDownloaderForWebseed(src)`; `pick` = `PickWebseed(src)` found a range. -/
def startFor (s : St) (i : Nat) (pick : Bool) : St × Bool :=
  if s.active ≥ s.cap then (s, false)
  else if !s.running then (s, false)
  else if !pick then (s, false)
  else ({ s with srcs := upd openDl s.srcs i, active := s.active + 1 }, true)

/-- The loop over the sources in `startPieceDownloaders`: sources that neither download nor are disabled are
started in order until one start fails (`break`).  `k` = number of `PickWebseed` calls that still find a range. -/
def startLoop (s : St) : List Nat → Nat → St
  | [], _ => s
  | i :: is, k =>
    match s.srcs[i]? with
    | none => startLoop s is k
    | some x =>
      if !x.dl && !x.disabled then
        match startFor s i (decide (0 < k)) with
        | (s', true) => startLoop s' is (k - 1)
        | (_, false) => s
      else startLoop s is k

/-- `startPieceDownloaders` (its web seed part). -/
def startAll (s : St) (k : Nat) : St :=
  if !s.running then s else startLoop s (List.range s.srcs.length) k

inductive Ev where
  /-- the status changes (start reaches Downloading with a piece picker / leaves it) -/
  | run (b : Bool)
  /-- `startPieceDownloaders()` called by a handler (allocation / verification done, a peer closed, choked, snubbed) -/
  | startAll (k : Nat)
  /-- `handleWebseedPieceResult`, `msg.Error != nil`, from the downloader of source `i` -/
  | wsError (i k : Nat)
  /-- `handleWebseedPieceResult`, `msg.Done`: the range of source `i` is finished -/
  | rangeEnd (i : Nat) (pick : Bool)
  /-- `handlePieceWriteDone`, `!HashOK`, the piece came from web seed `i` -/
  | wsCorrupt (i k : Nat)
  /-- `handlePieceWriteDone`: a peer completed a piece of source `i`'s range and `WebseedStopAt` closed the downloader -/
  | stopAtClosed (i : Nat) (pick : Bool)
  /-- `case src := <-t.webseedRetryC` -/
  | retry (i : Nat) (pick : Bool)
  /-- `stopWebseedDownloads` (`stop`, `checkCompletion`) -/
  | stopAll
  deriving Repr

/-- close the downloader of source `i`, give the slot back, try to start a new range for the same source -/
def closeAndRestart (s : St) (i : Nat) (pick : Bool) : St :=
  (startFor { s with srcs := upd closeDl s.srcs i, active := s.active - 1 } i pick).1

/-- One handler of the event loop, as the code is.  Results only come from a live downloader (`Close` waits for
the downloader goroutine, `sendResult` gives up when closed) and a retry only from a `notifyWebseedRetry`
goroutine: an event whose sender does not exist changes nothing. -/
def step (s : St) : Ev → St
  | .run b => { s with running := b }
  | .startAll k => startAll s k
  | .wsError i k =>
    if hasDl s i then
      startAll { s with srcs := upd (disable true) s.srcs i, active := s.active - 1 } k
    else s
  | .rangeEnd i pick => if hasDl s i then closeAndRestart s i pick else s
  | .wsCorrupt i k =>
    if i < s.srcs.length then
      -- `t.disableSource(src.URL, …, false); t.webseedActiveDownloads--` — whether or not the source still downloads
      startAll { s with srcs := upd (disable false) s.srcs i, active := s.active - 1 } k
    else s
  | .stopAtClosed i pick => if hasDl s i then closeAndRestart s i pick else s
  | .retry i pick =>
    if isDue s i then
      (startFor { s with srcs := upd clearDue s.srcs i } i pick).1
    else s
  | .stopAll => { s with srcs := s.srcs.map closeDl, active := 0, running := false }

/-- The same with the repair of C17-F3: the counter is only decremented for a downloader that was closed. -/
def stepFixed (s : St) : Ev → St
  | .wsCorrupt i k =>
    if i < s.srcs.length then
      startAll { s with srcs := upd (disable false) s.srcs i,
                        active := if hasDl s i then s.active - 1 else s.active } k
    else s
  | e => step s e

def run (s : St) : List Ev → St
  | [] => s
  | e :: es => run (step s e) es

def runFixed (s : St) : List Ev → St
  | [] => s
  | e :: es => runFixed (stepFixed s e) es

/-- The event is one in which the code and the repaired code agree: a corrupt piece is reported for a source that
still has its downloader. -/
def SafeEv (s : St) : Ev → Prop
  | .wsCorrupt i _ => hasDl s i = true
  | _ => True

instance (s : St) (e : Ev) : Decidable (SafeEv s e) := by
  cases e <;> simp only [SafeEv] <;> infer_instance

/-- No event of the history reports a corrupt piece for a source without a downloader. -/
def SafeRun : St → List Ev → Prop
  | _, [] => True
  | s, e :: es => SafeEv s e ∧ SafeRun (step s e) es

instance : (s : St) → (es : List Ev) → Decidable (SafeRun s es)
  | _, [] => isTrue trivial
  | s, e :: es =>
    have := instDecidableSafeRun (step s e) es
    by simp only [SafeRun]; infer_instance

end Rain.WsAcct
