import RainModel.Model.Blocks
/-
M-PW — transliteration of `piecewriter.(*PieceWriter).Run` (internal/piecewriter/piecewriter.go),
`piece.(*Piece).VerifyHash` (internal/piece/piece.go), `filesection.Piece.Write`
(internal/filesection/section.go), `bufferpool` get/release (internal/bufferpool/bufferpool.go)
and the result logic of `verifier.(*Verifier).Run` (internal/verifier/verifier.go).

* SHA-1 is the parameter `H : Bytes → Hash`; every theorem holds for every `H`.
* Storage is abstract: `WriteAt` calls are *returned* as a list (`file` = identity of the
  `sec.File`, `off` = `sec.Offset`, `data` = the slice passed).  A successful `WriteAt` returns
  `len(p)` (io.WriterAt contract); the call that fails is chosen by the input `failAt`
  (index among the WriteAt calls), after which `Write` returns.
* `b[sec.Length:]` / `b[:sec.Length]` on a buffer shorter than the section: outcome
  `badGeometry` (Go: panic, or bytes of the pool buffer's slack capacity).  Unreachable after the
  hash gate when `piece.Length = Σ section lengths`, which `NewPieces` establishes (C02).
* metrics marks and the semaphore are not modelled (no effect on what is written).

Core Lean only.
-/
namespace Rain.PW
open Rain.Blocks

abbrev Bytes := List Nat

/-- `filesection.FileSection` reduced to what `Write` reads. -/
structure FSec where
  file : Nat
  off : Nat
  len : Nat
  pad : Bool
  deriving Repr, DecidableEq, Inhabited

def FSec.toSec (s : FSec) : Sec := { len := s.len, pad := s.pad }

/-- `piece.Piece` reduced to what `VerifyHash` and `Write` read. -/
structure Piece (Hash : Type) where
  length : Nat
  secs : List FSec
  hash : Hash

/-- One `sec.File.WriteAt(data, off)` call. -/
structure Write where
  file : Nat
  off : Nat
  data : Bytes
  deriving Repr, DecidableEq

inductive WStatus
  | ok           -- Write returned err == nil
  | error        -- a WriteAt returned an error; Write returned it
  | badGeometry  -- buffer shorter than the sections (see header)
  deriving Repr, DecidableEq

/-- `filesection.Piece.Write(b)`.  `k` counts WriteAt calls, `acc` the calls so far (reversed). -/
def writeSecs (failAt : Option Nat) : List FSec → Bytes → Nat → List Write → WStatus × List Write
  | [], _, _, acc => (.ok, acc.reverse)
  | sec :: rest, b, k, acc =>
    if b.length < sec.len then (.badGeometry, acc.reverse)
    else if sec.pad then writeSecs failAt rest (b.drop sec.len) k acc
    else
      let w : Write := { file := sec.file, off := sec.off, data := b.take sec.len }
      if failAt = some k then (.error, (w :: acc).reverse)
      else writeSecs failAt rest (b.drop sec.len) (k + 1) (w :: acc)

/-- `Piece.VerifyHash(buf, sha1.New())`. -/
def verifyHash {Hash : Type} [DecidableEq Hash] (H : Bytes → Hash) (p : Piece Hash) (buf : Bytes) : Bool :=
  if buf.length ≠ p.length then false else H buf == p.hash

structure RunResult where
  hashOK : Bool
  status : WStatus
  writes : List Write
  deriving Repr, DecidableEq

/-- `PieceWriter.Run`: the hash gate, then the section writes. -/
def run {Hash : Type} [DecidableEq Hash] (H : Bytes → Hash) (p : Piece Hash) (buf : Bytes)
    (failAt : Option Nat) : RunResult :=
  let hashOK := verifyHash H p buf
  if hashOK then
    let r := writeSecs failAt p.secs buf 0 []
    { hashOK := true, status := r.1, writes := r.2 }
  else { hashOK := false, status := .ok, writes := [] }

/-! ### Specification of the section writes -/

def totalLen (secs : List FSec) : Nat := (secs.map (·.len)).sum

/-- What a complete write of `buf` into the sections must do, stated without a cursor: section
`s` starting at piece offset `o` receives `buf[o, o+s.len)` iff it is not padding. -/
def sectionWrites : List FSec → Nat → Bytes → List Write
  | [], _, _ => []
  | s :: rest, o, buf =>
    (if s.pad then [] else [{ file := s.file, off := s.off, data := (buf.drop o).take s.len }]) ++
    sectionWrites rest (o + s.len) buf

/-- The bytes of `buf` at the positions where `mask` is `true`, in order. -/
def keepMask : List Bool → Bytes → Bytes
  | m :: ms, x :: xs => if m then x :: keepMask ms xs else keepMask ms xs
  | _, _ => []

/-- Oracle for one observed run of the real `PieceWriter` (the content of `pw_gate`):
`match` = the harness's independent verdict `len(buf) = piece.Length ∧ sha1(buf) = piece.Hash`. -/
def gateOK (secs : List FSec) (buf : Bytes) (matched : Bool) (hashOK : Bool) (err : Bool) (ws : List Write) : Bool :=
  hashOK == matched &&
  (matched || ws.isEmpty) &&
  (!(matched && !err) || ws == sectionWrites secs 0 buf) &&
  (!(matched && err) || (sectionWrites secs 0 buf).take ws.length == ws)

/-! ### bufferpool -/

/-- `Pool.Get(datalen)` on a pooled backing array with arbitrary old contents:
`(*buf)[:datalen]` then `clear`. `none` = slice bounds out of range (`datalen > buflen`). -/
def poolGet (backing : Bytes) (datalen : Nat) : Option Bytes :=
  if backing.length < datalen then none
  else some ((backing.take datalen).map fun _ => 0)

/-! ### verifier result logic -/

/-- `Verifier.Run` over pieces with the bytes `ReadAt` delivered for each (`none` = read error):
the bitfield it reports.  Stops at the first read error (bits set so far are kept in `Bitfield`,
`Error` is set). Returns `(bits, error)`. -/
def verifyAll {Hash : Type} [DecidableEq Hash] (H : Bytes → Hash) :
    List (Piece Hash × Option Bytes) → List Bool × Bool
  | [] => ([], false)
  | (_, none) :: rest => (List.replicate (rest.length + 1) false, true)
  | (p, some buf) :: rest =>
    let (bits, e) := verifyAll H rest
    (verifyHash H p buf :: bits, e)

end Rain.PW
