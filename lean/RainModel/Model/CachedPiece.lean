import RainModel.Model.Cache
/-
M-CP — transliteration of `internal/cachedpiece/cachedpiece.go` over M-CACHE.

`ReadAt(p, off)` of the repaired code (rain `fix:` commits, see notes/C03.md): a loop over
`readBlock`, which serves the part of the request that lies in the cache block containing `off`
(block arithmetic in `int64`; all intermediate values are bounded by `max off length < 2^33`, so
`Nat` models them exactly).  The bytes of the piece on disk are reached through
`c.pi.Data.ReadAt(b, blkBegin)` — `filesection.Piece.ReadAt`, modelled in detail for C02; here it
is the abstract parameter `rd : offset → length → LoadRes`.

`readAtOld` is the code before the repair (one block only, `uint32` truncations); it is kept for the
counterexample theorems of `Props/C03`.

Core Lean only.
-/
namespace Rain.CachedPiece
open Rain.Cache

def be32 (n : Nat) : Bytes := [n / 16777216 % 256, n / 65536 % 256, n / 256 % 256, n % 256]

/-- `key = peerID(20) ‖ be32(pi.Index) ‖ be32(blk)`. -/
def mkKey (peerID : Bytes) (index blk : Nat) : Bytes := peerID ++ be32 index ++ be32 blk

def slice (d : Bytes) (off n : Nat) : Bytes := (d.drop off).take n

/-- `CachedPiece` (without the cache, which is threaded through as state). -/
structure CP where
  peerID : Bytes
  /-- `pi.Index` -/
  index : Nat
  /-- `pi.Length` -/
  length : Nat
  readSize : Nat
  deriving Repr

/-- The abstract disk: `rd off len` is the outcome of `pi.Data.ReadAt(make([]byte, len), off)`. -/
abbrev Reader := Nat → Nat → LoadRes

inductive BlkRes
  | ok (bs : Bytes)
  /-- `off` is not inside the piece: `io.EOF` -/
  | eof
  /-- the loader (disk read) failed -/
  | err
  /-- the cached block is too short to contain `off`: `io.ErrUnexpectedEOF` -/
  | short
  /-- division by a zero `readSize`, or a cache panic -/
  | panic
  deriving Repr, DecidableEq

/-- `blkEnd := length; if readSize < length-blkBegin { blkEnd = blkBegin + readSize }`. -/
def blkEndOf (length rs blkBegin : Nat) : Nat :=
  if rs < length - blkBegin then blkBegin + rs else length

/-- `readBlock(p, off)` with `want = len(p)`. -/
def readBlock (cp : CP) (rd : Reader) (c : Cache Bytes) (want off : Nat) : Cache Bytes × BlkRes :=
  if cp.readSize = 0 then (c, .panic)
  else if off ≥ cp.length then (c, .eof)
  else
    let blk := off / cp.readSize
    let blkBegin := blk * cp.readSize
    let blkEnd := blkEndOf cp.length cp.readSize blkBegin
    match get c (mkKey cp.peerID cp.index blk) (rd blkBegin (blkEnd - blkBegin)) with
    | (c', .error) => (c', .err)
    | (c', .panic) => (c', .panic)
    | (c', .value buf _) =>
      let begin := off - blkBegin
      if begin ≥ buf.length then (c', .short)
      else (c', .ok ((buf.drop begin).take want))

inductive RdRes
  /-- `(len(p), nil)` with the bytes written to `p` -/
  | ok (bs : Bytes)
  /-- `(n, err)` with `err != nil`; `bs` = the `n` bytes written before the error -/
  | err (bs : Bytes)
  | panic
  /-- fuel exhausted (never: `readAt_fuel`) -/
  | fuel
  deriving Repr, DecidableEq

/-- `ReadAt(p, off)`: `for n < len(p) { m, err = readBlock(p[n:], off+n); n += m; if err … }`. -/
def readAtLoop (cp : CP) (rd : Reader) : Nat → Cache Bytes → Nat → Nat → Bytes → Cache Bytes × RdRes
  | 0, c, _, _, _ => (c, .fuel)
  | fuel + 1, c, want, off, acc =>
    if want = 0 then (c, .ok acc)
    else match readBlock cp rd c want off with
      | (c', .ok bs) => readAtLoop cp rd fuel c' (want - bs.length) (off + bs.length) (acc ++ bs)
      | (c', .panic) => (c', .panic)
      | (c', _) => (c', .err acc)

def readAt (cp : CP) (rd : Reader) (c : Cache Bytes) (n off : Nat) : Cache Bytes × RdRes :=
  readAtLoop cp rd (n + 1) c n off []

/-! ### The code before the repair -/

def u32 (n : Nat) : Nat := n % 4294967296

/-- Pre-fix `ReadAt`: one cache block, `uint32` truncation of `blk`, `blkBegin`, `blkBegin+readSize`;
a short copy is returned with a nil error. -/
def readAtOld (cp : CP) (rd : Reader) (c : Cache Bytes) (n off : Nat) : Cache Bytes × RdRes :=
  if cp.readSize = 0 then (c, .panic) else
  let blk := u32 (off / cp.readSize)
  let blkBegin := u32 (blk * cp.readSize)
  let blkEnd := min (u32 (blkBegin + cp.readSize)) cp.length
  if blkEnd < blkBegin then (c, .panic)   -- `make([]byte, blkEnd-blkBegin)` with a wrapped length
  else
  match get c (mkKey cp.peerID cp.index blk) (rd blkBegin (blkEnd - blkBegin)) with
  | (c', .error) => (c', .err [])
  | (c', .panic) => (c', .panic)
  | (c', .value buf _) =>
    if off < blkBegin ∨ off - blkBegin > buf.length then (c', .panic)   -- `buf[begin:]` out of range
    else (c', .ok ((buf.drop (off - blkBegin)).take n))

/-! ### Specification side -/

/-- A disk that returns the bytes of `data` or fails. -/
def ExactReader (data : Bytes) (rd : Reader) : Prop :=
  ∀ off len v, rd off len = .ok v → v = slice data off len

/-- The disk that never fails. -/
def dataReader (data : Bytes) : Reader := fun off len =>
  if off + len ≤ data.length then .ok (slice data off len) else .err

/-- Bytes of cache block `blk` of a piece. -/
def blockSlice (data : Bytes) (rs blk : Nat) : Bytes :=
  slice data (blk * rs) (blkEndOf data.length rs (blk * rs) - blk * rs)

/-- Every torrent's pieces: `(peerID, index) ↦ bytes`. -/
abbrev World := Bytes → Nat → Bytes

/-- The cache holds, under every key that some `CachedPiece` of the world can form, exactly that
block of that piece (items under other keys are unconstrained). -/
def Coherent (w : World) (rs : Nat) (c : Cache Bytes) : Prop :=
  ∀ i ∈ c.heap, ∀ pid idx blk, pid.length = 20 → idx < 4294967296 → blk < 4294967296 →
    i.key = mkKey pid idx blk → i.value = blockSlice (w pid idx) rs blk

/-! ### Histories over one shared cache (what a session does) -/

/-- One event on the session's read cache: a served request reads `n` bytes at `off` of piece
`idx` of the torrent with peer id `pid`; timers fire; the clock moves; the cache is cleared. -/
inductive WOp
  | read (pid : Bytes) (idx off n : Nat)
  | fire (k : Bytes)
  | advance (d : Nat)
  | clear
  deriving Repr

def wstep (w : World) (rs : Nat) (c : Cache Bytes) : WOp → Cache Bytes × Option RdRes
  | .read pid idx off n =>
    let cp : CP := { peerID := pid, index := idx, length := (w pid idx).length, readSize := rs }
    let (c', r) := readAt cp (dataReader (w pid idx)) c n off
    (c', some r)
  | .fire k => (fire c k, none)
  | .advance d => (advance c d, none)
  | .clear => (clear c, none)

/-- Results of the reads of a history, in order. -/
def wrun (w : World) (rs : Nat) : Cache Bytes → List WOp → List RdRes
  | _, [] => []
  | c, o :: r =>
    match wstep w rs c o with
    | (c', some x) => x :: wrun w rs c' r
    | (c', none) => wrun w rs c' r

/-- A read that the request validation lets through: a real torrent (20-byte id), 32-bit piece
index and piece length, block inside the piece. -/
def WOp.Valid (w : World) : WOp → Prop
  | .read pid idx off n => pid.length = 20 ∧ idx < 4294967296 ∧ (w pid idx).length < 4294967296 ∧
      off + n ≤ (w pid idx).length
  | _ => True

/-- What the reads of a history must return. -/
def wexpected (w : World) : List WOp → List RdRes
  | [] => []
  | .read pid idx off n :: r => .ok (slice (w pid idx) off n) :: wexpected w r
  | _ :: r => wexpected w r

end Rain.CachedPiece
