/-
M-RM — transliteration of `internal/resourcemanager/resourcemanager.go`.

Part 1 (`Rain.RM`): the state owned by the manager goroutine (`limit`, `available`, `objects`,
`requests map[string][]request`) and one trip through the `select` loop of `run()` as a step
function over the events the `select` can take: a request arriving on `requestC`
(`handleRequest`, with the inner `select` resolved either to "answered on doneC" or to "cancel
branch taken"), a release, the notify branch and the cancel branch for the request returned by
`randomRequest()`, and a stats query.  The three `panic(...)` statements are explicit outcomes.
Go's `map` is an association list (key order is not observable); `deleteRequest` is the same
swap-with-last-and-truncate as in the code.  `randomRequest` is nondeterministic (map iteration,
`rand.IntN`): the event carries the chosen `(key, i)` and `pickable` is the admissibility
condition (`key` present, `i < len`, `r.n ≤ available`).

Part 2 (`Rain.RM.Proto`): the two-party protocol between one caller of
`Request(key, data, n, notifyC, cancelC)` and the manager, as a small-step system that records
who is blocked on which channel.  Parameter `fixed` selects the protocol after the `fix:` commit
(the manager closes `r.doneC` when it takes the cancel branch of `handleRequest`) or the
original one (the cancel branch answers nothing).

`int64` is modelled on `Int`: amounts are piece lengths and a cache size, far from 2^63.
Core Lean only.
-/
namespace Rain.RM

/-- `request[T]` reduced to what the accounting reads.  `id` stands for the identity of the
request (its `doneC`, and the `data` that is sent on `notifyC`). -/
structure Req where
  id : Nat
  key : Nat
  n : Int
  deriving Repr, DecidableEq, Inhabited

abbrev ReqMap := List (Nat × List Req)

/-- `m.requests[key]` (nil when absent). -/
def getK : ReqMap → Nat → List Req
  | [], _ => []
  | (k', rs) :: m, k => if k' = k then rs else getK m k

/-- `m.requests[key] = rs`. -/
def putK : ReqMap → Nat → List Req → ReqMap
  | [], k, rs => [(k, rs)]
  | (k', rs') :: m, k, rs => if k' = k then (k, rs) :: m else (k', rs') :: putK m k rs

/-- `delete(m.requests, key)`. -/
def delK : ReqMap → Nat → ReqMap
  | [], _ => []
  | (k', rs') :: m, k => if k' = k then m else (k', rs') :: delK m k

def hasK : ReqMap → Nat → Bool
  | [], _ => false
  | (k', _) :: m, k => k' = k || hasK m k

/-- `rs[i] = rs[len(rs)-1]; rs = rs[:len(rs)-1]`. -/
def swapRemove {α : Type} (rs : List α) (i : Nat) : List α :=
  match rs.getLast? with
  | none => rs
  | some l => (rs.set i l).dropLast

structure State where
  limit : Int
  available : Int
  objects : Int
  requests : ReqMap
  deriving Repr, DecidableEq

/-- `New(limit)`. -/
def init (limit : Int) : State := { limit := limit, available := limit, objects := 0, requests := [] }

/-- `Stats`. -/
structure Stats where
  allocatedSize : Int
  allocatedObjects : Int
  pendingKeys : Nat
  deriving Repr, DecidableEq

def stats (s : State) : Stats :=
  { allocatedSize := s.limit - s.available, allocatedObjects := s.objects, pendingKeys := s.requests.length }

inductive Outcome (σ : Type) where
  | ok (s : σ)
  | panic (msg : String)
  /-- the event cannot be taken in this state (not a behaviour of the code) -/
  | inadmissible (why : String)
  deriving Repr, DecidableEq

/-- The events one iteration of `run()` can take. -/
inductive Event where
  /-- `r := <-m.requestC; m.handleRequest(r)`; `answered = false` is the `<-r.cancelC` branch. -/
  | request (r : Req) (answered : Bool)
  | release (n : Int)
  /-- `req.notifyC <- req.data` for `req = requests[key][i]`. -/
  | notify (key i : Nat)
  /-- `<-req.cancelC` for `req = requests[key][i]`. -/
  | cancel (key i : Nat)
  | stats
  deriving Repr, DecidableEq

/-- What `handleRequest` sends on `doneC`. -/
def acquiredNow (s : State) (r : Req) : Bool := decide (s.available ≥ r.n)

def handleRequest (s : State) (r : Req) (answered : Bool) : Outcome State :=
  if !answered then .ok s
  else if acquiredNow s r then
    let s' := { s with available := s.available - r.n, objects := s.objects + 1 }
    if s'.available < 0 then .panic "invalid request call 2" else .ok s'
  else .ok { s with requests := putK s.requests r.key (getK s.requests r.key ++ [r]) }

/-- `deleteRequest(key, i)`. -/
def deleteRequest (m : ReqMap) (key i : Nat) : ReqMap :=
  let rs := swapRemove (getK m key) i
  if rs.length > 0 then putK m key rs else delK m key

/-- `randomRequest()` may return `requests[key][i]`. -/
def pickable (s : State) (key i : Nat) : Option Req :=
  if hasK s.requests key then
    match (getK s.requests key)[i]? with
    | some r => if r.n > s.available then none else some r
    | none => none
  else none

def step (s : State) : Event → Outcome State
  | .request r answered => handleRequest s r answered
  | .release n =>
    let s' := { s with available := s.available + n, objects := s.objects - 1 }
    if s'.available > s'.limit then .panic "invalid release call" else .ok s'
  | .notify key i =>
    match pickable s key i with
    | none => .inadmissible "notify: request not pickable"
    | some r =>
      let s' := { s with available := s.available - r.n, objects := s.objects + 1 }
      if s'.available < (0 : Int) then .panic "invalid request call 1"
      else .ok { s' with requests := deleteRequest s.requests key i }
  | .cancel key i =>
    match pickable s key i with
    | none => .inadmissible "cancel: request not pickable"
    | some _ => .ok { s with requests := deleteRequest s.requests key i }
  | .stats => .ok s

/-! ### Ghost-instrumented machine: the ledger the property talks about -/

/-- Manager state plus the history facts the property is about: amounts currently held by
callers (`out`), ids that were ever granted, ids that were ever submitted. -/
structure G where
  s : State
  out : List Int
  granted : List Nat
  seen : List Nat
  deriving Repr, DecidableEq

def ginit (limit : Int) : G := { s := init limit, out := [], granted := [], seen := [] }

/-- One event on the instrumented machine.  Hypotheses of the property are checked here and
reported as `inadmissible`: a request reaches the manager only with `n ≥ 0` (`Request` returns
early otherwise) and carries a fresh identity; a release gives back an amount that is currently
held ("each successful acquisition is released at most once"). -/
def gstep (g : G) : Event → Outcome G
  | .request r answered =>
    if r.n < 0 then .inadmissible "request: n < 0 never reaches the manager"
    else if r.id ∈ g.seen then .inadmissible "request: identity reused"
    else
      match handleRequest g.s r answered with
      | .ok s' =>
        if answered && acquiredNow g.s r then
          .ok { s := s', out := r.n :: g.out, granted := r.id :: g.granted, seen := r.id :: g.seen }
        else .ok { g with s := s', seen := r.id :: g.seen }
      | .panic m => .panic m
      | .inadmissible w => .inadmissible w
  | .release n =>
    if n ∈ g.out then
      match step g.s (.release n) with
      | .ok s' => .ok { g with s := s', out := g.out.erase n }
      | .panic m => .panic m
      | .inadmissible w => .inadmissible w
    else .inadmissible "release: amount not held"
  | .notify key i =>
    match pickable g.s key i with
    | none => .inadmissible "notify: request not pickable"
    | some r =>
      match step g.s (.notify key i) with
      | .ok s' => .ok { g with s := s', out := r.n :: g.out, granted := r.id :: g.granted }
      | .panic m => .panic m
      | .inadmissible w => .inadmissible w
  | .cancel key i =>
    match step g.s (.cancel key i) with
    | .ok s' => .ok { g with s := s' }
    | .panic m => .panic m
    | .inadmissible w => .inadmissible w
  | .stats => .ok g

/-- Run a history; stops at the first non-`ok` outcome. -/
def grun (g : G) : List Event → Outcome G
  | [] => .ok g
  | e :: es =>
    match gstep g e with
    | .ok g' => grun g' es
    | .panic m => .panic m
    | .inadmissible w => .inadmissible w

def sumInt : List Int → Int
  | [] => 0
  | x :: xs => x + sumInt xs

/-- All pending requests, in map order. -/
def allReqs : ReqMap → List Req
  | [] => []
  | (_, rs) :: m => rs ++ allReqs m

/-- The conservation law (executable: the same predicate is the oracle of suite `rm`). -/
def balanced (g : G) : Bool :=
  decide (0 ≤ g.s.available) && decide (g.s.available ≤ g.s.limit) &&
  decide (g.s.available = g.s.limit - sumInt g.out) && decide (g.s.objects = g.out.length)

/-! ## Part 2 — the requester × manager protocol of `Request` -/
namespace Proto

/-- Program counter of the caller of `Request`. -/
inductive RPc where
  /-- in the outer `select`: `m.requestC <- r` / `<-m.closeC` -/
  | atSend
  /-- the send on `requestC` completed; not yet parked in the inner `select` -/
  | sent
  /-- parked in the inner `select`: `<-r.doneC` / `<-m.closeC` -/
  | parked
  | returned (acquired : Bool)
  deriving Repr, DecidableEq

/-- Where the manager goroutine is, as far as this request is concerned. -/
inductive MPc where
  /-- in (or on its way back to) the `select` of `run()` -/
  | loop
  /-- inside `handleRequest(r)`: `r.doneC <- acquired` / `<-r.cancelC` -/
  | handling
  /-- `run()` returned after `closeC` was closed -/
  | exited
  deriving Repr, DecidableEq

structure PState where
  rpc : RPc
  mpc : MPc
  r : Req
  ms : State
  /-- `cancelC` is closed -/
  cancelClosed : Bool
  /-- `m.closeC` is closed -/
  closeClosed : Bool
  /-- `r.doneC` is closed (only the fixed manager does that) -/
  doneClosed : Bool
  /-- the manager went through the cancel branch of `handleRequest` for `r` -/
  dropped : Bool
  deriving Repr, DecidableEq

inductive Act where
  /-- rendezvous on `requestC` -/
  | send
  /-- the caller reaches its inner `select` -/
  | park
  /-- rendezvous on `r.doneC` (the manager's send meets the parked caller) -/
  | answer
  /-- the manager takes `<-r.cancelC` in `handleRequest` -/
  | mgrCancel
  /-- the caller takes `<-m.closeC` (outer or inner `select`) -/
  | reqSeesClose
  /-- the caller's `<-r.doneC` yields the zero value from the closed channel -/
  | reqSeesDoneClosed
  /-- `run()` takes `<-m.closeC` and returns -/
  | mgrExit
  /-- environment: somebody closes `cancelC` (in rain: the peer is closed) -/
  | envCancel
  /-- environment: `Close()` -/
  | envClose
  deriving Repr, DecidableEq

def allActs : List Act :=
  [.send, .park, .answer, .mgrCancel, .reqSeesClose, .reqSeesDoneClosed, .mgrExit, .envCancel, .envClose]

/-- Steps of the caller or the manager (as opposed to the environment closing a channel). -/
def sysActs : List Act :=
  [.send, .park, .answer, .mgrCancel, .reqSeesClose, .reqSeesDoneClosed, .mgrExit]

/-- State right after `Request` built `r` (`n ≥ 0` was checked) and reached its `select`. -/
def start (ms : State) (r : Req) (cancelClosed closeClosed : Bool) : PState :=
  { rpc := .atSend, mpc := .loop, r := r, ms := ms,
    cancelClosed := cancelClosed, closeClosed := closeClosed, doneClosed := false, dropped := false }

def isReturned : RPc → Bool
  | .returned _ => true
  | _ => false

/-- One step; `none` = not enabled.  A manager panic inside `handleRequest` is kept as a stuck
state (`none`): `rm_balance` shows it cannot happen. -/
def pstep (fixed : Bool) (s : PState) : Act → Option PState
  | .send =>
    if s.rpc = .atSend ∧ s.mpc = .loop then some { s with rpc := .sent, mpc := .handling } else none
  | .park =>
    if s.rpc = .sent then some { s with rpc := .parked } else none
  | .answer =>
    if s.rpc = .parked ∧ s.mpc = .handling then
      match handleRequest s.ms s.r true with
      | .ok ms' => some { s with rpc := .returned (acquiredNow s.ms s.r), mpc := .loop, ms := ms' }
      | _ => none
    else none
  | .mgrCancel =>
    if s.mpc = .handling ∧ s.cancelClosed then
      some { s with mpc := .loop, dropped := true, doneClosed := s.doneClosed || fixed }
    else none
  | .reqSeesClose =>
    if (s.rpc = .atSend ∨ s.rpc = .parked) ∧ s.closeClosed then some { s with rpc := .returned false } else none
  | .reqSeesDoneClosed =>
    if s.rpc = .parked ∧ s.doneClosed then some { s with rpc := .returned false } else none
  | .mgrExit =>
    if s.mpc = .loop ∧ s.closeClosed then some { s with mpc := .exited } else none
  | .envCancel =>
    if s.cancelClosed then none else some { s with cancelClosed := true }
  | .envClose =>
    if s.closeClosed then none else some { s with closeClosed := true }

def prun (fixed : Bool) (s : PState) : List Act → Option PState
  | [] => some s
  | a :: as =>
    match pstep fixed s a with
    | some s' => prun fixed s' as
    | none => none

/-- No step of the caller or of the manager is enabled. -/
def stuck (fixed : Bool) (s : PState) : Bool :=
  sysActs.all fun a => (pstep fixed s a).isNone

/-- States the protocol can be in (inductive invariant of `pstep`; every `start` state
satisfies it). -/
def wf (fixed : Bool) (s : PState) : Bool :=
  -- the manager is inside handleRequest only while the caller is between its send and its return
  (s.mpc != .handling || s.rpc = .sent || s.rpc = .parked || isReturned s.rpc) &&
  -- before the send nothing happened to this request
  (s.rpc != .atSend || (s.mpc != .handling && !s.dropped && !s.doneClosed)) &&
  -- the manager left handleRequest without the caller having been answered only through cancel
  ((!(s.rpc = .sent || s.rpc = .parked)) || s.mpc = .handling || s.dropped) &&
  -- the fixed manager closes doneC whenever it drops
  (!fixed || !s.dropped || s.doneClosed) &&
  (!s.dropped || s.cancelClosed) &&
  (s.mpc != .exited || s.closeClosed) &&
  -- the manager does not panic in handleRequest (consequence of `rm_balance`)
  (decide (0 ≤ s.r.n))

/-- Termination measure: every step strictly decreases it. -/
def pmeasure (s : PState) : Nat :=
  (match s.rpc with | .atSend => 6 | .sent => 4 | .parked => 2 | .returned _ => 0) +
  (match s.mpc with | .handling => 2 | .loop => 1 | .exited => 0) +
  (if s.cancelClosed then 0 else 1) + (if s.closeClosed then 0 else 1)

end Proto
end Rain.RM
