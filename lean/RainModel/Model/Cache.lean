/-
M-CACHE — transliteration of `internal/piececache` (cache.go, item.go), sequential semantics.

Go state: `items map[string]*item` (here `keys`, the key set of the map), `accessList` (a
`container/heap` ordered by `lastAccessed`; here `heap`, an unordered list whose "element 0" is the
item with the least `last` — `container/heap` is trusted standard library), `size`, `maxSize`, `ttl`.
Every item carries a `time.AfterFunc(ttl)` timer that is re-armed on access; here an item carries
its `deadline` on a logical clock `now`.

Operations: `get k r` (`Cache.Get(key, loader)`; `r` is what the loader returns *if* it is
called), `fire k` (the timer callback of the item stored under `k` runs — at ANY moment: the
theorems do not assume timers are punctual), `advance d` (the clock moves by `d` and every timer that
is due fires), `clear` (`Cache.Clear`).

Assumptions made by this model (listed in notes/C03.md): operations are linearised (the per-item
mutex and `c.m` make `getItem`/`getValue`/`handleNewItem` of different goroutines interleave, see
notes); `time.Now()` is strictly increasing from one `Get` to the next (so `lastAccessed` values are
distinct and the LRU victim is unique) — modelled by `now := now + 1` at the start of `get`.

Core Lean only.
-/
namespace Rain.Cache

abbrev Bytes := List Nat

/-- `item` once loaded and pushed on the access list. -/
structure Item (κ : Type) where
  key : κ
  value : Bytes
  /-- `lastAccessed` -/
  last : Nat
  /-- when its timer is due -/
  deadline : Nat
  deriving Repr, DecidableEq

structure Cache (κ : Type) where
  maxSize : Int
  ttl : Nat
  now : Nat
  /-- key set of the `items` map -/
  keys : List κ
  /-- `accessList` -/
  heap : List (Item κ)
  size : Int
  deriving Repr

/-- `piececache.New`. -/
def new {κ : Type} (maxSize : Int) (ttl : Nat) : Cache κ :=
  { maxSize := maxSize, ttl := ttl, now := 0, keys := [], heap := [], size := 0 }

/-- What a `Loader` returns. On error the Go code discards the bytes. -/
inductive LoadRes
  | ok (v : Bytes)
  | err
  deriving Repr, DecidableEq

inductive GetRes
  /-- `(value, nil)`; `hit` = served from the cache without calling the loader -/
  | value (v : Bytes) (hit : Bool)
  /-- `(nil, err)` -/
  | error
  /-- a Go panic (`accessList[0]` on an empty list) or a state the sequential code cannot reach
  (key in the map, item not on the access list) -/
  | panic
  deriving Repr, DecidableEq

variable {κ : Type} [DecidableEq κ]

def sumLen : List (Item κ) → Int
  | [] => 0
  | i :: r => (i.value.length : Int) + sumLen r

/-- `accessList[0]`: an item with the least `lastAccessed` (`none` = empty list, Go panics). -/
def minLast : List (Item κ) → Option (Item κ)
  | [] => none
  | i :: r =>
    match minLast r with
    | none => some i
    | some j => if j.last < i.last then some j else some i

def removeKey (k : κ) (h : List (Item κ)) : List (Item κ) := h.filter (fun i => i.key ≠ k)

/-- `removeItem(i)`: `delete(c.items, i.key)`, `heap.Remove`, `c.size -= len(i.value)`. -/
def Cache.removeItem (c : Cache κ) (i : Item κ) : Cache κ :=
  { c with keys := c.keys.erase i.key, heap := removeKey i.key c.heap, size := c.size - i.value.length }

/-- `makeRoom(i)`: `for c.maxSize-c.size < len(i.value) { removeItem(c.accessList[0]) }`.
`none` = the loop indexes an empty access list (Go panic) or the fuel ran out; `makeRoom_ok`
(Lemmas) shows neither happens from a state satisfying the invariant. -/
def makeRoom (len : Nat) : Nat → Cache κ → Option (Cache κ)
  | 0, _ => none
  | fuel + 1, c =>
    if c.maxSize - c.size < (len : Int) then
      match minLast c.heap with
      | none => none
      | some v => makeRoom len fuel (c.removeItem v)
    else some c

/-- `updateAccessTime`: `lastAccessed = now`, `heap.Fix`, `timer.Reset(ttl)`. -/
def touch (k : κ) (now ttl : Nat) (h : List (Item κ)) : List (Item κ) :=
  h.map fun j => if j.key = k then { j with last := now, deadline := now + ttl } else j

/-- `Cache.Get(key, loader)` = `getItem` + `getValue` (+ `handleNewItem` on a miss). -/
def get (c : Cache κ) (k : κ) (r : LoadRes) : Cache κ × GetRes :=
  let c := { c with now := c.now + 1 }
  if k ∈ c.keys then
    -- `i.loaded`: serve from the item, refresh its access time and timer
    match c.heap.find? (fun i => i.key = k) with
    | some i => ({ c with heap := touch k c.now c.ttl c.heap }, .value i.value true)
    | none => (c, .panic)
  else
    -- `getItem` stores a fresh unloaded item under the key, `getValue` calls the loader
    let c := { c with keys := k :: c.keys }
    match r with
    | .err => ({ c with keys := c.keys.erase k }, .error)
    | .ok v =>
      if (v.length : Int) > c.maxSize then
        -- "Do not cache values larger than cache size."
        ({ c with keys := c.keys.erase k }, .value v false)
      else
        match makeRoom v.length (c.heap.length + 1) c with
        | none => (c, .panic)
        | some c' =>
          ({ c' with size := c'.size + v.length,
                     heap := c'.heap ++ [{ key := k, value := v, last := c'.now, deadline := c'.now + c'.ttl }] },
           .value v false)

/-- The timer callback of the item stored under `k`: `if i.index != -1 { c.removeItem(i) }`. -/
def fire (c : Cache κ) (k : κ) : Cache κ :=
  match c.heap.find? (fun i => i.key = k) with
  | some i => c.removeItem i
  | none => c

/-- The clock moves; every due timer fires. -/
def advance (c : Cache κ) (d : Nat) : Cache κ :=
  let c := { c with now := c.now + d }
  (c.heap.filter (fun i => i.deadline ≤ c.now)).foldl (fun c i => fire c i.key) c

/-- `Cache.Clear`. -/
def clear (c : Cache κ) : Cache κ := { c with keys := [], heap := [], size := 0 }

inductive Op (κ : Type)
  | get (k : κ) (r : LoadRes)
  | fire (k : κ)
  | advance (d : Nat)
  | clear
  deriving Repr

def step (c : Cache κ) : Op κ → Cache κ × Option GetRes
  | .get k r => let (c', g) := get c k r; (c', some g)
  | .fire k => (fire c k, none)
  | .advance d => (advance c d, none)
  | .clear => (clear c, none)

/-- Ghost log of loader calls that returned bytes: `(key, bytes)`. The loader is called exactly
when the key is not in the map. -/
def loadOf (c : Cache κ) : Op κ → List (κ × Bytes)
  | .get k (.ok v) => if k ∈ c.keys then [] else [(k, v)]
  | _ => []

/-- Run a history; second component = every `(key, bytes)` a loader returned so far. -/
def runLog (c : Cache κ) (log : List (κ × Bytes)) : List (Op κ) → Cache κ × List (κ × Bytes)
  | [] => (c, log)
  | o :: r => runLog (step c o).1 (log ++ loadOf c o) r

def run (c : Cache κ) (ops : List (Op κ)) : Cache κ := (runLog c [] ops).1

/-- The inductive invariant (`cache_transparent`, `cache_bound`). -/
structure Inv (c : Cache κ) : Prop where
  size_eq : c.size = sumLen c.heap
  keys_perm : c.keys.Perm (c.heap.map (·.key))
  nodup : (c.heap.map (·.key)).Nodup
  bound : c.heap = [] ∨ c.size ≤ c.maxSize

/-- Executable form of the invariant, evaluated by the driver on the implementation's state
(`keys` of the map, `(key, len)` of the access list, `size`, `maxSize`). -/
def invCheck (maxSize size : Int) (mapKeys : List κ) (heap : List (κ × Nat)) : Bool :=
  decide (size = (heap.map (fun p => (p.2 : Int))).sum) &&
  decide (0 ≤ size) && (heap.isEmpty || decide (size ≤ maxSize)) &&
  decide (mapKeys.length = heap.length) &&
  mapKeys.all (fun k => heap.any (fun p => p.1 = k)) &&
  heap.all (fun p => mapKeys.contains p.1)

end Rain.Cache
