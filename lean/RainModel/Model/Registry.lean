/-
M-REG — the session registry of package `torrent` as a state machine over abstract maps.

Go anchors: `torrent/session.go` (NewSession, getPort, releasePort, RemoveTorrent, Close),
`session_add.go` (AddTorrent/addTorrentStopped/addMagnet/add/insertTorrent),
`session_load.go` (loadExistingTorrents, CompactDatabase), `session_torrent.go`
(Start, Stop, AddTracker), `session_stats.go` (updateStats).

State of the Go session that matters here:

* `availablePorts map[int]struct{}`                     → `free : List Nat` (a set; `getPort` picks an
  arbitrary key — the choice is an input of the step),
* `torrents map[string]*Torrent`                        → `reg : List Torrent` (assignment `m[id] = t`
  is `regPut`: it *replaces* an entry with the same id, exactly like the Go map),
* `torrentsByInfoHash map[InfoHash][]*Torrent`          → `idx : List (infoHash × id)`,
* the `torrents` bucket of the bbolt file, one sub-bucket per id → `db : List (id × Fields)`
  (`resumer.Write` = `dbPut`, again replacing; the field encoding is `Model/ResumeCodec`),
* adds that have taken a port but are not yet in the registry → `pending` (the Go code holds this
  state in the locals of `addTorrentStopped`/`addMagnet`; several callers can be there at once).

`add` is split into the steps the Go code performs, so that every failure point and the two
critical sections (`mTorrents.RLock` in `add`, `mTorrents.Lock` in `insertTorrent`) are visible:

  `addBegin`  getPort → duplicate-id check (explicit id) / uuid → storage      [fails: noport, dup, storage]
  `addBuild`  newTorrent                                                        [fails: build]
  `addWrite`  resumer.Write                                                     [fails: write]
  `addInsert` insertTorrent
  (`start`    `t.Start()` unless `opt.Stopped`)

Every failing step releases the port (the deferred `releasePort`).  A sequential `AddTorrent` is the
composition `addSeq`.  `addBegin` is the code *after* the `fix:` commit that reserves an explicit id
while the add is in flight; `addBeginUnfixed` is the historical check (registry only), kept for the
counterexample theorem.

What is not modelled: the bitfield and the info bytes themselves (only `hasInfo`), `AddedAt`
(see ResumeCodec), tracker URLs that `trackerManager.Get` rejects (they stay in the record but not in
the live tracker set), DHT, RPC, `Move`.

Records that are read but fail to load (`loadExistingTorrent` returns an error: `parseInfo` — broken
info bytes, more pieces than `Config.MaxPieces` —, a bitfield of the wrong length, `GetStorage`,
`newTorrent` for an info-hash that is not 20 bytes long): *which* records fail is an input of `reopen`
(`bad`, like `Env` for an add).  Such a record stays in the bucket (`dead`), its id is appended to
`invalidTorrentIDs` (`invalid`), no torrent is registered and — the `delete(availablePorts, port)` comes
after the last failure point — its port stays free.  `CleanDatabase` (`clean`) deletes the buckets of the
invalid ids.  The bucket of the bbolt file is `db ++ dead`: `db` holds the records of the registered
torrents and of adds that have written, `dead` the rest.

Core Lean only.
-/
namespace Rain.Registry

/-- Transfer counters (`bytesDownloaded`, `bytesUploaded`, `bytesWasted`, `seededFor`). -/
structure Counters where
  dl : Nat
  ul : Nat
  wasted : Nat
  seeded : Nat
  deriving Repr, DecidableEq, Inhabited

/-- What an add request carries after its input was parsed (`metainfo.New` / `magnet.New`). -/
structure Meta where
  infoHash : String
  name : String
  trackers : List (List String)
  webseeds : List String
  fixedPeers : List String
  hasInfo : Bool
  deriving Repr, DecidableEq, Inhabited

/-- `AddTorrentOptions`. -/
structure Opts where
  id : Option String
  stopped : Bool
  sad : Bool
  sam : Bool
  seq : Bool
  deriving Repr, DecidableEq, Inhabited

/-- The persistent fields of a torrent: what a resume record holds (`boltdbresumer.Spec` minus
info bytes, bitfield, added-at) and what a live torrent carries.  In a live torrent `started`
means "status is neither Stopped nor Stopping"; in a record it is the `started` key. -/
structure Fields where
  infoHash : String
  name : String
  port : Nat
  trackers : List (List String)
  webseeds : List String
  fixedPeers : List String
  hasInfo : Bool
  sad : Bool
  sam : Bool
  seq : Bool
  ccr : Bool
  started : Bool
  cnt : Counters
  deriving Repr, DecidableEq, Inhabited

/-- A live torrent registered under `id`. -/
structure Torrent where
  id : String
  f : Fields
  deriving Repr, DecidableEq, Inhabited

inductive Stage
  | reserved   -- port taken, id fixed, storage obtained
  | built      -- newTorrent returned
  | written    -- resume record written
  deriving Repr, DecidableEq, Inhabited

/-- An add in flight. -/
structure Pending where
  id : String
  port : Nat
  m : Meta
  o : Opts
  stage : Stage
  deriving Repr, DecidableEq, Inhabited

structure State where
  lo : Nat
  hi : Nat
  free : List Nat
  reg : List Torrent
  idx : List (String × String)
  db : List (String × Fields)
  pending : List Pending
  /-- records of the torrents bucket that were read at the last `NewSession` but did not load -/
  dead : List (String × Fields) := []
  /-- `invalidTorrentIDs` -/
  invalid : List String := []
  deriving Repr, DecidableEq, Inhabited

/-- `NewSession` on an empty database: every port of `[lo, hi)` is free. -/
def init (lo hi : Nat) : State :=
  { lo := lo, hi := hi, free := List.range' lo (hi - lo), reg := [], idx := [], db := [], pending := [],
    dead := [], invalid := [] }

/-- The configured port range `[PortBegin, PortEnd)`. -/
def State.range (s : State) : List Nat := List.range' s.lo (s.hi - s.lo)

def State.regIds (s : State) : List String := s.reg.map (·.id)
def State.pendIds (s : State) : List String := s.pending.map (·.id)
def State.dbIds (s : State) : List String := s.db.map (·.1)
def State.deadIds (s : State) : List String := s.dead.map (·.1)
/-- The content of the torrents bucket: one sub-bucket per id. -/
def State.bucket (s : State) : List (String × Fields) := s.db ++ s.dead

/-- `m[id] = t` on a Go map. -/
def regPut (reg : List Torrent) (t : Torrent) : List Torrent :=
  t :: reg.filter (fun x => x.id != t.id)

/-- `CreateBucketIfNotExists(id)` followed by the `Put`s of every key. -/
def dbPut (db : List (String × Fields)) (id : String) (r : Fields) : List (String × Fields) :=
  (id, r) :: db.filter (fun e => e.1 != id)

/-- Update of some keys of an existing bucket; nothing happens when the bucket does not exist. -/
def dbModify (db : List (String × Fields)) (id : String) (g : Fields → Fields) : List (String × Fields) :=
  db.map fun e => if e.1 = id then (e.1, g e.2) else e

def regModify (reg : List Torrent) (id : String) (g : Fields → Fields) : List Torrent :=
  reg.map fun t => if t.id = id then { t with f := g t.f } else t

def regGet (reg : List Torrent) (id : String) : Option Torrent := reg.find? (fun t => t.id == id)

def dbGet (db : List (String × Fields)) (id : String) : Option Fields :=
  (db.find? (fun e => e.1 == id)).map (·.2)

/-- `releasePort`. -/
def State.release (s : State) (p : Nat) : State := { s with free := p :: s.free }

/-- The record `addTorrentStopped` / `addMagnet` write, which is also the state of the new torrent. -/
def freshFields (m : Meta) (o : Opts) (port : Nat) : Fields :=
  { infoHash := m.infoHash, name := m.name, port := port, trackers := m.trackers, webseeds := m.webseeds,
    fixedPeers := m.fixedPeers, hasInfo := m.hasInfo, sad := o.sad, sam := o.sam, seq := o.seq, ccr := false,
    started := false, cnt := ⟨0, 0, 0, 0⟩ }

inductive AddErr
  | noport | dup | storage | build | write
  | badChoice   -- the step was given a choice the implementation cannot make (port not free, id not fresh)
  | notPending  -- the step names an add that is not in flight / not at the right stage
  deriving Repr, DecidableEq, Inhabited

/-- First part of `add`: `getPort` (the port `p` is the arbitrary key the map iteration yields),
the duplicate check for an explicit id — which, after the fix, also reserves the id — or a fresh
uuid `gen`, then `storage.GetStorage` (`stoFail` = it returns an error). -/
def addBeginWith (checkPending : Bool) (s : State) (m : Meta) (o : Opts) (p : Nat) (gen : String) (stoFail : Bool) :
    State × Except AddErr Pending :=
  if s.free = [] then (s, .error .noport)
  else if p ∉ s.free then (s, .error .badChoice)
  else
    -- port taken: from here on every failure runs the deferred `releasePort`
    let s1 : State := { s with free := s.free.erase p }
    match o.id with
    | some gid =>
      if gid ∈ s1.regIds ∨ (checkPending ∧ gid ∈ s1.pendIds) then (s1.release p, .error .dup)
      else if stoFail then (s1.release p, .error .storage)
      else
        let q : Pending := ⟨gid, p, m, o, .reserved⟩
        ({ s1 with pending := q :: s1.pending }, .ok q)
    | none =>
      if gen ∈ s1.regIds ∨ gen ∈ s1.pendIds ∨ gen ∈ s1.dbIds ∨ gen ∈ s1.deadIds then (s, .error .badChoice)
      else if stoFail then (s1.release p, .error .storage)
      else
        let q : Pending := ⟨gen, p, m, o, .reserved⟩
        ({ s1 with pending := q :: s1.pending }, .ok q)

/-- `add` as it is after the fix (explicit ids of in-flight adds count as taken). -/
def addBegin := addBeginWith true
/-- `add` before the fix: only the registry is consulted. -/
def addBeginUnfixed := addBeginWith false

/-- `newTorrent`; on failure the deferred `releasePort` runs. -/
def addBuild (s : State) (q : Pending) (ok : Bool) : State × Except AddErr Pending :=
  if q ∉ s.pending ∨ q.stage ≠ .reserved then (s, .error .notPending)
  else if ok then
    let q' := { q with stage := .built }
    ({ s with pending := q' :: s.pending.erase q }, .ok q')
  else ({ s with pending := s.pending.erase q, free := q.port :: s.free }, .error .build)

/-- `resumer.Write`; on failure the torrent is closed and the port released.  `Write` puts every key
of the bucket, so a record of the same id that failed to load is replaced (its id stays in
`invalidTorrentIDs` until `insertTorrent`). -/
def addWrite (s : State) (q : Pending) (ok : Bool) : State × Except AddErr Pending :=
  if q ∉ s.pending ∨ q.stage ≠ .built then (s, .error .notPending)
  else if ok then
    let q' := { q with stage := .written }
    ({ s with pending := q' :: s.pending.erase q, db := dbPut s.db q.id (freshFields q.m q.o q.port),
              dead := s.dead.filter (fun e => e.1 != q.id) }, .ok q')
  else ({ s with pending := s.pending.erase q, free := q.port :: s.free }, .error .write)

/-- `insertTorrent` (second critical section).  After the `fix:` commit for finding F8 it also takes
the id off `invalidTorrentIDs` (first occurrence): the record of that id has just been written anew,
`CleanDatabase` must not delete it. -/
def addInsert (s : State) (q : Pending) : State × Except AddErr Pending :=
  if q ∉ s.pending ∨ q.stage ≠ .written then (s, .error .notPending)
  else
    let t : Torrent := ⟨q.id, freshFields q.m q.o q.port⟩
    ({ s with pending := s.pending.erase q, reg := regPut s.reg t, idx := s.idx ++ [(q.m.infoHash, q.id)],
              invalid := s.invalid.erase q.id }, .ok q)

/-- `insertTorrent` before the fix of finding F8: the id stays in `invalidTorrentIDs`. -/
def addInsertUnfixed (s : State) (q : Pending) : State × Except AddErr Pending :=
  if q ∉ s.pending ∨ q.stage ≠ .written then (s, .error .notPending)
  else
    let t : Torrent := ⟨q.id, freshFields q.m q.o q.port⟩
    ({ s with pending := s.pending.erase q, reg := regPut s.reg t, idx := s.idx ++ [(q.m.infoHash, q.id)] }, .ok q)

/-- `Torrent.Start`: `WriteStarted(true)` then the start command. -/
def start (s : State) (id : String) : State :=
  if id ∈ s.regIds then
    { s with db := dbModify s.db id (fun r => { r with started := true }),
             reg := regModify s.reg id (fun r => { r with started := true }) }
  else s

/-- `Torrent.Stop`. -/
def stop (s : State) (id : String) : State :=
  if id ∈ s.regIds then
    { s with db := dbModify s.db id (fun r => { r with started := false }),
             reg := regModify s.reg id (fun r => { r with started := false }) }
  else s

/-- Where a sequential add is made to fail (inputs of the environment). -/
structure Env where
  stoFail : Bool := false
  buildFail : Bool := false
  writeFail : Bool := false
  deriving Repr, DecidableEq, Inhabited

/-- `AddTorrent` / `AddURI(magnet)` by one caller with nobody else in between. -/
def addSeq (s : State) (m : Meta) (o : Opts) (p : Nat) (gen : String) (e : Env) : State × Except AddErr String :=
  match addBegin s m o p gen e.stoFail with
  | (s1, .error err) => (s1, .error err)
  | (s1, .ok q1) =>
    match addBuild s1 q1 (!e.buildFail) with
    | (s2, .error err) => (s2, .error err)
    | (s2, .ok q2) =>
      match addWrite s2 q2 (!e.writeFail) with
      | (s3, .error err) => (s3, .error err)
      | (s3, .ok q3) =>
        match addInsert s3 q3 with
        | (s4, .error err) => (s4, .error err)
        | (s4, .ok q4) => (if o.stopped then s4 else start s4 q4.id, .ok q4.id)

/-- `RemoveTorrent(id, keepData)`: `delete(s.torrents, id)`, drop the torrent from the info-hash index,
delete the bucket, close the torrent, release its port.  Unknown id: nothing happens (`nil, nil`). -/
def remove (s : State) (id : String) : State :=
  match regGet s.reg id with
  | none => s
  | some t =>
    { s with reg := s.reg.filter (fun x => x.id != id), idx := s.idx.erase (t.f.infoHash, t.id),
             db := s.db.filter (fun e => e.1 != id), free := t.f.port :: s.free }

/-- `Torrent.AddTracker(uri)` with a URL the tracker manager accepts: the record's tier list and the
live tracker set both get the new single-tracker tier. -/
def addTracker (s : State) (id : String) (uri : String) : State :=
  if id ∈ s.regIds then
    { s with db := dbModify s.db id (fun r => { r with trackers := r.trackers ++ [[uri]] }),
             reg := regModify s.reg id (fun r => { r with trackers := r.trackers ++ [[uri]] }) }
  else s

/-- Peer traffic: the live counters grow. -/
def bump (s : State) (id : String) (d : Counters) : State :=
  { s with reg := regModify s.reg id (fun r =>
      { r with cnt := ⟨r.cnt.dl + d.dl, r.cnt.ul + d.ul, r.cnt.wasted + d.wasted, r.cnt.seeded + d.seeded⟩ }) }

/-- `updateStats`: the counters of every registered torrent are written to its bucket
(`for _, t := range s.torrents { b := mb.Bucket(t.id); b.Put(…) }`; ids are map keys, so every bucket
is written at most once and the loop is this map over the buckets). -/
def updateStats (s : State) : State :=
  { s with db := s.db.map fun e => match regGet s.reg e.1 with
      | some t => (e.1, { e.2 with cnt := t.f.cnt })
      | none => e }

/-- The Go loop dereferences `mb.Bucket(t.id)` without a nil check: it panics iff some registered
torrent has no bucket. -/
def updateStatsPanics (s : State) : Bool := s.reg.any fun t => !(s.dbIds.contains t.id)

/-- `loadExistingTorrent`: `resumer.Read`, `newTorrent`, `delete(availablePorts, port)`,
`insertTorrent`; the torrent is started afterwards iff `ResumeOnStartup` and the record says so. -/
def loadOne (resume : Bool) (s : State) (e : String × Fields) : State :=
  let t : Torrent := ⟨e.1, { e.2 with started := resume && e.2.started }⟩
  { s with free := s.free.erase e.2.port, reg := regPut s.reg t, idx := s.idx ++ [(e.2.infoHash, e.1)] }

/-- A new session on database `db` with range `[lo, hi)`. -/
def openOn (lo hi : Nat) (resume : Bool) (db : List (String × Fields)) : State :=
  db.foldl (loadOne resume) { init lo hi with db := db }

/-- `Close()` then `NewSession` with the same port range (`resume` = `Config.ResumeOnStartup`).
`Close` writes the counters once more.  Defined only when no add is in flight.
`bad` = the ids whose record fails to load in the new session (an input: damaged bytes, `MaxPieces`,
storage).  `loadExistingTorrents` walks over every bucket: a failing one is appended to
`invalidTorrentIDs` and otherwise left alone (its port is not taken: the `delete` comes after the
last failure point of `loadExistingTorrent`), the others are loaded by `loadOne`. -/
def reopen (s : State) (resume : Bool) (bad : List String) : State :=
  if s.pending ≠ [] then s else
  let bucket := (updateStats s).db ++ s.dead
  let failed := bucket.filter (fun e => bad.contains e.1)
  { openOn s.lo s.hi resume (bucket.filter (fun e => !bad.contains e.1)) with
    dead := failed, invalid := failed.map (·.1) }

/-- `CleanDatabase`: `DeleteBucket` for every invalid id in one transaction, then the list is
emptied.  `false` = an id has no bucket (`ErrBucketNotFound`): the transaction is rolled back, nothing
changes. -/
def clean (s : State) : State × Bool :=
  if s.invalid.all (fun id => s.dbIds.contains id || s.deadIds.contains id) then
    ({ s with db := s.db.filter (fun e => !s.invalid.contains e.1),
              dead := s.dead.filter (fun e => !s.invalid.contains e.1), invalid := [] }, true)
  else (s, false)

/-- Damage done to the file from outside while the session is closed, as far as it is visible in the
fields of a record: the stored info-hash of a record that does not load is `ih` (19 bytes in the suite,
which is what makes `newTorrent` fail). -/
def tamper (s : State) (id ih : String) : State :=
  { s with dead := dbModify s.dead id (fun r => { r with infoHash := ih }) }

/-- The record `CompactDatabase` writes for a registered torrent (after the `fix:` commits): identity,
options and counters come from the live torrent; tier list, web-seed list and the started flag are
copied from the torrent's current record `r`. -/
def compactRec (t : Torrent) (r : Fields) : Fields :=
  { t.f with started := r.started, trackers := r.trackers, webseeds := r.webseeds }

/-- `CompactDatabase`: a new database with one record per registered torrent that has metadata.
`none` = it returns an error (`resumer.Read` fails for a registered torrent without a record). -/
def compact (s : State) : Option (List (String × Fields)) :=
  let ts := s.reg.filter (·.f.hasInfo)
  if ts.all (fun t => (dbGet s.db t.id).isSome) then
    some (ts.map fun t => (t.id, compactRec t ((dbGet s.db t.id).getD t.f)))
  else none

/-- The pre-fix record: started flag from the momentary status, tier and web-seed lists from
`rawTrackers` / `rawWebseedSources`, which are only set for torrents loaded at startup (`loaded`). -/
def compactRecUnfixed (loaded : Bool) (t : Torrent) : Fields :=
  if loaded then t.f else { t.f with trackers := [], webseeds := [] }

/-- `rain compact-database`: compact, close, replace the file, and (later) open a session on it. -/
def compactSwap (s : State) (resume : Bool) : State :=
  if s.pending ≠ [] then s else
  match compact s with
  | some c => openOn s.lo s.hi resume c
  | none => s

/-- The operations of a history.  `add` is a whole sequential add; `begin … insert` are its steps,
which may be interleaved with anything else (concurrent callers). -/
inductive Op
  | add (m : Meta) (o : Opts) (p : Nat) (gen : String) (e : Env)
  | abegin (m : Meta) (o : Opts) (p : Nat) (gen : String) (stoFail : Bool)
  | abuild (q : Pending) (ok : Bool)
  | awrite (q : Pending) (ok : Bool)
  | ainsert (q : Pending)
  | remove (id : String)
  | start (id : String)
  | stop (id : String)
  | addTracker (id uri : String)
  | bump (id : String) (d : Counters)
  | updateStats
  | reopen (resume : Bool) (bad : List String)
  | compactSwap (resume : Bool)
  | clean
  | tamper (id ih : String)
  deriving Repr, DecidableEq, Inhabited

def step (s : State) : Op → State
  | .add m o p gen e => (addSeq s m o p gen e).1
  | .abegin m o p gen sf => (addBegin s m o p gen sf).1
  | .abuild q ok => (addBuild s q ok).1
  | .awrite q ok => (addWrite s q ok).1
  | .ainsert q => (addInsert s q).1
  | .remove id => remove s id
  | .start id => start s id
  | .stop id => stop s id
  | .addTracker id uri => addTracker s id uri
  | .bump id d => bump s id d
  | .updateStats => updateStats s
  | .reopen r bad => reopen s r bad
  | .compactSwap r => compactSwap s r
  | .clean => (clean s).1
  | .tamper id ih => tamper s id ih

def run (s : State) (ops : List Op) : State := ops.foldl step s

/-- The histories the C14 theorems are about.  Two things are excluded:

* a record that failed to load loads at a later restart (its failure was transient: `MaxPieces` raised
  again, storage back): its port was free in between and may have been given to another torrent — the
  load does not look at `availablePorts`, two live torrents then share the port (finding F7, known;
  `reload_shares_port_counterexample` in `Props/C14`);
* `CleanDatabase` while an add whose id is listed in `invalidTorrentIDs` is in flight (between its
  `resumer.Write` and its `insertTorrent` the freshly written record would be deleted:
  `clean_during_add_counterexample`) — like Close/reopen, `CleanDatabase` is assumed not to run
  concurrently with an add.

An add under an explicit id that is listed as invalid is **not** excluded any more (finding F8, fixed:
`insertTorrent` takes the id off the list). -/
def tame (s : State) : Op → Bool
  | .reopen _ bad => s.dead.all fun e => bad.contains e.1
  | .clean => s.pending.all fun q => !s.invalid.contains q.id
  | _ => true

def tameRun (s : State) : List Op → Bool
  | [] => true
  | op :: ops => tame s op && tameRun (step s op) ops

/-- The same machine with the pre-fix duplicate check (only `abegin` differs). -/
def stepUnfixed (s : State) : Op → State
  | .abegin m o p gen sf => (addBeginUnfixed s m o p gen sf).1
  | op => step s op

def runUnfixed (s : State) (ops : List Op) : State := ops.foldl stepUnfixed s

/-! ### The property's predicates (executable: the same definitions are evaluated by the driver on the
implementation's observations and are the conclusions of the theorems in `Props/C14`). -/

/-- What can be seen of a session: free ports, live torrents, resume records (every sub-bucket of the
torrents bucket), the info-hash index, the ids of the records that did not load. -/
structure Obs where
  lo : Nat
  hi : Nat
  free : List Nat
  live : List Torrent
  db : List (String × Fields)
  idx : List (String × String)
  invalid : List String := []
  deriving Repr, DecidableEq, Inhabited

def observe (s : State) : Obs := ⟨s.lo, s.hi, s.free, s.reg, s.db ++ s.dead, s.idx, s.invalid⟩

/-- Port conservation: the configured range is the disjoint union of the free ports and the ports of
the live torrents, every owned port owned once. (`isPerm` = same multiset; the range has no duplicates.) -/
def portConservation (o : Obs) : Bool :=
  (o.free ++ o.live.map (·.f.port)).isPerm (List.range' o.lo (o.hi - o.lo))

/-- Ids are unique, and the info-hash index lists exactly the registered torrents. -/
def idsUnique (o : Obs) : Bool :=
  decide (o.live.map (·.id)).Nodup && o.idx.isPerm (o.live.map fun t => (t.f.infoHash, t.id))

/-- Record `r` describes live torrent `t`: everything equal except the counters (written
periodically) and the started flag, where the live status may be "stopped" while the record says
started (ResumeOnStartup off, or not yet resumed) but never the other way round. -/
def describes (r : Fields) (t : Fields) : Bool :=
  decide ({ r with cnt := t.cnt, started := t.started } = t) && (!t.started || r.started)

/-- The torrents in the session are exactly those recorded in the database, apart from the records
that did not load (listed as invalid until `CleanDatabase` removes them). -/
def registryEqDb (o : Obs) : Bool :=
  (o.db.map (·.1)).isPerm (o.live.map (·.id) ++ o.invalid.filter (fun i => !(o.live.map (·.id)).contains i)) &&
  o.live.all fun t => match dbGet o.db t.id with
    | some r => describes r t.f
    | none => false

/-- `after` is what a restart of `before` must look like when the records of the ids `bad` fail to
load: the other torrents are back with the same fields; a torrent whose record failed is not
registered, its id is listed as invalid, its record is still in the database and its port is free. -/
def restartEquiv (resume : Bool) (bad : List String) (before after : Obs) : Bool :=
  (after.live.map (·.id)).isPerm ((before.live.filter (fun t => !bad.contains t.id)).map (·.id)) &&
  before.live.all fun t =>
    if bad.contains t.id then
      (regGet after.live t.id).isNone && after.invalid.contains t.id && (dbGet after.db t.id).isSome &&
        after.free.contains t.f.port
    else match regGet after.live t.id, dbGet before.db t.id with
      | some t', some r => decide (t'.f = { t.f with started := resume && r.started })
      | _, _ => false

/-- A port of the range that is neither free nor owned by a live torrent (the oracle's diagnosis of a
failed `portConservation`). -/
def lostPorts (o : Obs) : List Nat :=
  (List.range' o.lo (o.hi - o.lo)).filter fun p => !o.free.contains p && !(o.live.map (·.f.port)).contains p

/-- `c` is what compacting `o` must produce: one record per live torrent with metadata, equal to the
torrent's current record with the counters brought up to date. -/
def compactEquiv (o : Obs) (c : List (String × Fields)) : Bool :=
  (c.map (·.1)).isPerm ((o.live.filter (·.f.hasInfo)).map (·.id)) &&
  (o.live.filter (·.f.hasInfo)).all fun t => match dbGet c t.id, dbGet o.db t.id with
    | some rc, some r => decide (rc = { r with cnt := t.f.cnt })
    | _, _ => false

end Rain.Registry
