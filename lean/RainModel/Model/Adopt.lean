import RainModel.Model.InfoDownloader
/-
M-ID (part 2) — the metadata-fetch glue of package `torrent` as a state machine:

  `handleMetadataMessage` (Data / Reject branches)      torrent/torrent_metadataextension.go
  `nextInfoDownload`, eligibility and the size cap       torrent/torrent_infodownload.go
  `startInfoDownloaders`                                 torrent/torrent_start.go
  `closePeer` / `closeInfoDownloader` / `stopInfoDownloaders` (projection)   torrent_close.go, torrent_stop.go
  ExtensionHandshakeMessage branch of `handlePeerMessage` (set-once handshake)  torrent_messagehandler.go
  snub-timeout branch for info downloaders               torrent/torrent_peer.go
  the `MetadataSize < 0 → 0` clamp of the decoder        internal/peerprotocol/extension.go
  `peer.MetadataSize() = uint32(ExtensionHandshake.MetadataSize)`            internal/peer/peer.go

Projection of the `torrent` struct: `peers` (with their extension handshake), `infoDownloaders`,
`infoDownloadersSnubbed`, `info` (its bytes), and whether the metadata path called `t.stop(err)`.

External calls are parameters (`Env`): SHA-1 (`H`), the link's info-hash, `session.parseInfo`
(result: error, or the private flag), `resumer.WriteInfo` (ok / error), and
`maxAllowedRequests(pe)`.  Map iteration in `nextInfoDownload` is nondeterministic: every event
carries the list of `picks` the implementation made (one per loop iteration of
`startInfoDownloaders`); a pick that is not eligible is replaced by the first eligible peer, so
the step function is total and the theorems hold for every sequence of picks.

Core Lean only.
-/
namespace Rain.Adopt
open Rain.InfoDL

abbrev PeerId := Nat

/-- `ExtensionHandshakeMessage`, reduced to what the metadata path reads. -/
structure Handshake where
  msize : Int       -- MetadataSize (Go int, after the decoder's clamp)
  hasMeta : Bool    -- "ut_metadata" ∈ M
  deriving Repr, DecidableEq

/-- The clamp in `ExtensionMessage.UnmarshalBinary`. -/
def clampSize (n : Int) : Int := if n < 0 then 0 else n

structure Peer where
  id : PeerId
  hs : Option Handshake
  deriving Repr, DecidableEq

inductive StopReason | parseError | privateTorrent | writeError
  deriving Repr, DecidableEq

structure State where
  peers : List Peer
  dls : List (PeerId × ID)
  snubbed : List PeerId
  info : Option Bytes
  stopped : Option StopReason
  panicked : Bool
  deriving Repr, DecidableEq

def State.init : State := { peers := [], dls := [], snubbed := [], info := none, stopped := none, panicked := false }

structure Env (Hash : Type) where
  H : Bytes → Hash
  infoHash : Hash
  /-- `session.parseInfo`: `none` = error, `some private`. -/
  parseInfo : Bytes → Option Bool
  /-- `resumer.WriteInfo` succeeds. -/
  writeOk : Bytes → Bool
  /-- `maxAllowedRequests(pe)`. -/
  queue : PeerId → Int
  /-- `int(config.MaxMetadataSize)`. -/
  maxSize : Int
  /-- `config.ParallelMetadataDownloads`. -/
  parallel : Int

inductive Event
  | connect (p : PeerId)
  | handshake (p : PeerId) (rawSize : Int) (hasMeta : Bool) (picks : List PeerId)
  | data (p : PeerId) (index : Nat) (data : Bytes) (picks : List PeerId)
  | reject (p : PeerId) (picks : List PeerId)
  | snub (p : PeerId) (picks : List PeerId)
  | disconnect (p : PeerId)
  deriving Repr, DecidableEq

inductive Out
  | request (p : PeerId) (index : Nat)      -- RequestMetadataPiece
  | closePeer (p : PeerId)
  deriving Repr, DecidableEq

/-- The four `continue` guards of `nextInfoDownload`. -/
def eligible {Hash} (env : Env Hash) (s : State) (p : Peer) : Bool :=
  !(s.dls.any (·.1 == p.id)) &&
  match p.hs with
  | none => false
  | some h => h.msize != 0 && !(decide (h.msize > env.maxSize)) && h.hasMeta

/-- `nextInfoDownload()`: some eligible peer (the implementation's pick if it is eligible). -/
def nextInfoDownload {Hash} (env : Env Hash) (s : State) (pick : Option PeerId) : Option Peer :=
  let el := s.peers.filter (eligible env s)
  match pick.bind (fun id => el.find? (·.id == id)) with
  | some p => some p
  | none => el.head?

/-- `pe.MetadataSize()`: `uint32(ExtensionHandshake.MetadataSize)`. -/
def peerMetadataSize (h : Handshake) : Nat := (h.msize % (2 ^ 32 : Int)).toNat

/-- `startInfoDownloaders()`; fuel = an upper bound on the number of peers that can be started. -/
def startLoop {Hash} (env : Env Hash) : Nat → State → List PeerId → List Out → State × List Out
  | 0, s, _, outs => (s, outs)
  | fuel + 1, s, picks, outs =>
    if ((s.dls.length : Int) - (s.snubbed.length : Int) < env.parallel) then
      match nextInfoDownload env s picks.head? with
      | none => (s, outs)
      | some pe =>
        match pe.hs with
        | none => (s, outs)            -- unreachable: eligible peers have a handshake
        | some h =>
          let (id, sent) := requestBlocks (new (peerMetadataSize h)) (env.queue pe.id)
          startLoop env fuel { s with dls := s.dls ++ [(pe.id, id)] } picks.tail
            (outs ++ sent.map (Out.request pe.id))
    else (s, outs)

def startInfoDownloaders {Hash} (env : Env Hash) (s : State) (picks : List PeerId) : State × List Out :=
  if s.info.isSome then (s, []) else startLoop env (s.peers.length + 1) s picks []

/-- `closePeer(pe)` (projection). -/
def closePeer (s : State) (p : PeerId) : State :=
  { s with peers := s.peers.filter (·.id != p), dls := s.dls.filter (·.1 != p),
           snubbed := s.snubbed.filter (· != p) }

def setDl (dls : List (PeerId × ID)) (p : PeerId) (id : ID) : List (PeerId × ID) :=
  dls.map fun e => if e.1 == p then (p, id) else e

/-- The adoption decision after `Done()`: SHA-1 gate, then parse, private flag, resume write.
Pure function of the assembled bytes; returns the new `info`/`stopped` and whether the peer is
dropped because of a hash mismatch. -/
inductive Decision
  | hashMismatch                 -- close the peer, try others
  | stop (r : StopReason) (infoSet : Bool)
  | adopt
  deriving Repr, DecidableEq

def decide_ {Hash} [DecidableEq Hash] (env : Env Hash) (bytes : Bytes) : Decision :=
  if env.H bytes ≠ env.infoHash then .hashMismatch else
  match env.parseInfo bytes with
  | none => .stop .parseError false
  | some true => .stop .privateTorrent false
  | some false => if env.writeOk bytes then .adopt else .stop .writeError true

def step {Hash} [DecidableEq Hash] (env : Env Hash) (s : State) : Event → State × List Out
  | .connect p =>
    if s.peers.any (·.id == p) then (s, []) else ({ s with peers := s.peers ++ [⟨p, none⟩] }, [])
  | .handshake p raw hasMeta picks =>
    match s.peers.find? (·.id == p) with
    | none => (s, [])
    | some pe =>
      if pe.hs.isSome then (s, [])          -- "peer changed extensions": ignored
      else
        let h : Handshake := ⟨clampSize raw, hasMeta⟩
        let s1 := { s with peers := s.peers.map fun x => if x.id == p then ⟨p, some h⟩ else x }
        if hasMeta then startInfoDownloaders env s1 picks else (s1, [])
  | .data p index data picks =>
    match s.dls.find? (·.1 == p) with
    | none => (s, [])
    | some (_, id) =>
      match gotBlock blockSize id index data with
      | (_, .panic) => ({ s with panicked := true }, [])
      | (_, .err _) =>
        let (s2, outs) := startInfoDownloaders env (closePeer s p) picks
        (s2, Out.closePeer p :: outs)
      | (id1, .ok) =>
        if !done id1 then
          let (id2, sent) := requestBlocks id1 (env.queue p)
          ({ s with dls := setDl s.dls p id2, snubbed := s.snubbed.filter (· != p) },
            sent.map (Out.request p))
        else
          match decide_ env id1.bytes with
          | .hashMismatch =>
            let (s2, outs) := startInfoDownloaders env (closePeer s p) picks
            (s2, Out.closePeer p :: outs)
          | .stop r infoSet =>
            ({ s with dls := [], snubbed := [], stopped := some r,
                      info := if infoSet then some id1.bytes else s.info }, [])
          | .adopt =>
            ({ s with dls := [], snubbed := [], info := some id1.bytes }, [])
  | .reject p picks =>
    if s.dls.any (·.1 == p) then
      let (s2, outs) := startInfoDownloaders env (closePeer s p) picks
      (s2, Out.closePeer p :: outs)
    else (s, [])
  | .snub p picks =>
    if s.dls.any (·.1 == p) then
      startInfoDownloaders env { s with snubbed := if s.snubbed.contains p then s.snubbed else s.snubbed ++ [p] } picks
    else (s, [])
  | .disconnect p => (closePeer s p, [])

/-- Run a history; the second component lists, per event, the state *after* it and its outputs. -/
def trace {Hash} [DecidableEq Hash] (env : Env Hash) : State → List Event → List (State × List Out)
  | _, [] => []
  | s, e :: es => let r := step env s e; r :: trace env r.1 es

def run {Hash} [DecidableEq Hash] (env : Env Hash) (s : State) (es : List Event) : State :=
  es.foldl (fun s e => (step env s e).1) s

/-- The announced size satisfies the cap (the property's `0 < size ≤ MaxMetadataSize`). -/
def sizeOk (maxSize : Int) (h : Handshake) : Prop := 0 < h.msize ∧ h.msize ≤ maxSize

end Rain.Adopt
