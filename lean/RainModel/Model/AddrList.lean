/-
M-ADDR — transliteration of `internal/addrlist` (addrlist.go, peeraddr.go).

Go state: `peerByTime []*peerAddr` (may contain nil after `Pop`), `peerByPriority *btree.BTree`
(google/btree keyed by `priority` only: `ReplaceOrInsert` replaces an item of equal priority),
`countBySource map[Source]int`, and per object the field `index` (its position in
`peerByTime`).  `Push` = per address: filters (port 0, own address, external IP, blocklist),
`ReplaceOrInsert`, take over the slot of the replaced object or append; then `filterNils`,
`slices.SortFunc` by timestamp, re-index, `countBySource[source] += added`, eviction of the
first `Len − maxItems` entries of `peerByTime`, `filterNils`, and the assertion
`len(peerByTime) == peerByPriority.Len()` (panic "addr list data structures not in sync").
`Pop` = `DeleteMax`, `peerByTime[p.index] = nil`, count−−.  `Reset` empties everything.

Model: objects live in `byTime` (`List (Option PA)`); the btree is the ascending list of its
keys (`tree : List Nat`) and *following a pointer held by the tree* is `deref` = "the object in
`byTime` with that priority".  The `index` field is kept in the objects and is what `Pop` and the
replace branch use, exactly as in Go — so a stale index nils the wrong slot and trips the sync
assertion in the model too.  Priorities (BEP 40, CRC32-C of masked addresses) and the clock
are inputs.  `slices.SortFunc` is not stable: the order among equal timestamps is a *choice*
(`choose`), constrained by `Admissible`.  Go panics are `Except.error`.
IPv4 only (the client is IPv4 only); `maxItems ≥ 0`.

Core Lean only.
-/
namespace Rain.AddrList

/-- `peerAddr` (address reduced to IPv4 value and port). -/
structure PA where
  ip : Nat
  port : Nat
  src : Nat
  prio : Nat
  stamp : Nat
  index : Nat
  deriving Repr, DecidableEq, Inhabited

/-- An address offered to `Push`, with the priority `peerpriority.Calculate` gives it. -/
structure Cand where
  ip : Nat
  port : Nat
  prio : Nat
  deriving Repr, DecidableEq, Inhabited

/-- What `Push` reads besides its arguments.  `clientIP` is `*d.clientIP` (the torrent's
`externalIP`, which changes over time; `none` = nil), `external` the interface addresses of
`externalip`, `blocked` the blocklist (constant `false` when the list is nil). -/
structure Env where
  maxItems : Nat
  listenPort : Nat
  clientIP : Option Nat
  external : List Nat
  blocked : Nat → Bool

structure St where
  byTime : List (Option PA) := []
  tree : List Nat := []
  counts : Nat → Int := fun _ => 0

/-! ### the btree, as far as it is used -/

/-- `ReplaceOrInsert` on the key list; the flag says an equal key was present. -/
def insertKey (k : Nat) : List Nat → List Nat × Bool
  | [] => ([k], false)
  | x :: xs =>
    if k < x then (k :: x :: xs, false)
    else if k = x then (x :: xs, true)
    else let (r, b) := insertKey k xs; (x :: r, b)

/-- Follow a pointer held by the tree: the object with this priority. -/
def deref (bt : List (Option PA)) (k : Nat) : Option PA :=
  (bt.filterMap id).find? (·.prio == k)

/-! ### helpers of `Push` -/

def isLoopback (ip : Nat) : Bool := ip / 2 ^ 24 = 127

/-- The push-time filters; `true` = the address is discarded. -/
def filtered (env : Env) (a : Cand) : Bool :=
  if a.port = 0 then true
  else if isLoopback a.ip ∧ a.port = env.listenPort then true
  else if env.clientIP = some a.ip then true
  else if env.external.contains a.ip then true
  else if env.blocked a.ip then true
  else false

def bump (c : Nat → Int) (s : Nat) (d : Int) : Nat → Int := fun x => if x = s then c x + d else c x

/-- Loop body of `Push` for one address. `Except.error` = Go panic. -/
def pushOne (env : Env) (src now : Nat) (st : St × Nat) (a : Cand) : Except String (St × Nat) :=
  let (s, added) := st
  if filtered env a then .ok (s, added)
  else
    let (tree', replaced) := insertKey a.prio s.tree
    if replaced then
      match deref s.byTime a.prio with
      | none => .error "desync: tree key without object"
      | some prev =>
        if prev.index < s.byTime.length then
          let p : PA := ⟨a.ip, a.port, src, a.prio, now, prev.index⟩
          .ok ({ byTime := s.byTime.set prev.index (some p), tree := tree',
                 counts := bump s.counts prev.src (-1) }, added + 1)
        else .error "index out of range"
    else
      let p : PA := ⟨a.ip, a.port, src, a.prio, now, s.byTime.length⟩
      .ok ({ s with byTime := s.byTime ++ [some p], tree := tree' }, added + 1)

def pushLoop (env : Env) (src now : Nat) : List Cand → St × Nat → Except String (St × Nat)
  | [], st => .ok st
  | a :: as, st =>
    match pushOne env src now st a with
    | .error e => .error e
    | .ok st' => pushLoop env src now as st'

/-- Write `index = position` into every object (the loops in `filterNils` and after the sort). -/
def reindexFrom : Nat → List PA → List PA
  | _, [] => []
  | i, p :: ps => { p with index := i } :: reindexFrom (i + 1) ps

/-- `filterNils`: drop nils, re-index. -/
def filterNils (bt : List (Option PA)) : List PA := reindexFrom 0 (bt.filterMap id)

/-- A result of `slices.SortFunc(by timestamp)` on `l`. -/
def Admissible (l s : List PA) : Prop := s.Perm l ∧ s.Pairwise (fun a b => a.stamp ≤ b.stamp)

def insertByStamp (p : PA) : List PA → List PA
  | [] => [p]
  | q :: qs => if p.stamp < q.stamp then p :: q :: qs else q :: insertByStamp p qs

/-- A stable sort by timestamp: the default choice. -/
def stableSort (l : List PA) : List PA := l.foldl (fun acc p => insertByStamp p acc) []

/-- `removeExcessItems(delta)`: the first `delta` slots. -/
def removeExcess : Nat → Nat → St → Except String St
  | 0, _, s => .ok s
  | n + 1, i, s =>
    match s.byTime[i]? with
    | none => .error "index out of range"
    | some none => .error "nil pointer dereference"
    | some (some x) =>
      removeExcess n (i + 1)
        { byTime := s.byTime.set i none, tree := s.tree.erase x.prio, counts := bump s.counts x.src (-1) }

/-- The part of `Push` after the sort. -/
def pushFinish (env : Env) (src : Nat) (s : St) (sorted : List PA) (added : Nat) : Except String St :=
  let s1 : St := { s with byTime := (reindexFrom 0 sorted).map some, counts := bump s.counts src added }
  let delta := s1.tree.length - env.maxItems
  let r : Except String St := if delta > 0 then
      match removeExcess delta 0 s1 with
      | .error e => .error e
      | .ok s2 => .ok { s2 with byTime := (filterNils s2.byTime).map some }
    else .ok s1
  match r with
  | .error e => .error e
  | .ok s3 =>
    if s3.byTime.length ≠ s3.tree.length then .error "addr list data structures not in sync"
    else .ok s3

/-- `Push(addrs, source)` at time `now`, the sort resolved by `choose`. -/
def push (env : Env) (choose : List PA → List PA) (s : St) (addrs : List Cand) (src now : Nat) :
    Except String St :=
  match pushLoop env src now addrs (s, 0) with
  | .error e => .error e
  | .ok (s1, added) =>
    let l := filterNils s1.byTime
    pushFinish env src s1 (choose l) added

/-- `Pop()`; the address returned (`none` = nil) and the new state. -/
def pop (s : St) : Except String (Option PA × St) :=
  match s.tree.getLast? with
  | none => .ok (none, s)
  | some k =>
    match deref s.byTime k with
    | none => .error "desync: tree key without object"
    | some p =>
      if p.index < s.byTime.length then
        .ok (some p, { byTime := s.byTime.set p.index none, tree := s.tree.dropLast,
                       counts := bump s.counts p.src (-1) })
      else .error "index out of range"

/-- `Reset()`. -/
def reset (_ : St) : St := {}

/-- `Len()`. -/
def St.len (s : St) : Nat := s.tree.length

/-- The objects currently held, in `peerByTime` order. -/
def St.entries (s : St) : List PA := s.byTime.filterMap id

end Rain.AddrList
