/-
M-BL (part 1) — transliteration of `internal/blocklist/stree` (stree.go, node.go).

Go: `Stree{count, root *node, base []interval, min, max}`; `AddRange` pushes to `base`;
`Build` computes the sorted, de-duplicated endpoint list, the "elementary intervals"
`[p1,p1],[p1,p2],[p2,p2],…,[pn,pn]` (all *closed*), a balanced tree over them (`insertNodes`,
split at `len/2`), and then inserts every base interval (`insertInterval`).  `Contains v` is
`len(query(v,v)) > 0`, `query` collecting the `overlap` lists of every node whose segment is
not disjoint from `[v,v]` (`querySingle`).

Here: `ValueType` (uint32) is modelled on `Nat`; the only place where uint32 arithmetic
matters is `prev := sl[0] + 1` in `dedup`, which is taken modulo 2^32.  `slices.Sort` is
modelled by insertion sort (any sort gives the same list).  The result map of `query`
(`map[ID]interval`) is modelled by the list of collected intervals: `Contains` only asks
whether it is non-empty.  Go panics (index out of range on an empty slice) are `none`.
`insertNodes` recurses on an explicit fuel (`leaves.length` suffices, `Lemmas/STree`).

Core Lean only.
-/
namespace Rain.STree

/-- `segment{From, To}` (closed). -/
structure Seg where
  lo : Nat
  hi : Nat
  deriving Repr, DecidableEq, Inhabited

/-- `interval{ID, segment}`. -/
structure Interval where
  id : Nat
  lo : Nat
  hi : Nat
  deriving Repr, DecidableEq, Inhabited

/-- `node`.  `insertNodes` creates nodes with either no child or both children. -/
inductive Node where
  | leaf (seg : Seg) (ov : List Interval)
  | node (seg : Seg) (ov : List Interval) (l r : Node)
  deriving Repr, Inhabited

def Node.seg : Node → Seg
  | .leaf s _ => s
  | .node s _ _ _ => s

def Node.ov : Node → List Interval
  | .leaf _ o => o
  | .node _ o _ _ => o

/-- `s.subsetOf(other)`. -/
def Seg.subsetOf (s : Seg) (olo ohi : Nat) : Bool := olo ≤ s.lo && ohi ≥ s.hi

/-- `s.intersectsWith(other)` (the Go expression is a disjunction of the same test twice). -/
def Seg.intersectsWith (s : Seg) (olo ohi : Nat) : Bool :=
  (olo ≤ s.hi && s.lo ≤ ohi) || (s.lo ≤ ohi && olo ≤ s.hi)

/-- `s.Disjoint(from, to)`. -/
def Seg.disjoint (s : Seg) (lo hi : Nat) : Bool := lo > s.hi || hi < s.lo

/-- `(*node).insertInterval`. -/
def Node.insertInterval (iv : Interval) : Node → Node
  | .leaf s ov => if s.subsetOf iv.lo iv.hi then .leaf s (ov ++ [iv]) else .leaf s ov
  | .node s ov l r =>
    if s.subsetOf iv.lo iv.hi then .node s (ov ++ [iv]) l r
    else
      let l' := if l.seg.intersectsWith iv.lo iv.hi then l.insertInterval iv else l
      let r' := if r.seg.intersectsWith iv.lo iv.hi then r.insertInterval iv else r
      .node s ov l' r'

/-- `node.querySingle(from, to, result)`; right subtree first, as in Go. -/
def Node.querySingle (lo hi : Nat) : Node → List Interval
  | .leaf s ov => if s.disjoint lo hi then [] else ov
  | .node s ov l r =>
    if s.disjoint lo hi then [] else ov ++ r.querySingle lo hi ++ l.querySingle lo hi

/-! ### sort / dedup / endpoints -/

def insertSorted (x : Nat) : List Nat → List Nat
  | [] => [x]
  | y :: ys => if x ≤ y then x :: y :: ys else y :: insertSorted x ys

/-- `slices.Sort`. -/
def sortNat (l : List Nat) : List Nat := l.foldr insertSorted []

/-- The loop of `dedup` with its `prev` variable. -/
def dedupLoop (prev : Nat) : List Nat → List Nat
  | [] => []
  | x :: xs => if x = prev then dedupLoop prev xs else x :: dedupLoop x xs

/-- `dedup(sl)`; `none` = `sl[0]` panics on an empty slice. -/
def dedup (sl : List Nat) : Option (List Nat) :=
  match sortNat sl with
  | [] => none
  | s0 :: rest => some (dedupLoop ((s0 + 1) % 2 ^ 32) (s0 :: rest))

/-- `endpoints(base)`: all `From` then all `To`, de-duplicated; with `min` and `max`. -/
def endpoints (base : List Interval) : Option (List Nat × Nat × Nat) :=
  match dedup (base.map (·.lo) ++ base.map (·.hi)) with
  | none => none
  | some [] => none            -- `result[0]` would panic
  | some (e :: es) => some (e :: es, e, (e :: es).getLast (by simp))

/-- `elementaryIntervals(endpoints)`: `[p1,p1],[p1,p2],[p2,p2],…,[pn,pn]`. -/
def elementary : List Nat → List Seg
  | [] => []
  | [p] => [⟨p, p⟩]
  | p :: q :: rest => ⟨p, p⟩ :: ⟨p, q⟩ :: elementary (q :: rest)

/-- `insertNodes(leaves)`.  `none` = out of fuel or `leaves[0]` on an empty slice. -/
def insertNodes : Nat → List Seg → Option Node
  | 0, _ => none
  | _ + 1, [] => none
  | _ + 1, [s] => some (.leaf s [])
  | fuel + 1, s :: s' :: rest =>
    let leaves := s :: s' :: rest
    let center := leaves.length / 2
    match insertNodes fuel (leaves.take center), insertNodes fuel (leaves.drop center) with
    | some l, some r => some (.node ⟨s.lo, (leaves.getLast (by simp [leaves])).hi⟩ [] l r)
    | _, _ => none

/-! ### the tree object -/

structure Stree where
  count : Nat := 0
  root : Option Node := none
  base : List Interval := []
  min : Nat := 0
  max : Nat := 0
  deriving Repr, Inhabited

/-- `AddRange(from, to)`. -/
def Stree.addRange (t : Stree) (lo hi : Nat) : Stree :=
  { t with base := t.base ++ [⟨t.count, lo, hi⟩], count := t.count + 1 }

/-- `Build()`; `none` = a Go panic. -/
def Stree.build (t : Stree) : Option Stree :=
  if t.base.isEmpty then some t else
  match endpoints t.base with
  | none => none
  | some (es, mn, mx) =>
    let leaves := elementary es
    match insertNodes leaves.length leaves with
    | none => none
    | some root =>
      some { t with min := mn, max := mx,
                    root := some (t.base.foldl (fun n iv => n.insertInterval iv) root) }

/-- `query(from, to)` as the list of collected intervals. -/
def Stree.query (t : Stree) (lo hi : Nat) : List Interval :=
  match t.root with
  | none => []
  | some n => n.querySingle lo hi

/-- `Contains(value)`. -/
def Stree.contains (t : Stree) (v : Nat) : Bool := !(t.query v v).isEmpty

/-- Add all ranges to an empty tree and build it — what `blocklist.load` does. -/
def ofRanges (ranges : List (Nat × Nat)) : Option Stree :=
  (ranges.foldl (fun t r => t.addRange r.1 r.2) ({} : Stree)).build

/-- The specification `Contains` is compared with: linear scan. -/
def linearContains (ranges : List (Nat × Nat)) (v : Nat) : Bool :=
  ranges.any fun r => r.1 ≤ v && v ≤ r.2

end Rain.STree
