import RainModel.Model.Loop
/-!
M-LOOP, part 2 — the typed event alphabet and the step function.

`step s op` = reset the per-op outputs, run the handler for the event, deliver a piece message that
was parked while a write was in flight (production: the peer's reader goroutine blocks on the
suspended channel), then run the worker completions that no gate holds. The implementation's
nondeterministic choices (which peer downloads which piece / metadata) are applied afterwards by
`reconcile` / `reconcileIdl` (Model/Loop.lean).
-/
namespace Rain.Loop

inductive GateKind | open | write | read | failWrite | failOpen | failOpenAt (j : Nat) | writeDone
  deriving Repr, DecidableEq

/-- One event delivered to the torrent's event loop by the harness. -/
inductive Op
  | start | stop | verify | nop | persist | waitstop
  /-- `stop` / `verify` given while the harness leaves the storage gates as they are (`hold=1`) -/
  | stopHeld | verifyHeld
  | trk (hang : List Bool)             -- which stub trackers do not answer the `stopped` event from now on
  | gate (kind : GateKind) (on : Bool)
  | mutate (file : Option Nat) (how : Mut)
  | peer (k : Nat) (ip : String) (fast ext badHash : Bool)
  | msg (k : Nat) (m : Msg)
  | exths (k : Nat) (hasMeta : Bool) (size : Nat) (hasPex : Bool)
  | metadata (k i len : Nat) (good : Bool)
  | metareject (k : Nat)
  | metareq (k i : Nat)
  | pex (k : Nat) (added dropped : Bool)
  | dhtpeers (nonEmpty : Bool)
  | disconnect (k : Nat)
  | snub (k : Nat)
  deriving Repr

structure StepOut where
  st : St
  verdict : String
  outs : List Out

/-- A piece message parked while the piece channel is suspended: (peer, index, begin, length, good). -/
abbrev Parked := Option (Nat × Nat × Nat × Nat × Bool)

/-- Deliver the parked piece message once no write is in flight any more. -/
def deliverParked (m : M) (parked : Parked) : M × Parked :=
  match parked with
  | some (k, i, b, l, good) =>
    if m.1.writing.isNone && m.1.panicked.isNone then
      ((if (m.1.findPeer k).isSome then runWorkers 12 (handlePieceMessage m k i b l good) else m), none)
    else (m, parked)
  | none => (m, none)

def closedVerdict (known : Bool) : String := if known then "skipped:peer-closed" else "skipped:no-peer"

/-- The handler part of an op. `known k` = the harness has ever created scripted peer `k`. -/
def handle (s : St) (parked : Parked) (known : Nat → Bool) : Op → M × String × Parked
  | .start => (start (s, []), "", parked)
  -- the stop command withdraws a pending verification request (fix for finding C04-F6), then stops
  | .stop => (onSt (onSt (s, []) fun s => ({ s with doVerify := false }).stop false) fun s => { s with gateOpen := false, gateRead := false }, "", parked)
  | .stopHeld => (onSt (s, []) fun s => ({ s with doVerify := false }).stop false, "", parked)
  | .verify =>
    -- Torrent.Verify() deletes the persisted bitfield before it hands the command to the loop
    (onSt (handleVerifyCommand ({ s with persisted := none }, [])) fun s => { s with gateOpen := false, gateRead := false }, "", parked)
  | .verifyHeld => (handleVerifyCommand ({ s with persisted := none }, []), "", parked)
  | .nop => ((s, []), "", parked)
  | .trk _ => ((s, []), "", parked)
  | .waitstop =>
    -- TrackerStopTimeout has passed: the stop announcer gives up and reports
    (({ s with stopHang := false }, []), "", parked)
  | .persist =>
    -- Session.updateStats: the periodic writer stores the in-memory bitfield, if there is one
    (({ s with persisted := match s.bf with | some b => some b | none => s.persisted }, []), "", parked)
  | .gate kind on =>
    let s := match kind with
      | .open => { s with gateOpen := on }
      | .write => { s with gateWrite := on }
      | .read => { s with gateRead := on }
      | .failWrite => { s with failWrite := on }
      | .failOpen => { s with failOpen := on, failAt := 0 }
      | .failOpenAt j => { s with failOpen := on, failAt := j }
      | .writeDone => { s with gateWriteDone := on }
    ((s, []), "", parked)
  | .mutate file how =>
    if !s.openFiles.isEmpty || s.errC then ((s, []), "skipped:not-stopped", parked)
    else ((mutate s file how, []), "", parked)
  | .peer k ip fast ext badHash =>
    if known k then ((s, []), "skipped:dup-peer", parked)
    else if !s.acceptor then ((s, []), "skipped:no-acceptor", parked)
    else
      let (m, v) := acceptPeer (s, []) k ip fast ext badHash false
      (m, v, parked)
  | .msg k (.piece i b l good) =>
    if (s.findPeer k).isNone then ((s, []), closedVerdict (known k), parked)
    else if l > 16384 then ((s, []), "skipped:reader-rejects-long-block", parked)
    else if s.writing.isSome then
      -- the piece channel is suspended; one message can wait in the peer's reader goroutine
      if parked.isSome then ((s, []), "skipped:already-deferred", parked)
      else ((s, []), "deferred", some (k, i, b, l, good))
    else (handlePieceMessage (s, []) k i b l good, "", parked)
  | .msg k msg =>
    if (s.findPeer k).isNone then ((s, []), closedVerdict (known k), parked)
    else (handlePeerMessage (s, []) k msg, "", parked)
  | .exths k hasMeta size hasPex =>
    if (s.findPeer k).isNone then ((s, []), closedVerdict (known k), parked)
    else (handleExtHandshake (s, []) k hasMeta size hasPex, "", parked)
  | .metadata k i len good =>
    if (s.findPeer k).isNone then ((s, []), closedVerdict (known k), parked)
    else (handleMetadataData (s, []) k i len good, "", parked)
  | .metareject k =>
    if (s.findPeer k).isNone then ((s, []), closedVerdict (known k), parked)
    else (handleMetadataReject (s, []) k, "", parked)
  | .metareq k i =>
    match s.findPeer k with
    | none => ((s, []), closedVerdict (known k), parked)
    | some p =>
      if !p.extHS || !p.extMeta then ((s, []), "", parked)
      else if !s.info then (send (s, []) k s!"extmeta:type=2:piece={i}", "", parked)
      else if i * 16384 ≥ s.isize then (send (s, []) k s!"extmeta:type=2:piece={i}", "", parked)
      else (send (s, []) k s!"extmeta:type=1:piece={i}:ok", "", parked)
  | .pex k added dropped =>
    if (s.findPeer k).isNone then ((s, []), closedVerdict (known k), parked)
    else (handlePex (s, []) added dropped, "", parked)
  | .dhtpeers nonEmpty => (handleDhtPeers (s, []) nonEmpty, "", parked)
  | .disconnect k =>
    if (s.findPeer k).isNone then ((s, []), closedVerdict (known k), parked)
    else (closePeerM (s, []) k, "", parked)
  | .snub k =>
    if (s.findPeer k).isNone then ((s, []), closedVerdict (known k), parked)
    else (handlePeerSnubbed (s, []) k, "", parked)

/-- Stub trackers of the harness world (outside the loop's own state): how many there are and which of
them currently do not answer the `stopped` event. The periodical announcers exist exactly while the
acceptor does (`startAcceptor` / `startAnnouncers` and `stopAcceptor` / `stopPeriodicalAnnouncers` are
always called together), so `announcing = acceptor ∧ ntrk > 0`. -/
structure TrkSt where
  ntrk : Nat := 0
  hang : List Bool := []
  deriving Repr, Inhabited

def TrkSt.anyHang (t : TrkSt) : Bool := (List.range t.ntrk).any fun i => t.hang.getD i false

/-- Announces the stub trackers receive because of the transition `prev → new` (identity fields are
rendered by the driver): `started` from every tracker when the announcers start, `stopped` to every
tracker when they are stopped (all of them have answered `started` in the harness worlds). -/
def annEvents (t : TrkSt) (prev new : St) : List (Nat × String) :=
  if t.ntrk = 0 then []
  else if !prev.acceptor && new.acceptor then (List.range t.ntrk).map fun i => (i, "started")
  else if prev.acceptor && !new.acceptor then (List.range t.ntrk).map fun i => (i, "stopped")
  else []

/-- One op: handler, worker completions, delivery of a parked piece message. -/
def step (s : St) (parked : Parked) (known : Nat → Bool) (op : Op) : StepOut × Parked :=
  let s := { s with sto := [], mayStart := [], closedDl := [], mayStartI := false }
  let (m, v, parked') := handle s parked known op
  let m := runWorkers 12 m
  -- a message parked by an earlier op is delivered as soon as the write has completed
  let (m, parked'') := if parked.isSome then deliverParked m parked' else (m, parked')
  ({ st := m.1, verdict := v, outs := m.2 }, parked'')

end Rain.Loop
