/-
M-GEO (part 1) — transliteration of `piece.NewPieces` (internal/piece/piece.go).

Go cursor machine: file cursor `fileIndex, fileLength, fileOffset` (+ the unused `fileEnd`),
piece cursor `pieceOffset / left`, running `total`; closure `nextFile` (indexes
`info.Files[fileIndex]` and therefore panics when the files run out), `break` when
`total == info.Length`.

Representation choices (all stated, none silent):
* The file cursor is kept as `fi` (the Go index, printed in sections) together with the list
  suffix `cur :: rest = files.drop fi`; `nextFile()` is "pop `rest`", its index panic is the
  `[]` case → `Outcome.panic`.
* `info.Files` (lengths) and `files []allocator.File` (storage, name, padding flag) are ONE list
  of `FileEnt` here: the allocator builds the second slice with the length of the first.
* File lengths are `Nat`: the model covers non-negative lengths only (a negative length is
  rejected by metainfo validation, property C06; the harness never feeds one).  The `uint32`
  values (`left`, `n`, `pieceOffset`, `p.Length`) never exceed `PieceLength < 2^32` and
  `total ≤ Σ len`, so nothing wraps; they are `Nat`.
* `p.Length` is accumulated by `+= n` in Go in lock step with the appended sections; the model
  returns the sum of the section lengths.
* Loops: the outer `for i < NumPieces` is structural recursion on the number of pieces still to
  build; the inner `for left > 0` runs on explicit fuel `rest.length + 2`
  (`newPieces_ne_fuel` in Props/C02: never exhausted, for any input).  The number of inner
  iterations is returned (`steps`), it is what `newPieces_steps_le` bounds.

Core Lean only.
-/
namespace Rain.Geometry

/-- One entry of `info.Files` zipped with `files []allocator.File`.  `name = 0` models `""`. -/
structure FileEnt where
  len : Nat
  pad : Bool
  name : Nat
  deriving Repr, DecidableEq, Inhabited

/-- `filesection.FileSection` with the file identified by its index in the torrent. -/
structure Sec where
  file : Nat
  off : Nat
  len : Nat
  pad : Bool
  name : Nat
  deriving Repr, DecidableEq, Inhabited

/-- `piece.Piece` reduced to geometry. -/
structure Piece where
  len : Nat
  secs : List Sec
  deriving Repr, DecidableEq, Inhabited

/-- Result of a run of Go code: a value, a Go runtime panic, or exhaustion of the *model's*
fuel (proved unreachable). -/
inductive Outcome (α : Type) where
  | ok (a : α)
  | panic
  | fuel
  deriving Repr, DecidableEq

def Outcome.map {α β : Type} (f : α → β) : Outcome α → Outcome β
  | .ok a => .ok (f a)
  | .panic => .panic
  | .fuel => .fuel

/-- The file cursor and the running total. Invariant of the machine: `files.drop fi = cur :: rest`. -/
structure Cur where
  fi : Nat
  cur : FileEnt
  rest : List FileEnt
  foff : Nat
  total : Nat
  deriving Repr, DecidableEq

/-- The inner loop `for left := pieceLeft(); left > 0; { … }` for one piece.
Returns the sections appended, the cursor afterwards and the number of iterations. -/
def fillPiece (L : Nat) : Nat → Nat → Cur → Outcome (List Sec × Cur × Nat)
  | 0, _, _ => .fuel
  | fuel + 1, left, c =>
    if left = 0 then .ok ([], c, 0)
    else
      -- n := uint32(min(int64(left), fileLeft()))
      let n := min left (c.cur.len - c.foff)
      let s : Sec := { file := c.fi, off := c.foff, len := n, pad := c.cur.pad, name := c.cur.name }
      let c1 : Cur := { c with foff := c.foff + n, total := c.total + n }
      if c1.total = L then .ok ([s], c1, 1)                       -- break
      else if c1.cur.len - c1.foff = 0 then                        -- fileLeft() == 0 → nextFile()
        match c1.rest with
        | [] => .panic                                             -- info.Files[fileIndex] out of range
        | f :: r =>
          (fillPiece L fuel (left - n) { fi := c.fi + 1, cur := f, rest := r, foff := 0, total := c1.total }).map
            fun (ss, c', k) => (s :: ss, c', k + 1)
      else
        (fillPiece L fuel (left - n) c1).map fun (ss, c', k) => (s :: ss, c', k + 1)

/-- The outer loop, `k` pieces still to build. -/
def pieces (pl L : Nat) : Nat → Cur → Outcome (List Piece × Nat)
  | 0, _ => .ok ([], 0)
  | k + 1, c =>
    match fillPiece L (c.rest.length + 2) pl c with
    | .ok (ss, c', st) =>
      match pieces pl L k c' with
      | .ok (ps, st') => .ok ({ len := (ss.map (·.len)).sum, secs := ss } :: ps, st + st')
      | .panic => .panic
      | .fuel => .fuel
    | .panic => .panic
    | .fuel => .fuel

/-- `piece.NewPieces(info, files)` with `pl = info.PieceLength`, `n = info.NumPieces`,
`L = info.Length`.  `.ok (pieces, steps)`; `.panic` = index out of range in `nextFile`. -/
def newPieces (files : List FileEnt) (pl n L : Nat) : Outcome (List Piece × Nat) :=
  match files with
  | [] => .panic                      -- the initial `nextFile()` reads `info.Files[0]`
  | f :: r => pieces pl L n { fi := 0, cur := f, rest := r, foff := 0, total := 0 }

/-! ### Well-formedness established by `metainfo.NewInfo` (C06) -/

def totalLen (files : List FileEnt) : Nat := (files.map (·.len)).sum

/-- What `NewInfo` guarantees about an accepted info dictionary: at least one file, the lengths
(non-negative by type) sum to `Length`, `0 < pieceLength < 2^32`, `numPieces ≠ 0` and
`0 ≤ numPieces·pieceLength − Length < pieceLength`. -/
structure WF (files : List FileEnt) (pl n L : Nat) : Prop where
  files_ne : files ≠ []
  sum_len : totalLen files = L
  pl_pos : 0 < pl
  pl_lt : pl < 2 ^ 32
  n_pos : 0 < n
  lower : (n - 1) * pl < L
  upper : L ≤ n * pl

instance (files : List FileEnt) (pl n L : Nat) : Decidable (WF files pl n L) :=
  if h : files ≠ [] ∧ totalLen files = L ∧ 0 < pl ∧ pl < 2 ^ 32 ∧ 0 < n ∧ (n - 1) * pl < L ∧ L ≤ n * pl then
    isTrue ⟨h.1, h.2.1, h.2.2.1, h.2.2.2.1, h.2.2.2.2.1, h.2.2.2.2.2.1, h.2.2.2.2.2.2⟩
  else isFalse fun w => h ⟨w.files_ne, w.sum_len, w.pl_pos, w.pl_lt, w.n_pos, w.lower, w.upper⟩

/-! ### Executable specification (per-byte streams), shared by theorem and oracle -/

/-- The bytes `[off, off+len)` of file `i` as `(fileIndex, offset)` pairs. -/
def bytesOf (i off len : Nat) : List (Nat × Nat) := (List.range len).map fun k => (i, off + k)

/-- All bytes of all files in order, the first file having index `i`. -/
def fileStreamFrom : Nat → List FileEnt → List (Nat × Nat)
  | _, [] => []
  | i, f :: fs => bytesOf i 0 f.len ++ fileStreamFrom (i + 1) fs

/-- The bytes addressed by a section list, in order. -/
def secStream (secs : List Sec) : List (Nat × Nat) := secs.flatMap fun s => bytesOf s.file s.off s.len

def allSecs (ps : List Piece) : List Sec := ps.flatMap (·.secs)

/-- Every piece has length `pl` except the last, which has `1..pl` bytes. -/
def lensOK (pl : Nat) : List Piece → Bool
  | [] => false
  | [p] => 0 < p.len && p.len ≤ pl
  | p :: q :: r => p.len == pl && lensOK pl (q :: r)

/-- A section carries the padding flag and name of the file it indexes and lies inside it. -/
def secMetaOK (files : List FileEnt) (s : Sec) : Bool :=
  match files[s.file]? with
  | some f => s.pad == f.pad && s.name == f.name && s.off + s.len ≤ f.len
  | none => false

/-- **The tiling predicate of C02.**  The sections of all pieces in order address every byte of
every file in order exactly once (equality of the flattened `(file, offset)` streams); there are
`n` pieces; each piece's length is the sum of its sections; all have length `pl` except a
possibly shorter, non-empty last one; the lengths sum to `L`; every section carries its file's
padding flag / name and stays inside the file. -/
def TilesFiles (files : List FileEnt) (pl n L : Nat) (ps : List Piece) : Bool :=
  ps.length == n &&
  secStream (allSecs ps) == fileStreamFrom 0 files &&
  ps.all (fun p => p.len == (p.secs.map (·.len)).sum) &&
  lensOK pl ps &&
  (ps.map (·.len)).sum == L &&
  (allSecs ps).all (secMetaOK files)


/-! ## M-GEO (part 2) — `filesection.Piece.ReadAt` / `Write`, `storage.PaddingFile`

Files are flat byte stores indexed by the file index of the section (`FileSection.File` is a
reference to the storage object in Go; the index stands for that reference).  A data file has a
fixed size (the allocator truncates it to the metainfo length); `ReadAt` past its end yields
fewer bytes, `WriteAt` that does not fit is the storage's error.  A `PaddingFile` reads as zeros
at every offset and panics when written. -/

inductive FileStore where
  | data (bytes : List Nat)
  | padding
  deriving Repr, DecidableEq, Inhabited

abbrev Store := List FileStore

/-- What an `io.SectionReader` over `[off, off+len)` of file `f` yields until EOF.
(`st[f]? = none` cannot arise from Go values; it reads as the empty file.) -/
def fileRead (st : Store) (f off len : Nat) : List Nat :=
  match st[f]? with
  | some (.data bs) => (bs.drop off).take len
  | some .padding => List.replicate len 0
  | none => []

inductive FW where
  | ok (st : Store)
  | err
  | panic
  deriving Repr, DecidableEq

/-- `File.WriteAt(d, off)`. -/
def fileWrite (st : Store) (f off : Nat) (d : List Nat) : FW :=
  match st[f]? with
  | some (.data bs) =>
    if off + d.length ≤ bs.length then .ok (st.set f (.data (bs.take off ++ d ++ bs.drop (off + d.length))))
    else .err
  | some .padding => .panic        -- "attempt to write padding file"
  | none => .err

/-- The skip loop of `ReadAt`: `for ; i < len(p); i++ { pos += p[i].Length; if pos >= off { break } }`.
Returns `p[i]`, the sections after it and `pos`; `none` when `i` reaches `len(p)` (the following
`p[i]` panics). -/
def skipTo : List Sec → Nat → Nat → Option (Sec × List Sec × Nat)
  | [], _, _ => none
  | s :: r, pos, off =>
    if pos + s.len ≥ off then some (s, r, pos + s.len) else skipTo r (pos + s.len) off

/-- The loop "add remaining sections": every further section is added, stopping after the one
with which `pos >= off + len(b)`. -/
def moreSecs : List Sec → Nat → Nat → List Sec
  | [], _, _ => []
  | s :: r, pos, lim => s :: (if pos + s.len ≥ lim then [] else moreSecs r (pos + s.len) lim)

inductive ROut where
  | ok (bytes : List Nat)        -- err == nil
  | short (bytes : List Nat)     -- io.EOF / io.ErrUnexpectedEOF with the bytes read so far
  | panic
  deriving Repr, DecidableEq

/-- `Piece.ReadAt(b, off)` with `len(b) = n`. -/
def readAt (st : Store) (p : List Sec) (off n : Nat) : ROut :=
  match skipTo p 0 off with
  | none => .panic
  | some (s, r, pos) =>
    let advance := s.len - (pos - off)
    let stream := fileRead st s.file (s.off + advance) (s.len - advance) ++
      (moreSecs r pos (off + n)).flatMap fun t => fileRead st t.file t.off t.len
    let got := stream.take n          -- io.ReadFull(io.MultiReader(readers...), b)
    if got.length = n then .ok got else .short got

inductive WOut where
  | ok (st : Store) (n : Nat)
  | err (st : Store) (n : Nat)
  | panic (st : Store)           -- the sections written before the panic stay written
  deriving Repr, DecidableEq

/-- `Piece.Write(b)`, `n` = bytes written so far.  Assumes `cap(b) = len(b)` (slicing `b[:k]`
beyond the length panics). -/
def write (st : Store) : List Sec → List Nat → Nat → WOut
  | [], _, n => .ok st n
  | s :: r, b, n =>
    if s.pad then
      if s.len ≤ b.length then write st r (b.drop s.len) n else .panic st
    else if s.len ≤ b.length then
      match fileWrite st s.file s.off (b.take s.len) with
      | .ok st' => write st' r (b.drop s.len) (n + s.len)
      | .err => .err st n
      | .panic => .panic st
    else .panic st

/-! Specification side of read/write. -/

def secsLen (p : List Sec) : Nat := (p.map (·.len)).sum

/-- Byte `o` of file `f` (`none`: padding file, no such file, or past the end). -/
def getByte (st : Store) (f o : Nat) : Option Nat :=
  match st[f]? with
  | some (.data bs) => bs[o]?
  | _ => none

/-- Bytes `[off, off+len)` of data file `f`, exactly `len` of them (`0` stands in for a byte
that does not exist; excluded by `fits`). -/
def fileSlice (st : Store) (f off len : Nat) : List Nat :=
  match st[f]? with
  | some (.data bs) =>
    let sl := (bs.drop off).take len
    sl ++ List.replicate (len - sl.length) 0
  | _ => List.replicate len 0

/-- Content of a piece: padding sections are zeros, data sections the stored bytes. -/
def pieceContent (st : Store) (p : List Sec) : List Nat :=
  p.flatMap fun s => if s.pad then List.replicate s.len 0 else fileSlice st s.file s.off s.len

/-- The buffer with the padding regions of the piece replaced by zeros. -/
def zeroPadding : List Sec → List Nat → List Nat
  | [], _ => []
  | s :: r, b => (if s.pad then List.replicate s.len 0 else b.take s.len) ++ zeroPadding r (b.drop s.len)

/-- The `(file, offset)` positions of the non-padding sections. -/
def dataStream (p : List Sec) : List (Nat × Nat) := secStream (p.filter fun s => !s.pad)

/-- Every section lies inside its file; padding sections sit on padding files and only they. -/
def fits (st : Store) (p : List Sec) : Bool :=
  p.all fun s =>
    match st[s.file]? with
    | some (.data bs) => !s.pad && s.off + s.len ≤ bs.length
    | some .padding => s.pad
    | none => false

/-- The store is what the allocator leaves for these files: a `PaddingFile` for every padding
file, a data file of exactly the metainfo length for every other. -/
def storeMatches (files : List FileEnt) (st : Store) : Bool :=
  files.length == st.length &&
  (files.zip st).all fun x =>
    match x.2 with
    | .padding => x.1.pad
    | .data bs => !x.1.pad && bs.length == x.1.len

/-- Oracle for one `ReadAt` inside the piece. -/
def readOK (st : Store) (p : List Sec) (off n : Nat) (r : ROut) : Bool :=
  r == .ok (((pieceContent st p).drop off).take n)

/-- Oracle for `Write`: it succeeds, reports the number of data bytes, the piece now reads as the
zero-padded buffer and nothing outside the piece's data sections changed. -/
def writeOK (st : Store) (p : List Sec) (b : List Nat) (r : WOut) : Bool :=
  match r with
  | .ok st' n =>
    n == secsLen (p.filter fun s => !s.pad) &&
    pieceContent st' p == zeroPadding p b &&
    st'.length == st.length &&
    (List.range st.length).all fun f =>
      match st[f]?, st'[f]? with
      | some (.data bs), some (.data bs') =>
        bs'.length == bs.length &&
        (bs.zip bs').zipIdx.all fun ((x, y), o) => x == y || (dataStream p).contains (f, o)
      | some .padding, some .padding => true
      | _, _ => false
  | _ => false

/-! ## M-GEO (part 3) — `urldownloader.createJobs` -/

structure Job where
  name : Nat
  begin : Nat
  len : Nat
  pad : Bool
  deriving Repr, DecidableEq, Inhabited

def zeroJob : Job := { name := 0, begin := 0, len := 0, pad := false }

def Job.ofSec (s : Sec) : Job := { name := s.name, begin := s.off, len := s.len, pad := s.pad }

/-- `if job.Length > 0 { jobs = append(jobs, job) }` (the list is kept newest first). -/
def flush (jobs : List Job) (job : Job) : List Job := if job.len > 0 then job :: jobs else jobs

/-- The inner loop `for j, sec := range pi.Data` of piece `i`, starting at section index `j`. -/
def jobSecs (i : Nat) : Nat → List Sec → List Job × Job → List Job × Job
  | _, [], a => a
  | j, s :: r, (jobs, job) =>
    if i = 0 ∧ j = 0 then jobSecs i (j + 1) r (jobs, Job.ofSec s)
    else if s.name = job.name ∧ s.pad = job.pad then
      jobSecs i (j + 1) r (jobs, { job with len := job.len + s.len })
    else jobSecs i (j + 1) r (flush jobs job, Job.ofSec s)

/-- The outer loop `for i := begin; i < end; i++`, `k` pieces to go; `none` = `pieces[i]` out of range. -/
def jobPieces (ps : List Piece) : Nat → Nat → List Job × Job → Option (List Job × Job)
  | _, 0, a => some a
  | i, k + 1, a =>
    match ps[i]? with
    | none => none
    | some p => jobPieces ps (i + 1) k (jobSecs i 0 p.secs a)

/-- `createJobs(pieces, begin, end)`; `none` = index panic. -/
def createJobs (ps : List Piece) (b e : Nat) : Option (List Job) :=
  if b = e then some []
  else
    match jobPieces ps b (e - b) ([], zeroJob) with
    | none => none
    | some (jobs, job) => some (flush jobs job).reverse

/-- One token per byte: `none` = a zero byte of a padding job/section (never requested),
`some (name, offset)` = byte `offset` of the file called `name`. -/
abbrev Tok := Option (Nat × Nat)

def secToks (s : Sec) : List Tok :=
  if s.pad then List.replicate s.len none else (List.range s.len).map fun k => some (s.name, s.off + k)

def jobToks (j : Job) : List Tok :=
  if j.pad then List.replicate j.len none else (List.range j.len).map fun k => some (j.name, j.begin + k)

/-- The job list read in order reproduces the byte stream of the sections; no empty job. -/
def JobsCover (secs : List Sec) (jobs : List Job) : Bool :=
  jobs.flatMap jobToks == secs.flatMap secToks && jobs.all fun j => 0 < j.len

/-- File names as `NewInfo` leaves them: none empty, and two different non-padding files never
share a name (`duplicate file name` is rejected; padding files may repeat, BEP 47). -/
def namesOK (files : List FileEnt) : Bool :=
  files.all (fun f => f.name != 0) &&
  decide (files.Pairwise fun f g => (f.pad || g.pad || f.name != g.name) = true)

/-- The sections of pieces `[b, e)`. -/
def secsOfRange (ps : List Piece) (b e : Nat) : List Sec := allSecs ((ps.drop b).take (e - b))

/-! ## M-GEO (part 4) — creation hashing order (`metainfo.NewInfoBytes`) and `verifier.Run`

SHA-1 is an uninterpreted parameter `H : List Nat → Nat`. -/

/-- The `visit` loop of `NewInfoBytes` for one file `f`: `io.ReadFull(f, buf[offset:])` until the
file ends; whenever the buffer is full it is hashed and `offset = 0`.  `buf` is the filled part
of the buffer, `hs` the piece hashes so far (newest first).  Fuel `f.length + 2`. -/
def hashFile (H : List Nat → Nat) (pl : Nat) : Nat → List Nat → List Nat → List Nat → List Nat × List Nat
  | 0, _, buf, hs => (buf, hs)
  | fuel + 1, f, buf, hs =>
    let n := min f.length (pl - buf.length)
    let buf' := buf ++ f.take n
    if n < pl - buf.length then (buf', hs)                  -- io.EOF / io.ErrUnexpectedEOF: next file
    else hashFile H pl fuel (f.drop n) [] (H buf' :: hs)     -- buffer finished: hash it

/-- The piece table computed by `NewInfoBytes` for the files (contents in walk order). -/
def createHashes (H : List Nat → Nat) (pl : Nat) (files : List (List Nat)) : List Nat :=
  let a := files.foldl (fun (a : List Nat × List Nat) f => hashFile H pl (f.length + 2) f a.1 a.2) ([], [])
  (if a.1.length > 0 then H a.1 :: a.2 else a.2).reverse      -- "hash remaining buffer"

/-- `verifier.Run`: per piece `ReadAt(buf[:p.Length], 0)` then `VerifyHash`.  `none` = the run
stopped with `v.Error` (short read) or panicked. -/
def verifyBits (H : List Nat → Nat) (st : Store) : List Piece → List Nat → Option (List Bool)
  | [], _ => some []
  | p :: ps, hs =>
    match readAt st p.secs 0 p.len with
    | .ok bs =>
      match verifyBits H st ps hs.tail with
      | some r => some ((hs.head? == some (H bs)) :: r)
      | none => none
    | _ => none

/-- The storage after allocation on the directory the torrent was created from, for files given
as `(entry, content)`: a data file holds its content, a file that `NewInfo` marks as padding is a
`PaddingFile` (it is never opened). -/
def storeOf (fs : List (FileEnt × List Nat)) : Store :=
  fs.map fun x => if x.1.pad then .padding else .data x.2

end Rain.Geometry
