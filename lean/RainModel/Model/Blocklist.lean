import RainModel.Model.STree
/-
M-BL (part 2) — transliteration of `internal/blocklist/blocklist.go`.

`load`: `bufio.Scanner` lines (split at `\n`, one trailing `\r` dropped, a line that does not
fit the 64 KiB scanner buffer ends the scan with an error), `bytes.TrimSpace`, blank lines and
`#` comments skipped, `parseCIDR` (`net.ParseCIDR` restricted to what reaches the success
branch: dotted quad + `/prefix`; every IPv6 form ends in an error because `len(ipnet.IP) != 4`),
`tree.AddRange(first, last)`, `n++`, `hasError`; after the loop the scanner error, then the
"no valid rules" rule (`n == 0 && hasError`), then `tree.Build()`.
`Reload` replaces tree and count only when `load` succeeded.  `Blocked(ip)`: `ip.To4()`,
big-endian value, `tree.Contains`.

Bytes are `Nat`s < 256.  uint32 values are `Nat`s; `^mask` is `0xFFFFFFFF - mask`.
Core Lean only.
-/
namespace Rain.Blocklist
open Rain.STree

abbrev Bytes := List Nat

/-! ### `bufio.ScanLines` -/

/-- `bufio.MaxScanTokenSize`: a line of this many bytes (without its newline) cannot be
delivered and ends the scan with `ErrTooLong`. -/
def maxScanTokenSize : Nat := 65536

/-- Split at `\n` (10).  The piece after the last newline is returned even when empty; the
caller drops it (ScanLines emits no token for empty data at EOF). -/
def splitNL : Bytes → List Bytes
  | [] => [[]]
  | c :: cs =>
    if c = 10 then [] :: splitNL cs
    else match splitNL cs with
      | [] => [[c]]           -- unreachable: `splitNL` never returns `[]`
      | l :: ls => (c :: l) :: ls

def dropLastIfEmpty : List Bytes → List Bytes
  | [] => []
  | [l] => if l.isEmpty then [] else [l]
  | l :: ls => l :: dropLastIfEmpty ls

/-- `dropCR`. -/
def dropCR (l : Bytes) : Bytes :=
  match l.reverse with
  | 13 :: r => r.reverse
  | _ => l

/-- Raw pieces of the text (before `dropCR`), as the scanner sees them. -/
def rawLines (text : Bytes) : List Bytes := dropLastIfEmpty (splitNL text)

/-! ### `bytes.TrimSpace` (ASCII and the Unicode `White_Space` code points in UTF-8) -/

def asciiSpace (c : Nat) : Bool := c = 9 || c = 10 || c = 11 || c = 12 || c = 13 || c = 32

/-- UTF-8 encodings of the non-ASCII code points for which `unicode.IsSpace` is true. -/
def unicodeSpaces : List Bytes :=
  [[0xC2, 0x85], [0xC2, 0xA0], [0xE1, 0x9A, 0x80],
   [0xE2, 0x80, 0x80], [0xE2, 0x80, 0x81], [0xE2, 0x80, 0x82], [0xE2, 0x80, 0x83],
   [0xE2, 0x80, 0x84], [0xE2, 0x80, 0x85], [0xE2, 0x80, 0x86], [0xE2, 0x80, 0x87],
   [0xE2, 0x80, 0x88], [0xE2, 0x80, 0x89], [0xE2, 0x80, 0x8A], [0xE2, 0x80, 0xA8],
   [0xE2, 0x80, 0xA9], [0xE2, 0x80, 0xAF], [0xE2, 0x81, 0x9F], [0xE3, 0x80, 0x80]]

/-- Number of bytes of leading white space to drop at the head of `l` (0 = none). -/
def leadSpace (l : Bytes) : Nat :=
  match l with
  | [] => 0
  | c :: _ =>
    if asciiSpace c then 1
    else match unicodeSpaces.find? (fun u => u.isPrefixOf l) with
      | some u => u.length
      | none => 0

def trimLeft : Nat → Bytes → Bytes
  | 0, l => l
  | fuel + 1, l =>
    let k := leadSpace l
    if k = 0 then l else trimLeft fuel (l.drop k)

/-- Same from the right: the reversed encodings are prefixes of the reversed line. -/
def trailSpace (rl : Bytes) : Nat :=
  match rl with
  | [] => 0
  | c :: _ =>
    if asciiSpace c then 1
    else match unicodeSpaces.find? (fun u => u.reverse.isPrefixOf rl) with
      | some u => u.length
      | none => 0

def trimRightRev : Nat → Bytes → Bytes
  | 0, rl => rl
  | fuel + 1, rl =>
    let k := trailSpace rl
    if k = 0 then rl else trimRightRev fuel (rl.drop k)

/-- `bytes.TrimSpace`. -/
def trimSpace (l : Bytes) : Bytes :=
  let a := trimLeft l.length l
  (trimRightRev a.length a.reverse).reverse

/-! ### `parseCIDR` -/

def isDigit (c : Nat) : Bool := 48 ≤ c && c ≤ 57

/-- Cursor of `netip.parseIPv4Fields`. -/
structure V4Cur where
  val : Nat := 0
  pos : Nat := 0
  digLen : Nat := 0
  fields : List Nat := []     -- completed octets, in order
  prevDot : Bool := false     -- `s[i-1] == '.'`
  deriving Repr, DecidableEq

/-- The loop body of `parseIPv4Fields` over the remaining characters; `first` = `i == 0`.
`none` = parse error. -/
def v4Loop : Bytes → Bool → V4Cur → Option V4Cur
  | [], _, c => some c
  | ch :: rest, first, c =>
    if isDigit ch then
      if c.digLen = 1 ∧ c.val = 0 then none        -- octet with leading zero
      else
        let val := c.val * 10 + (ch - 48)
        if val > 255 then none
        else v4Loop rest false { c with val := val, digLen := c.digLen + 1, prevDot := false }
    else if ch = 46 then
      if first ∨ rest.isEmpty ∨ c.prevDot then none  -- `.1.2.3`, `1.2.3.`, `1..2.3`
      else if c.pos = 3 then none                    -- too long
      else v4Loop rest false { val := 0, pos := c.pos + 1, digLen := 0,
                               fields := c.fields ++ [c.val], prevDot := true }
    else none                                        -- unexpected character

/-- `netip.ParseAddr` restricted to the IPv4 outcome: big-endian value of a dotted quad. -/
def parseIPv4 (s : Bytes) : Option Nat :=
  -- ParseAddr looks for the first of '.', ':', '%'
  match s.find? (fun c => c = 46 || c = 58 || c = 37) with
  | some 46 =>
    match v4Loop s true {} with
    | some c =>
      if c.pos < 3 then none                         -- too short
      else match c.fields with
        | [a, b, d] => some (((a * 256 + b) * 256 + d) * 256 + c.val)
        | _ => none
    | none => none
  | _ => none            -- IPv6 / zone / no separator: never an IPv4 rule

/-- `dtoi` of the whole mask string (`i == len(mask)` required by ParseCIDR). -/
def dtoiAll : Bytes → Nat → Option Nat
  | [], n => some n
  | ch :: rest, n =>
    if isDigit ch then
      let n' := n * 10 + (ch - 48)
      if n' ≥ 0xFFFFFF then none else dtoiAll rest n'
    else none

/-- `net.CIDRMask(p, 32)` as a uint32. -/
def cidrMask (p : Nat) : Nat := (2 ^ p - 1) <<< (32 - p)

structure IPRange where
  first : Nat
  last : Nat
  deriving Repr, DecidableEq, Inhabited

/-- `first`/`last` from address and prefix length: `ip.Mask(m)` and `first | ^mask`. -/
def rangeOf (ip p : Nat) : IPRange :=
  let mask := cidrMask p
  let first := ip &&& mask
  { first := first, last := first ||| (0xFFFFFFFF - mask) }

/-- Address and prefix length of a line accepted by `parseCIDR`. -/
def parseAddrPrefix (l : Bytes) : Option (Nat × Nat) :=
  match l.span (· ≠ 47) with
  | (_, []) => none                                   -- no '/'
  | (addr, _ :: maskStr) =>
    match parseIPv4 addr with
    | none => none
    | some ip =>
      if maskStr.isEmpty then none else
      match dtoiAll maskStr 0 with
      | none => none
      | some p => if p > 32 then none else some (ip, p)

/-- `parseCIDR(b)`; `none` = any error. -/
def parseCIDR (l : Bytes) : Option IPRange :=
  (parseAddrPrefix l).map fun (ip, p) => rangeOf ip p

/-! ### `load`, `Reload`, `Blocked` -/

inductive LoadErr where
  | tooLong        -- `scanner.Err()`
  | noValidRules
  deriving Repr, DecidableEq

/-- Loop state of `load`. -/
structure LoadSt where
  tree : Stree := {}
  n : Nat := 0
  hasError : Bool := false
  deriving Repr

/-- One trip through `for scanner.Scan()`. -/
def loadLine (st : LoadSt) (raw : Bytes) : LoadSt :=
  let l := trimSpace (dropCR raw)
  if l.isEmpty then st
  else if l.head? = some 35 then st
  else match parseCIDR l with
    | none => { st with hasError := true }
    | some r => { st with tree := st.tree.addRange r.first r.last, n := st.n + 1 }

/-- Lines the scanner delivers before it stops, and whether it stopped with `ErrTooLong`. -/
def scan : List Bytes → List Bytes × Bool
  | [] => ([], false)
  | l :: ls =>
    if l.length ≥ maxScanTokenSize then ([], true)
    else let (r, e) := scan ls; (l :: r, e)

/-- `load(r, logger)`.  `Except.ok none` would be a Go panic inside `Build`. -/
def load (text : Bytes) : Except LoadErr (Option Stree × Nat) :=
  let (ls, tooLong) := scan (rawLines text)
  let st := ls.foldl loadLine {}
  if tooLong then .error .tooLong
  else if st.n = 0 ∧ st.hasError then .error .noValidRules
  else .ok (st.tree.build, st.n)

structure Blocklist where
  tree : Stree := {}
  count : Nat := 0
  deriving Repr, Inhabited

inductive ReloadObs where
  | ok (n : Nat)
  | err (e : LoadErr)
  | panic
  deriving Repr, DecidableEq

/-- `Reload(r)`: new state and what it returned. -/
def Blocklist.reload (b : Blocklist) (text : Bytes) : Blocklist × ReloadObs :=
  match load text with
  | .error e => (b, .err e)
  | .ok (none, _) => (b, .panic)
  | .ok (some t, n) => ({ tree := t, count := n }, .ok n)

/-- `Blocked(ip)` for an address that has an IPv4 form (`some v`) or not (`none`). -/
def Blocklist.blocked (b : Blocklist) (ip : Option Nat) : Bool :=
  match ip with
  | none => false
  | some v => b.tree.contains v

/-! ### declarative reading of a blocklist text (specification side) -/

/-- What one raw line becomes before the blank / comment tests. -/
def cook (raw : Bytes) : Bytes := trimSpace (dropCR raw)

/-- Neither blank nor a `#` comment. -/
def isRule (l : Bytes) : Bool := !l.isEmpty && !(l.head? == some 35)

/-- The rule lines of a text: trimmed, non-blank, not a comment. -/
def ruleLines (text : Bytes) : List Bytes := ((scan (rawLines text)).1.map cook).filter isRule

/-- The ranges of the well-formed rule lines, in order. -/
def rulesOf (text : Bytes) : List IPRange := (ruleLines text).filterMap parseCIDR

/-- Some rule line is malformed. -/
def hasMalformed (text : Bytes) : Bool := (ruleLines text).any fun l => (parseCIDR l).isNone

def tooLong (text : Bytes) : Bool := (scan (rawLines text)).2

/-- Linear-scan membership in a rule list. -/
def inRules (rs : List IPRange) (v : Nat) : Bool := rs.any fun r => r.first ≤ v && v ≤ r.last

end Rain.Blocklist
