/-
M-BENC — the bencoded payloads of the three extension messages rain speaks
(`internal/peerprotocol/extension.go`): extension handshake, ut_metadata, ut_pex.

* `encHandshake / encMetadata / encPex` — what `ExtensionMessage.WriteTo` puts after the extended
  message id: `zeebo/bencode`'s struct encoder (keys sorted bytewise, `omitempty` honoured, map
  keys sorted, integers `i%de`, strings `%d:%s`), then the raw metadata block for ut_metadata.
* `tokenize` — transliteration of `validateBencode` (the guard in front of the decoder, added by
  the fix for the findings in notes/C08-reader.md): one pass over the payload with a depth counter;
  it rejects nesting deeper than `maxDepth` and any string whose announced length exceeds the bytes
  left.  Here it additionally *returns* the token list it walked over.
* `parseHandshake / parseMetadata / parsePex` — model of `zeebo/bencode`'s reflective decoder for
  the three struct shapes, stated over the token list (on a payload accepted by `validateBencode`
  the library splits the bytes at exactly the same places; the library is third-party code,
  assumed, and exercised by the `codec` / `reader` suites).  Unknown keys are skipped as
  `interface{}` values (integers must fit `int64`), known keys must have the field's type,
  integers go through `strconv.ParseInt/ParseUint` and are truncated by `reflect.SetUint`.

Bytes are `Nat`s (< 256 by the well-formedness predicates of the theorems). Core Lean only.
-/
namespace Rain.Bencode

abbrev Bytes := List Nat

def isDigit (c : Nat) : Bool := 48 ≤ c && c ≤ 57

/-! ### decimal text (`fmt` `%d`, `strconv.ParseInt`) -/

/-- Decimal digits of `n` as ASCII, least significant first. Fuel `n+1` always suffices. -/
def decRev : Nat → Nat → Bytes
  | 0, _ => []
  | f + 1, n => if n < 10 then [48 + n] else (48 + n % 10) :: decRev f (n / 10)

/-- `%d` of a natural number. -/
def natDec (n : Nat) : Bytes := (decRev (n + 1) n).reverse

def intDec (z : Int) : Bytes := if z < 0 then 45 :: natDec z.natAbs else natDec z.toNat

/-- Value of a string of ASCII digits (accumulator form); `none` on a non-digit. -/
def digitsVal : Bytes → Nat → Option Nat
  | [], acc => some acc
  | c :: cs, acc => if isDigit c then digitsVal cs (acc * 10 + (c - 48)) else none

/-- Non-empty all-digit string → its value. -/
def parseNatDec (bs : Bytes) : Option Nat :=
  match bs with
  | [] => none
  | _ => digitsVal bs 0

/-- `strconv.ParseInt(s, 10, 64)`: optional sign, at least one digit, range check. -/
def strconvInt64 (ds : Bytes) : Option Int :=
  match ds with
  | 45 :: r => (parseNatDec r).bind fun n => if n ≤ 9223372036854775808 then some (-(n : Int)) else none
  | 43 :: r => (parseNatDec r).bind fun n => if n < 9223372036854775808 then some (n : Int) else none
  | r => (parseNatDec r).bind fun n => if n < 9223372036854775808 then some (n : Int) else none

/-- `strconv.ParseUint(s, 10, 64)`: no sign allowed. -/
def strconvUint64 (ds : Bytes) : Option Nat :=
  (parseNatDec ds).bind fun n => if n < 18446744073709551616 then some n else none

/-! ### encoder -/

def encStr (s : Bytes) : Bytes := natDec s.length ++ 58 :: s
def encInt (z : Int) : Bytes := 105 :: (intDec z ++ [101])
def encNat (n : Nat) : Bytes := 105 :: (natDec n ++ [101])

-- key strings (ASCII), with the bencoded form used by the encoder
def kM : Bytes := [109]                                                    -- "m"
def kMetadataSize : Bytes := [109,101,116,97,100,97,116,97,95,115,105,122,101]  -- "metadata_size"
def kReqq : Bytes := [114,101,113,113]                                     -- "reqq"
def kV : Bytes := [118]                                                    -- "v"
def kYourip : Bytes := [121,111,117,114,105,112]                           -- "yourip"
def kMsgType : Bytes := [109,115,103,95,116,121,112,101]                   -- "msg_type"
def kPiece : Bytes := [112,105,101,99,101]                                 -- "piece"
def kTotalSize : Bytes := [116,111,116,97,108,95,115,105,122,101]          -- "total_size"
def kAdded : Bytes := [97,100,100,101,100]                                 -- "added"
def kDropped : Bytes := [100,114,111,112,112,101,100]                      -- "dropped"

/-- `ExtensionHandshakeMessage`. `m` is the Go map listed in the encoder's order (sorted keys). -/
structure Handshake where
  m : List (Bytes × Nat)
  v : Bytes
  yourip : Bytes
  metadataSize : Int
  reqq : Int
  deriving Repr, DecidableEq

/-- `ExtensionMetadataMessage`; `data` is the raw block that follows the dictionary. -/
structure Metadata where
  msgType : Int
  piece : Nat
  totalSize : Int
  data : Bytes
  deriving Repr, DecidableEq

/-- `ExtensionPEXMessage`. -/
structure Pex where
  added : Bytes
  dropped : Bytes
  deriving Repr, DecidableEq

inductive ExtPayload
  | handshake (h : Handshake)
  | metadata (m : Metadata)
  | pex (p : Pex)
  deriving Repr, DecidableEq

def encMap (m : List (Bytes × Nat)) : Bytes := m.flatMap fun kv => encStr kv.1 ++ encNat kv.2

def encHandshake (h : Handshake) : Bytes :=
  100 :: (encStr kM ++ (100 :: (encMap h.m ++ [101]))
    ++ (if h.metadataSize = 0 then [] else encStr kMetadataSize ++ encInt h.metadataSize)
    ++ encStr kReqq ++ encInt h.reqq
    ++ encStr kV ++ encStr h.v
    ++ (if h.yourip = [] then [] else encStr kYourip ++ encStr h.yourip)
    ++ [101])

def encMetadata (m : Metadata) : Bytes :=
  100 :: (encStr kMsgType ++ encInt m.msgType
    ++ encStr kPiece ++ encNat m.piece
    ++ (if m.totalSize = 0 then [] else encStr kTotalSize ++ encInt m.totalSize)
    ++ [101]) ++ m.data

def encPex (p : Pex) : Bytes :=
  100 :: (encStr kAdded ++ encStr p.added ++ encStr kDropped ++ encStr p.dropped ++ [101])

/-- Payload bytes after the extended message id. -/
def encPayload : ExtPayload → Bytes
  | .handshake h => encHandshake h
  | .metadata m => encMetadata m
  | .pex p => encPex p

/-- The extended id the *reader* dispatches on for each payload type
(`ExtensionIDHandshake/Metadata/PEX`). -/
def kindId : ExtPayload → Nat
  | .handshake _ => 0
  | .metadata _ => 1
  | .pex _ => 2

/-! ### tokenizer = `validateBencode` -/

inductive Tok
  | int (ds : Bytes)
  | str (s : Bytes)
  | lst
  | dct
  | fin
  deriving Repr, DecidableEq

/-- Split at the first occurrence of `c` (`bytes.IndexByte`). -/
def splitAtByte (c : Nat) : Bytes → Option (Bytes × Bytes)
  | [] => none
  | x :: xs => if x = c then some ([], xs) else
      match splitAtByte c xs with
      | none => none
      | some (a, b) => some (x :: a, b)

def take? (n : Nat) (bs : Bytes) : Option (Bytes × Bytes) :=
  if n ≤ bs.length then some (bs.take n, bs.drop n) else none

/-- `<digits>:<n bytes>`; the announced length must not exceed what is left. -/
def scanStr (bs : Bytes) : Option (Bytes × Bytes) :=
  match splitAtByte 58 bs with
  | none => none
  | some (ds, r) =>
    match parseNatDec ds with
    | none => none
    | some n => take? n r

def maxDepth : Nat := 32

/-- One pass with a depth counter. Returns the tokens of the first complete value (reversed
accumulator `acc`) and the bytes after it. -/
def tokenizeAux : Nat → Bytes → Nat → List Tok → Option (List Tok × Bytes)
  | 0, _, _, _ => none
  | _ + 1, [], _, _ => none
  | f + 1, c :: r, depth, acc =>
    if c = 101 then
      if depth = 0 then none
      else if depth = 1 then some ((Tok.fin :: acc).reverse, r)
      else tokenizeAux f r (depth - 1) (Tok.fin :: acc)
    else if c = 108 then
      if depth + 1 > maxDepth then none else tokenizeAux f r (depth + 1) (Tok.lst :: acc)
    else if c = 100 then
      if depth + 1 > maxDepth then none else tokenizeAux f r (depth + 1) (Tok.dct :: acc)
    else if c = 105 then
      match splitAtByte 101 r with
      | none => none
      | some (ds, r') =>
        if depth = 0 then some ((Tok.int ds :: acc).reverse, r') else tokenizeAux f r' depth (Tok.int ds :: acc)
    else if isDigit c then
      match scanStr (c :: r) with
      | none => none
      | some (s, r') =>
        if depth = 0 then some ((Tok.str s :: acc).reverse, r') else tokenizeAux f r' depth (Tok.str s :: acc)
    else none

def tokenize (bs : Bytes) : Option (List Tok × Bytes) := tokenizeAux (bs.length + 1) bs 0 []

/-! ### typed decoding over tokens (model of the library's reflective decoder) -/

mutual
/-- Skip one value decoded into `interface{}`. -/
def skipAny : Nat → List Tok → Option (List Tok)
  | 0, _ => none
  | _ + 1, [] => none
  | f + 1, t :: r =>
    match t with
    | .int ds => match strconvInt64 ds with | none => none | some _ => some r
    | .str _ => some r
    | .lst => skipList f r
    | .dct => skipDict f r
    | .fin => none
def skipList : Nat → List Tok → Option (List Tok)
  | 0, _ => none
  | _ + 1, [] => none
  | f + 1, t :: r =>
    match t with
    | .fin => some r
    | _ => match skipAny f (t :: r) with | none => none | some r' => skipList f r'
def skipDict : Nat → List Tok → Option (List Tok)
  | 0, _ => none
  | _ + 1, [] => none
  | f + 1, t :: r =>
    match t with
    | .fin => some r
    | .str _ => match skipAny f r with | none => none | some r' => skipDict f r'
    | _ => none
end

def mapSet (m : List (Bytes × Nat)) (k : Bytes) (v : Nat) : List (Bytes × Nat) :=
  match m with
  | [] => [(k, v)]
  | (k', v') :: r => if k' = k then (k, v) :: r else (k', v') :: mapSet r k v

/-- `map[string]uint8` target: entries after the `d` token. -/
def parseMapU8 : Nat → List Tok → List (Bytes × Nat) → Option (List (Bytes × Nat) × List Tok)
  | 0, _, _ => none
  | _ + 1, [], _ => none
  | f + 1, t :: r, acc =>
    match t with
    | .fin => some (acc, r)
    | .str k =>
      match r with
      | .int ds :: r' =>
        match strconvUint64 ds with
        | none => none
        | some n => parseMapU8 f r' (mapSet acc k (n % 256))
      | _ => none
    | _ => none

/-- Field accumulator for the handshake struct (zero value = Go zero value). -/
structure HsAcc where
  m : List (Bytes × Nat) := []
  v : Bytes := []
  yourip : Bytes := []
  metadataSize : Int := 0
  reqq : Int := 0

def parseHsFields : Nat → List Tok → HsAcc → Option (HsAcc × List Tok)
  | 0, _, _ => none
  | _ + 1, [], _ => none
  | f + 1, t :: r, a =>
    match t with
    | .fin => some (a, r)
    | .str k =>
      if k = kM then
        match r with
        | .dct :: r' =>
          match parseMapU8 f r' a.m with
          | none => none
          | some (m, r'') => parseHsFields f r'' { a with m := m }
        | _ => none
      else if k = kV then
        match r with
        | .str s :: r' => parseHsFields f r' { a with v := s }
        | _ => none
      else if k = kYourip then
        match r with
        | .str s :: r' => parseHsFields f r' { a with yourip := s }
        | _ => none
      else if k = kMetadataSize then
        match r with
        | .int ds :: r' =>
          match strconvInt64 ds with
          | none => none
          | some z => parseHsFields f r' { a with metadataSize := z }
        | _ => none
      else if k = kReqq then
        match r with
        | .int ds :: r' =>
          match strconvInt64 ds with
          | none => none
          | some z => parseHsFields f r' { a with reqq := z }
        | _ => none
      else
        match skipAny f r with
        | none => none
        | some r' => parseHsFields f r' a
    | _ => none

/-- Elements of a list decoded into `[]byte` (each must be an integer `ParseUint` accepts). -/
def skipU8List : Nat → List Tok → Option (List Tok)
  | 0, _ => none
  | _ + 1, [] => none
  | f + 1, t :: r =>
    match t with
    | .fin => some r
    | .int ds => match strconvUint64 ds with | none => none | some _ => skipU8List f r
    | _ => none

structure MdAcc where
  msgType : Int := 0
  piece : Nat := 0
  totalSize : Int := 0

def parseMdFields : Nat → List Tok → MdAcc → Option (MdAcc × List Tok)
  | 0, _, _ => none
  | _ + 1, [], _ => none
  | f + 1, t :: r, a =>
    match t with
    | .fin => some (a, r)
    | .str k =>
      if k = kMsgType then
        match r with
        | .int ds :: r' =>
          match strconvInt64 ds with
          | none => none
          | some z => parseMdFields f r' { a with msgType := z }
        | _ => none
      else if k = kPiece then
        match r with
        | .int ds :: r' =>
          match strconvUint64 ds with
          | none => none
          | some n => parseMdFields f r' { a with piece := n % 4294967296 }
        | _ => none
      else if k = kTotalSize then
        match r with
        | .int ds :: r' =>
          match strconvInt64 ds with
          | none => none
          | some z => parseMdFields f r' { a with totalSize := z }
        | _ => none
      else if k = [45] then
        -- library quirk: the decoder ignores the `bencode:"-"` tag of `Data []byte`, so the key "-"
        -- addresses that field (a string or a list of small integers; overwritten afterwards)
        match r with
        | .str _ :: r' => parseMdFields f r' a
        | .lst :: r' =>
          match skipU8List f r' with
          | none => none
          | some r'' => parseMdFields f r'' a
        | _ => none
      else
        match skipAny f r with
        | none => none
        | some r' => parseMdFields f r' a
    | _ => none

structure PexAcc where
  added : Bytes := []
  dropped : Bytes := []

def parsePexFields : Nat → List Tok → PexAcc → Option (PexAcc × List Tok)
  | 0, _, _ => none
  | _ + 1, [], _ => none
  | f + 1, t :: r, a =>
    match t with
    | .fin => some (a, r)
    | .str k =>
      if k = kAdded then
        match r with
        | .str s :: r' => parsePexFields f r' { a with added := s }
        | _ => none
      else if k = kDropped then
        match r with
        | .str s :: r' => parsePexFields f r' { a with dropped := s }
        | _ => none
      else
        match skipAny f r with
        | none => none
        | some r' => parsePexFields f r' a
    | _ => none

/-- Lengths of the string tokens: every `make([]byte, l)` the decoder can perform on this
payload is one of these. -/
def strLens : List Tok → List Nat
  | [] => []
  | .str s :: r => s.length :: strLens r
  | _ :: r => strLens r

/-- `ExtensionMessage.UnmarshalBinary` after the extended id byte: `none` = an error is returned
and nothing is delivered. Second component: string lengths the decoder may allocate. -/
def parseExt (eid : Nat) (payload : Bytes) : Option ExtPayload × List Nat :=
  if eid > 2 then (none, []) else
  match tokenize payload with
  | none => (none, [])
  | some (toks, rest) =>
    let res : Option ExtPayload :=
      match toks with
      | .dct :: ts =>
        if eid = 0 then
          match parseHsFields (ts.length + 1) ts {} with
          | none => none
          | some (a, _) => some (.handshake {
              m := a.m, v := a.v, yourip := a.yourip,
              metadataSize := if a.metadataSize < 0 then 0 else a.metadataSize,
              reqq := if a.reqq < 0 then 0 else a.reqq })
        else if eid = 1 then
          match parseMdFields (ts.length + 1) ts {} with
          | none => none
          | some (a, _) => some (.metadata { msgType := a.msgType, piece := a.piece, totalSize := a.totalSize, data := rest })
        else
          match parsePexFields (ts.length + 1) ts {} with
          | none => none
          | some (a, _) => some (.pex { added := a.added, dropped := a.dropped })
      | _ => none
    (res, strLens toks)

end Rain.Bencode
