/-
M-SEM — `internal/semaphore` (a wrapper around `golang.org/x/sync/semaphore.Weighted` that
also keeps two metrics, `waiting` and `active`), as a counter abstraction over any number of
goroutines that use it the way rain does (`sem.Wait(); …; sem.Signal()` in piecewriter.Run and
piececache): the state records how many goroutines stand at each program point.

    Wait:    waiting.Add(1)            idle    → w1
             sem.Acquire(ctx, 1)       w1      → acq     (enabled iff cur < n; cur++)
             waiting.Add(-1)           acq     → w3
             active.Add(1)             w3      → holding (Wait returned)
    Signal:  sem.Release(1)            holding → rel     (cur--)
             active.Add(-1)            rel     → idle

`cur` is the library's count of held units (trusted: `Acquire` returns only when `cur + 1 ≤ n`).
Goroutines are interchangeable, so the population counts are an exact abstraction of the
interleavings.  Core Lean only.
-/
namespace Rain.Semaphore

structure State where
  n : Int
  cur : Int
  waiting : Int
  active : Int
  idle : Nat
  w1 : Nat
  acq : Nat
  w3 : Nat
  holding : Nat
  rel : Nat
  deriving Repr, DecidableEq

/-- `New(n)` with `k` goroutines that may use the semaphore. -/
def init (n : Int) (k : Nat) : State :=
  { n := n, cur := 0, waiting := 0, active := 0, idle := k, w1 := 0, acq := 0, w3 := 0, holding := 0, rel := 0 }

/-- The atomic actions a scheduler can pick. -/
inductive Act where
  | waitInc | acquire | waitDec | activeInc | release | activeDec
  deriving Repr, DecidableEq

/-- One atomic action of some goroutine; `none` = no goroutine can take it now. -/
def step (s : State) : Act → Option State
  | .waitInc => if s.idle > 0 then some { s with idle := s.idle - 1, w1 := s.w1 + 1, waiting := s.waiting + 1 } else none
  | .acquire => if s.w1 > 0 ∧ s.cur < s.n then some { s with w1 := s.w1 - 1, acq := s.acq + 1, cur := s.cur + 1 } else none
  | .waitDec => if s.acq > 0 then some { s with acq := s.acq - 1, w3 := s.w3 + 1, waiting := s.waiting - 1 } else none
  | .activeInc => if s.w3 > 0 then some { s with w3 := s.w3 - 1, holding := s.holding + 1, active := s.active + 1 } else none
  | .release => if s.holding > 0 then some { s with holding := s.holding - 1, rel := s.rel + 1, cur := s.cur - 1 } else none
  | .activeDec => if s.rel > 0 then some { s with rel := s.rel - 1, idle := s.idle + 1, active := s.active - 1 } else none

def run (s : State) : List Act → Option State
  | [] => some s
  | a :: as =>
    match step s a with
    | some s' => run s' as
    | none => none

end Rain.Semaphore
