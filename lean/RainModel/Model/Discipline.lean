/-
M-ACC — the ownership discipline of package `torrent` (C20).

An `Acc` is one lexical access to a field of the `torrent` struct, extracted from the source by
/verif/extract (Generated/Access.lean).  `violating` recomputes, inside Lean, the (function, field)
pairs that break the discipline; `Props/C20.lean` proves by kernel evaluation that on the current
source they are exactly the recorded findings, and `discipline_sound` states what the discipline
buys in an abstract happens-before model.  Core Lean only.
-/
namespace Rain.Discipline

/-- `ctx`: 0 = only reachable from the event loop, 1 = only from other goroutines (exported methods,
RPC handlers, `go` statements, callbacks), 2 = both.  `lock`: 0 = none, k+1 = mutex field k. -/
structure Acc where
  fn : Nat
  field : Nat
  write : Bool
  ctx : Nat
  lock : Nat
  deriving Repr, DecidableEq, Inhabited

/-- Field class 0 = plain data owned by the loop (the others are channels, sync primitives, values that
never change after construction, internally synchronised counters). -/
def owned (cls : List Nat) (f : Nat) : Bool := cls.getD f 1 == 0

/-- Can `r` (running outside the loop) and `w` (running on the loop) touch the same owned field with at
least one write and no common mutex? -/
def clash (r w : Acc) : Bool :=
  r.field == w.field && w.ctx != 1 && (w.write || r.write) &&
  !(r.lock != 0 && r.lock == w.lock) && !(r.fn == w.fn && r.ctx == 2)

/-- The accesses of the table that break the discipline. -/
def violating (cls : List Nat) (tbl : List Acc) : List Acc :=
  tbl.filter fun r => r.ctx != 0 && owned cls r.field && tbl.any fun w => clash r w

/-- The same, by field, so that the kernel does not compare every pair: for each field the loop-side
accesses are collected once. -/
def loopSide (tbl : List Acc) (f : Nat) : List Acc := tbl.filter fun w => w.field == f && w.ctx != 1

def violatingFast (cls : List Nat) (tbl : List Acc) (nfields : Nat) : List (Nat × Nat) :=
  ((List.range nfields).filter (owned cls)).flatMap fun f =>
    let ws := loopSide tbl f
    ((tbl.filter fun r => r.field == f && r.ctx != 0 && ws.any (clash r)).map fun r => (r.fn, r.field)).eraseDups

/-! ### What the discipline buys -/

/-- An event of an execution: an access performed on goroutine `g` (0 = the event loop). -/
structure Event where
  acc : Acc
  g : Nat
  deriving Repr

/-- Executions the model considers: loop-only code runs on goroutine 0, code that is never reachable
from the loop runs elsewhere. -/
def Event.wellPlaced (e : Event) : Prop :=
  (e.acc.ctx = 0 → e.g = 0) ∧ (e.acc.ctx = 1 → e.g ≠ 0)

/-- Two events race if they touch the same owned field from different goroutines, one writes, and the
happens-before relation orders them in neither direction. -/
def Race (cls : List Nat) (hb : Event → Event → Prop) (a b : Event) : Prop :=
  a.g ≠ b.g ∧ a.acc.field = b.acc.field ∧ owned cls a.acc.field = true ∧
  (a.acc.write = true ∨ b.acc.write = true) ∧ ¬ hb a b ∧ ¬ hb b a

/-! ### Lock nesting

`Generated/Access.lean` lists every acquisition of a lock made while another lock is held (`LockEdge`), as
extracted from the source: lexically nested `Lock`/`RLock` calls, bbolt transactions (`bbolt.rw` = the
single-writer lock held by `db.Update`/`db.Batch`, `bbolt.ro` = the mmap read lock held by `db.View`), and
acquisitions made by a function called — transitively — from inside the critical section.  The event loop of a
torrent is the pseudo-lock `torrent.loop`: `torrent.run` holds it while it handles an event, and a function that
waits for the loop to take a command or to exit (`sendCommand`, `recvResponse`, `<-t.doneC`, also on a goroutine
the function then joins with a `WaitGroup`) acquires it.  Locks are named by
owner type and field, so all instances of one field are one node, and a read lock is the same node as the write
lock of its `RWMutex`: `RLock` inside `RLock` of the same mutex deadlocks as soon as a writer waits in between.
A potential deadlock is a cycle of the graph on lock names; a self-edge is a cycle. -/

/-- `fn` acquires lock `acq` while it holds lock `held`; `via = 0`: lexically, `via = k+1`: inside callee `k`. -/
structure LockEdge where
  fn : Nat
  held : Nat
  acq : Nat
  via : Nat
  deriving Repr, DecidableEq, Inhabited

/-- Inside a loop over a collection `fn` takes lock `lock` of the next element while it still holds the one of
the previous element; `gate = k+1`: the exclusive lock `k` is held around the whole sequence, `gate = 0`: none. -/
structure LoopLock where
  fn : Nat
  lock : Nat
  gate : Nat
  deriving Repr, DecidableEq, Inhabited

/-- The graph on lock ids: one edge `held → acquired` per extracted nesting. -/
def lockGraph (es : List LockEdge) : List (Nat × Nat) := es.map fun e => (e.held, e.acq)

/-- One round of sink elimination: keep the edges whose target still has an outgoing edge. -/
def prune (g : List (Nat × Nat)) : List (Nat × Nat) := g.filter fun e => g.any fun f => f.1 == e.2

/-- `n` rounds of sink elimination. -/
def pruneN : Nat → List (Nat × Nat) → List (Nat × Nat)
  | 0, g => g
  | n + 1, g => pruneN n (prune g)

/-- The graph is accepted iff eliminating sinks `|g|` times removes every edge (every round of a non-empty
acyclic graph removes at least the edges into its sinks, so `|g|` rounds suffice; an edge on a cycle is never
removed — `Lemmas/LockGraph.lean`). -/
def graphAcyclic (g : List (Nat × Nat)) : Bool := (pruneN g.length g).isEmpty

/-- The decidable check evaluated by the kernel on the extracted table. -/
def lockGraphAcyclic (es : List LockEdge) : Bool := graphAcyclic (lockGraph es)

/-- `Path g a b`: a non-empty walk `a → … → b` along edges of `g`. -/
inductive Path (g : List (Nat × Nat)) : Nat → Nat → Prop
  | single {a b : Nat} : (a, b) ∈ g → Path g a b
  | cons {a b c : Nat} : (a, b) ∈ g → Path g b c → Path g a c

/-- The same with the intermediate locks spelled out: `Walk g l₀ [l₁, …, lₖ] b` is `l₀ → l₁ → … → lₖ → b`. -/
def Walk (g : List (Nat × Nat)) (a : Nat) : List Nat → Nat → Prop
  | [], b => (a, b) ∈ g
  | c :: cs, b => (a, c) ∈ g ∧ Walk g c cs b

/-- Every loop-carried acquisition sequence runs under an exclusive gate lock. -/
def loopCarriedGated (ls : List LoopLock) : Bool := ls.all fun l => l.gate != 0

/-- The edges of the graph that lie on a cycle (what survives the elimination), for reporting. -/
def cyclicEdges (es : List LockEdge) : List (Nat × Nat) := pruneN (lockGraph es).length (lockGraph es)

/-! ### Lock-guarded fields of `Session`

The struct layout of `Session` places fields under a mutex (`mTorrents`: `torrents`, `torrentsByInfoHash`,
`invalidTorrentIDs`, `pendingIDs`; `mPorts`: `availablePorts`; `mBlocklist`: `blocklist`, `blocklistTimestamp`;
`mPeerRequests`: `dhtPeerRequests`).  `Generated/Access.lean` lists every access to such a field with the mode in
which the guard is held there — lexically, or by every caller of the function. -/

/-- `mode`: 0 = guard not held, 1 = held shared (`RLock`), 2 = held exclusive (`Lock`).  `ctor`: the access can only
run during construction (`NewSession` and the functions only it calls). -/
structure SessAcc where
  fn : Nat
  field : Nat
  write : Bool
  mode : Nat
  ctor : Bool
  deriving Repr, DecidableEq, Inhabited

/-- Is the field written after construction at all?  (If not — the pointer to the internally synchronised
blocklist — reading it needs no lock.) -/
def sessFieldWritten (tbl : List SessAcc) (f : Nat) : Bool := tbl.any fun a => a.field == f && a.write && !a.ctor

/-- The rule: outside construction a write holds the guard exclusively and a read holds it at least shared. -/
def sessGuardOk (tbl : List SessAcc) (a : SessAcc) : Bool :=
  a.ctor || !sessFieldWritten tbl a.field || (if a.write then a.mode == 2 else a.mode != 0)

/-- The accesses that break the rule. -/
def sessUnguarded (tbl : List SessAcc) : List SessAcc := tbl.filter fun a => !sessGuardOk tbl a

end Rain.Discipline
