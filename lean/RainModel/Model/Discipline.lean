/-
M-ACC — the ownership discipline of package `torrent` (C20).

An `Acc` is one lexical access to a field of the `torrent` struct, extracted from the source by
/verif/extract (Generated/Access.lean).  `violating` recomputes, inside Lean, the (function, field)
pairs that break the discipline; `Props/C20.lean` proves by kernel evaluation that on the current
source they are exactly the recorded findings, and `discipline_sound` states what the discipline
buys in an abstract happens-before model.  Core Lean only.
-/
namespace Rain.Discipline

/-- `ctx`: 0 = only reachable from the event loop, 1 = only from other goroutines (exported methods,
RPC handlers, `go` statements, callbacks), 2 = both.  `lock`: 0 = none, k+1 = mutex field k. -/
structure Acc where
  fn : Nat
  field : Nat
  write : Bool
  ctx : Nat
  lock : Nat
  deriving Repr, DecidableEq, Inhabited

/-- Field class 0 = plain data owned by the loop (the others are channels, sync primitives, values that
never change after construction, internally synchronised counters). -/
def owned (cls : List Nat) (f : Nat) : Bool := cls.getD f 1 == 0

/-- Can `r` (running outside the loop) and `w` (running on the loop) touch the same owned field with at
least one write and no common mutex? -/
def clash (r w : Acc) : Bool :=
  r.field == w.field && w.ctx != 1 && (w.write || r.write) &&
  !(r.lock != 0 && r.lock == w.lock) && !(r.fn == w.fn && r.ctx == 2)

/-- The accesses of the table that break the discipline. -/
def violating (cls : List Nat) (tbl : List Acc) : List Acc :=
  tbl.filter fun r => r.ctx != 0 && owned cls r.field && tbl.any fun w => clash r w

/-- The same, by field, so that the kernel does not compare every pair: for each field the loop-side
accesses are collected once. -/
def loopSide (tbl : List Acc) (f : Nat) : List Acc := tbl.filter fun w => w.field == f && w.ctx != 1

def violatingFast (cls : List Nat) (tbl : List Acc) (nfields : Nat) : List (Nat × Nat) :=
  ((List.range nfields).filter (owned cls)).flatMap fun f =>
    let ws := loopSide tbl f
    ((tbl.filter fun r => r.field == f && r.ctx != 0 && ws.any (clash r)).map fun r => (r.fn, r.field)).eraseDups

/-! ### What the discipline buys -/

/-- An event of an execution: an access performed on goroutine `g` (0 = the event loop). -/
structure Event where
  acc : Acc
  g : Nat
  deriving Repr

/-- Executions the model considers: loop-only code runs on goroutine 0, code that is never reachable
from the loop runs elsewhere. -/
def Event.wellPlaced (e : Event) : Prop :=
  (e.acc.ctx = 0 → e.g = 0) ∧ (e.acc.ctx = 1 → e.g ≠ 0)

/-- Two events race if they touch the same owned field from different goroutines, one writes, and the
happens-before relation orders them in neither direction. -/
def Race (cls : List Nat) (hb : Event → Event → Prop) (a b : Event) : Prop :=
  a.g ≠ b.g ∧ a.acc.field = b.acc.field ∧ owned cls a.acc.field = true ∧
  (a.acc.write = true ∨ b.acc.write = true) ∧ ¬ hb a b ∧ ¬ hb b a

end Rain.Discipline
