import RainModel.Model.Admission
/-
M-LOOP.AdmissionRun — histories of admission operations.

`Model/Admission` gives the single decisions (`handleNewPeers`, `handleNewConnection`,
`outgoingGone`, `incomingGone`, `corruptPiece`, `dialAddresses`).  Here they are composed into a
transition function `step` over an operation alphabet `Op`, and `run` folds a finite history of
operations — of any length, in any interleaving — over a start state.  Every history element
carries the blocklist predicate in force at that step (the blocklist can be reloaded between two
steps).

`Op.corruptIn` follows the order of the Go code (`handlePieceWriteDone`, corrupt-piece branch):
the IP is recorded in `bannedPeerIPs` BEFORE `closePeer`, and `closePeer` releases the IP and calls
`dialAddresses`.  (For `cfg.checkBan = false` the order is immaterial for what is dialled, because
the unrepaired `dialLoop` does not read `banned`; the final state is the same.)

Core Lean only.
-/
namespace Rain.Admission
open Rain.AddrList

/-- The admission-relevant events of the torrent event loop. -/
inductive Op where
  /-- `handleNewPeers(addrs, source)` at time `now`; `env`/`choose` as in `AddrList.push`. -/
  | peers (env : Env) (choose : List PA → List PA) (addrs : List Cand) (src now : Nat)
  /-- `handleNewConnection` for a connection from `ip`. -/
  | accept (ip : Nat)
  /-- outgoing handshake failed, or `closePeer` of an outgoing peer: `outgoingGone`. -/
  | hsfail (a : Addr)
  /-- incoming handshake failed: `incomingGone` (no dial). -/
  | infail (ip : Nat)
  /-- `closePeer` of an incoming peer: `incomingGone`, then `dialAddresses`. -/
  | closeIn (ip : Nat)
  /-- corrupt piece from the outgoing peer `a`: `corruptPiece`. -/
  | corruptOut (a : Addr)
  /-- corrupt piece from the incoming peer `ip`: ban, then `incomingGone`, then `dialAddresses`. -/
  | corruptIn (ip : Nat)
  /-- the torrent becomes complete (`v = true`) or incomplete again. -/
  | complete (v : Bool)

/-- What one step shows to the outside: the addresses handed to outgoing handshakers and, for
`Op.accept`, the verdict. -/
structure StepOut where
  dialled : List Addr := []
  verdict : Option Verdict := none
  deriving Repr, DecidableEq

/-- Wrap the result of a dialling function. -/
def withDial : Except String (State × List Addr) → Except String (State × StepOut)
  | .error e => .error e
  | .ok (s, d) => .ok (s, { dialled := d })

def step (cfg : Cfg) (blocked : Nat → Bool) (s : State) : Op → Except String (State × StepOut)
  | .peers env choose addrs src now => withDial (handleNewPeers cfg blocked env choose s addrs src now)
  | .accept ip =>
    .ok ((handleNewConnection cfg blocked s ip).1, { verdict := some (handleNewConnection cfg blocked s ip).2 })
  | .hsfail a => withDial (outgoingGone cfg blocked s a)
  | .infail ip => .ok (incomingGone s ip, {})
  | .closeIn ip => withDial (dialAddresses cfg blocked (incomingGone s ip))
  | .corruptOut a => withDial (corruptPiece cfg blocked s a)
  | .corruptIn ip =>
    withDial (dialAddresses cfg blocked (incomingGone { s with banned := ip :: s.banned } ip))
  | .complete v => .ok ({ s with completed := v }, {})

/-- Fold a history over a start state; the outputs are in history order, one per step. -/
def run (cfg : Cfg) : State → List (Op × (Nat → Bool)) → Except String (State × List StepOut)
  | s, [] => .ok (s, [])
  | s, (op, b) :: rest =>
    match step cfg b s op with
    | .error e => .error e
    | .ok (s1, o) =>
      match run cfg s1 rest with
      | .error e => .error e
      | .ok (s2, os) => .ok (s2, o :: os)

end Rain.Admission
