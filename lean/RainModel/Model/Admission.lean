import RainModel.Model.AddrList
/-
M-LOOP.Admission — the decision logic of the dial / accept path of package `torrent` as pure
functions over the projection of the `torrent` struct they read and write:

* `dialAddresses`        (torrent_peer.go)        the `for peersConnected() < MaxPeerDial` loop
* `handleNewPeers` + `filterBannedIPs`            push-time ban filter, `addrList.Push`, dial
* `handleNewConnection`  (torrent_connection.go)  limit / blocklist / duplicate IP / banned IP
* the admission-relevant statements of `handleOutgoingHandshakeDone` (error case),
  `closePeer` and of the corrupt-piece branch of `handlePieceWriteDone`.

`Cfg.checkBan` and `Cfg.recheckBlocklist` select between the code as it was (both false:
`dialAddresses` consulted neither `bannedPeerIPs` nor the blocklist, and the corrupt-piece
branch recorded the ban *after* `closePeer` had already dialled) and the repaired code (both
true; see findings F01/F02 of C18).  The loop-level tie (these functions as handlers of the event
loop) is `Model/Loop`; here they are tied to the real functions through export shims on a bare
`torrent` value (suite `admission`).

Core Lean only.
-/
namespace Rain.Admission
open Rain.AddrList

structure Cfg where
  maxPeerDial : Nat
  maxPeerAccept : Nat
  /-- `BlocklistEnabledForIncomingConnections && session.blocklist != nil` -/
  blIncoming : Bool
  /-- `BlocklistEnabledForOutgoingConnections && session.blocklist != nil` -/
  blOutgoing : Bool
  /-- `dialAddresses` skips IPs in `bannedPeerIPs`, and the ban is recorded before `closePeer`. -/
  checkBan : Bool
  /-- `dialAddresses` re-checks the blocklist (it may have been reloaded since the push). -/
  recheckBlocklist : Bool

/-- An address: IPv4 value and port. -/
abbrev Addr := Nat × Nat

structure State where
  queue : St := {}
  /-- `connectedPeerIPs` -/
  connected : List Nat := []
  /-- `bannedPeerIPs` -/
  banned : List Nat := []
  /-- `outgoingHandshakers ∪ outgoingPeers`, by address -/
  outgoing : List Addr := []
  /-- `incomingHandshakers ∪ incomingPeers`, by IP -/
  incoming : List Nat := []
  completed : Bool := false
  /-- last value passed to `setNeedMorePeers` -/
  needMore : Bool := false

/-- The loop of `dialAddresses`; `dialled` accumulates the addresses handed to
`outgoinghandshaker.New`.  Each trip pops one address, so `queue.len + 1` trips suffice. -/
def dialLoop (cfg : Cfg) (blocked : Nat → Bool) : Nat → State → List Addr → Except String (State × List Addr)
  | 0, _, _ => .error "dial loop out of fuel"
  | fuel + 1, s, dialled =>
    if s.outgoing.length < cfg.maxPeerDial then
      match pop s.queue with
      | .error e => .error e
      | .ok (none, q) => .ok ({ s with queue := q, needMore := true }, dialled)
      | .ok (some a, q) =>
        let s1 := { s with queue := q }
        if s1.connected.contains a.ip then dialLoop cfg blocked fuel s1 dialled
        else if cfg.checkBan && s1.banned.contains a.ip then dialLoop cfg blocked fuel s1 dialled
        else if cfg.recheckBlocklist && cfg.blOutgoing && blocked a.ip then dialLoop cfg blocked fuel s1 dialled
        else
          dialLoop cfg blocked fuel
            { s1 with outgoing := s1.outgoing ++ [(a.ip, a.port)], connected := a.ip :: s1.connected }
            (dialled ++ [(a.ip, a.port)])
    else .ok (s, dialled)

/-- `dialAddresses()`. -/
def dialAddresses (cfg : Cfg) (blocked : Nat → Bool) (s : State) : Except String (State × List Addr) :=
  if s.completed then .ok (s, []) else dialLoop cfg blocked (s.queue.len + 1) s []

/-- `handleNewPeers(addrs, source)` for a torrent that is not stopped/stopping. -/
def handleNewPeers (cfg : Cfg) (blocked : Nat → Bool) (env : Env) (choose : List PA → List PA)
    (s : State) (addrs : List Cand) (src now : Nat) : Except String (State × List Addr) :=
  let s := { s with needMore := false }
  if s.completed then .ok (s, []) else
  let addrs' := addrs.filter fun a => !s.banned.contains a.ip       -- filterBannedIPs
  match push env choose s.queue addrs' src now with
  | .error e => .error e
  | .ok q => dialAddresses cfg blocked { s with queue := q }

inductive Verdict where
  | accept | limit | blocked | duplicate | banned
  deriving Repr, DecidableEq

/-- `handleNewConnection(conn)` with the remote IP. -/
def handleNewConnection (cfg : Cfg) (blocked : Nat → Bool) (s : State) (ip : Nat) : State × Verdict :=
  if s.incoming.length ≥ cfg.maxPeerAccept then (s, .limit)
  else if cfg.blIncoming && blocked ip then (s, .blocked)
  else if s.connected.contains ip then (s, .duplicate)
  else if s.banned.contains ip then (s, .banned)
  else ({ s with incoming := s.incoming ++ [ip], connected := ip :: s.connected }, .accept)

/-- `handleOutgoingHandshakeDone` with `oh.Error != nil`, and equally the admission part of
`closePeer` for an outgoing peer: the slot and the IP are released, then `dialAddresses`. -/
def outgoingGone (cfg : Cfg) (blocked : Nat → Bool) (s : State) (a : Addr) : Except String (State × List Addr) :=
  dialAddresses cfg blocked { s with outgoing := s.outgoing.erase a, connected := s.connected.erase a.1 }

/-- Admission part of `handleIncomingHandshakeDone` with an error (no dial). -/
def incomingGone (s : State) (ip : Nat) : State :=
  { s with incoming := s.incoming.erase ip, connected := s.connected.erase ip }

/-- Corrupt-piece branch of `handlePieceWriteDone` for an outgoing peer `a`. -/
def corruptPiece (cfg : Cfg) (blocked : Nat → Bool) (s : State) (a : Addr) : Except String (State × List Addr) :=
  if cfg.checkBan then
    outgoingGone cfg blocked { s with banned := a.1 :: s.banned } a
  else
    match outgoingGone cfg blocked s a with
    | .error e => .error e
    | .ok (s', d) => .ok ({ s' with banned := a.1 :: s'.banned }, d)

end Rain.Admission
