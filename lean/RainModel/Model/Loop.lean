/-
M-LOOP — the torrent event loop (package `torrent`) as a state machine.

State = projection of the `torrent` struct; one `Op` = one event delivered to the loop by the
harness (`harness/overlay/torrent/zz_verif_loop.go`) *plus* the worker completions that follow it
while no storage gate holds them (allocator, verifier, piece writer, stop announcer), exactly
as the harness lets them run before it takes its observation.

Handlers are transliterated from torrent_start.go / torrent_stop.go / torrent_allocation.go /
torrent_verification.go / torrent_write.go / torrent_messagehandler.go / torrent_close.go /
torrent_pieces.go / torrent_connection.go / torrent_handshake.go / torrent_peer.go and named after
the Go functions.  Go panics (`crash(...)`, close of a closed channel, nil dereference) are the
explicit flag `panicked`.  The piece picker's choice is NOT computed here: the set of running
piece downloads after an op is taken from the implementation (`implDl`) and checked for
admissibility (`reconcile`), as DESIGN 6.1 prescribes for nondeterministic steps.

Abstractions: SHA-1 is abstract — a piece's hash check passes iff every accepted block carried
the true bytes (`Dl.good`); the disk is `diskOK : List Bool` (piece i's non-padding bytes on
disk are the true content).  Core Lean only.
-/
namespace Rain.Loop

inductive Status
  | stopped | dlmeta | allocating | verifying | downloading | seeding | stopping
  deriving DecidableEq, Repr, Inhabited

def Status.str : Status → String
  | .stopped => "Stopped" | .dlmeta => "DownloadingMetadata" | .allocating => "Allocating"
  | .verifying => "Verifying" | .downloading => "Downloading" | .seeding => "Seeding"
  | .stopping => "Stopping"

/-- Immutable description of the torrent and the configuration values the model reads. -/
structure Cfg where
  pl : Nat
  plens : List Nat                     -- piece lengths
  blocks : List (List (Nat × Nat))     -- per piece: (begin, length) of every block
  flens : List Nat                     -- file lengths
  fpads : List Bool                    -- file is padding
  fnames : List String                 -- storage name of each file
  stopAfter : Bool := false
  maxAccept : Nat := 20
  endgame : Nat := 20
  afK : Nat := 10
  isPrivate : Bool := false
  pex : Bool := true
  /-- `AddTorrentOptions.StopAfterMetadata` -/
  stopAfterMeta : Bool := false
  /-- `Config.MaxPieces` (checked by `Session.parseInfo`, also for an info dictionary received from peers) -/
  maxPieces : Nat := 65536
  /-- per piece: the SHA-1 recorded in the info dictionary is the hash of the piece's true content.  It
  is by construction for every piece that holds data (the harness hashes the content it serves); for a
  piece that lies entirely inside BEP 47 padding files the creator of the torrent may have recorded
  anything — `false` = the recorded hash is not the hash of zeroes.  Missing entries mean `true`. -/
  padHashOK : List Bool := []
  deriving Repr, Inhabited

def Cfg.n (c : Cfg) : Nat := c.plens.length

/-- A section of a piece: file index, offset inside the file, length. -/
structure Sect where
  file : Nat
  off : Nat
  len : Nat
  deriving Repr, DecidableEq

/-- Cursor state of `piece.NewPieces` (internal/piece/piece.go). -/
structure NPCur where
  fileIndex : Nat := 0
  fileOffset : Nat := 0
  total : Nat := 0
  deriving Repr

/-- Inner loop of `NewPieces` for one piece: `left` bytes of the piece still to map. Returns the
sections (in order) and the cursor. Zero-length files yield zero-length sections, as in Go. -/
def npPiece (flens : List Nat) (length : Nat) : Nat → Nat → NPCur → List Sect → List Sect × NPCur
  | 0, _, c, acc => (acc.reverse, c)
  | fuel + 1, left, c, acc =>
    if left = 0 then (acc.reverse, c) else
    let fileLeft := flens.getD c.fileIndex 0 - c.fileOffset
    let n := min left fileLeft
    let acc := { file := c.fileIndex, off := c.fileOffset, len := n : Sect } :: acc
    let c := { c with fileOffset := c.fileOffset + n, total := c.total + n }
    let left := left - n
    if c.total = length then (acc.reverse, c)
    else
      let c := if flens.getD c.fileIndex 0 - c.fileOffset = 0
               then { c with fileIndex := c.fileIndex + 1, fileOffset := 0 } else c
      npPiece flens length fuel left c acc

/-- All pieces' sections, as `NewPieces` builds them. -/
def npAll (flens : List Nat) (pl length : Nat) : Nat → NPCur → List (List Sect)
  | 0, _ => []
  | k + 1, c =>
    let (secs, c) := npPiece flens length (pl + flens.length + 2) pl c []
    secs :: npAll flens pl length k c

/-- Sections of piece `i`. -/
def Cfg.sections (c : Cfg) (i : Nat) : List Sect :=
  (npAll c.flens c.pl c.flens.sum c.n {}).getD i []

/-- Piece `i` lies entirely inside padding files: it has no section in a file that is stored (the
test the piece writer makes before it calls the storage). -/
def Cfg.padOnly (c : Cfg) (i : Nat) : Bool :=
  ((c.sections i).filter fun sc => !(c.fpads.getD sc.file false)).isEmpty

/-- The recorded hash of piece `i` is the hash of its true content (`padHashOK` only speaks about
padding-only pieces). -/
def Cfg.padOK (c : Cfg) (i : Nat) : Bool := c.padHashOK.getD i true || !c.padOnly i

/-- Messages a peer can send (the subset the model interprets). -/
inductive Msg
  | have (i : Nat) | bitfield (bits : List Bool) (nbytes : Nat) | haveAll | haveNone
  | allowedFast (i : Nat) | choke | unchoke | interested | notInterested
  | request (i b l : Nat) | reject (i b l : Nat) | cancel (i b l : Nat)
  | piece (i b l : Nat) (good : Bool)
  deriving Repr, Inhabited

structure Peer where
  k : Nat
  ip : String
  fast : Bool
  ext : Bool
  peerChoking : Bool := true
  clientChoking : Bool := true
  peerInterested : Bool := false
  clientInterested : Bool := false
  snubbed : Bool := false
  has : List Bool := []                -- pe.Bitfield
  recvAF : List Nat := []              -- ReceivedAllowedFast
  sentAF : List Nat := []              -- SentAllowedFast
  queued : List Msg := []              -- pe.Messages: kept until metadata and pieces are ready
  extHS : Bool := false
  extMeta : Bool := false              -- extension handshake advertised ut_metadata
  extSize : Nat := 0
  pexOn : Bool := false                -- pe.PEX ≠ nil
  served : List (Nat × Nat × Nat) := []   -- peerwriter.servedRequests
  deriving Repr, Inhabited

/-- A running piece download (`pieceDownloaders[pe]`). -/
structure Dl where
  k : Nat
  piece : Nat
  af : Bool := false
  doneBlocks : List Nat := []          -- begins of received blocks
  good : Bool := true                  -- every accepted block carried the true bytes
  choked : Bool := false
  snub : Bool := false
  deriving Repr, Inhabited

/-- A running metadata download (`infoDownloaders[pe]`, internal/infodownloader). -/
structure IDl where
  k : Nat
  size : Nat                           -- metadata size announced by the peer
  nb : Nat                             -- number of blocks
  pending : Int                        -- in-flight requests
  blocks : List (Option Bool)          -- per block: last stored data is the true bytes?
  snub : Bool := false
  deriving Repr, Inhabited

/-- A piece write handed to the piece writer goroutine. -/
structure WriteJob where
  piece : Nat
  src : Nat                            -- peer k
  good : Bool                          -- hash will match
  gen : Nat                            -- generation of `t.pieces` the job points into
  written : Bool := false              -- the storage calls have returned (successfully); the result is still to be handled
  deriving Repr, Inhabited

structure St where
  cfg : Cfg
  info : Bool := true
  infoAtAdd : Bool := true             -- the metadata was known when the torrent object was created
  errC : Bool := false                 -- t.errC ≠ nil
  stopAnn : Bool := false              -- t.stoppedEventAnnouncer ≠ nil
  allocator : Bool := false
  verifier : Bool := false
  completed : Bool := false
  completeCClosed : Bool := false
  doVerify : Bool := false
  lastErr : Bool := false
  loaded : Bool := false               -- t.pieces ≠ nil
  gen : Nat := 0                       -- bumps every time t.pieces is rebuilt
  acceptor : Bool := false
  openFiles : List Nat := []           -- indices of files with an open handle owned by t.files
  leaked : Nat := 0                    -- handles opened by a discarded allocator result
  bf : Option (List Bool) := none
  done : List Bool := []
  writing : Option WriteJob := none    -- write in flight (piece channel suspended)
  wflag : List Bool := []              -- piece.Writing flags of the current generation
  fileExists : List Bool := []
  known : List Bool := []              -- the storage has an entry for the file (it was opened once)
  bad : List (Nat × Nat) := []         -- (piece, file) sections on disk that do NOT hold the true bytes
  peers : List Peer := []
  dls : List Dl := []
  idls : List IDl := []
  isize : Nat := 0                     -- true size of the info dictionary
  maxMeta : Nat := 31457280
  parMeta : Nat := 2
  mayStartI : Bool := false            -- startInfoDownloaders ran in this op
  metaDone : Bool := false             -- completeMetadataC closed
  unchoked : List Nat := []            -- unchoker.peersUnchoked
  optimistic : List Nat := []          -- unchoker.peersUnchokedOptimistic
  nUnchoke : Nat := 3
  nOptimistic : Nat := 1
  stopHang : Bool := false             -- a tracker does not answer `stopped`: the stop announcer is still waiting
  dials : Nat := 0                     -- outgoing connection attempts seen by the harness's sink address
  banned : List String := []
  panicked : Option String := none
  -- gates (held by the harness)
  gateOpen : Bool := false
  gateWrite : Bool := false
  gateRead : Bool := false
  failWrite : Bool := false
  failOpen : Bool := false
  failAt : Nat := 0                    -- which data file's `Open` fails while `failOpen` (index into the data files, in order)
  gateWriteDone : Bool := false        -- the piece writer is held after its storage calls have returned
  -- outputs of the current op
  sto : List String := []              -- storage calls, in order
  mayStart : List Nat := []            -- peers for which startPieceDownloaderFor ran
  closedDl : List Nat := []            -- peers whose downloader was closed in this op
  persisted : Option (List Bool) := none   -- last bitfield written to the resume db
  tainted : Bool := false              -- bytes were changed behind the client's back and not re-verified since
  deriving Repr, Inhabited

def St.n (s : St) : Nat := s.cfg.n

/-- Piece `i` as it is on disk matches its recorded hash: its non-padding bytes are the true content,
and the recorded hash is the hash of the true content (which it may fail to be for a padding-only
piece only). -/
def St.diskOKi (s : St) (i : Nat) : Bool := !(s.bad.any fun b => b.1 = i) && s.cfg.padOK i

def St.diskOK (s : St) : List Bool := (List.range s.n).map s.diskOKi

/-- All (piece, file) pairs of non-padding sections. -/
def Cfg.dataSects (c : Cfg) : List (Nat × Nat) :=
  (List.range c.n).flatMap fun i =>
    ((c.sections i).filter fun sc => !(c.fpads.getD sc.file false) && sc.len > 0).map fun sc => (i, sc.file)

def St.status (s : St) : Status :=
  if !s.errC then .stopped
  else if s.stopAnn then .stopping
  else if s.allocator then .allocating
  else if s.verifier then .verifying
  else if s.completed then .seeding
  else if !s.info then .dlmeta
  else .downloading

def allTrue (l : List Bool) : Bool := l.all id

def setAt (l : List Bool) (i : Nat) (v : Bool) : List Bool := l.set i v

def St.crash (s : St) (why : String) : St :=
  match s.panicked with
  | some _ => s
  | none => { s with panicked := some why }

def St.findPeer (s : St) (k : Nat) : Option Peer := s.peers.find? (·.k = k)

def St.updPeer (s : St) (k : Nat) (f : Peer → Peer) : St :=
  { s with peers := s.peers.map fun p => if p.k = k then f p else p }

def St.findDl (s : St) (k : Nat) : Option Dl := s.dls.find? (·.k = k)

/-- `closePieceDownloader(pd)` -/
def St.closeDl (s : St) (k : Nat) : St :=
  if (s.findDl k).isSome then
    { s with dls := s.dls.filter (·.k ≠ k), closedDl := k :: s.closedDl }
  else s

def St.startDlFor (s : St) (k : Nat) : St :=
  if s.status = .downloading ∧ (s.findPeer k).isSome then { s with mayStart := k :: s.mayStart } else s

/-- `startPieceDownloaders()` -/
def St.startDls (s : St) : St :=
  -- `status() == Downloading` does not imply that a piece picker exists (info known, nothing allocated):
  -- `startPieceDownloaders` returns early then (fix for finding C08-F5)
  if s.status = .downloading && s.loaded then
    s.peers.foldl (fun s p => if (s.findDl p.k).isNone then s.startDlFor p.k else s) s
  else s

/-- `closePeer(pe)` (torrent_close.go).  After the fix for finding C10-F1 it ends by re-running the
picker (`startPieceDownloaders`), so that pieces the closed peer was downloading are picked up by
idle peers. -/
def St.closePeer (s : St) (k : Nat) : St :=
  match s.findPeer k with
  | none => s
  | some _ =>
    let s := s.closeDl k
    let s := { s with peers := s.peers.filter (·.k ≠ k), mayStart := s.mayStart.filter (· ≠ k),
                      idls := s.idls.filter (·.k ≠ k),
                      unchoked := s.unchoked.filter (· ≠ k), optimistic := s.optimistic.filter (· ≠ k) }
    -- startPieceDownloaders (fix C10-F1), startInfoDownloaders (fix C13-F2)
    let s := s.startDls
    if s.errC && !s.info then { s with mayStartI := true } else s

def St.writeBitfield (s : St) : St :=
  match s.bf with
  | some b => { s with persisted := some b }
  | none => s.crash "writeBitfield: nil bitfield"

def fileName (c : Cfg) (i : Nat) : String := c.fnames.getD i "?"

/-- `closeData()` -/
def St.closeData (s : St) : St :=
  { s with
    sto := s.sto ++ s.openFiles.map (fun i => "close:" ++ fileName s.cfg i),
    openFiles := [], loaded := false, done := [], wflag := [] }

/-- `stop(err)` (torrent_stop.go).  The stop announcer has no trackers in the harness worlds, so it
reports at once: `handleStopped` is part of the same op unless the allocator/verifier must be
waited for (then the harness releases the gate, see `Op.stop`). -/
def St.stop (s : St) (err : Bool) : St :=
  if s.status = .stopping ∨ s.status = .stopped then s else
  -- a stop caused by an error withdraws a pending verification request (fix for finding C04-F8: the restart
  -- in `handleStopped` would fail the same way, forever)
  let s := { s with lastErr := err, acceptor := false, doVerify := s.doVerify && !err }
  -- stopPeers, stopPiecedownloaders
  let s := s.peers.foldl (fun s p => s.closePeer p.k) s
  let s := { s with dls := [], mayStart := [], idls := [], mayStartI := false }
  let s := if s.bf.isSome then s.writeBitfield else s
  let s := s.closeData
  -- stopAllocator: the allocator finishes opening its files (up to the one that fails, if any), its result is dropped
  let s :=
    if s.allocator then
      let data := (List.range s.cfg.flens.length).filter (fun i => !(s.cfg.fpads.getD i false))
      let failing := s.failOpen && s.failAt < data.length
      let opened := if failing then data.take s.failAt else data
      { s with allocator := false, gateOpen := false,
               sto := s.sto ++ opened.map (fun i =>
                 s!"open:{fileName s.cfg i}:{s.cfg.flens.getD i 0}:" ++
                   (if s.fileExists.getD i false then "existed" else "new")) ++
                 (if failing then ["openfail:" ++ fileName s.cfg (data.getD s.failAt 0)] else []) ++
                 -- the dropped result's files are closed by the allocator itself (fix for C04-F2)
                 opened.map (fun i => "close:" ++ fileName s.cfg i),
               fileExists := (List.range s.cfg.flens.length).map (fun i => s.fileExists.getD i false || opened.contains i),
               known := (List.range s.cfg.flens.length).map (fun i => s.known.getD i false || opened.contains i),
               leaked := s.leaked,
               -- missing files were re-created by the dropped allocation: the bitfield is forgotten (C05-F1)
               bf := if opened.any (fun i => !(s.fileExists.getD i false)) then none else s.bf,
               persisted := if opened.any (fun i => !(s.fileExists.getD i false)) && s.bf.isSome then none else s.persisted }
    else s
  let s := if s.verifier then { s with verifier := false, gateRead := false } else s
  { s with stopAnn := true }

/-- `resetCompletion()` (torrent_pieces.go; introduced by the fix for finding C04-F1). -/
def St.resetCompletion (s : St) : St :=
  if s.completed then { s with completed := false, completeCClosed := false } else s

/-- `checkCompletion()` (torrent_pieces.go) -/
def St.checkCompletion (s : St) : St × Bool :=
  if s.completed then (s, true) else
  match s.bf with
  | none => (s.crash "checkCompletion: nil bitfield", false)
  | some b =>
    if !allTrue b then (s, false) else
    let s := if s.completeCClosed then s.crash "close of closed channel completeC" else s
    let s := { s with completed := true, completeCClosed := true }
    let s := s.peers.foldl (fun s p => if !p.peerInterested then s.closePeer p.k else s) s
    let s := s.dls.foldl (fun s d => s.closeDl d.k) s
    (s, true)

/-! ### Messages the client sends (control messages only; requests/cancels are checked, not predicted) -/

structure Out where
  k : Nat
  msg : String
  deriving Repr, DecidableEq

/-- The model's step threads the state and the control messages emitted so far. -/
abbrev M := St × List Out

def send (m : M) (k : Nat) (msg : String) : M := (m.1, m.2 ++ [⟨k, msg⟩])

def onSt (m : M) (f : St → St) : M := (f m.1, m.2)

def bitsStr (l : List Bool) : String := String.ofList (l.map fun b => if b then '1' else '0')

def hexChar (n : Nat) : Char := if n < 10 then Char.ofNat (48 + n) else Char.ofNat (87 + n)

/-- Wire form of a bitfield: bytes, most significant bit first, as lowercase hex. -/
def bitsHex (l : List Bool) : String :=
  let nbytes := (l.length + 7) / 8
  String.ofList ((List.range nbytes).flatMap fun j =>
    let v := (List.range 8).foldl (fun acc t => acc * 2 + (if l.getD (8 * j + t) false then 1 else 0)) 0
    [hexChar (v / 16), hexChar (v % 16)])

/-- `updateInterestedState(pe)` -/
def updateInterested (m : M) (k : Nat) : M :=
  let s := m.1
  if !s.loaded then m else
  match s.bf, s.findPeer k with
  | some b, some p =>
    let interested := !s.completed && (List.range b.length).any (fun i => !(b.getD i false) && p.has.getD i false)
    if !p.clientInterested && interested then
      send (onSt m (·.updPeer k fun p => { p with clientInterested := true })) k "interested"
    else if p.clientInterested && !interested then
      send (onSt m (·.updPeer k fun p => { p with clientInterested := false })) k "notinterested"
    else m
  | _, _ => m

/-- closePeer on the pair. -/
def closePeerM (m : M) (k : Nat) : M := onSt m (·.closePeer k)

/-- `handlePieceWriteDone(pw)` (torrent_write.go), given how the storage call went. -/
def handlePieceWriteDone (m : M) (w : WriteJob) (writeErr : Bool) : M :=
  let m := onSt m fun s =>
    { s with writing := none,
             wflag := if w.gen = s.gen then setAt s.wflag w.piece false else s.wflag }
  if !w.good then
    let ip := ((m.1.findPeer w.src).map (·.ip)).getD s!"10.0.{w.src / 250}.{w.src % 250 + 1}"
    let m := closePeerM m w.src
    let m := onSt m fun s => { s with banned := if s.banned.contains ip then s.banned else s.banned ++ [ip] }
    onSt m (·.startDls)
  -- the result of a write that was started in an earlier run of the torrent (stopped, maybe started again,
  -- while the piece was being written): its piece object is not in use any more — ignored (fix for finding C04-F9)
  else if w.gen ≠ m.1.gen || !m.1.loaded then m
  else if writeErr then
    onSt m (·.stop true)
  else
    let m := onSt m fun s => { s with done := setAt s.done w.piece true }
    match m.1.bf with
    | none => onSt m (·.crash "handlePieceWriteDone: nil bitfield")
    | some b =>
      let m := if b.getD w.piece false then onSt m (·.crash "already have the piece") else m
      let m := onSt m fun s => { s with bf := some (setAt b w.piece true) }
      -- other downloads of the same piece are closed and their peers re-picked
      let others := if m.1.loaded && !m.1.completed then (m.1.dls.filter (·.piece = w.piece)).map (·.k) else []
      let m := others.foldl (fun m k => onSt m fun s => (s.closeDl k).startDlFor k) m
      -- have messages
      let m := m.1.peers.foldl (fun m p =>
        let m := updateInterested m p.k
        if p.has.getD w.piece false then m else send m p.k s!"have:{w.piece}") m
      let (s, completed) := m.1.checkCompletion
      let m : M := (s, m.2)
      if completed then
        let m := onSt m (·.writeBitfield)
        if m.1.cfg.stopAfter then onSt m (·.stop false) else m
      else m

/-- What the client sends first to a new peer (`sendFirstMessage`), without the allowed-fast set. -/
def firstMessages (s : St) (p : Peer) : List String :=
  let bfMsg :=
    match s.bf with
    | some b =>
      if p.fast && allTrue b && !b.isEmpty then ["haveall"]
      else if p.fast && !(b.any id) then ["havenone"]
      else ["bitfield:" ++ bitsHex b]
    | none => if p.fast then ["havenone"] else []
  bfMsg ++ (if p.ext then ["exths"] else [])

/-! ### Peer messages -/


def numBytes (n : Nat) : Nat := (n + 7) / 8

/-- `handlePieceMessage(pm)` -/
def handlePieceMessage (m : M) (k i b l : Nat) (good : Bool) : M :=
  let s := m.1
  if !s.loaded || s.bf.isNone then closePeerM m k
  else if i ≥ s.n then closePeerM m k
  else
  match s.findDl k with
  | none => m
  | some d =>
    if d.piece ≠ i then m else
    let blocks := s.cfg.blocks.getD i []
    if !(blocks.contains (b, l)) then closePeerM m k
    else if d.doneBlocks.contains b then m
    else
      let d' : Dl := { d with doneBlocks := b :: d.doneBlocks, good := d.good && good }
      let m := onSt m fun s => { s with dls := s.dls.map fun x => if x.k = k then d' else x }
      if d'.doneBlocks.length ≠ blocks.length then m
      else
        let m := onSt m (·.closeDl k)
        let m := if m.1.wflag.getD i false then onSt m (·.crash "piece is already writing") else m
        let m := onSt m fun s => { s with wflag := setAt s.wflag i true }
        let m := onSt m (·.startDlFor k)
        onSt m fun s => { s with writing := some { piece := i, src := k, good := d'.good, gen := s.gen } }

def haveOne (m : M) (k i : Nat) : M :=
  -- piecePicker.HandleHave only while a picker exists (not completed)
  if m.1.loaded && !m.1.completed then
    onSt m (·.updPeer k fun p => { p with has := setAt p.has i true })
  else m

/-- Messages that need the metadata are queued before it is known. -/
def needsInfo : Msg → Bool
  | .have _ | .bitfield _ _ | .haveAll | .allowedFast _ => true
  | _ => false

def handlePeerMessage (m : M) (k : Nat) (msg : Msg) : M :=
  let s := m.1
  let ready := s.loaded && s.bf.isSome
  match msg with
  | .have i =>
    if !ready then onSt m (·.updPeer k fun p => { p with queued := p.queued ++ [msg] })
    else if i ≥ s.n then closePeerM m k
    else onSt (updateInterested (haveOne m k i) k) (·.startDlFor k)
  | .bitfield bits nbytes =>
    if !ready then onSt m (·.updPeer k fun p => { p with queued := p.queued ++ [msg] })
    else if nbytes = 0 then m
    else if nbytes ≠ numBytes s.n then closePeerM m k
    else
      let m := (List.range s.n).foldl (fun m i => if bits.getD i false then haveOne m k i else m) m
      onSt (updateInterested m k) (·.startDlFor k)
  | .haveAll =>
    if !ready then onSt m (·.updPeer k fun p => { p with queued := p.queued ++ [msg] })
    else
      let m := (List.range s.n).foldl (fun m i => haveOne m k i) m
      onSt (updateInterested m k) (·.startDlFor k)
  | .haveNone => m
  | .allowedFast i =>
    if !ready then onSt m (·.updPeer k fun p => { p with queued := p.queued ++ [msg] })
    else if i ≥ s.n then closePeerM m k
    else if s.loaded && !s.completed then
      onSt m (·.updPeer k fun p => { p with recvAF := if p.recvAF.contains i then p.recvAF else p.recvAF ++ [i] })
    else m
  | .unchoke =>
    let m := onSt m (·.updPeer k fun p => { p with peerChoking := false })
    match s.findDl k with
    | none => onSt m (·.startDlFor k)
    | some d =>
      if d.af then m
      else onSt m fun s => { s with dls := s.dls.map fun x => if x.k = k then { x with choked := false } else x }
  | .choke =>
    let m := onSt m (·.updPeer k fun p => { p with peerChoking := true })
    match s.findDl k with
    | none => m
    | some d =>
      if d.af then m
      else
        let m := onSt m fun s => { s with dls := s.dls.map fun x => if x.k = k then { x with choked := true, snub := false } else x }
        onSt m (·.startDls)
  | .interested =>
    -- pe.PeerInterested = true; unchoker.FastUnchoke(pe)
    let m := onSt m (·.updPeer k fun p => { p with peerInterested := true })
    match m.1.findPeer k with
    | none => m
    | some p =>
      if p.clientChoking && m.1.unchoked.length < m.1.nUnchoke then
        send (onSt m fun s => { (s.updPeer k fun p => { p with clientChoking := false }) with unchoked := s.unchoked ++ [k] }) k "unchoke"
      else if p.clientChoking && m.1.optimistic.length < m.1.nOptimistic then
        send (onSt m fun s => { (s.updPeer k fun p => { p with clientChoking := false }) with optimistic := s.optimistic ++ [k] }) k "unchoke"
      else m
  | .notInterested => onSt m (·.updPeer k fun p => { p with peerInterested := false })
  | .request i b l =>
    if !ready then closePeerM m k
    else if i ≥ s.n then closePeerM m k
    else if !(l ≠ 0 ∧ b + l ≤ s.cfg.plens.getD i 0) then closePeerM m k
    else
      match s.findPeer k with
      | none => m
      | some p =>
        -- SendPiece: the writer answers a request it has already served with a reject
        let sendPiece (m : M) : M :=
          if p.served.contains (i, b, l) then send m k s!"reject:{i}:{b}:{l}"
          else send (onSt m (·.updPeer k fun p => { p with served := (i, b, l) :: p.served })) k s!"piece:{i}:{b}:{l}:ok"
        if !(s.done.getD i false) then send m k s!"reject:{i}:{b}:{l}"
        else if p.clientChoking then
          if p.fast then
            if p.sentAF.contains i then sendPiece m else send m k s!"reject:{i}:{b}:{l}"
          else m
        else sendPiece m
  | .reject i b l =>
    if !ready then closePeerM m k
    else if i ≥ s.n then closePeerM m k
    else
      match s.findDl k with
      | none => m
      | some d =>
        if d.piece ≠ i then m
        else if !((s.cfg.blocks.getD i []).contains (b, l)) then closePeerM m k
        else m
  | .cancel i b l =>
    if !ready then closePeerM m k
    else if i ≥ s.n then m
    else
      match s.findPeer k with
      | some p => if p.fast then send m k s!"reject:{i}:{b}:{l}" else m
      | none => m
  | .piece i b l good => handlePieceMessage m k i b l good

/-- `processQueuedMessages()` (torrent_peer.go): replay, peer by peer, what arrived before the pieces were
ready.  A peer that gets closed while its messages are replayed is skipped from then on (the fix for
finding C08-F1; the pre-fix code went on replaying into the closed peer). -/
def processQueued (m : M) : M :=
  let ks := m.1.peers.map (·.k)
  ks.foldl (fun m k =>
    match m.1.findPeer k with
    | none => m
    | some p =>
      let m := onSt m (·.updPeer k fun p => { p with queued := [] })
      p.queued.foldl (fun m msg => if (m.1.findPeer k).isSome then handlePeerMessage m k msg else m) m) m

/-- `markPaddingPieces()` (fix for finding C10-F2): pieces without any block are done once their hash
matches zeroes — which it does for the true content, padding being zeroes, unless the recorded hash
is wrong (`VerifyHash(make([]byte, pi.Length))` fails: the piece is left alone, never done). -/
def St.markPaddingPieces (s : St) : St :=
  match s.bf with
  | none => s
  | some b =>
    let idx := (List.range s.n).filter fun i =>
      (s.cfg.blocks.getD i []).isEmpty && !(s.done.getD i false) && s.cfg.padOK i
    { s with done := idx.foldl (fun d i => setAt d i true) s.done,
             bf := some (idx.foldl (fun d i => setAt d i true) b) }

/-- `handleAllocationDone(al)` for a successful allocation. -/
def handleAllocationDone (m : M) (hasExisting hasMissing : Bool) : M :=
  let m := onSt m fun s =>
    let data := (List.range s.cfg.flens.length).filter (fun i => !(s.cfg.fpads.getD i false))
    { s with allocator := false, openFiles := data, loaded := true, gen := s.gen + 1,
             done := List.replicate s.n false, wflag := List.replicate s.n false,
             peers := s.peers.map fun p => { p with has := List.replicate s.n false } }
  let ready (m : M) : M := onSt (processQueued m) fun s => ({ s with acceptor := true }).startDls
  -- files were missing: the bitfield is forgotten, also in the resume db (fix for finding C05-F1)
  let m := onSt m fun s => if hasMissing && s.bf.isSome then { s with bf := none, persisted := none } else s
  let fresh (m : M) : M :=
    let m := onSt m fun s => (({ s with bf := some (List.replicate s.n false) }).resetCompletion).markPaddingPieces
    -- a manual verification of files that did not exist ends here, stopped (fix for finding C04-F4)
    if m.1.doVerify then onSt m fun s => ({ s with doVerify := false }).stop false else
    let (s, c) := m.1.checkCompletion
    let m : M := (s, m.2)
    if c && m.1.cfg.stopAfter then onSt m (·.stop false) else ready m
  match m.1.bf with
  | some b =>
    if !hasMissing then
      let m := onSt m fun s => ({ s with done := b }).markPaddingPieces
      let (s, c) := m.1.checkCompletion
      let m : M := (s, m.2)
      if c && m.1.cfg.stopAfter then onSt m (·.stop false) else ready m
    else if !hasExisting then fresh m
    else onSt m fun s => { s with verifier := true }
  | none =>
    if !hasExisting then fresh m
    else onSt m fun s => { s with verifier := true }

/-- `handleVerificationDone(ve)` for a successful verification; the verifier's bitfield is the
truth about the disk. -/
def handleVerificationDone (m : M) : M :=
  let m := onSt m fun s => { s with verifier := false, bf := some s.diskOK, tainted := false }
  let m := onSt m (·.writeBitfield)
  let m := onSt m fun s => { s with done := (List.range s.n).map fun i => s.done.getD i false || s.diskOK.getD i false }
  let m := onSt m fun s => if !allTrue s.diskOK then s.resetCompletion else s
  if m.1.doVerify then
    onSt m fun s => ({ s with doVerify := false }).stop false
  else
    let haves := (List.range m.1.n).filter fun i => m.1.diskOK.getD i false
    let m := m.1.peers.foldl (fun m p =>
      updateInterested (haves.foldl (fun m i => send m p.k s!"have:{i}") m) p.k) m
    let (s, c) := m.1.checkCompletion
    let m : M := (s, m.2)
    if c && m.1.cfg.stopAfter then onSt m (·.stop false)
    else onSt (processQueued m) fun s => ({ s with acceptor := true }).startDls

/-- The body of `start()` once it is known that the torrent is neither running nor stopping. -/
def startCore (m : M) : M :=
  let m := onSt m fun s => { s with stopAnn := false, errC := true, lastErr := false }
  let s := m.1
  if s.info then
    if s.loaded then
      if s.bf.isSome then onSt m fun s => ({ s with acceptor := true }).startDls
      else onSt m fun s => if s.verifier then s.crash "verifier exists" else { s with verifier := true }
    else onSt m fun s => if s.allocator then s.crash "allocator exists" else { s with allocator := true }
  else onSt m fun s => { s with acceptor := true, mayStartI := true }

/-- `handleStopped()`: the torrent is stopped now; a pending verify restarts it without its bitfield
(the restart is `start()` with neither `errC` nor a stop announcer set, i.e. `startCore`). -/
def handleStopped (m : M) : M :=
  let m := onSt m fun s => { s with stopAnn := false, errC := false }
  if m.1.doVerify then startCore (onSt m fun s => { s with bf := none })
  else m

/-- `start()` (torrent_start.go).  A start while the torrent is still stopping closes the stop announcer
and finishes the stop at once (fix for finding C04-F3: the command used to be dropped). -/
def start (m : M) : M :=
  let m := if m.1.stopAnn then handleStopped (onSt m fun s => { s with stopHang := false }) else m
  if m.1.errC then m else startCore m

/-- `handleVerifyCommand()` -/
def handleVerifyCommand (m : M) : M :=
  let m := onSt m fun s => { s with doVerify := true }
  if m.1.status = .stopped then startCore (onSt m fun s => { s with bf := none })
  else onSt m (·.stop false)

/-- Storage calls of the allocator: every non-padding file is opened in order. -/
def allocatorRun (m : M) : M :=
  let s := m.1
  let data := (List.range s.cfg.flens.length).filter (fun i => !(s.cfg.fpads.getD i false))
  if s.failOpen && s.failAt < data.length then
    -- the `Open` of data file number `failAt` fails: the files opened before it (created, if they were missing)
    -- are closed again by the allocator, allocation error → stop(err)
    let opened := data.take s.failAt
    let hasMissing := opened.any fun i => !(s.fileExists.getD i false)
    let m := onSt m fun s =>
      { s with sto := s.sto ++ opened.map (fun i =>
                 s!"open:{fileName s.cfg i}:{s.cfg.flens.getD i 0}:" ++ (if s.fileExists.getD i false then "existed" else "new")) ++
                 ["openfail:" ++ fileName s.cfg (data.getD s.failAt 0)] ++ opened.map (fun i => "close:" ++ fileName s.cfg i),
               fileExists := (List.range s.cfg.flens.length).map (fun i => s.fileExists.getD i false || opened.contains i),
               known := (List.range s.cfg.flens.length).map (fun i => s.known.getD i false || opened.contains i),
               allocator := false }
    -- files that were missing have been re-created before the error: the bitfield no longer describes the disk
    -- and is forgotten, also in the resume db (fix for finding C05-F2)
    let m := onSt m fun s => if hasMissing && s.bf.isSome then { s with bf := none, persisted := none } else s
    onSt m (·.stop true)
  else
    let hasExisting := data.any fun i => s.fileExists.getD i false
    let hasMissing := data.any fun i => !(s.fileExists.getD i false)
    let m := onSt m fun s =>
      { s with sto := s.sto ++ data.map (fun i =>
                 s!"open:{fileName s.cfg i}:{s.cfg.flens.getD i 0}:" ++ (if s.fileExists.getD i false then "existed" else "new")),
               fileExists := (List.range s.cfg.flens.length).map (fun i => s.fileExists.getD i false || data.contains i),
               known := (List.range s.cfg.flens.length).map (fun i => s.known.getD i false || data.contains i) }
    handleAllocationDone m hasExisting hasMissing

/-- Storage calls of the piece writer for job `w`, and the resulting handler. -/
def writerRun (m : M) (w : WriteJob) : M :=
  if !w.good then handlePieceWriteDone m w false else
  let s := m.1
  let secs := (s.cfg.sections w.piece).filter fun sc => !(s.cfg.fpads.getD sc.file false)
  let stale := w.gen ≠ s.gen || !s.loaded
  match secs with
  | [] =>
    -- a piece without stored bytes (no download of such a piece ever completes: it has no blocks); "the
    -- hash matched" can only have been true if the recorded hash is the hash of zeroes
    handlePieceWriteDone m { w with good := w.good && s.cfg.padOK w.piece } false
  | sc :: _ =>
    if stale then
      let m := onSt m fun s => { s with sto := s.sto ++ [s!"writeclosed:{fileName s.cfg sc.file}:{sc.off}:{sc.len}"] }
      handlePieceWriteDone m w true
    else if s.failWrite then
      let m := onSt m fun s => { s with sto := s.sto ++ [s!"writefail:{fileName s.cfg sc.file}:{sc.off}:{sc.len}"] }
      handlePieceWriteDone m w true
    else
      let lines := secs.map fun sc => s!"write:{fileName s.cfg sc.file}:{sc.off}:{sc.len}:ok"
      let m := onSt m fun s => { s with sto := s.sto ++ lines, bad := s.bad.filter (fun b => b.1 ≠ w.piece) }
      -- the bytes are on disk; the writer goroutine may be held before it hands over its result
      if m.1.gateWriteDone then onSt m fun s => { s with writing := some { w with written := true } }
      else handlePieceWriteDone m w false

/-- Worker completions that are not held by a gate, until quiescence. -/
def runWorkers : Nat → M → M
  | 0, m => m
  | fuel + 1, m =>
    let s := m.1
    if s.panicked.isSome then m
    else if s.stopAnn && !s.stopHang then runWorkers fuel (handleStopped m)
    else if s.allocator && !s.gateOpen then runWorkers fuel (allocatorRun m)
    else if s.verifier && !s.gateRead then runWorkers fuel (handleVerificationDone m)
    else
      match s.writing with
      | some w =>
        if w.written then (if !s.gateWriteDone then runWorkers fuel (handlePieceWriteDone m w false) else m)
        else if !s.gateWrite || !w.good then runWorkers fuel (writerRun m w) else m
      | none => m

/-- Extension handshake (`ExtensionHandshakeMessage` branch of handlePeerMessage). -/
def handleExtHandshake (m : M) (k : Nat) (hasMeta : Bool) (size : Nat) (hasPex : Bool := false) : M :=
  match m.1.findPeer k with
  | none => m
  | some p =>
    if p.extHS then m
    else
      let startPex := m.1.cfg.pex && hasPex && m.1.info && !m.1.cfg.isPrivate
      let m := onSt m (·.updPeer k fun p => { p with extHS := true, extMeta := hasMeta, extSize := size, pexOn := startPex })
      if hasMeta && !m.1.info then onSt m fun s => { s with mayStartI := true } else m

def blockSizeOf (size j : Nat) : Nat :=
  let nb := (size + 16383) / 16384
  if j + 1 = nb && size % 16384 ≠ 0 then size % 16384 else 16384

/-- `handleMetadataMessage` — data message (torrent_metadataextension.go). `len` = length of the data,
`good` = the data are the true bytes of block `i` of the real info dictionary. -/
def handleMetadataData (m : M) (k i len : Nat) (good : Bool) : M :=
  let s := m.1
  match s.idls.find? (·.k = k) with
  | none => m
  | some d =>
    -- InfoDownloader.GotBlock
    if i ≥ d.nb then onSt (closePeerM m k) fun s => { s with mayStartI := !s.info }
    else if len ≠ blockSizeOf d.size i then onSt (closePeerM m k) fun s => { s with mayStartI := !s.info }
    -- a second answer for a block is an error like the two above (fix for finding C17-F6)
    else if (d.blocks.getD i none).isSome then onSt (closePeerM m k) fun s => { s with mayStartI := !s.info }
    else
      let d' : IDl := { d with pending := d.pending - 1, blocks := d.blocks.set i (some good) }
      let m := onSt m fun s => { s with idls := s.idls.map fun x => if x.k = k then d' else x }
      if d'.pending ≠ 0 then
        onSt m (·.updPeer k fun p => { p with snubbed := false })
      else
        -- Done(): every block requested and nothing pending → hash check over the whole buffer
        let hashOK := d'.size = s.isize && d'.blocks.all (· = some true)
        if !hashOK then onSt (closePeerM m k) fun s => { s with mayStartI := !s.info }
        else
          let m := onSt m fun s => { s with idls := [] }
          -- `parseInfo` refuses more pieces than `Config.MaxPieces`; a private torrent is refused as well
          if s.cfg.n > s.cfg.maxPieces then onSt m (·.stop true)
          else if s.cfg.isPrivate then onSt m (·.stop true)
          else
            let m := onSt m fun s => { s with info := true, metaDone := true }
            -- `StopAfterMetadata`: `stopAndSetStoppedOnMetadata()` instead of `startAllocator()`
            if s.cfg.stopAfterMeta then onSt m (·.stop false) else
            onSt m fun s => if s.allocator then s.crash "allocator exists" else { s with allocator := true }

/-- metadata reject from the peer we are downloading from -/
def handleMetadataReject (m : M) (k : Nat) : M :=
  if (m.1.idls.any (·.k = k)) then onSt (closePeerM m k) fun s => { s with mayStartI := !s.info } else m

/-- `handleNewPeers(addrs, source)` for a batch that contains the harness's sink address (a loopback
address nobody is connected to): the address is pushed and dialled at once. -/
def handleNewPeers (m : M) (nonEmpty : Bool) : M :=
  let s := m.1
  if s.status = .stopped || s.status = .stopping then m
  else if s.completed then m
  else if nonEmpty then onSt m fun s => { s with dials := s.dials + 1 } else m

/-- Incoming PEX message.  A private torrent ignores it (fix for finding C19-F1). -/
def handlePex (m : M) (added dropped : Bool) : M :=
  if !m.1.cfg.pex then m
  else if m.1.info && m.1.cfg.isPrivate then m
  else
    let m := handleNewPeers m added
    -- the second batch finds the address already being dialled
    if added then m else handleNewPeers m dropped

/-- A DHT result delivered to the torrent.  A private torrent ignores it (fix for finding C19-F1). -/
def handleDhtPeers (m : M) (nonEmpty : Bool) : M :=
  if m.1.info && m.1.cfg.isPrivate then m else handleNewPeers m nonEmpty

/-- `handlePeerSnubbed(pe)` -/
def handlePeerSnubbed (m : M) (k : Nat) : M :=
  match m.1.findDl k, m.1.findPeer k with
  | some _, some p =>
    if p.peerChoking then m
    else
      let m := onSt m (·.updPeer k fun p => { p with snubbed := true })
      let m := onSt m fun s => { s with dls := s.dls.map fun x => if x.k = k then { x with snub := true } else x }
      onSt m (·.startDls)
  | none, some _ =>
    if m.1.idls.any (·.k = k) then
      let m := onSt m (·.updPeer k fun p => { p with snubbed := true })
      onSt m fun s => { s with idls := s.idls.map (fun x => if x.k = k then { x with snub := true } else x), mayStartI := !s.info }
    else m
  | _, _ => m

/-- Admission of an incoming connection + handshake + `startPeer` (torrent_connection.go,
torrent_handshake.go, torrent_peer.go).  Returns the verdict word of the harness. -/
def acceptPeer (m : M) (k : Nat) (ip : String) (fast ext badHash dupId : Bool) : M × String :=
  let s := m.1
  -- handshakers finish inside the op, so only connected incoming peers count
  if s.peers.length ≥ s.cfg.maxAccept then (m, "refused-closed")
  else if s.peers.any (·.ip = ip) then (m, "refused-closed")
  else if s.banned.contains ip then (m, "refused-closed")
  else if badHash then (m, "refused-closed")   -- failed handshake: the loop closes the socket (fix for C17-F1)
  else if dupId then (m, "refused-closed")
  else
    let p : Peer := { k := k, ip := ip, fast := fast, ext := ext,
                      has := if s.info then List.replicate s.n false else [] }
    let m := onSt m fun s => { s with peers := s.peers ++ [p] }
    let m := (firstMessages s p).foldl (fun m x => send m k x) m
    (m, "accepted")

/-! ### External changes to the files while the torrent is stopped -/

inductive Mut | delete | corrupt (off : Nat) | fill
  deriving Repr

/-- `mutate file=… how=…` of the harness: acts on files the storage knows. -/
def mutate (s : St) (file : Option Nat) (how : Mut) : St :=
  let files := (List.range s.cfg.flens.length).filter fun f =>
    s.known.getD f false && !(s.cfg.fpads.getD f false) && (match file with | some x => x = f | none => true)
  files.foldl (fun s f =>
    match how with
    | .delete =>
      { s with fileExists := s.fileExists.set f false,
               bad := (s.bad.filter fun b => b.2 ≠ f) ++ (s.cfg.dataSects.filter fun b => b.2 = f) }
    | .corrupt off =>
      if !(s.fileExists.getD f false) || off ≥ s.cfg.flens.getD f 0 then s else
      let hit := (List.range s.n).filter fun i =>
        (s.cfg.sections i).any fun sc => sc.file = f && sc.off ≤ off && off < sc.off + sc.len
      { s with bad := s.bad ++ (hit.map fun i => (i, f)).filter (fun b => !(s.bad.contains b)), tainted := true }
    | .fill =>
      { s with fileExists := s.fileExists.set f true, bad := s.bad.filter fun b => b.2 ≠ f }) s

/-! ### Reconciliation with the implementation's choice of downloads (piece picker) -/

structure ImplDl where
  k : Nat
  piece : Nat
  af : Bool := false
  choked : Bool := false
  snub : Bool := false
  deriving Repr, DecidableEq

/-- May the picker hand `d.piece` to peer `d.k` in state `s` (with `others` already running)? -/
def admissibleStart (s : St) (running : List Dl) (d : ImplDl) : Bool :=
  s.status = .downloading && s.loaded && s.mayStart.contains d.k &&
  (match s.findPeer d.k with
   | none => false
   | some p =>
     decide (d.piece < s.n) && !(s.done.getD d.piece false) && !(s.wflag.getD d.piece false) &&
     p.has.getD d.piece false &&
     (if d.af then p.recvAF.contains d.piece else !p.peerChoking)) &&
  !(running.any (·.k = d.k)) &&
  decide ((running.filter (·.piece = d.piece)).length + 1 ≤ max 1 s.cfg.endgame)

/-- Follow the implementation's set of downloads if it is admissible; otherwise say why not. -/
def reconcile (s : St) (impl : List ImplDl) : St × List String :=
  let kept := s.dls
  -- downloads the model still has must still be there, on the same piece
  let vanished := kept.filter fun d => !(impl.any fun x => x.k = d.k && x.piece = d.piece)
  let errs1 := vanished.map fun d => s!"download {d.k}:{d.piece} vanished"
  -- new downloads must be admissible
  let (dls, errs2) := impl.foldl (fun (acc : List Dl × List String) x =>
    let (dls, errs) := acc
    match kept.find? (·.k = x.k) with
    | some d =>
      if d.piece = x.piece then (dls ++ [d], errs) else (dls, errs ++ [s!"download of peer {x.k} changed piece"])
    | none =>
      if admissibleStart s dls x then (dls ++ [{ k := x.k, piece := x.piece, af := x.af : Dl }], errs)
      else (dls ++ [{ k := x.k, piece := x.piece, af := x.af : Dl }], errs ++ [s!"inadmissible start {x.k}:{x.piece}"])) ([], [])
  ({ s with dls := dls, peers := s.peers.map fun p => if dls.any (fun d => d.k = p.k ∧ !(kept.any (·.k = p.k))) then { p with snubbed := false } else p },
   errs1 ++ errs2)

/-- Follow the implementation's set of metadata downloads if admissible (`nextInfoDownload` iterates a map). -/
def reconcileIdl (s : St) (impl : List Nat) : St × List String :=
  let vanished := s.idls.filter fun d => !(impl.contains d.k)
  let errs1 := vanished.map fun d => s!"metadata download of peer {d.k} vanished"
  let (idls, errs2) := impl.foldl (fun (acc : List IDl × List String) k =>
    let (idls, errs) := acc
    match s.idls.find? (·.k = k) with
    | some d => (idls ++ [d], errs)
    | none =>
      match s.findPeer k with
      | none => (idls, errs ++ [s!"metadata download for unknown peer {k}"])
      | some p =>
        let nb := (p.extSize + 16383) / 16384
        let d : IDl := { k := k, size := p.extSize, nb := nb, pending := nb, blocks := List.replicate nb none }
        let ok := s.mayStartI && !s.info && p.extHS && p.extMeta && p.extSize ≠ 0 && p.extSize ≤ s.maxMeta &&
                  (idls.filter (fun x => !x.snub)).length < s.parMeta
        (idls ++ [d], if ok then errs else errs ++ [s!"inadmissible metadata download from peer {k} size {p.extSize}"])) ([], [])
  ({ s with idls := idls }, errs1 ++ errs2)

/-- C10 safety form: an idle, unchoking peer holding a needed piece nobody is downloading. -/
def idleEligible (s : St) : List (Nat × Nat) :=
  if s.status ≠ .downloading || !s.loaded then [] else
  s.peers.flatMap fun p =>
    if p.peerChoking || (s.findDl p.k).isSome then [] else
    match (List.range s.n).find? (fun i =>
      !(s.done.getD i false) && !(s.wflag.getD i false) && p.has.getD i false && !(s.dls.any (·.piece = i))) with
    | some i => [(p.k, i)]
    | none => []

end Rain.Loop
