/-
M-MSE — transliteration of `internal/mse/mse.go` (`HandshakeOutgoing`, `HandshakeIncoming`,
`readSync`, `initRC4`, `updateCipher`, `Stream.Read/Write`) and of the encryption policy of
`internal/btconn/accept.go` (`Accept`) and `internal/btconn/dial.go` (`Dial`).

Cryptography is a parameter (`Crypto`): Diffie-Hellman (`pub`, `dh`), the three SHA-1 uses
(`req1 = HASH('req1',S)`, `req3 = HASH('req3',S)`, `hashSKey = HASH('req2',SKEY)`) and the RC4
key-streams (`ks keyA? S sKey : Nat → Nat`, position 0 = first byte RC4 produces; `initRC4`
discards 1024 bytes, so both cipher states start at position 1024).  XOR is `Nat.xor` on bytes.

The transport is a byte list: what the remote side has written (or will write) in order.
Everything in `mse.go` reads *exact* byte counts (`io.ReadFull`, `io.CopyN`, `binary.Read`) except
the very first read `io.ReadAtLeast(s.raw, b[:608], 96)`, whose result depends on how the transport
fragments the data.  Its byte count is the nondeterministic choice `fr` ("firstRead"): admissible
iff `96 ≤ fr ≤ 608` and `fr ≤` the bytes the remote has written.  Running out of input is the
explicit outcome `Err.eof` (in Go: `io.EOF`/`io.ErrUnexpectedEOF`, or blocking until the deadline).

Core Lean only.
-/
namespace Rain.MSE

abbrev Bytes := List Nat

/-- Abstract cryptography. -/
structure Crypto where
  /-- `bytesWithPad(g^x mod p)`: 96 bytes. -/
  pub : Bytes → Bytes
  /-- `bytesWithPad(Y^x mod p)` for a received 96-byte `Y` and own private key `x`. -/
  dh : Bytes → Bytes → Bytes
  /-- `hashInt("req1", S)`. -/
  req1 : Bytes → Bytes
  /-- `hashInt("req3", S)`. -/
  req3 : Bytes → Bytes
  /-- `HashSKey(sKey)` = SHA1("req2" ‖ sKey). -/
  hashSKey : Bytes → Bytes
  /-- RC4 key-stream for key `SHA1("keyA"|"keyB" ‖ S ‖ sKey)` (`true` = keyA). -/
  ks : Bool → Bytes → Bytes → Nat → Nat

inductive Err where
  | noProvide        -- "no crypto methods are provided"
  | payloadTooBig    -- "initial payload is too big"
  | eof              -- transport ended / would block for ever
  | badFirstRead     -- the supplied first-read size is not admissible (never produced by Go)
  | syncNotFound     -- "sync point is not found"
  | invalidSKey      -- "invalid SKEY hash"
  | invalidVC        -- "invalid VC"
  | noneAccepted     -- "none of the provided methods are accepted"
  | invalidSelected  -- "invalid crypto selected"
  | notProvided      -- "selected crypto was/is not provided"
  deriving Repr, DecidableEq, Inhabited

def Err.toString : Err → String
  | .noProvide => "noprovide" | .payloadTooBig => "toobig" | .eof => "eof"
  | .badFirstRead => "badfirstread" | .syncNotFound => "nosync" | .invalidSKey => "badskey"
  | .invalidVC => "badvc" | .noneAccepted => "nonesel" | .invalidSelected => "badsel"
  | .notProvided => "notprovided"

/-! ### bytes -/

def zeros (n : Nat) : Bytes := List.replicate n 0

/-- The verification constant: 8 zero bytes. -/
def vc : Bytes := zeros 8

/-- `for i := range 20 { a[i] ^= b[i] }` -/
def xorBytes (a b : Bytes) : Bytes := List.zipWith (· ^^^ ·) a b

/-- `binary.BigEndian` `uint16` (truncating like Go's `uint16(len(x))`). -/
def be16 (n : Nat) : Bytes := [n / 256 % 256, n % 256]

/-- `binary.BigEndian` `uint32`. -/
def be32 (n : Nat) : Bytes := [n / 16777216 % 256, n / 65536 % 256, n / 256 % 256, n % 256]

def fromBE (bs : Bytes) : Nat := bs.foldl (fun a b => a * 256 + b) 0

/-- `isPowerOfTwo(x uint32)`: `x != 0 && x&(x-1) == 0`. -/
def isPowerOfTwo (x : Nat) : Bool := x != 0 && (x &&& (x - 1)) == 0


/-! ### cipher state: `cipher.StreamReader` / `cipher.StreamWriter` over RC4 or `plainTextCipher` -/

structure Ciph where
  ks : Nat → Nat
  pos : Nat
  plain : Bool

/-- `XORKeyStream` starting at key-stream position `p`. -/
def xorAt (ks : Nat → Nat) : Nat → Bytes → Bytes
  | _, [] => []
  | p, b :: r => (b ^^^ ks p) :: xorAt ks (p + 1) r

/-- `XORKeyStream(dst, src)`: RC4 advances by `len(src)`; `plainTextCipher` copies. -/
def Ciph.apply (c : Ciph) (bs : Bytes) : Bytes × Ciph :=
  if c.plain then (bs, c) else (xorAt c.ks c.pos bs, { c with pos := c.pos + bs.length })

/-- `initRC4`: a fresh RC4 state with the first 1024 key-stream bytes discarded. -/
def Ciph.init (ks : Nat → Nat) : Ciph := ⟨ks, 1024, false⟩

/-- `updateCipher(selected)`: `case RC4:` nothing; `case PlainText:` switch to the copying cipher;
any other value leaves RC4 in place (there is no `default`). -/
def updateCipher (selected : Nat) (c : Ciph) : Ciph :=
  if selected = 1 then { c with plain := true } else c

/-- `io.ReadFull` / `io.CopyN` of exactly `n` bytes from the raw transport. -/
def readN (n : Nat) (inp : Bytes) : Except Err (Bytes × Bytes) :=
  if n ≤ inp.length then .ok (inp.take n, inp.drop n) else .error .eof

/-- Exactly `n` bytes through `s.r` (`cipher.StreamReader`): plaintext, new state, rest. -/
def Ciph.read (c : Ciph) (n : Nat) (inp : Bytes) : Except Err (Bytes × Ciph × Bytes) :=
  match readN n inp with
  | .error e => .error e
  | .ok (raw, rest) => .ok ((c.apply raw).1, (c.apply raw).2, rest)

/-- `binary.Read(s.r, BigEndian, &n)` for a `uint16` followed by reading `n` bytes through `s.r`
(`io.CopyN`): PadC, IA and PadD are framed like this. -/
def readBlock16 (r : Ciph) (inp : Bytes) : Except Err (Bytes × Ciph × Bytes) :=
  match r.read 2 inp with
  | .error e => .error e
  | .ok (l, r, rest) => r.read (fromBE l) rest

/-! ### `readSync` -/

inductive SyncRes where
  | found (rest : Bytes)     -- `return nil`; `rest` = transport after the marker
  | notFound (rest : Bytes)  -- "sync point is not found"
  | eof                      -- transport ended while scanning
  deriving Repr, DecidableEq

/-- The `for` loop of `readSync`: `win` is `readBuf`, `max` the remaining budget. One input byte is
consumed per iteration, so the recursion is structural on the input. -/
def syncLoop (key : Bytes) : Bytes → Int → Bytes → SyncRes
  | win, max, [] =>
    if win = key then .found [] else if max ≤ 0 then .notFound [] else .eof
  | win, max, b :: rest =>
    if win = key then .found (b :: rest)
    else if max ≤ 0 then .notFound (b :: rest)
    else syncLoop key (win.drop 1 ++ [b]) (max - 1) rest

/-- `readSync(key, max)`: read `len(key)` bytes, then slide one byte at a time. -/
def readSync (key : Bytes) (max : Int) (inp : Bytes) : SyncRes :=
  if inp.length < key.length then .eof
  else syncLoop key (inp.take key.length) (max - key.length) (inp.drop key.length)

/-! ### handshake -/

/-- State of a `Stream` after a completed handshake. -/
structure Done where
  /-- crypto_select as this side understands it. -/
  selected : Nat
  /-- crypto_provide as this side understands it (own offer / decoded offer). -/
  provided : Nat
  /-- `s.r` -/
  r : Ciph
  /-- `s.w` -/
  w : Ciph
  /-- bytes already decrypted and queued in front of `s.r` (`r2 = MultiReader(IA, s.r)`). -/
  buffered : Bytes
  /-- raw transport bytes not yet consumed. -/
  rest : Bytes

/-- `io.ReadAtLeast(s.raw, b[:608], 96)` with the transport's choice `fr` of how much arrived:
the first 96 bytes are the remote public key, the other `fr - 96` bytes are dropped as padding. -/
def firstRead (fr : Nat) (inp : Bytes) : Except Err (Bytes × Bytes) :=
  if inp.length < 96 then .error .eof
  else if 96 ≤ fr ∧ fr ≤ 608 ∧ fr ≤ inp.length then .ok (inp.take 96, inp.drop fr)
  else .error .badFirstRead

/-- The three checks both sides apply to crypto_select. -/
def selectedCheck (selected provide : Nat) : Except Err Unit :=
  if selected = 0 then .error .noneAccepted
  else if !isPowerOfTwo selected then .error .invalidSelected
  else if selected &&& provide = 0 then .error .notProvided
  else .ok ()

structure OutCfg where
  /-- DH private key (`privateKey()`, 20 random bytes). -/
  x : Bytes
  sKey : Bytes
  /-- crypto_provide (`uint32`). -/
  provide : Nat
  /-- initial payload. -/
  ia : Bytes
  /-- PadA (random bytes, `padRandom()`: 0..511 of them). -/
  padA : Bytes
  /-- length of PadC (`padZero()`: 0..511 zero bytes). -/
  padCLen : Nat

/-- Step 3 as written by the initiator, and its cipher states after `initRC4("keyA","keyB")`. -/
def outMsg3 (c : Crypto) (o : OutCfg) (yb : Bytes) : Bytes × Ciph × Ciph :=
  let S := c.dh yb o.x
  let w0 := Ciph.init (c.ks true S o.sKey)
  let r0 := Ciph.init (c.ks false S o.sKey)
  let body := vc ++ be32 o.provide ++ be16 o.padCLen ++ zeros o.padCLen ++ be16 o.ia.length ++ o.ia
  (c.req1 S ++ xorBytes (c.req3 S) (c.hashSKey o.sKey) ++ (w0.apply body).1, r0, (w0.apply body).2)

/-- Step 4 as read by the initiator (`inp` = transport after the first read). -/
def outFinish (r w : Ciph) (provide fr : Nat) (inp : Bytes) : Except Err Done :=
  match readSync (r.apply vc).1 (616 - (fr : Int)) inp with
  | .eof => .error .eof
  | .notFound _ => .error .syncNotFound
  | .found rest => do
    let (selB, r2, rest) ← (r.apply vc).2.read 4 rest
    let selected := fromBE selB
    selectedCheck selected provide
    let (_, r4, rest) ← readBlock16 r2 rest
    pure { selected, provided := provide, r := updateCipher selected r4, w := updateCipher selected w,
           buffered := [], rest }

/-- The `selected` result of a *failed* `HandshakeOutgoing`: it is a named result, so it keeps the
value decoded from step 4 when a later step fails (`Dial` hands it on as `cipher`). -/
def outStaleSelected (r : Ciph) (fr : Nat) (inp : Bytes) : Nat :=
  match readSync (r.apply vc).1 (616 - (fr : Int)) inp with
  | .found rest =>
    match (r.apply vc).2.read 4 rest with
    | .ok (selB, _, _) => fromBE selB
    | .error _ => 0
  | _ => 0

/-- `HandshakeOutgoing`: bytes written, and the result. -/
def outgoing (c : Crypto) (o : OutCfg) (fr : Nat) (inp : Bytes) : Bytes × Except Err Done :=
  if o.provide = 0 then ([], .error .noProvide)
  else if o.ia.length > 65535 then ([], .error .payloadTooBig)
  else
    let msg1 := c.pub o.x ++ o.padA
    match firstRead fr inp with
    | .error e => (msg1, .error e)
    | .ok (yb, rest) =>
      (msg1 ++ (outMsg3 c o yb).1,
       outFinish (outMsg3 c o yb).2.1 (outMsg3 c o yb).2.2 o.provide fr rest)

/-- `selected` as returned by a failed `HandshakeOutgoing` (0 unless step 4 was decoded). -/
def outgoingStale (c : Crypto) (o : OutCfg) (fr : Nat) (inp : Bytes) : Nat :=
  if o.provide = 0 then 0
  else if o.ia.length > 65535 then 0
  else
    match firstRead fr inp with
    | .error _ => 0
    | .ok (yb, rest) => outStaleSelected (outMsg3 c o yb).2.1 fr rest

structure InCfg where
  x : Bytes
  /-- PadB (random bytes). -/
  padB : Bytes
  /-- length of PadD (zero bytes). -/
  padDLen : Nat
  /-- `getSKey(sKeyHash)`; `none` = `nil`. -/
  getSKey : Bytes → Option Bytes
  /-- `cryptoSelect(provided)`. -/
  select : Nat → Nat

/-- Steps 3 and 4 on the receiving side (`inp` = transport after the first read): step-4 bytes and
final state. -/
def inFinish (c : Crypto) (i : InCfg) (S : Bytes) (fr : Nat) (inp : Bytes) : Except Err (Bytes × Done) :=
  match readSync (c.req1 S) (628 - (fr : Int)) inp with
  | .eof => .error .eof
  | .notFound _ => .error .syncNotFound
  | .found rest => do
    let (h, rest) ← readN 20 rest
    match i.getSKey (xorBytes h (c.req3 S)) with
    | none => .error .invalidSKey
    | some sKey =>
      let w0 := Ciph.init (c.ks false S sKey)
      let r0 := Ciph.init (c.ks true S sKey)
      let (vcRead, r1, rest) ← r0.read 8 rest
      if vcRead ≠ vc then .error .invalidVC else
      let (pB, r2, rest) ← r1.read 4 rest
      let provide := fromBE pB
      if provide = 0 then .error .noProvide else
      let selected := i.select provide
      selectedCheck selected provide
      let (_, r4, rest) ← readBlock16 r2 rest
      let (ia, r6, rest) ← readBlock16 r4 rest
      let step4 := w0.apply (vc ++ be32 selected ++ be16 i.padDLen ++ zeros i.padDLen)
      pure (step4.1, { selected, provided := provide, r := updateCipher selected r6,
                       w := updateCipher selected step4.2, buffered := ia, rest })

/-- `HandshakeIncoming`: bytes written, and the result. -/
def incoming (c : Crypto) (i : InCfg) (fr : Nat) (inp : Bytes) : Bytes × Except Err Done :=
  match firstRead fr inp with
  | .error e => ([], .error e)
  | .ok (ya, rest) =>
    let msg2 := c.pub i.x ++ i.padB
    match inFinish c i (c.dh ya i.x) fr rest with
    | .error e => (msg2, .error e)
    | .ok (msg4, d) => (msg2 ++ msg4, .ok d)

/-! ### the stream after the handshake -/

/-- `Stream.Write(p)`: bytes put on the transport. -/
def Done.send (d : Done) (p : Bytes) : Bytes × Done :=
  ((d.w.apply p).1, { d with w := (d.w.apply p).2 })

/-- `Stream.Read` until `wire` (appended to what is still unconsumed) is used up: plaintext. -/
def Done.recv (d : Done) (wire : Bytes) : Bytes × Done :=
  (d.buffered ++ (d.r.apply (d.rest ++ wire)).1,
   { d with r := (d.r.apply (d.rest ++ wire)).2, buffered := [], rest := [] })

/-- `io.ReadFull(conn, buf[:n])` on a completed stream. -/
def Done.readN (d : Done) (n : Nat) : Except Err (Bytes × Done) :=
  if n ≤ d.buffered.length then
    .ok (d.buffered.take n, { d with buffered := d.buffered.drop n })
  else
    match d.r.read (n - d.buffered.length) d.rest with
    | .error e => .error e
    | .ok (pl, r', rest) => .ok (d.buffered ++ pl, { d with buffered := [], r := r', rest := rest })

/-! ### two honest endpoints -/

structure Session where
  resA : Except Err Done
  resB : Except Err Done
  a2b : Bytes
  b2a : Bytes

/-- Initiator `o` against receiver `i`.  The initiator's writes depend only on the first 96 bytes
it reads, so they are obtained by running it on step 2 alone; the receiver then runs on those
bytes and the initiator on everything the receiver wrote.  (`session_consistent` in Lemmas: the
initiator's writes in the last run are the bytes the receiver was run on.) -/
def session (c : Crypto) (o : OutCfg) (i : InCfg) (frA frB : Nat) : Session :=
  let wA := (outgoing c o frA (c.pub i.x ++ i.padB)).1
  let b := incoming c i frB wA
  let a := outgoing c o frA b.1
  ⟨a.2, b.2, a.1, b.1⟩

/-! ## btconn: `Accept` and `Dial` -/

/-- `pstr`: "\x13BitTorrent protocol". -/
def pstr : Bytes :=
  [19, 66, 105, 116, 84, 111, 114, 114, 101, 110, 116, 32, 112, 114, 111, 116, 111, 99, 111, 108]

/-- `writeHandshake`: 20 + 8 + 20 + 20 bytes. -/
def btHandshake (ext ih id : Bytes) : Bytes := pstr ++ ext ++ ih ++ id

inductive BErr where
  | mse (e : Err)       -- error of the MSE handshake
  | eof                 -- transport ended while reading the BitTorrent handshake
  | invalidProtocol | notEncrypted | invalidInfoHash | ownConnection
  | dialFailed
  deriving Repr, DecidableEq

inductive Outcome (α : Type) where
  | ok (a : α)
  | err (e : BErr)
  | panic
  deriving Repr

/-- The returned `net.Conn`: the raw socket, or the `mse.Conn` wrapped around it. -/
inductive Conn where
  | plain (rest : Bytes)
  | mse (d : Done)

def Conn.readN : Conn → Nat → Except BErr (Bytes × Conn)
  | .plain rest, n =>
    match MSE.readN n rest with
    | .error _ => .error .eof
    | .ok (b, rest) => .ok (b, .plain rest)
  | .mse d, n =>
    match d.readN n with
    | .error _ => .error .eof
    | .ok (b, d) => .ok (b, .mse d)

/-- bytes put on the socket by `conn.Write(p)`. -/
def Conn.write : Conn → Bytes → Bytes × Conn
  | .plain rest, p => (p, .plain rest)
  | .mse d, p => ((d.send p).1, .mse (d.send p).2)

/-- `readHandshake1`: protocol string, extensions, info hash. -/
def readHandshake1 (conn : Conn) : Except BErr (Bytes × Bytes × Conn) := do
  let (p, conn) ← conn.readN 20
  if p ≠ pstr then .error .invalidProtocol else
  let (ext, conn) ← conn.readN 8
  let (ih, conn) ← conn.readN 20
  pure (ext, ih, conn)

/-- The `cryptoSelect` callback of `Accept`. -/
def acceptSelect (force : Bool) (provided : Nat) : Nat :=
  if provided &&& 2 ≠ 0 then 2
  else if provided &&& 1 ≠ 0 ∧ force = false then 1
  else 0

structure AcceptCfg where
  /-- `forceEncryption` (`Config.ForceIncomingEncryption`). -/
  force : Bool
  /-- `getSKey != nil`. -/
  hasGetSKey : Bool
  hasInfoHash : Bytes → Bool
  ourExt : Bytes
  ourId : Bytes

structure ConnOk where
  conn : Conn
  /-- the `cipher` return value. -/
  cipher : Nat
  peerExt : Bytes
  peerId : Bytes
  infoHash : Bytes
  /-- `Dial` only: the connection returned is the second, plaintext one. -/
  retried : Bool

/-- Tail shared by both branches of `Accept` once extensions and info hash are known. -/
def acceptTail (a : AcceptCfg) (isEncrypted : Bool) (cipher : Nat) (ext ih : Bytes) (conn : Conn) :
    Bytes × Outcome ConnOk :=
  if a.force ∧ isEncrypted = false then ([], .err .notEncrypted)
  else if a.hasInfoHash ih = false then ([], .err .invalidInfoHash)
  else
    let wr := conn.write (btHandshake a.ourExt ih a.ourId)
    match wr.2.readN 20 with
    | .error e => (wr.1, .err e)
    | .ok (id, conn) =>
      if id = a.ourId then (wr.1, .err .ownConnection)
      else (wr.1, .ok ⟨conn, cipher, ext, id, ih, false⟩)

/-- `btconn.Accept`: bytes written to the socket, and the outcome.  `i.select` is ignored: the
callback is `acceptSelect a.force`. -/
def accept (c : Crypto) (a : AcceptCfg) (i : InCfg) (fr : Nat) (inp : Bytes) : Bytes × Outcome ConnOk :=
  if a.force ∧ a.hasGetSKey = false then ([], .panic)
  else
    match readHandshake1 (.plain inp) with
    | .ok (ext, ih, conn) => acceptTail a false 0 ext ih conn
    | .error .invalidProtocol =>
      if a.hasGetSKey then
        -- the 20 bytes already read are replayed in front of the socket (`io.MultiReader(&buf, conn)`)
        match incoming c { i with select := acceptSelect a.force } fr inp with
        | (w, .error e) => (w, .err (.mse e))
        | (w, .ok d) =>
          match readHandshake1 (.mse d) with
          | .error e => (w, .err e)
          | .ok (ext, ih, conn) =>
            -- `isEncrypted` was set by the callback iff RC4 was among the offered methods
            let t := acceptTail a (d.provided &&& 2 ≠ 0) d.selected ext ih conn
            (w ++ t.1, t.2)
      else ([], .err .invalidProtocol)
    | .error e => ([], .err e)

structure DialCfg where
  /-- `enableEncryption` = `!Config.DisableOutgoingEncryption`. -/
  enable : Bool
  /-- `forceEncryption` = `Config.ForceOutgoingEncryption`. -/
  force : Bool
  ext : Bytes
  ih : Bytes
  ourId : Bytes

/-- What the outside world does during one `Dial`. -/
structure DialEnv where
  /-- first `DialContext` succeeds. -/
  dial1 : Bool
  /-- `stopC` is closed when a failed MSE handshake is examined. -/
  stopped : Bool
  /-- second `DialContext` (plaintext retry) succeeds. -/
  dial2 : Bool
  /-- first-read size of the MSE handshake. -/
  fr : Nat
  /-- bytes the remote sends on the first / second connection. -/
  inp1 : Bytes
  inp2 : Bytes
  /-- DH private key, PadA, |PadC| drawn by `HandshakeOutgoing`. -/
  x : Bytes
  padA : Bytes
  padCLen : Nat

/-- `provide` in `Dial`. -/
def dialProvide (force : Bool) : Nat := if force then 2 else 3

/-- Tail of `Dial`: read the remote BitTorrent handshake from `conn`. -/
def dialTail (g : DialCfg) (cipher : Nat) (retried : Bool) (conn : Conn) : Outcome ConnOk :=
  match readHandshake1 conn with
  | .error e => .err e
  | .ok (ext, ihRead, conn) =>
    if ihRead ≠ g.ih then .err .invalidInfoHash
    else
      match conn.readN 20 with
      | .error e => .err e
      | .ok (id, conn) =>
        if id = g.ourId then .err .ownConnection
        else .ok ⟨conn, cipher, ext, id, g.ih, retried⟩

/-- `btconn.Dial`: bytes written on the first and on the second connection, and the outcome.
Write errors are not modelled (a closed remote shows up as `eof` on the next read). -/
def dial (c : Crypto) (g : DialCfg) (e : DialEnv) : Bytes × Bytes × Outcome ConnOk :=
  if e.dial1 = false then ([], [], .err .dialFailed)
  else
    let out := btHandshake g.ext g.ih g.ourId
    if g.enable then
      let o : OutCfg := { x := e.x, sKey := g.ih, provide := dialProvide g.force, ia := out,
                          padA := e.padA, padCLen := e.padCLen }
      match outgoing c o e.fr e.inp1 with
      | (w, .error err) =>
        if e.stopped then (w, [], .err (.mse err))
        else if g.force then (w, [], .err .notEncrypted)
        else if e.dial2 = false then (w, [], .err .dialFailed)
        else
          -- NB the `cipher` result keeps whatever the failed handshake left in `selected`
          (w, out, dialTail g (outgoingStale c o e.fr e.inp1) true (.plain e.inp2))
      | (w, .ok d) => (w, [], dialTail g d.selected false (.mse d))
    else
      (out, [], dialTail g 0 false (.plain e.inp1))

end Rain.MSE
