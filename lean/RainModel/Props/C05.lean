import RainModel.Lemmas.LoopWeak
/-!
C05 — crash-consistent resume, loop level (M-LOOP).  `persisted` is the bitfield last written to the
resume database (on stop, on completion, after verification, by the periodic writer `Op.persist`).

* `persisted_behind`: every bit of the resume bitfield names a piece whose verified bytes are on disk — an
  invariant of every event except an external change of the files;
* `crash_safe`: hence at every crash instant (every prefix of every history) a restart that loads
  `persisted` as its bitfield and trusts it (which it does only when no file is missing) never treats an
  unwritten piece as downloaded;
* `missing_not_trusted`: when the allocator reports missing files, nothing of the old bitfield survives:
  every bit set afterwards is justified by the disk (model of the code after the fix of finding C05-F1).

Not covered (said plainly): the residual window named in finding C05-F1 (a crash after the allocator
re-created a file but before its result is handled — the model's allocator is atomic), and the resume
bitfield across external deletions when the in-memory bitfield is nil (see notes/loop-proofs.md).
-/
namespace Rain.Props.C05
open Rain.Loop

/-- **persisted_behind.** One event (any but an external change of the files) preserves: the resume
bitfield ⊆ pieces verified on disk (together with the in-memory bitfield ⊆ the same). -/
theorem persisted_behind (s : St) (p : Parked) (kn : Nat → Bool) (op : Op) (hop : op.isMutate = false)
    (h : Sound s) : PersistedSound (step s p kn op).1.st :=
  (step_sound s p kn op hop h).pers

/-- What a restart would take as its bitfield: the resume bitfield if every data file is present
(`handleAllocationDone` trusts it only when `!HasMissing`), nothing otherwise. -/
def restartTrusts (s : St) : Option (List Bool) :=
  if (List.range s.cfg.flens.length).all (fun f => s.cfg.fpads.getD f false || s.fileExists.getD f false)
  then s.persisted else none

/-- **crash_safe.** For every history from a freshly added torrent (any events but external file changes,
any choices of the implementation) and every crash instant `n`: a piece the restart would treat as
downloaded has its verified bytes on disk at that instant. -/
theorem crash_safe (s0 : St) (h0 : InitLike s0) (evs : List Ev) (hop : ∀ e ∈ evs, e.op.isMutate = false)
    (n i : Nat) (hi : bitOf (restartTrusts (drun (s0, none) (evs.take n)).1) i = true) :
    (drun (s0, none) (evs.take n)).1.diskOKi i = true := by
  have h := drun_sound (evs.take n) (s0, none) (fun e he => hop e (List.mem_of_mem_take he)) h0.sound
  unfold restartTrusts at hi
  split at hi
  · exact h.pers i hi
  · cases hi

/-- **missing_not_trusted.** The allocator found files missing (`hasMissing = true`): whatever bitfield and
resume bitfield there were, every bit set after `handleAllocationDone` is justified by the disk; nothing
is taken over. -/
theorem missing_not_trusted (m : M) (hasExisting : Bool) (h : Sound0 m.1) :
    ∀ i, bitOf (handleAllocationDone m hasExisting true).1.bf i = true →
      (handleAllocationDone m hasExisting true).1.diskOKi i = true :=
  handleAllocationDone_missing m hasExisting h

/-- The in-memory bitfield and its resume copy are dropped at once when files are missing. -/
theorem missing_forgets (m : M) (b : List Bool) (hb : m.1.bf = some b) :
    (hadForget m true).1.bf = none ∧ (hadForget m true).1.persisted = none := by
  unfold hadForget
  simp [hb]

/-! Non-vacuity of `crash_safe`: after a completed download the resume bitfield is set and trusted. -/
section Example
private def c1 : Cfg :=
  { pl := 16384, plens := [16384], blocks := [[(0, 16384)]], flens := [16384], fpads := [false], fnames := ["t"] }
private def s1 : St := { cfg := c1, fileExists := [false], known := [false], bad := c1.dataSects }
private def kn (l : List Nat) : Nat → Bool := fun k => l.contains k
private def evs1 : List Ev := [
  ⟨.start, kn [], [], []⟩,
  ⟨.peer 1 "10.0.0.2" true true false, kn [], [], []⟩,
  ⟨.msg 1 .haveAll, kn [1], [], []⟩,
  ⟨.msg 1 .unchoke, kn [1], [⟨1, 0, false, false, false⟩], []⟩,
  ⟨.msg 1 (.piece 0 0 16384 true), kn [1], [], []⟩]

example : restartTrusts (drun (s1, none) evs1).1 = some [true] := by decide
end Example

end Rain.Props.C05
