import RainModel.Lemmas.LoopWeak
import RainModel.Lemmas.LoopPersist
import RainModel.Lemmas.LoopWInvDec
/-!
C05 — crash-consistent resume, loop level (M-LOOP).  `persisted` is the bitfield last written to the
resume database (on stop, on completion, after verification, by the periodic writer `Op.persist`).

* `persisted_behind`: every bit of the resume bitfield names a piece whose verified bytes are on disk — an
  invariant of every event except an external change of the files;
* `crash_safe`: hence at every crash instant (every prefix of every history) a restart that loads
  `persisted` as its bitfield and trusts it (which it does only when no file is missing) never treats an
  unwritten piece as downloaded;
* `missing_not_trusted`: when the allocator reports missing files, nothing of the old bitfield survives:
  every bit set afterwards is justified by the disk (model of the code after the fix of finding C05-F1).

Across external deletions/restorations of files (`Op.mutate`): for histories **without a verify command**
the record is bitwise below the in-memory bitfield (`persisted_below_bitfield`), hence stale only inside
missing files (`persisted_weakly_sound`), hence never trusted by a restart for a piece that is not on disk
(`crash_safe_with_mutations`).  With a verify command this is **false** in the model over arbitrary states
(`stale_record_after_verify_while_stopping`, a `decide` witness): `forgetBitfield` does nothing when the
in-memory bitfield is nil, and a pending verify makes it nil before the allocator finds a file missing; the
record is stale while the verification of the other files runs (it is repaired when that verification is done;
since the repair of finding C04-F4 also when no file existed: `no_stale_record_when_all_files_deleted`).

Not covered (said plainly): the residual window named in finding C05-F1 (a crash after the allocator
re-created a file but before its result is handled — the model's allocator is atomic), and histories with
verify commands and file mutations (see notes/loop-proofs.md: the witness needs a tracker that hangs on a
torrent whose allocation failed, which the driver never produces, so whether a *driver-reachable* history
violates the property is open; the Go-level sequence is described there).
-/
namespace Rain.Props.C05
open Rain.Loop

/-- **persisted_behind.** One event (any but an external change of the files) preserves: the resume
bitfield ⊆ pieces verified on disk (together with the in-memory bitfield ⊆ the same). -/
theorem persisted_behind (s : St) (p : Parked) (kn : Nat → Bool) (op : Op) (hop : op.isMutate = false)
    (h : Sound s) (hw : WrOK s) : PersistedSound (step s p kn op).1.st :=
  (step_sound s p kn op hop h hw).pers

/-- What a restart would take as its bitfield: the resume bitfield if every data file is present
(`handleAllocationDone` trusts it only when `!HasMissing`), nothing otherwise. -/
def restartTrusts (s : St) : Option (List Bool) :=
  if (List.range s.cfg.flens.length).all (fun f => s.cfg.fpads.getD f false || s.fileExists.getD f false)
  then s.persisted else none

/-- **crash_safe.** For every history from a freshly added torrent (any events but external file changes,
any choices of the implementation) and every crash instant `n`: a piece the restart would treat as
downloaded has its verified bytes on disk at that instant. -/
theorem crash_safe (s0 : St) (h0 : InitLike s0) (hw : NoWritten s0) (evs : List Ev)
    (hop : ∀ e ∈ evs, e.op.isMutate = false)
    (n i : Nat) (hi : bitOf (restartTrusts (drun (s0, none) (evs.take n)).1) i = true) :
    (drun (s0, none) (evs.take n)).1.diskOKi i = true := by
  have h := drun_sound (evs.take n) (s0, none) (fun e he => hop e (List.mem_of_mem_take he)) h0.sound (h0.wrOK hw)
  unfold restartTrusts at hi
  split at hi
  · exact h.pers i hi
  · cases hi

/-- **missing_not_trusted.** The allocator found files missing (`hasMissing = true`): whatever bitfield and
resume bitfield there were, every bit set after `handleAllocationDone` is justified by the disk; nothing
is taken over. -/
theorem missing_not_trusted (m : M) (hasExisting : Bool) (h : Sound0 m.1) :
    ∀ i, bitOf (handleAllocationDone m hasExisting true).1.bf i = true →
      (handleAllocationDone m hasExisting true).1.diskOKi i = true :=
  handleAllocationDone_missing m hasExisting h

/-- The in-memory bitfield and its resume copy are dropped at once when files are missing. -/
theorem missing_forgets (m : M) (b : List Bool) (hb : m.1.bf = some b) :
    (hadForget m true).1.bf = none ∧ (hadForget m true).1.persisted = none := by
  unfold hadForget
  simp [hb]

/-- **failed_allocation_forgets** (fix for finding C05-F2).  An allocation whose `Open` fails part-way
(`allocFailing`: `failOpen` with `failAt` inside the data files) after it has re-created a file that was missing
(`allocFailMissing`): the in-memory bitfield is gone afterwards, and with it the resume record — it is `none` if
there was a bitfield to forget, and in any case (the record being bitwise below the bitfield, `PBehind`, as it is
along every history without a verify command) it claims no piece.  So no bit — in memory or on record — survives
the re-creation of a file, although the torrent stops with the allocation error before any result is handled. -/
theorem failed_allocation_forgets (m : M) (hf : allocFailing m.1 = true) (hm : allocFailMissing m.1 = true) :
    (allocatorRun m).1.bf = none ∧
    (m.1.bf.isSome = true → (allocatorRun m).1.persisted = none) ∧
    (PBehind m.1 → ∀ i, bitOf (allocatorRun m).1.persisted i = false) := by
  have hbf : (allocatorRun m).1.bf = none := by
    rw [allocatorRun_eq, if_pos hf]
    unfold allocFail
    simp only [onSt_fst, hm]
    have hx : (hadForget (allocFailOpen m) true).1.bf = none := by
      unfold hadForget
      simp only [onSt_fst, Bool.true_and]
      split
      · rfl
      · next hn => simpa using hn
    rcases stop_bf (hadForget (allocFailOpen m) true).1 true with h | h
    · rw [h, hx]
    · exact h
  refine ⟨hbf, fun hs => ?_, fun hpb i => ?_⟩
  · rw [allocatorRun_eq, if_pos hf]
    unfold allocFail
    simp only [onSt_fst, hm]
    have hx : (hadForget (allocFailOpen m) true).1.persisted = none ∧ (hadForget (allocFailOpen m) true).1.bf = none := by
      unfold hadForget
      simp only [onSt_fst, Bool.true_and]
      rw [if_pos (by simpa using hs)]
      exact ⟨rfl, rfl⟩
    rcases stop_persisted (hadForget (allocFailOpen m) true).1 true with h | h | h
    · rw [h, hx.1]
    · rw [h, hx.2]
    · exact h
  · have := (allocatorRun_pb m hpb).sub i
    rw [hbf] at this
    cases hb : bitOf (allocatorRun m).1.persisted i
    · rfl
    · exact absurd (this hb) (by simp)

/-- The same seen from the storage: what the failing allocation did before it failed — the data files before
number `failAt` exist afterwards (they were opened, created if missing, and closed again). -/
theorem failed_allocation_creates (m : M) (hf : allocFailing m.1 = true) (f : Nat)
    (hfm : f ∈ (allocData m.1).take m.1.failAt) : (allocatorRun m).1.fileExists.getD f false = true := by
  rw [allocatorRun_eq, if_pos hf]
  unfold allocFail
  simp only [onSt_fst]
  have hlt : f < m.1.cfg.flens.length := by
    have := List.mem_of_mem_take hfm
    unfold allocData at this
    simpa using (List.mem_filter.1 this).1
  have h1 : (hadForget (allocFailOpen m) (allocFailMissing m.1)).1.fileExists.getD f false = true := by
    simp only [hadForget_fileExists, allocFailOpen, onSt_fst]
    rw [getD_map_range]
    simp [hlt, hfm]
  -- `stop` never removes a file
  rcases stop_fe (hadForget (allocFailOpen m) (allocFailMissing m.1)).1 true with h | ⟨_, _⟩
  · rw [stop_eq]
    split
    · exact h1
    · simp only [stopRun, stopFin_fileExists, stopVer_fileExists]
      unfold stopAlloc
      split
      · next ha => simp [allocFailOpen] at ha
      · simpa using h1
  · rw [stop_eq]
    split
    · exact h1
    · simp only [stopRun, stopFin_fileExists, stopVer_fileExists]
      unfold stopAlloc
      split
      · next ha => simp [allocFailOpen] at ha
      · simpa using h1

/-- **persisted_below_bitfield.** Every event except the verify command in either of its two forms
(`Op.isVerify`: `Op.verify`, and `Op.verifyHeld`, the same command given while the harness leaves the storage
gates alone) — external file changes and both stop commands included —, in every state without a pending verify: the resume bitfield stays bitwise below the in-memory bitfield —
it is written from it (stop, completion, verification, periodic writer) and dropped with it
(`forgetBitfield`, the dropped allocation of `stop`). -/
theorem persisted_below_bitfield (s : St) (p : Parked) (kn : Nat → Bool) (op : Op) (hop : op.isVerify = false)
    (h : PBehind s) : PBehind (step s p kn op).1.st := step_pb s p kn op hop h

/-- **persisted_weakly_sound.** From a freshly added torrent (no verify pending), after any history with
files deleted or restored behind the client's back (no corruption of bytes, no verify command), any choices
of the implementation adopted: a bit of the resume bitfield whose piece is not fine on disk is bad only
inside files that are currently missing. -/
theorem persisted_weakly_sound (s0 : St) (h0 : InitLike s0) (hw : NoWritten s0) (hdv : s0.doVerify = false) (evs : List Ev)
    (hop : ∀ e ∈ evs, e.op.isCorrupt = false) (hv : ∀ e ∈ evs, e.op.isVerify = false) :
    WSP (drun (s0, none) evs).1 :=
  WSP.of_pb (drun_wsound evs (s0, none) hop h0.wsound (h0.wrOK hw)).ws
    (drun_pb evs (s0, none) hv ⟨hdv, fun i hi => by rw [h0.persisted] at hi; cases hi⟩)

/-- `restartTrusts` looks at the record only when every data file is present. -/
theorem restartTrusts_files (s : St) (i : Nat) (hi : bitOf (restartTrusts s) i = true) :
    FilesExist s ∧ bitOf s.persisted i = true := by
  unfold restartTrusts at hi
  split at hi
  · next hall =>
    refine ⟨fun f hf hpad => ?_, hi⟩
    have := List.all_eq_true.1 hall f (List.mem_range.2 hf)
    have hpad' : s.cfg.fpads[f]?.getD false = false := by simpa using hpad
    simpa [hpad'] using this
  · cases hi

/-- **crash_safe_with_mutations.** `crash_safe` for histories in which files are also deleted and restored
behind the stopped client's back (no verify command): at every crash instant, a piece the restart would
treat as downloaded — it trusts the record only when no file is missing — has its verified bytes on disk. -/
theorem crash_safe_with_mutations (s0 : St) (h0 : InitLike s0) (hwr : NoWritten s0) (hdv : s0.doVerify = false)
    (evs : List Ev)
    (hop : ∀ e ∈ evs, e.op.isCorrupt = false) (hv : ∀ e ∈ evs, e.op.isVerify = false)
    (n i : Nat) (hi : bitOf (restartTrusts (drun (s0, none) (evs.take n)).1) i = true) :
    (drun (s0, none) (evs.take n)).1.diskOKi i = true := by
  have hw := persisted_weakly_sound s0 h0 hwr hdv (evs.take n) (fun e he => hop e (List.mem_of_mem_take he))
    (fun e he => hv e (List.mem_of_mem_take he))
  have hws := drun_wsound (evs.take n) (s0, none) (fun e he => hop e (List.mem_of_mem_take he)) h0.wsound (h0.wrOK hwr)
  have hpb := drun_pb (evs.take n) (s0, none) (fun e he => hv e (List.mem_of_mem_take he))
    ⟨hdv, fun i hi => by rw [h0.persisted] at hi; cases hi⟩
  obtain ⟨hfe, hp⟩ := restartTrusts_files _ i hi
  exact hw.sound_of_files hws.bad hfe (fun j hj => hws.pad j (hpb.sub j hj)) i hp

/-- The model of `forgetBitfield`'s early return: with no in-memory bitfield the record is left alone. -/
theorem forget_skipped_when_nil (m : M) (hb : m.1.bf = none) :
    (hadForget m true).1.persisted = m.1.persisted := by
  unfold hadForget
  simp [hb]

/-! Non-vacuity of `crash_safe`: after a completed download the resume bitfield is set and trusted. -/
section Example
private def c1 : Cfg :=
  { pl := 16384, plens := [16384], blocks := [[(0, 16384)]], flens := [16384], fpads := [false], fnames := ["t"] }
private def s1 : St := { cfg := c1, fileExists := [false], known := [false], bad := c1.dataSects }
private def kn (l : List Nat) : Nat → Bool := fun k => l.contains k
private def evs1 : List Ev := [
  ⟨.start, kn [], [], []⟩,
  ⟨.peer 1 "10.0.0.2" true true false, kn [], [], []⟩,
  ⟨.msg 1 .haveAll, kn [1], [], []⟩,
  ⟨.msg 1 .unchoke, kn [1], [⟨1, 0, false, false, false⟩], []⟩,
  ⟨.msg 1 (.piece 0 0 16384 true), kn [1], [], []⟩]

example : restartTrusts (drun (s1, none) evs1).1 = some [true] := by decide

/-! Non-vacuity of `crash_safe_with_mutations`: stop, the file is deleted — the record still says `[true]`
but a restart would not trust it (`restartTrusts = none`); after the next start has handled the missing
file the record is gone (`forgetBitfield`). -/
private def evsDel : List Ev := evs1 ++ [⟨.stop, kn [1], [], []⟩, ⟨.mutate none .delete, kn [1], [], []⟩]
example : (drun (s1, none) evsDel).1.persisted = some [true] ∧ (drun (s1, none) evsDel).1.diskOK = [false] ∧
    restartTrusts (drun (s1, none) evsDel).1 = none := by decide
example : (drun (s1, none) (evsDel ++ [⟨.start, kn [1], [], []⟩])).1.persisted = none ∧
    (drun (s1, none) (evsDel ++ [⟨.start, kn [1], [], []⟩])).1.bf = some [false] ∧
    (drun (s1, none) (evsDel ++ [⟨.start, kn [1], [], []⟩])).1.status = .downloading := by decide

/-! **Why the verify command is excluded** (`stale_record_after_verify_while_stopping`).  Two files, one piece
each.  The download completes, the torrent is stopped, file 0 is deleted, the storage is made to fail
(`failOpen`).  From here the state is continued with `stopHang := true` (set by hand: the driver sets `stopHang`
only while the acceptor runs, which is not the case at the next stop — this state is *not* driver-reachable).
`start`: the allocation fails, `stop(err)` — the torrent is `Stopping`, still with its bitfield `[true, true]`,
file 0 missing.  `verify` arrives while stopping: `Torrent.Verify()` deletes the record, `doVerify := true`,
`stop` is a no-op.  The periodic writer stores the bitfield again (`persist`: it is not nil).  The storage
recovers, the verifier is held (`gate read`), the stop completes (`waitstop`): `handleStopped` sees `doVerify`,
drops the bitfield and restarts; the allocator finds file 0 missing and re-creates it; `forgetBitfield` returns
early because the bitfield is nil; file 1 existed, so the verifier is started.  **While it runs** the record
still says `[true, true]`, every file exists, a restart (crash now) trusts it: piece 0 would be treated as
downloaded although its bytes are not on disk.  Once the verification is done the record is the truth again
(`stale_record_repaired_by_verification`).

Since the repair of finding C04-F4 the variant in which *every* file was deleted (the witness before that
repair: one file, no verification, fresh bitfield, `Downloading` with the stale record `[true]`) no longer
leaves a stale record: the fresh allocation ends the pending verification with `stop`, which writes the fresh
bitfield (`no_stale_record_when_all_files_deleted`). -/
private def c2 : Cfg :=
  { pl := 16384, plens := [16384, 16384], blocks := [[(0, 16384)], [(0, 16384)]], flens := [16384, 16384],
    fpads := [false, false], fnames := ["a", "b"] }
private def s2 : St := { cfg := c2, fileExists := [false, false], known := [false, false], bad := c2.dataSects }
private def evsA : List Ev := [
  ⟨.start, kn [], [], []⟩,
  ⟨.peer 1 "10.0.0.2" true true false, kn [], [], []⟩,
  ⟨.msg 1 .haveAll, kn [1], [], []⟩,
  ⟨.msg 1 .unchoke, kn [1], [⟨1, 0, false, false, false⟩], []⟩,
  ⟨.msg 1 (.piece 0 0 16384 true), kn [1], [⟨1, 1, false, false, false⟩], []⟩,
  ⟨.msg 1 (.piece 1 0 16384 true), kn [1], [], []⟩,
  ⟨.stop, kn [1], [], []⟩,
  ⟨.mutate (some 0) .delete, kn [1], [], []⟩,
  ⟨.gate .failOpen true, kn [1], [], []⟩]
private def midHang : St × Parked := ({ (drun (s2, none) evsA).1 with stopHang := true }, (drun (s2, none) evsA).2)
private def evsB : List Ev := [
  ⟨.start, kn [1], [], []⟩,
  ⟨.verify, kn [1], [], []⟩,
  ⟨.persist, kn [1], [], []⟩,
  ⟨.gate .failOpen false, kn [1], [], []⟩,
  ⟨.gate .read true, kn [1], [], []⟩,
  ⟨.waitstop, kn [1], [], []⟩]

/-! Non-vacuity of `failed_allocation_forgets`, and `crash_safe_with_mutations` on a history with `gate failOpenAt`
(finding C05-F2): both pieces downloaded, stopped, file 0 deleted; the storage fails to open file 1; `start`: the
allocator re-creates file 0, fails on file 1, the torrent stops with the error.  Before the fix the bitfield and
the record `[true, true]` survived, every file existed again, and the next start trusted them; now both are gone. -/
private def evsF : List Ev := evsA.take 8 ++ [⟨.gate (.failOpenAt 1) true, kn [1], [], []⟩, ⟨.start, kn [1], [], []⟩]
example : (drun (s2, none) (evsF.take 9)).1.persisted = some [true, true] ∧
    (drun (s2, none) (evsF.take 9)).1.fileExists = [false, true] ∧
    (drun (s2, none) evsF).1.status = .stopped ∧ (drun (s2, none) evsF).1.lastErr = true ∧
    (drun (s2, none) evsF).1.fileExists = [true, true] ∧ (drun (s2, none) evsF).1.diskOK = [false, true] ∧
    (drun (s2, none) evsF).1.bf = none ∧ (drun (s2, none) evsF).1.persisted = none ∧
    restartTrusts (drun (s2, none) evsF).1 = none ∧
    (drun (s2, none) evsF).1.sto = ["open:a:16384:new", "openfail:b", "close:a"] ∧
    (∀ e ∈ evsF, e.op.isCorrupt = false) ∧ (∀ e ∈ evsF, e.op.isVerify = false) := by decide
/-- … and the start after the storage has recovered verifies file 1 and downloads piece 0 again. -/
example : (drun (s2, none) (evsF ++ [⟨.gate .failOpen false, kn [1], [], []⟩, ⟨.start, kn [1], [], []⟩])).1.status = .downloading ∧
    (drun (s2, none) (evsF ++ [⟨.gate .failOpen false, kn [1], [], []⟩, ⟨.start, kn [1], [], []⟩])).1.bf = some [false, true] := by
  decide

/-- `crash_safe` applies to histories with `gate failOpenAt` (it quantifies over every op but `mutate`): a
completed download, a stop, `Open` failing at file 1, a start that fails, a start that succeeds. -/
private def evsG : List Ev := evsA.take 7 ++ [⟨.gate (.failOpenAt 1) true, kn [1], [], []⟩,
  ⟨.start, kn [1], [], []⟩, ⟨.gate .failOpen false, kn [1], [], []⟩, ⟨.start, kn [1], [], []⟩]
example (n i : Nat) (h : bitOf (restartTrusts (drun (s2, none) (evsG.take n)).1) i = true) :
    (drun (s2, none) (evsG.take n)).1.diskOKi i = true :=
  crash_safe s2 ⟨cfgWF_of_check _ (by decide), badWF_dataSects _ rfl, rfl, rfl, rfl, rfl, rfl, rfl, rfl, rfl, rfl, rfl, rfl,
    rfl, rfl, rfl, rfl⟩ (noWritten_of_none rfl) evsG (by decide) n i h
example : (drun (s2, none) (evsG.take 9)).1.persisted = some [true, true] ∧
    (drun (s2, none) (evsG.take 9)).1.lastErr = true ∧ (drun (s2, none) (evsG.take 9)).1.status = .stopped ∧
    (drun (s2, none) evsG).1.status = .seeding := by decide

/-- `Op.verifyHeld` has to be excluded like `Op.verify` (it is the same handler): from the freshly added
torrent, which satisfies `PBehind`, with the open gate held it leaves the verification pending. -/
example : PBehind { s1 with gateOpen := true } ∧ Op.verifyHeld.isVerify = true ∧ Op.stopHeld.isVerify = false ∧
    (step { s1 with gateOpen := true } none (fun _ => false) .verifyHeld).1.st.doVerify = true :=
  ⟨⟨by decide, fun i hi => by cases hi⟩, by decide, by decide, by decide⟩

theorem stale_record_after_verify_while_stopping :
    (drun (s2, none) evsA).1.status = .stopped ∧ (drun (s2, none) evsA).1.persisted = some [true, true] ∧
    (drun midHang (evsB.take 1)).1.status = .stopping ∧ (drun midHang (evsB.take 1)).1.bf = some [true, true] ∧
    (drun midHang evsB).1.status = .verifying ∧ (drun midHang evsB).1.bf = none ∧
    (drun midHang evsB).1.fileExists = [true, true] ∧ (drun midHang evsB).1.diskOK = [false, true] ∧
    (drun midHang evsB).1.panicked = none ∧
    restartTrusts (drun midHang evsB).1 = some [true, true] := by decide

/-- … and the verification, once it is allowed to finish, writes the truth: stopped, record = bitfield =
`[false, true]`. -/
theorem stale_record_repaired_by_verification :
    (drun midHang (evsB ++ [⟨.gate .read false, kn [1], [], []⟩])).1.status = .stopped ∧
    (drun midHang (evsB ++ [⟨.gate .read false, kn [1], [], []⟩])).1.doVerify = false ∧
    (drun midHang (evsB ++ [⟨.gate .read false, kn [1], [], []⟩])).1.bf = some [false, true] ∧
    restartTrusts (drun midHang (evsB ++ [⟨.gate .read false, kn [1], [], []⟩])).1 = some [false, true] := by decide

/-! The witness as it was before the repair of finding C04-F4 (one file, deleted; same events): it used to end
`Downloading` with the stale record `[true]`; now the fresh allocation ends the verification with `stop`,
which writes the fresh bitfield. -/
private def evsA1 : List Ev := evsDel ++ [⟨.gate .failOpen true, kn [1], [], []⟩]
private def midHang1 : St × Parked :=
  ({ (drun (s1, none) evsA1).1 with stopHang := true }, (drun (s1, none) evsA1).2)
private def evsB1 : List Ev := [
  ⟨.start, kn [1], [], []⟩,
  ⟨.verify, kn [1], [], []⟩,
  ⟨.persist, kn [1], [], []⟩,
  ⟨.gate .failOpen false, kn [1], [], []⟩,
  ⟨.waitstop, kn [1], [], []⟩]

theorem no_stale_record_when_all_files_deleted :
    (drun midHang1 (evsB1.take 3)).1.status = .stopping ∧ (drun midHang1 (evsB1.take 3)).1.doVerify = true ∧
    (drun midHang1 (evsB1.take 3)).1.persisted = some [true] ∧ (drun midHang1 (evsB1.take 3)).1.fileExists = [false] ∧
    (drun midHang1 evsB1).1.status = .stopped ∧ (drun midHang1 evsB1).1.doVerify = false ∧
    (drun midHang1 evsB1).1.bf = some [false] ∧ (drun midHang1 evsB1).1.fileExists = [true] ∧
    (drun midHang1 evsB1).1.diskOK = [false] ∧ (drun midHang1 evsB1).1.panicked = none ∧
    restartTrusts (drun midHang1 evsB1).1 = some [false] := by decide
end Example

end Rain.Props.C05
