import RainModel.Model.ResourceManager
import RainModel.Lemmas.ResourceManager
import RainModel.Model.WebseedCap
import RainModel.Model.TokenBucket
import RainModel.Lemmas.TokenBucket
import RainModel.Model.Semaphore
import RainModel.Lemmas.Semaphore
/-!
C17 — configured resource limits hold at all times and reservations balance.
Property theorems only; helper lemmas live in `Lemmas/`.
-/
namespace Rain.Props.C17
open Rain.RM

/-- **rm_balance.** For every limit `≥ 0` and every history of manager events (requests that
are answered or dropped through their cancel channel, deferred grants through the notify branch
for any pickable pending request, cancellations of pending requests, stats queries, releases) in
which only amounts that are currently held are released (each acquisition released at most
once), none of the three `panic` statements of the manager is reached, and after the history
`0 ≤ available ≤ limit`, `available = limit − Σ held amounts` and `objects` = number of held
acquisitions (`balanced`, the predicate suite `rm` evaluates on the implementation's `Stats`). -/
theorem rm_balance (limit : Int) (hl : 0 ≤ limit) (es : List Event) :
    (∀ msg, grun (ginit limit) es ≠ .panic msg) ∧
    (∀ g, grun (ginit limit) es = .ok g → balanced g = true ∧ g.s.limit = limit) := by
  have h := grun_bal es (BalInv.init hl)
  refine ⟨h.1, ?_⟩
  intro g hg
  have hb := h.2 g hg
  have hle := hb.le_limit
  refine ⟨?_, hb.lim⟩
  simp only [balanced, Bool.and_eq_true, decide_eq_true_eq]
  refine ⟨⟨⟨hb.nonneg, ?_⟩, ?_⟩, hb.objs⟩
  · rw [hb.lim]; exact hle
  · rw [hb.lim]; exact hb.eq

/-- Non-vacuity: limit 10; 6 granted at once, 7 refused and queued, 6 released, 7 granted through
the notify branch, a second queued request (3) cancelled, 7 and 2 released. -/
example : grun (ginit 10)
    [.request ⟨1, 0, 6⟩ true, .request ⟨2, 0, 7⟩ true, .request ⟨3, 1, 2⟩ true, .request ⟨4, 1, 3⟩ true,
     .stats, .release 6, .cancel 1 0, .notify 0 0, .release 7, .release 2] =
    .ok { s := { limit := 10, available := 10, objects := 0, requests := [] },
          out := [], granted := [2, 3, 1], seen := [4, 3, 2, 1] } := by
  decide

/-- **rm_no_double_grant.** In every history (requests carry fresh identities) a request is
granted at most once — either at once by `handleRequest` or later through the notify branch,
never both and never twice: the list of grant events has no duplicate identity, no granted
identity is still pending (so `deleteRequest`'s swap-remove took out exactly the notified
request), and no identity is queued twice. -/
theorem rm_no_double_grant (limit : Int) (es : List Event) (g : G)
    (h : grun (ginit limit) es = .ok g) :
    g.granted.Nodup ∧ (pendingIds g).Nodup ∧ (∀ id ∈ g.granted, id ∉ pendingIds g) := by
  have hi := grun_once es (OnceInv.init limit) g h
  refine ⟨?_, ?_, ?_⟩
  · rw [List.nodup_iff_count]; intro a; have := hi.once a; omega
  · rw [List.nodup_iff_count]; intro a; have := hi.once a; omega
  · intro id hid hp
    have h1 : 0 < List.count id g.granted := List.count_pos_iff.mpr hid
    have h2 : 0 < List.count id (pendingIds g) := List.count_pos_iff.mpr hp
    have := hi.once id
    omega

/-- The hypothesis is needed: releasing an amount twice reaches `panic("invalid release call")`
in the un-instrumented machine. -/
example : step (init 10) (.release 1) = .panic "invalid release call" := by decide


/-! ### Web-seed source cap and configuration-dependent slicing -/
section Webseed
open Rain.WebseedCap

/-- **webseed_caps.** For every configured cap `≥ 0` and every url-list, `newTorrent` keeps a
prefix of the supported sources of length `min cap n` — in particular never more than the cap —
and the slice expression does not panic. -/
theorem webseed_caps (cap : Int) (hc : 0 ≤ cap) (urls : List Scheme) :
    ∃ l, sourcesOf cap urls = some l ∧ (l.length : Int) ≤ cap ∧
      l.length = min cap.toNat (urls.filter supported).length ∧
      l = (urls.filter supported).take cap.toNat ∧ ∀ u ∈ l, supported u = true := by
  unfold sourcesOf capSources sliceTo
  generalize hws : urls.filter supported = ws
  have hsup : ∀ u ∈ ws, supported u = true := by
    intro u hu; rw [← hws] at hu; exact (List.mem_filter.mp hu).2
  by_cases h : (ws.length : Int) > cap
  · have h2 : ¬ (cap < 0 ∨ cap > ws.length) := by omega
    simp only [h, h2, if_true, if_false]
    refine ⟨_, rfl, ?_, ?_, rfl, ?_⟩
    · simp [List.length_take]; omega
    · simp [List.length_take]
    · intro u hu; exact hsup u (List.mem_of_mem_take hu)
  · simp only [h, if_false]
    refine ⟨_, rfl, by omega, ?_, ?_, hsup⟩
    · have : ws.length ≤ cap.toNat := by omega
      omega
    · have : ws.length ≤ cap.toNat := by omega
      exact (List.take_of_length_le this).symm

/-- **config_no_panic** (the configuration-dependent slice of the package-level scope): under
`LegalConfig` the web-seed cap expression evaluates without a run-time panic for every url-list. -/
theorem config_no_panic (c : Config) (h : LegalConfig c) (urls : List Scheme) :
    sourcesOf c.webseedMaxSources urls ≠ none := by
  obtain ⟨l, hl, _⟩ := webseed_caps c.webseedMaxSources h.1 urls
  rw [hl]; simp

/-- `LegalConfig` is needed: a negative cap panics for every url-list (`len > cap` always holds). -/
example : sourcesOf (-1) [.http] = none := by decide

/-- Non-vacuity: cap 5, seven supported and two unsupported entries. -/
example : sourcesOf 5 [.http, .other, .https, .http, .http, .other, .https, .http, .http] =
    some [.http, .https, .http, .http, .https] := by decide

/-- The historical defect (fixed in the rain checkout): with the hard-coded `[:10]` a cap of 5 and
7 sources panics, and a cap of 5 with 12 sources keeps 10 > 5.  Witnesses in `corpus/wscap/`. -/
theorem webseed_cap_old_counterexample :
    sourcesOfOld 5 (List.replicate 7 .http) = none ∧
    (∃ l, sourcesOfOld 5 (List.replicate 12 .http) = some l ∧ l.length = 10) := by
  refine ⟨by decide, List.replicate 10 .http, by decide, by decide⟩

end Webseed


/-! ### Rate limits: the token bucket and the take-sleep-transfer pattern -/
section Bucket
open Rain.TokenBucket

/-- **bucket_grants_bound.** For every bucket (`fillInterval`, `capacity`, `quantum` > 0, initially
full) and every sequence of `Take` calls issued at non-decreasing clock values, the tokens whose
ready time (call time + returned wait) is `≤ t` total at most `capacity + quantum · ⌊t / fillInterval⌋`,
for every `t`. -/
theorem bucket_grants_bound (fi C q : Nat) (b0 : Bucket) (h0 : new fi C q = some b0)
    (calls : List Call) (hm : Monotone 0 calls) (t : Nat) :
    grantedBy t (run b0 [] calls).2 ≤ C + q * (t / fi) :=
  good_bound t _ (run_inv calls (new_inv h0) hm)

/-- **bucket_bound.** The take-then-sleep-then-transfer pattern of the three use sites
(peerreader.readPiece, peerwriter.messageWriter, urldownloader.Run): if every transfer happens
at or after the ready time of its `Take` and moves at most the taken count (nothing when the
goroutine is stopped while waiting), then the bytes passed by time `t` are at most
`capacity + quantum · ⌊t / fillInterval⌋ ≤ burst + rate · t` (second conjunct: the same bound
multiplied out, `rate = quantum / fillInterval` tokens per nanosecond). -/
theorem bucket_bound (fi C q : Nat) (b0 : Bucket) (h0 : new fi C q = some b0)
    (calls : List Call) (hm : Monotone 0 calls) (xs : List Transfer)
    (hf : Follows xs (run b0 [] calls).2) (t : Nat) :
    passedBy t xs ≤ C + q * (t / fi) ∧ passedBy t xs * fi ≤ C * fi + q * t := by
  have h1 : passedBy t xs ≤ C + q * (t / fi) :=
    Nat.le_trans (passedBy_le_grantedBy t xs _ hf) (bucket_grants_bound fi C q b0 h0 calls hm t)
  refine ⟨h1, ?_⟩
  have h2 : passedBy t xs * fi ≤ (C + q * (t / fi)) * fi := Nat.mul_le_mul_right fi h1
  have h3 : t / fi * fi ≤ t := Nat.div_mul_le_self t fi
  have h4 : q * (t / fi) * fi ≤ q * t := by
    rw [Nat.mul_assoc]; exact Nat.mul_le_mul_left q h3
  rw [Nat.add_mul] at h2
  omega

/-- Non-vacuity: 4 tokens per 10 ns, burst 8; a 20-token take at time 3 has to wait until tick 3
(ready at 30), a later 1-token take queues behind it. -/
example : (run { capacity := 8, quantum := 4, fillInterval := 10, availableTokens := 8, latestTick := 0 } []
    [⟨3, 20⟩, ⟨5, 1⟩, ⟨61, 8⟩]).2 = [⟨61, 8⟩, ⟨40, 1⟩, ⟨30, 20⟩] := by decide

end Bucket


/-! ### Parallel read / write semaphore -/
section Sem
open Rain.Semaphore (Act SemInv semInv_step)

/-- **semaphore_bound.** For every size `n ≥ 0`, every number of goroutines and every interleaving
of their atomic steps: the number of goroutines between the return of `Wait` and their call of
`Signal` never exceeds `n` (nor does the library's count), the `waiting` and `active` metrics
never go negative, and `Len()` (`active`) exceeds `n` by at most the number of goroutines that
are inside `Signal` between `Release` and the metric update. -/
theorem semaphore_bound (n : Int) (hn : 0 ≤ n) (k : Nat) (acts : List Act) (s : Rain.Semaphore.State)
    (h : Rain.Semaphore.run (Rain.Semaphore.init n k) acts = some s) :
    (s.holding : Int) ≤ n ∧ s.cur ≤ n ∧ 0 ≤ s.cur ∧ 0 ≤ s.waiting ∧ 0 ≤ s.active ∧ s.active ≤ n + s.rel ∧ s.n = n := by
  have key : ∀ (acts : List Act) (s0 s : Rain.Semaphore.State), SemInv s0 → Rain.Semaphore.run s0 acts = some s → SemInv s ∧ s.n = s0.n := by
    intro acts
    induction acts with
    | nil => intro s0 s hi hr; simp [Rain.Semaphore.run] at hr; subst hr; exact ⟨hi, rfl⟩
    | cons a as ih =>
      intro s0 s hi hr
      simp only [Rain.Semaphore.run] at hr
      cases hs : Rain.Semaphore.step s0 a with
      | none => rw [hs] at hr; cases hr
      | some s1 =>
        rw [hs] at hr
        obtain ⟨hi', hn'⟩ := ih s1 s (semInv_step s0 s1 a hi hs) hr
        refine ⟨hi', hn'.trans ?_⟩
        cases a <;> simp only [Rain.Semaphore.step] at hs <;> split at hs <;> first | cases hs | skip
        all_goals rfl
  have h0 : SemInv (Rain.Semaphore.init n k) := by
    refine ⟨?_, ?_, ?_, ?_⟩ <;> simp [Rain.Semaphore.init] <;> omega
  obtain ⟨⟨h1, h2, h3, h4⟩, h5⟩ := key acts (Rain.Semaphore.init n k) s h0 h
  have h6 : s.n = n := h5
  refine ⟨?_, ?_, ?_, ?_, ?_, ?_, h6⟩ <;> omega

/-- Non-vacuity, and the metric overshoot is real: size 1, two goroutines; the second acquires
right after the first released and updates `active` before the first one does: `Len() = 2 > 1`. -/
example : (Rain.Semaphore.run (Rain.Semaphore.init 1 2) [.waitInc, .acquire, .waitDec, .activeInc, .waitInc, .release, .acquire, .waitDec, .activeInc]).map
    (fun s => (s.active, s.holding, s.cur)) = some (2, 1, 1) := by decide

end Sem

end Rain.Props.C17
