import RainModel.Model.ResourceManager
import RainModel.Lemmas.ResourceManager
/-!
C17 — configured resource limits hold at all times and reservations balance.
Property theorems only; helper lemmas live in `Lemmas/`.
-/
namespace Rain.Props.C17
open Rain.RM

/-- **rm_balance.** For every limit `≥ 0` and every history of manager events (requests that
are answered or dropped through their cancel channel, deferred grants through the notify branch
for any pickable pending request, cancellations of pending requests, stats queries, releases) in
which only amounts that are currently held are released (each acquisition released at most
once), none of the three `panic` statements of the manager is reached, and after the history
`0 ≤ available ≤ limit`, `available = limit − Σ held amounts` and `objects` = number of held
acquisitions (`balanced`, the predicate suite `rm` evaluates on the implementation's `Stats`). -/
theorem rm_balance (limit : Int) (hl : 0 ≤ limit) (es : List Event) :
    (∀ msg, grun (ginit limit) es ≠ .panic msg) ∧
    (∀ g, grun (ginit limit) es = .ok g → balanced g = true ∧ g.s.limit = limit) := by
  have h := grun_bal es (BalInv.init hl)
  refine ⟨h.1, ?_⟩
  intro g hg
  have hb := h.2 g hg
  have hle := hb.le_limit
  refine ⟨?_, hb.lim⟩
  simp only [balanced, Bool.and_eq_true, decide_eq_true_eq]
  refine ⟨⟨⟨hb.nonneg, ?_⟩, ?_⟩, hb.objs⟩
  · rw [hb.lim]; exact hle
  · rw [hb.lim]; exact hb.eq

/-- Non-vacuity: limit 10; 6 granted at once, 7 refused and queued, 6 released, 7 granted through
the notify branch, a second queued request (3) cancelled, 7 and 2 released. -/
example : grun (ginit 10)
    [.request ⟨1, 0, 6⟩ true, .request ⟨2, 0, 7⟩ true, .request ⟨3, 1, 2⟩ true, .request ⟨4, 1, 3⟩ true,
     .stats, .release 6, .cancel 1 0, .notify 0 0, .release 7, .release 2] =
    .ok { s := { limit := 10, available := 10, objects := 0, requests := [] },
          out := [], granted := [2, 3, 1], seen := [4, 3, 2, 1] } := by
  decide

/-- The hypothesis is needed: releasing an amount twice reaches `panic("invalid release call")`
in the un-instrumented machine. -/
example : step (init 10) (.release 1) = .panic "invalid release call" := by decide

end Rain.Props.C17
