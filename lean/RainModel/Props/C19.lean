import RainModel.Model.LoopStep
import RainModel.Lemmas.LoopFrame
import RainModel.Lemmas.LoopHmd
import RainModel.Lemmas.LoopPrivate
/-!
C19 — private torrents use only their trackers.  Theorems over M-LOOP (the model of the repaired
code, finding C19-F1); the tie to the code is the `private` suite.

The first four theorems are about the single handlers.  The run-level theorems
(`private_step_isolated`, `private_dstep_isolated`, `private_run_isolated`,
`private_magnet_never_adopted_run`) lift them to every event of the alphabet and to every event history,
including the steps that adopt the implementation's nondeterministic choices (`reconcile`,
`reconcileIdl`); their lemmas are in `Lemmas/LoopPrivate.lean`.
-/
namespace Rain.Props.C19
open Rain.Loop

/-- A torrent whose metadata is known and marked private. -/
def Private (s : St) : Prop := s.info = true ∧ s.cfg.isPrivate = true

/-- **no_pex_in.** An incoming peer-exchange message never makes a private torrent dial (or even
queue) an address, whatever it advertises. -/
theorem no_pex_in (m : M) (added dropped : Bool) (h : Private m.1) :
    (handlePex m added dropped) = m := by
  obtain ⟨hi, hp⟩ := h
  unfold handlePex
  simp [hi, hp]

/-- **no_dht_in.** A DHT result delivered for the info hash is ignored by a private torrent. -/
theorem no_dht_in (m : M) (nonEmpty : Bool) (h : Private m.1) :
    handleDhtPeers m nonEmpty = m := by
  obtain ⟨hi, hp⟩ := h
  unfold handleDhtPeers
  simp [hi, hp]

/-- **no_pex_out.** Whatever a peer's extension handshake advertises, PEX is not started towards it
for a private torrent. -/
theorem no_pex_out (m : M) (k : Nat) (hasMeta : Bool) (size : Nat) (hasPex : Bool) (h : Private m.1)
    (hno : ∀ p ∈ m.1.peers, p.pexOn = false) :
    ∀ p ∈ (handleExtHandshake m k hasMeta size hasPex).1.peers, p.pexOn = false := by
  obtain ⟨hi, hp⟩ := h
  unfold handleExtHandshake
  cases hf : m.1.findPeer k with
  | none => simpa using hno
  | some p0 =>
    simp only
    by_cases he : p0.extHS
    · simpa [he] using hno
    · simp only [he, Bool.false_eq_true, ↓reduceIte, hi, hp, Bool.not_true, Bool.and_false, Bool.and_true]
      have key : ∀ p ∈ (m.1.updPeer k fun p =>
          { p with extHS := true, extMeta := hasMeta, extSize := size, pexOn := false }).peers, p.pexOn = false := by
        intro p hpm
        simp only [St.updPeer, List.mem_map] at hpm
        obtain ⟨q, hq, rfl⟩ := hpm
        by_cases hk : q.k = k
        · simp [hk]
        · simpa [hk] using hno q hq
      split <;> simpa [onSt] using key

/-- **private_magnet_refused.** Metadata fetched from peers is never adopted when it turns out to be
marked private (BEP 27: such a torrent must only be obtained from its tracker): whatever message
arrives, `info` keeps its value and no address learnt so far is used. -/
theorem private_magnet_refused (m : M) (k i len : Nat) (good : Bool) (hp : m.1.cfg.isPrivate = true) :
    (handleMetadataData m k i len good).1.info = m.1.info := by
  rcases handleMetadataData_info_cases m k i len good with h | ⟨d, hc⟩
  · exact h
  · rw [handleMetadataData_complete m d k i len good hc, hmdAdopt_refused (hmdStored m d k i good) (Or.inr hp)]
    simp [hmdStored]

/-! ### Every event, every history -/

/-- **private_step_isolated.** One event, whichever it is (commands, gates, peer messages, extension
handshakes advertising PEX, PEX messages, DHT results, metadata messages, …), in whatever state and
with whatever piece message parked: a private torrent whose metadata is known and towards none of whose
peers PEX runs is again such a torrent afterwards, with the same configuration, and it has made no
connection attempt to an address learnt from PEX or the DHT.  No hypothesis on the state beyond these
(no `InitLike`, no `Life`, panicked or not). -/
theorem private_step_isolated (s : St) (parked : Parked) (known : Nat → Bool) (op : Op)
    (h : Private s) (hno : ∀ p ∈ s.peers, p.pexOn = false) :
    let st := (step s parked known op).1.st
    st.info = true ∧ st.cfg = s.cfg ∧ st.dials = s.dials ∧ ∀ p ∈ st.peers, p.pexOn = false :=
  ⟨(step_info_private s parked known op h.2).trans h.1, step_cfg s parked known op,
    step_dials_private s parked known op h.1 h.2, step_noPex s parked known op h.2 hno⟩

/-- **private_dstep_isolated.** The same for the driver-level step: the model's step followed by the
adoption of the implementation's choice of piece downloads and metadata downloads (`reconcile` only
clears `snubbed` flags of peers, `reconcileIdl` does not touch the peers; neither touches `info`, `cfg`,
`dials`), for every choice, admissible or not. -/
theorem private_dstep_isolated (sp : St × Parked) (e : Ev)
    (h : Private sp.1) (hno : ∀ p ∈ sp.1.peers, p.pexOn = false) :
    let st := (dstep sp e).1
    Private st ∧ st.cfg = sp.1.cfg ∧ st.dials = sp.1.dials ∧ ∀ p ∈ st.peers, p.pexOn = false :=
  ⟨⟨(dstep_info_private sp e h.2).trans h.1, by rw [dstep_cfg]; exact h.2⟩, dstep_cfg sp e,
    dstep_dials_private sp e h.1 h.2, dstep_noPex sp e h.2 hno⟩

/-- The run-level statement from an arbitrary state *and* an arbitrary parked piece message (the form
that goes through the induction over the history). -/
theorem private_run_isolated_from (sp : St × Parked) (h : Private sp.1)
    (hno : ∀ p ∈ sp.1.peers, p.pexOn = false) (evs : List Ev) :
    let s := (drun sp evs).1
    s.dials = sp.1.dials ∧ (∀ p ∈ s.peers, p.pexOn = false) ∧ s.info = true ∧ s.cfg = sp.1.cfg :=
  have hr := drun_private evs sp h.2 hno
  ⟨drun_dials_private evs sp h.1 h.2, hr.2, hr.1.trans h.1, drun_cfg evs sp⟩

/-- **private_run_isolated.** For EVERY event history — every interleaving of commands, storage gates,
connections, peer messages, extension handshakes (advertising `ut_pex` or not), PEX messages, DHT results,
metadata messages, disconnects, and every choice the implementation's picker makes — and every setting of
`Config.PEXEnabled` and the other configuration values (`s0.cfg` is arbitrary but for `isPrivate`): a
private torrent whose metadata is known never dials an address learnt from PEX or the DHT (`dials` keeps
its initial value), never has PEX running towards a peer, never forgets its metadata and stays private.
`s0` is any state (not only an initial one). -/
theorem private_run_isolated (s0 : St) (h : s0.info = true ∧ s0.cfg.isPrivate = true)
    (hp : ∀ p ∈ s0.peers, p.pexOn = false) (evs : List Ev) :
    let s := (drun (s0, none) evs).1
    s.dials = s0.dials ∧ (∀ p ∈ s.peers, p.pexOn = false) ∧ s.info = true ∧ s.cfg.isPrivate = true := by
  have hr := private_run_isolated_from (s0, none) h hp evs
  refine ⟨hr.1, hr.2.1, hr.2.2.1, ?_⟩
  show (drun (s0, none) evs).1.cfg.isPrivate = true
  rw [hr.2.2.2]; exact h.2

/-! ### The magnet side: metadata marked private is never adopted, along every run -/

/-- One event never makes a torrent adopt metadata that is marked private (`private_magnet_refused` for
the metadata handler; no other handler sets `info`); PEX is not started either (it never is before the
metadata is known, and this metadata never becomes known). -/
theorem private_magnet_never_adopted_step (s : St) (parked : Parked) (known : Nat → Bool) (op : Op)
    (hp : s.cfg.isPrivate = true) (hi : s.info = false) (hno : ∀ p ∈ s.peers, p.pexOn = false) :
    let st := (step s parked known op).1.st
    st.info = false ∧ st.cfg = s.cfg ∧ ∀ p ∈ st.peers, p.pexOn = false :=
  ⟨(step_info_private s parked known op hp).trans hi, step_cfg s parked known op,
    step_noPex s parked known op hp hno⟩

theorem private_magnet_never_adopted_dstep (sp : St × Parked) (e : Ev)
    (hp : sp.1.cfg.isPrivate = true) (hi : sp.1.info = false) (hno : ∀ p ∈ sp.1.peers, p.pexOn = false) :
    let st := (dstep sp e).1
    st.info = false ∧ st.cfg = sp.1.cfg ∧ ∀ p ∈ st.peers, p.pexOn = false :=
  ⟨(dstep_info_private sp e hp).trans hi, dstep_cfg sp e, dstep_noPex sp e hp hno⟩

/-- **private_magnet_never_adopted_run.** A torrent added without metadata (magnet link) whose info
dictionary is marked private: along every event history the metadata is never adopted (`info` stays
false — every completed metadata download ends in `stop(err)`), and PEX is never started towards a peer.
(`dials` is *not* constant here: until the metadata is known the client cannot know that the torrent is
private, and a magnet link is fed from the DHT — see the example `magnet_dht_dials` below.) -/
theorem private_magnet_never_adopted_run (s0 : St) (hp : s0.cfg.isPrivate = true) (hi : s0.info = false)
    (hno : ∀ p ∈ s0.peers, p.pexOn = false) (evs : List Ev) :
    let s := (drun (s0, none) evs).1
    s.info = false ∧ s.cfg.isPrivate = true ∧ ∀ p ∈ s.peers, p.pexOn = false := by
  have hr := drun_private evs (s0, none) hp hno
  refine ⟨hr.1.trans hi, ?_, hr.2⟩
  show (drun (s0, none) evs).1.cfg.isPrivate = true
  rw [drun_cfg]; exact hp

/-! ### Non-vacuity -/

/-- A one-piece torrent, private or not, PEX enabled (the default). -/
def exCfg (priv : Bool) : Cfg :=
  { pl := 16384, plens := [16384], blocks := [[(0, 16384)]], flens := [16384], fpads := [false],
    fnames := ["a"], isPrivate := priv }

/-- A started torrent (status Downloading) with one connected peer that speaks the extension protocol. -/
def exSt (priv : Bool) (info : Bool := true) : St :=
  { cfg := exCfg priv, info := info, errC := true, acceptor := true,
    peers := [{ k := 0, ip := "10.0.0.1", fast := true, ext := true }] }

def exEv (op : Op) : Ev := { op := op, known := fun _ => true, impl := [], implI := [] }

/-- A history with everything the property speaks about: an extension handshake advertising `ut_pex`, a PEX
message with added addresses, a DHT result, a second PEX message with only dropped addresses. -/
def exHist : List Ev :=
  [exEv (.exths 0 true 100 true), exEv (.pex 0 true false), exEv (.dhtpeers true), exEv (.pex 0 false true)]

/-- The hypotheses of `private_run_isolated` are satisfiable. -/
example : ((exSt true).info = true ∧ (exSt true).cfg.isPrivate = true) ∧
    ∀ p ∈ (exSt true).peers, p.pexOn = false := by
  refine ⟨⟨rfl, rfl⟩, ?_⟩
  intro p hp
  simp only [exSt, List.mem_singleton] at hp
  rw [hp]

/-- For a NON-private torrent a DHT result does make the client dial (so `dials` is not constant for
trivial reasons) … -/
example : (step (exSt false) none (fun _ => true) (.dhtpeers true)).1.st.dials = 1 := by decide

/-- … and so does a PEX message, … -/
example : (step (exSt false) none (fun _ => true) (.pex 0 true false)).1.st.dials = 1 := by decide

/-- … and an extension handshake advertising `ut_pex` starts PEX towards the peer. -/
example : (step (exSt false) none (fun _ => true) (.exths 0 true 100 true)).1.st.peers.map (·.pexOn) = [true] := by
  decide

/-- The same three events on the private twin: nothing. -/
example : (step (exSt true) none (fun _ => true) (.dhtpeers true)).1.st.dials = 0 ∧
    (step (exSt true) none (fun _ => true) (.pex 0 true false)).1.st.dials = 0 ∧
    (step (exSt true) none (fun _ => true) (.exths 0 true 100 true)).1.st.peers.map (·.pexOn) = [false] := by
  decide

/-- The whole history: three connection attempts and PEX running for the public torrent, none for the
private one (the latter is an instance of `private_run_isolated`). -/
example : (drun (exSt false, none) exHist).1.dials = 3 ∧
    (drun (exSt false, none) exHist).1.peers.map (·.pexOn) = [true] ∧
    (drun (exSt true, none) exHist).1.dials = 0 ∧
    (drun (exSt true, none) exHist).1.peers.map (·.pexOn) = [false] := by
  decide

/-- Why `private_magnet_never_adopted_run` says nothing about `dials`: before the metadata is known a DHT
result is used, private or not (the client cannot know yet). -/
theorem magnet_dht_dials :
    (step (exSt true false) none (fun _ => true) (.dhtpeers true)).1.st.dials = 1 := by decide

end Rain.Props.C19
