import RainModel.Model.LoopStep
import RainModel.Lemmas.LoopFrame
import RainModel.Lemmas.LoopHmd
/-!
C19 — private torrents use only their trackers.  Theorems over M-LOOP (the model of the repaired
code, finding C19-F1); the tie to the code is the `private` suite.
-/
namespace Rain.Props.C19
open Rain.Loop

/-- A torrent whose metadata is known and marked private. -/
def Private (s : St) : Prop := s.info = true ∧ s.cfg.isPrivate = true

/-- **no_pex_in.** An incoming peer-exchange message never makes a private torrent dial (or even
queue) an address, whatever it advertises. -/
theorem no_pex_in (m : M) (added dropped : Bool) (h : Private m.1) :
    (handlePex m added dropped) = m := by
  obtain ⟨hi, hp⟩ := h
  unfold handlePex
  simp [hi, hp]

/-- **no_dht_in.** A DHT result delivered for the info hash is ignored by a private torrent. -/
theorem no_dht_in (m : M) (nonEmpty : Bool) (h : Private m.1) :
    handleDhtPeers m nonEmpty = m := by
  obtain ⟨hi, hp⟩ := h
  unfold handleDhtPeers
  simp [hi, hp]

/-- **no_pex_out.** Whatever a peer's extension handshake advertises, PEX is not started towards it
for a private torrent. -/
theorem no_pex_out (m : M) (k : Nat) (hasMeta : Bool) (size : Nat) (hasPex : Bool) (h : Private m.1)
    (hno : ∀ p ∈ m.1.peers, p.pexOn = false) :
    ∀ p ∈ (handleExtHandshake m k hasMeta size hasPex).1.peers, p.pexOn = false := by
  obtain ⟨hi, hp⟩ := h
  unfold handleExtHandshake
  cases hf : m.1.findPeer k with
  | none => simpa using hno
  | some p0 =>
    simp only
    by_cases he : p0.extHS
    · simpa [he] using hno
    · simp only [he, Bool.false_eq_true, ↓reduceIte, hi, hp, Bool.not_true, Bool.and_false, Bool.and_true]
      have key : ∀ p ∈ (m.1.updPeer k fun p =>
          { p with extHS := true, extMeta := hasMeta, extSize := size, pexOn := false }).peers, p.pexOn = false := by
        intro p hpm
        simp only [St.updPeer, List.mem_map] at hpm
        obtain ⟨q, hq, rfl⟩ := hpm
        by_cases hk : q.k = k
        · simp [hk]
        · simpa [hk] using hno q hq
      split <;> simpa [onSt] using key

/-- **private_magnet_refused.** Metadata fetched from peers is never adopted when it turns out to be
marked private (BEP 27: such a torrent must only be obtained from its tracker): whatever message
arrives, `info` keeps its value and no address learnt so far is used. -/
theorem private_magnet_refused (m : M) (k i len : Nat) (good : Bool) (hp : m.1.cfg.isPrivate = true) :
    (handleMetadataData m k i len good).1.info = m.1.info := by
  rcases handleMetadataData_info_cases m k i len good with h | ⟨d, hc⟩
  · exact h
  · rw [handleMetadataData_complete m d k i len good hc, hmdAdopt_refused (hmdStored m d k i good) (Or.inr hp)]
    simp [hmdStored]

end Rain.Props.C19
