import Driver.Suites.Loop
import RainModel.Lemmas.LoopCfg
import RainModel.Lemmas.LoopWeak
/-!
The hypotheses `CfgWF` / `InitLike` of the M-LOOP theorems hold for what the driver replays: every
configuration `parseNew` builds from a `new …` line (whatever the line says) is well-formed, and the
initial state the driver builds from it (`initSt`, also in its `seeded=1` variant) is `InitLike`.

This file imports the driver module; the driver itself (`Driver.Main`) does not import it and stays
core-only.
-/
namespace Rain.Props.C01LoopCfg
open Rain.Loop Driver.Suites.Loop

/-- The blocks `parseNew` computes are `cfgBlocks` of the configuration it returns. -/
theorem parseNew_blocks (toks : List String) : (parseNew toks).blocks = cfgBlocks (parseNew toks) := by
  unfold parseNew cfgBlocks
  dsimp only [Cfg.n]
  simp only [List.length_map, List.length_range]
  rfl

/-- **parseNew_cfgWF.** Every configuration the driver builds from a `new` line satisfies `CfgWF`: a piece
without blocks has no data section. -/
theorem parseNew_cfgWF (toks : List String) : CfgWF (parseNew toks) :=
  cfgWF_of_blocks _ (parseNew_blocks toks)

/-- **parseNew_blocksHaveData.** … and the converse (`Cfg.blocksHaveData`, the configuration hypothesis of
C04 `no_panic_full_partial`): a piece that has blocks has a non-padding section. -/
theorem parseNew_blocksHaveData (toks : List String) : (parseNew toks).blocksHaveData = true :=
  blocksHaveData_of_blocks _ (parseNew_blocks toks)

/-- **initSt_initLike.** The driver's initial state (nothing on disk) is `InitLike`, for every `new` line. -/
theorem initSt_initLike (toks : List String) (magnet : Bool) : InitLike (initSt (parseNew toks) magnet) := by
  refine ⟨parseNew_cfgWF toks, badWF_dataSects _ rfl, rfl, rfl, rfl, rfl, rfl, rfl, rfl, rfl, rfl, rfl, rfl, rfl,
    rfl, rfl, rfl⟩

/-- … and so is its `seeded=1` variant (every file present with the true content, `bad = []`), with the
other fields the driver sets from the `new` line. -/
theorem initSt_seeded_initLike (toks : List String) (magnet : Bool) (fe kn : List Bool) :
    InitLike { initSt (parseNew toks) magnet with known := kn, fileExists := fe, bad := [] } := by
  dsimp only
  refine ⟨parseNew_cfgWF toks, (fun x hx => by cases hx), rfl, rfl, rfl, rfl, rfl, rfl, rfl, rfl, rfl, rfl, rfl, rfl,
    rfl, rfl, rfl⟩

/-- **driver_new_initLike.** The state `stepDriver` installs for a `new` line — `initSt`, the `seeded=1`
replacement of the disk image, and the configuration values it copies into the state — is `InitLike` and has
no verify pending, no hanging tracker, no panic, no piece write in flight, and its configuration satisfies
`Cfg.blocksHaveData`: the hypotheses of every `…_run` theorem, C04 `no_panic_full_partial` included. -/
theorem driver_new_initLike (toks : List String) (magnet seeded iaa : Bool) (nu no isz mm pm : Nat) :
    let c := parseNew toks
    let s := initSt c magnet
    let s := if seeded then { s with known := c.flens.map (fun _ => true), fileExists := c.flens.map (fun _ => true), bad := [] } else s
    let s := { s with nUnchoke := nu, nOptimistic := no }
    let s := { s with infoAtAdd := iaa, isize := isz, maxMeta := mm, parMeta := pm }
    InitLike s ∧ s.doVerify = false ∧ s.stopHang = false ∧ s.panicked = none ∧
      s.cfg.blocksHaveData = true ∧ s.writing = none := by
  dsimp only
  cases seeded
  · exact ⟨⟨parseNew_cfgWF toks, badWF_dataSects _ rfl, rfl, rfl, rfl, rfl, rfl, rfl, rfl, rfl, rfl, rfl, rfl, rfl,
      rfl, rfl, rfl⟩, rfl, rfl, rfl, parseNew_blocksHaveData toks, rfl⟩
  · exact ⟨⟨parseNew_cfgWF toks, (fun x hx => by cases hx), rfl, rfl, rfl, rfl, rfl, rfl, rfl, rfl, rfl, rfl, rfl, rfl,
      rfl, rfl, rfl⟩, rfl, rfl, rfl, parseNew_blocksHaveData toks, rfl⟩

/-! Non-vacuity: the layout `parseNew` builds for `pl=16384 files=16384:0,16384:1,100:0` (a data file, a
padding file, a short data file): the padding-only piece has no block — and no data section (`CfgWF`).
(`parseNew` itself parses strings and does not reduce in the kernel; the layout is written out.) -/
private def c3 : Cfg :=
  { pl := 16384, plens := [16384, 16384, 100], blocks := [], flens := [16384, 16384, 100],
    fpads := [false, true, false], fnames := ["t/f0", "t/.pad/16384", "t/f2"] }

example : cfgBlocks c3 = [[(0, 16384)], [], [(0, 100)]] := by decide
example : (c3.sections 1).map (fun sc => (sc.file, sc.len, c3.isData sc)) = [(1, 16384, false)] := by decide
example : CfgWF { c3 with blocks := cfgBlocks c3 } := cfgWF_of_blocks _ rfl
example : ({ c3 with blocks := cfgBlocks c3 } : Cfg).blocksHaveData = true := blocksHaveData_of_blocks _ rfl

end Rain.Props.C01LoopCfg
