import RainModel.Model.Tier
import RainModel.Lemmas.Tier
/-!
C16 — tracker tier failover cycles forever; tracker replies cannot crash the client.
Property theorems only; helper lemmas live in `Lemmas/`.
-/
namespace Rain.Props.C16
open Rain

/-! ### Tier failover (`internal/tracker/tier.go`) -/

/-- **tier_cycles.** In a tier of any size `n ≥ 1`, from any reachable state (stored index inside
the tier), after `k` consecutive failing announces starting at member `i = load t` the next
announce goes to member `(i + k) mod n` — for every `k`, i.e. the tier goes round indefinitely. -/
theorem tier_cycles (t : Tier.T) (h : t.idx < t.n) (k : Nat) :
    Tier.load (Tier.failN k t) = (Tier.load t + k) % t.n ∧ (Tier.failN k t).idx < t.n :=
  ⟨(Tier.failN_inv h k).2.2, (Tier.failN_inv h k).2.1⟩

/-- From a fresh tier (`index = 0`): the `k+1`-st announce of an all-failing history goes to `k mod n`. -/
theorem tier_cycles_fresh (n : Nat) (hn : 0 < n) (k : Nat) :
    Tier.load (Tier.failN k (Tier.new n)) = k % n := by
  have := (tier_cycles (Tier.new n) hn k).1
  simpa [Tier.new, Tier.load, Nat.not_le.mpr hn] using this

/-- A member that starts answering is reached after at most one full cycle of failures: for every
current member `i` and every target `j` there is `k < n` with `(i + k) mod n = j`. -/
theorem tier_reaches_within_cycle (t : Tier.T) (h : t.idx < t.n) (j : Nat) (hj : j < t.n) :
    ∃ k, k < t.n ∧ Tier.load (Tier.failN k t) = j := by
  have hl : Tier.load t = t.idx := Tier.load_of_lt h
  by_cases hij : t.idx ≤ j
  · refine ⟨j - t.idx, by omega, ?_⟩
    rw [(tier_cycles t h _).1, hl]
    have : t.idx + (j - t.idx) = j := by omega
    rw [this, Nat.mod_eq_of_lt hj]
  · refine ⟨j + t.n - t.idx, by omega, ?_⟩
    rw [(tier_cycles t h _).1, hl]
    have : t.idx + (j + t.n - t.idx) = j + t.n := by omega
    rw [this, Nat.add_mod_right, Nat.mod_eq_of_lt hj]

/-- **tier_sticks_on_success.** A member that answers keeps being used: a successful announce
leaves the tier unchanged, so the next announce goes to the same member — any number of times. -/
theorem tier_sticks_on_success (t : Tier.T) :
    (Tier.announce t true).2 = t ∧ Tier.load (Tier.announce t true).2 = Tier.load t := by
  rw [Tier.announce_ok]; exact ⟨rfl, rfl⟩

/-- Concurrent announcers (CAS modelled): under every interleaving of loads and finishes — a
finish may carry any, possibly stale, previously loaded index — the stored index stays inside
the tier, so every later load designates a real member. -/
theorem tier_concurrent_inv (t : Tier.T) (h : t.idx < t.n) (ops : List Tier.Op) :
    (Tier.steps t ops).n = t.n ∧ (Tier.steps t ops).idx < t.n ∧ Tier.load (Tier.steps t ops) < t.n := by
  obtain ⟨hn, hi⟩ := Tier.steps_inv h ops
  refine ⟨hn, hi, ?_⟩
  have := Tier.load_lt (t := Tier.steps t ops) (by omega)
  omega

/-- Two announces that loaded the same member and both fail advance the tier by exactly one:
the second compare-and-swap finds the index already moved and does nothing (for `n ≥ 2`). -/
theorem tier_concurrent_single_advance (t : Tier.T) (h : t.idx < t.n) (hn : 2 ≤ t.n) :
    Tier.finish (Tier.finish t (Tier.load t) false) (Tier.load t) false
      = Tier.finish t (Tier.load t) false := by
  have hl := Tier.load_of_lt h
  rw [hl]
  have hne : Tier.next t.n t.idx ≠ t.idx := by unfold Tier.next; split <;> omega
  simp [Tier.finish, hne]

/-- Non-vacuity: a 3-tier goes 0,1,2,0,1,2,0 under seven failures, then sticks on success. -/
example : (Tier.run (Tier.new 3) [false, false, false, false, false, false, false, true, true]).1
    = [0, 1, 2, 0, 1, 2, 0, 1, 1] := by decide

/-- The historical defect (#12): with the pre-fix store (`CompareAndSwap(index, index+1)`, wrap
only on load) a 2-tier under 12 failures contacts member 0 eleven times and member 1 once. -/
theorem tier_stale_counterexample :
    (Tier.runStale (Tier.new 2) (List.replicate 12 false)).1 = [0, 1, 0, 0, 0, 0, 0, 0, 0, 0, 0, 0] := by
  decide

end Rain.Props.C16
