import RainModel.Model.Tier
import RainModel.Lemmas.Tier
import RainModel.Model.Announcer
import RainModel.Lemmas.Announcer
import RainModel.Model.TrackerWire
import RainModel.Lemmas.TrackerWire
/-!
C16 — tracker tier failover cycles forever; tracker replies cannot crash the client.
Property theorems only; helper lemmas live in `Lemmas/`.
-/
set_option linter.unusedSimpArgs false
namespace Rain.Props.C16
open Rain

/-! ### Tier failover (`internal/tracker/tier.go`) -/

/-- **tier_cycles.** In a tier of any size `n ≥ 1`, from any reachable state (stored index inside
the tier), after `k` consecutive failing announces starting at member `i = load t` the next
announce goes to member `(i + k) mod n` — for every `k`, i.e. the tier goes round indefinitely. -/
theorem tier_cycles (t : Tier.T) (h : t.idx < t.n) (k : Nat) :
    Tier.load (Tier.failN k t) = (Tier.load t + k) % t.n ∧ (Tier.failN k t).idx < t.n :=
  ⟨(Tier.failN_inv h k).2.2, (Tier.failN_inv h k).2.1⟩

/-- From a fresh tier (`index = 0`): the `k+1`-st announce of an all-failing history goes to `k mod n`. -/
theorem tier_cycles_fresh (n : Nat) (hn : 0 < n) (k : Nat) :
    Tier.load (Tier.failN k (Tier.new n)) = k % n := by
  have := (tier_cycles (Tier.new n) hn k).1
  simpa [Tier.new, Tier.load, Nat.not_le.mpr hn] using this

/-- A member that starts answering is reached after at most one full cycle of failures: for every
current member `i` and every target `j` there is `k < n` with `(i + k) mod n = j`. -/
theorem tier_reaches_within_cycle (t : Tier.T) (h : t.idx < t.n) (j : Nat) (hj : j < t.n) :
    ∃ k, k < t.n ∧ Tier.load (Tier.failN k t) = j := by
  have hl : Tier.load t = t.idx := Tier.load_of_lt h
  by_cases hij : t.idx ≤ j
  · refine ⟨j - t.idx, by omega, ?_⟩
    rw [(tier_cycles t h _).1, hl]
    have : t.idx + (j - t.idx) = j := by omega
    rw [this, Nat.mod_eq_of_lt hj]
  · refine ⟨j + t.n - t.idx, by omega, ?_⟩
    rw [(tier_cycles t h _).1, hl]
    have : t.idx + (j + t.n - t.idx) = j + t.n := by omega
    rw [this, Nat.add_mod_right, Nat.mod_eq_of_lt hj]

/-- **tier_sticks_on_success.** A member that answers keeps being used: a successful announce
leaves the tier unchanged, so the next announce goes to the same member — any number of times. -/
theorem tier_sticks_on_success (t : Tier.T) :
    (Tier.announce t true).2 = t ∧ Tier.load (Tier.announce t true).2 = Tier.load t := by
  rw [Tier.announce_ok]; exact ⟨rfl, rfl⟩

/-- Concurrent announcers (CAS modelled): under every interleaving of loads and finishes — a
finish may carry any, possibly stale, previously loaded index — the stored index stays inside
the tier, so every later load designates a real member. -/
theorem tier_concurrent_inv (t : Tier.T) (h : t.idx < t.n) (ops : List Tier.Op) :
    (Tier.steps t ops).n = t.n ∧ (Tier.steps t ops).idx < t.n ∧ Tier.load (Tier.steps t ops) < t.n := by
  obtain ⟨hn, hi⟩ := Tier.steps_inv h ops
  refine ⟨hn, hi, ?_⟩
  have := Tier.load_lt (t := Tier.steps t ops) (by omega)
  omega

/-- Two announces that loaded the same member and both fail advance the tier by exactly one:
the second compare-and-swap finds the index already moved and does nothing (for `n ≥ 2`). -/
theorem tier_concurrent_single_advance (t : Tier.T) (h : t.idx < t.n) (hn : 2 ≤ t.n) :
    Tier.finish (Tier.finish t (Tier.load t) false) (Tier.load t) false
      = Tier.finish t (Tier.load t) false := by
  have hl := Tier.load_of_lt h
  rw [hl]
  have hne : Tier.next t.n t.idx ≠ t.idx := by unfold Tier.next; split <;> omega
  simp [Tier.finish, hne]

/-- Non-vacuity: a 3-tier goes 0,1,2,0,1,2,0 under seven failures, then sticks on success. -/
example : (Tier.run (Tier.new 3) [false, false, false, false, false, false, false, true, true]).1
    = [0, 1, 2, 0, 1, 2, 0, 1, 1] := by decide

/-- The historical defect (#12): with the pre-fix store (`CompareAndSwap(index, index+1)`, wrap
only on load) a 2-tier under 12 failures contacts member 0 eleven times and member 1 once. -/
theorem tier_stale_counterexample :
    (Tier.runStale (Tier.new 2) (List.replicate 12 false)).1 = [0, 1, 0, 0, 0, 0, 0, 0, 0, 0, 0, 0] := by
  decide

/-! ### Retry discipline of the periodical announcer (`periodic.go`, `announce.go`) -/

open Rain.Announcer in
/-- **retry_always_armed.** From `Contacting`, every way the outstanding announce can end other
than a cancellation the announcer issued itself — a reply, an error (with or without a tracker
supplied retry delay), or a `context.Canceled` it did *not* issue (the UDP connect shared with a
torrent that was just stopped) — reaches the loop as an input, takes the announcer out of
`Contacting` and arms the timer: with the tracker's interval after a reply, with the tracker's
positive `retry in`, and otherwise with a back-off value between `(InitialInterval − 1)/2` and
`3·MaxInterval/2 + 1`. -/
theorem retry_always_armed (c : Cfg) (s : St) (hrun : s.running = true)
    (hbo : c.boInit ≤ s.boCur ∧ s.boCur ≤ c.boMax) (now bo : Int) (hadm : boAdmissible s.boCur bo)
    (o : Outcome) (ho : o ≠ .canceledOwn) :
    ∃ i, deliver bo o = some i ∧ (step c s now i).2 = [] ∧
      (step c s now i).1.running = true ∧ (step c s now i).1.status ≠ .contacting ∧
      ∃ d, (step c s now i).1.timer = some d ∧
        (∀ iv mi, o = .reply iv mi → (step c s now i).1.status = .working ∧
            d = now + getNextInterval (step c s now i).1) ∧
        (∀ r, o = .fail r → 0 < r → d = now + r) ∧
        ((o = .canceledForeign ∨ ∃ r, o = .fail r ∧ r ≤ 0) →
            (step c s now i).1.status = .notWorking ∧ d = now + bo ∧
            c.boInit ≤ 2 * (d - now) + 1 ∧ 2 * (d - now) ≤ 3 * c.boMax + 2) := by
  obtain ⟨ha1, ha2⟩ := hadm
  cases o with
  | reply iv mi =>
    refine ⟨.response iv mi, rfl, ?_⟩
    simp [step, stepWith, hrun, onResponse, resetTimer, getNextInterval]
  | fail r =>
    refine ⟨.error r bo, rfl, ?_⟩
    by_cases hr : 0 < r
    · simp [step, stepWith, hrun, hr, resetTimer]
      intro h; omega
    · simp [step, stepWith, hrun, hr, resetTimer]
      omega
  | canceledOwn => exact absurd rfl ho
  | canceledForeign =>
    refine ⟨.error 0 bo, rfl, ?_⟩
    simp [step, stepWith, hrun, resetTimer]
    omega

open Rain.Announcer in
/-- Non-vacuity of `retry_always_armed`: a reachable `Contacting` state (after `start`) meets the
hypotheses, and a foreign cancellation arms the timer 3 units ahead. -/
example :
    let c : Cfg := ⟨60, 5, 40⟩
    let s := (run c (init c) [(0, .start false)]).1
    s.running = true ∧ s.status = .contacting ∧ (c.boInit ≤ s.boCur ∧ s.boCur ≤ c.boMax) ∧ boAdmissible s.boCur 3 ∧
    (step c s 7 (.error 0 3)).1.timer = some 10 := by decide

open Rain.Announcer in
/-- **never_idle.** In every history a running announcer has an announce outstanding
(`Contacting`) or its timer armed — it is never left with nothing that will wake it — and its
back-off interval stays within `[InitialInterval, MaxInterval]` (the hypothesis of
`retry_always_armed` holds in every reachable state). -/
theorem never_idle (c : Cfg) (h0 : 0 < c.boInit) (hle : c.boInit ≤ c.boMax) (tr : List (Int × In)) :
    NeverIdle (run c (init c) tr).1 ∧ BoInv c (run c (init c) tr).1 :=
  ⟨run_neverIdle storeFixed c tr (init c) (by simp [NeverIdle, init]),
   run_boInv storeFixed c tr (init c) h0 hle (by simp [BoInv, init])⟩

open Rain.Announcer in
/-- An armed timer that runs out while the announcer is not contacting sends the next announce. -/
theorem timer_then_announces (c : Cfg) (s : St) (hrun : s.running = true) (hst : s.status ≠ .contacting)
    (d now : Int) (ht : s.timer = some d) (hd : d ≤ now) :
    ∃ a, (step c s now .timer).2 = [a] ∧ a.ev = .none ∧ a.time = now ∧
      (step c s now .timer).1.status = .contacting := by
  simp [step, stepWith, hrun, timerDue, ht, hd, hst, doAnnounce]

open Rain.Announcer in
/-- **retry_floor.** Retries are not immediate either: an announce sent because the timer ran out
after the previous one *failed* comes no sooner than the smallest retry delay of the history (the
tracker's positive `retry in`, else the drawn back-off value). -/
theorem retry_floor (c : Cfg) (tr : List (Int × In)) (hm : Mono 0 tr) (rl : Int) (hf : RetryFor rl tr) :
    ∀ a ∈ (run c (init c) tr).2, a.ev = .none → a.after = .notWorking → rl ≤ a.time - a.prevAt :=
  run_retry storeFixed c rl tr 0 (init c) hm hf ⟨by simp [init], by simp [init]⟩

open Rain.Announcer in
/-- The historical defect (#13): the pre-fix `announce()` returned silently on *every*
`context.Canceled`, so a foreign cancellation produced no input at all; the announcer
(`Contacting`, timer consumed) was never woken again. The repaired mapping delivers it as an error. -/
theorem foreign_cancel_counterexample (bo : Int) :
    deliverStale bo .canceledForeign = none ∧ deliver bo .canceledForeign = some (.error 0 bo) :=
  ⟨rfl, rfl⟩

/-! ### Replies (`compact.go`, `udptracker/transport.go`, `udptracker.go`, `httptracker.go`) -/

open Rain.TrackerWire in
/-- **compact_total.** `DecodePeersCompact` is total on every byte string: a length that is not a
multiple of 6 gives an error; otherwise exactly `len/6` peers, each with a 4-byte address and a
16-bit port — nothing else can happen (no index out of range). -/
theorem compact_total (b : Bytes) (hb : isBytes b = true) :
    (b.length % 6 ≠ 0 → decodeCompact b = none) ∧
    (b.length % 6 = 0 → ∃ ps, decodeCompact b = some ps ∧ ps.length = b.length / 6 ∧ ∀ p ∈ ps, p.wf = true) := by
  constructor
  · intro h; simp [decodeCompact, h]
  · intro h
    have hl : b.length = 6 * (b.length / 6) := by omega
    exact ⟨_, by simp [decodeCompact, h], compactLoop_length _ b hl, compactLoop_wf _ b hb hl⟩

open Rain.TrackerWire in
/-- Non-vacuity: 12 bytes decode to two well-formed peers; 11 bytes are an error. -/
example : decodeCompact [1, 2, 3, 4, 0x1a, 0xe1, 10, 0, 0, 1, 0, 80]
    = some [{ ip := [1, 2, 3, 4], port := 6881 }, { ip := [10, 0, 0, 1], port := 80 }] ∧
    decodeCompact [1, 2, 3, 4, 0x1a, 0xe1, 10, 0, 0, 1, 0] = none := by decide

open Rain.TrackerWire in
/-- Non-vacuity: of three datagrams — too short, foreign id, own id — only the third is taken. -/
example : firstDelivered 9 [[0, 0, 0, 1, 0, 0, 0], [0, 0, 0, 1, 0, 0, 0, 8, 1], [0, 0, 0, 1, 0, 0, 0, 9, 2]]
    = some [0, 0, 0, 1, 0, 0, 0, 9, 2] := by decide

open Rain.TrackerWire in
/-- **udp_reply_match.** A datagram is handed only to the outstanding transaction whose id is in
its bytes 4..8; fewer than 8 bytes or an unknown id are dropped; action 3 is an error. -/
theorem udp_reply_match (txs : List Nat) (buf : Bytes) :
    match recv txs buf with
    | .deliver tx isErr => tx ∈ txs ∧ tx = txOf buf ∧ 8 ≤ buf.length ∧ (isErr = true ↔ actionOf buf = 3)
    | .dropShort => buf.length < 8
    | .dropUnknown tx => tx ∉ txs ∧ tx = txOf buf := by
  unfold recv
  by_cases h1 : buf.length < 8
  · simp [h1]
  · by_cases h2 : txOf buf ∈ txs
    · simp [h1, h2]; omega
    · simp [h1, h2]

open Rain.TrackerWire in
/-- An announce transaction is decided by a datagram of the stream that carries its own id. -/
theorem udp_first_delivered_own (tx : Nat) (ds : List Bytes) (d : Bytes)
    (h : firstDelivered tx ds = some d) : d ∈ ds ∧ txOf d = tx ∧ 8 ≤ d.length := by
  induction ds with
  | nil => simp [firstDelivered] at h
  | cons x r ih =>
    simp only [firstDelivered] at h
    have hm := udp_reply_match [tx] x
    cases hr : recv [tx] x with
    | deliver t e =>
      rw [hr] at h hm
      simp at h hm
      subst h
      exact ⟨by simp, by omega, hm.2.2.1⟩
    | dropShort => rw [hr] at h; simp at h; have := ih h; exact ⟨by simp [this.1], this.2⟩
    | dropUnknown t => rw [hr] at h; simp at h; have := ih h; exact ⟨by simp [this.1], this.2⟩

open Rain.TrackerWire in
/-- **udp_announce_reply_total.** Whatever bytes are delivered for an announce transaction: an
error action, a packet shorter than the 20-byte header, a wrong action or a ragged peer list give
an error; otherwise the result is a list of exactly `(len−20)/6` well-formed peers. -/
theorem udp_announce_reply_total (buf : Bytes) (hb : isBytes buf = true) :
    (actionOf buf = 3 ∧ 8 ≤ buf.length → parseAnnounce buf = .errTracker) ∧
    (buf.length < 20 → ∀ r, parseAnnounce buf ≠ .ok r) ∧
    (actionOf buf ≠ 1 → ∀ r, parseAnnounce buf ≠ .ok r) ∧
    (∀ r, parseAnnounce buf = .ok r → r.peers.length = (buf.length - 20) / 6 ∧ ∀ p ∈ r.peers, p.wf = true) := by
  refine ⟨?_, ?_, ?_, ?_⟩
  · intro h; simp [parseAnnounce, h]
  · intro h r
    unfold parseAnnounce
    split
    · simp
    · simp [h]
  · intro h r
    unfold parseAnnounce
    split
    · simp
    · split
      · simp
      · simp [h]
  · intro r hr
    unfold parseAnnounce at hr
    split at hr
    · simp at hr
    · split at hr
      · simp at hr
      · split at hr
        · simp at hr
        · have hdb : isBytes (buf.drop 20) = true := by
            have hall : ∀ x ∈ buf, x < 256 := by simpa [isBytes] using hb
            simp only [isBytes, List.all_eq_true, decide_eq_true_eq]
            intro x hx; exact hall x (List.mem_of_mem_drop hx)
          have hct := compact_total (buf.drop 20) hdb
          split at hr
          · simp at hr
          · rename_i ps hps
            simp at hr
            subst hr
            by_cases hm : (buf.drop 20).length % 6 = 0
            · obtain ⟨ps', hps', hl, hw⟩ := hct.2 hm
              rw [hps] at hps'
              simp at hps'
              subst hps'
              simp only [List.length_drop] at hl
              exact ⟨hl, hw⟩
            · rw [hct.1 hm] at hps; simp at hps

open Rain.TrackerWire in
/-- A connect reply gives a connection id only for ≥ 16 bytes with action 0. -/
theorem udp_connect_reply_total (buf : Bytes) :
    ∀ id, parseConnect buf = .ok id → 16 ≤ buf.length ∧ actionOf buf = 0 := by
  intro id h
  unfold parseConnect at h
  split at h
  · simp at h
  · split at h
    · simp at h
    · split at h
      · simp at h
      · rename_i h1 h2
        exact ⟨by omega, by simpa using h2⟩

open Rain.TrackerWire in
/-- **http_read_le_limit.** Never more than the configured limit is read from a tracker's reply. -/
theorem http_read_le_limit (limit : Nat) (cl : Option Nat) (body data : List Nat)
    (h : httpBodyRead limit cl body = some data) : data.length ≤ limit := by
  unfold httpBodyRead at h
  cases cl with
  | none => simp at h; subst h; simp [List.length_take]; omega
  | some n =>
    simp at h
    obtain ⟨_, rfl⟩ := h
    simp [List.length_take]; omega

open Rain.TrackerWire in
/-- **http_dict_peers_have_ip.** Every address produced from a dictionary-model peer list carries
the IP that `net.ParseIP` returned for its entry — never an address without IP. -/
theorem http_dict_peers_have_ip (ents : List (Option Bytes × Nat)) :
    ∀ p ∈ dictPeers ents, ∃ e ∈ ents, e.1 = some p.ip ∧ e.2 = p.port := by
  induction ents with
  | nil => intro p hp; simp [dictPeers] at hp
  | cons e r ih =>
    obtain ⟨ip?, port⟩ := e
    intro p hp
    cases ip? with
    | none =>
      simp only [dictPeers] at hp
      obtain ⟨e, he, h⟩ := ih p hp
      exact ⟨e, by simp [he], h⟩
    | some ip =>
      simp only [dictPeers, List.mem_cons] at hp
      rcases hp with rfl | hp
      · exact ⟨(some ip, port), by simp, rfl, rfl⟩
      · obtain ⟨e, he, h⟩ := ih p hp
        exact ⟨e, by simp [he], h⟩

open Rain.TrackerWire in
/-- The historical defect: the pre-fix parser turned an unparsable `ip` into an address with an
empty IP (printed `:6881`, dialled as the local host). -/
theorem http_dict_stale_counterexample :
    dictPeersStale [(none, 6881)] = [{ ip := [], port := 6881 }] ∧ dictPeers [(none, 6881)] = [] := by
  constructor <;> rfl

end Rain.Props.C16
