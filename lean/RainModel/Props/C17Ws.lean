import RainModel.Lemmas.WsAcct
/-!
C17 (and C10) — the web seed download slots of a torrent: `webseedActiveDownloads` against
`Config.WebseedMaxDownloads` and against the sources that really have a downloader (model M-WSACCT,
`Model/WsAcct.lean`; tied to the real event loop by suite `wsloop`).

* `active_eq_downloading_full` / `active_le_cap_full`: the statements for every history of the code as it is.
  They are FALSE for the unchanged code (finding C17-F3): `active_drift_counterexample`,
  `cap_exceeded_counterexample`, `active_eq_downloading_full_false`, `active_le_cap_full_false`.
* `active_eq_downloading_partial` / `active_le_cap_partial`: they hold for the code as it is along every history in
  which no corrupt-piece verdict arrives for a source that has no downloader any more (`SafeRun`).
* `active_eq_downloading_repaired` / `active_le_cap_repaired`: they hold for EVERY history once the verdict handler
  gives the slot back only for a downloader it closed (`stepFixed`, the proposed repair).
* `slot_leak_blocks_all`: why a drift matters for C10 — with every slot leaked no source is ever started again.
-/
/-! NOTE (after the repair of finding C17-F3, rain commit b821f33): `stepFixed` / `runFixed` is now the code as it is
(the driver of suite `wsloop` replays with `runFixed`); `step` / `run` is the behaviour before the repair, kept for
the counterexample theorems (`…_full_false`, `active_drift_counterexample`). -/
namespace Rain.Props.C17Ws
open Rain.WsAcct

/-- The counter equals the number of sources that have a downloader, after every history of handler events, for
every number of sources and every configured maximum (no assumption on it). -/
def active_eq_downloading_full : Prop :=
  ∀ (n : Nat) (cap : Int) (es : List Ev),
    (run (init n cap) es).active = (countDl (run (init n cap) es).srcs : Int)

/-- The number of sources that download at the same time never exceeds the configured maximum. -/
def active_le_cap_full : Prop :=
  ∀ (n : Nat) (cap : Int), 0 ≤ cap → ∀ es : List Ev, (countDl (run (init n cap) es).srcs : Int) ≤ cap

/-- **active_eq_downloading (repaired handler), every history.** -/
theorem active_eq_downloading_repaired (n : Nat) (cap : Int) (es : List Ev) :
    (runFixed (init n cap) es).active = (countDl (runFixed (init n cap) es).srcs : Int) :=
  (runFixed_invA es _ (init_invA n cap)).1

/-- **active_le_cap (repaired handler), every history, every maximum `≥ 0`.** -/
theorem active_le_cap_repaired (n : Nat) (cap : Int) (hc : 0 ≤ cap) (es : List Ev) :
    (countDl (runFixed (init n cap) es).srcs : Int) ≤ (runFixed (init n cap) es).cap ∧
    (runFixed (init n cap) es).cap = cap := by
  refine ⟨(runFixed_inv es _ (init_inv n cap hc)).2, ?_⟩
  have hcap : ∀ (es : List Ev) (s : St), (runFixed s es).cap = s.cap := by
    intro es
    induction es with
    | nil => intro s; rfl
    | cons e es ih =>
      intro s
      simp only [runFixed, ih]
      have hsf : ∀ (s : St) (i : Nat) (p : Bool), (startFor s i p).1.cap = s.cap := by
        intro s i p; unfold startFor; split <;> try rfl
        split <;> try rfl
        split <;> rfl
      have hsl : ∀ (is : List Nat) (s : St) (k : Nat), (startLoop s is k).cap = s.cap := by
        intro is
        induction is with
        | nil => intro s k; rfl
        | cons i is ih2 =>
          intro s k
          unfold startLoop
          split
          · exact ih2 s k
          · split
            · split
              · rename_i s' heq
                rw [ih2 s' (k - 1)]
                have := hsf s i (decide (0 < k)); rw [heq] at this; exact this
              · rfl
            · exact ih2 s k
      have hsa : ∀ (s : St) (k : Nat), (startAll s k).cap = s.cap := by
        intro s k; unfold startAll; split
        · rfl
        · exact hsl _ s k
      cases e <;> simp only [stepFixed, step, closeAndRestart] <;> (try split) <;>
        simp only [hsa, hsf] <;> rfl
  exact hcap es _

/-- **active_eq_downloading (the code as it is), every safe history.** -/
theorem active_eq_downloading_partial (n : Nat) (cap : Int) (es : List Ev) (hs : SafeRun (init n cap) es) :
    (run (init n cap) es).active = (countDl (run (init n cap) es).srcs : Int) := by
  rw [run_eq_runFixed es _ hs]; exact active_eq_downloading_repaired n cap es

/-- **active_le_cap (the code as it is), every safe history.** -/
theorem active_le_cap_partial (n : Nat) (cap : Int) (hc : 0 ≤ cap) (es : List Ev) (hs : SafeRun (init n cap) es) :
    (countDl (run (init n cap) es).srcs : Int) ≤ cap := by
  rw [run_eq_runFixed es _ hs]
  have := active_le_cap_repaired n cap hc es
  omega

/-- Non-vacuity of the safe histories: 3 sources, maximum 2; start (two sources download), the first fails, the
third takes its slot, the first is retried while both slots are taken (nothing starts), a range ends and is
restarted, a peer closes a range, a corrupt piece disables a downloading source, stop.  The history is safe and the
maximum is reached on the way. -/
def sampleHistory : List Ev :=
  [.run true, .startAll 5, .wsError 0 5, .retry 0 true, .rangeEnd 1 true, .stopAtClosed 2 false,
   .startAll 1, .wsCorrupt 1 3, .stopAll]

example : SafeRun (init 3 2) sampleHistory := by decide
example : countDl (run (init 3 2) (sampleHistory.take 3)).srcs = 2 ∧
    (run (init 3 2) (sampleHistory.take 3)).active = 2 := by decide
example : (run (init 3 2) (sampleHistory.take 4)).srcs.map (·.dl) = [false, true, true] := by decide

/-- **Finding C17-F3 in the model (the minimal history of the unchanged code).**  One source, maximum 1, a torrent
whose last missing piece is the whole range: the source delivers that piece (`Done`), `handleWebseedPieceResult`
closes the downloader, gives the slot back (1 → 0) and finds no new range (the piece is being written); the hash
check fails and `handlePieceWriteDone` decrements again: the counter is −1 with no downloader. -/
theorem active_drift_counterexample :
    let s := run (init 1 1) [.run true, .startAll 1, .rangeEnd 0 false, .wsCorrupt 0 0]
    s.active = -1 ∧ countDl s.srcs = 0 := by decide

/-- … and what it means for the limit, as far as the bookkeeping goes: three sources, maximum 1.  After the drift
the counter admits a second download.  (In this model the picker's answers are unconstrained.  In the real torrent
the drift needs a moment in which no range can be started, so only the few missing pieces are left to be picked
right then — the limit is kept by that coincidence, not by the counter any more.) -/
theorem cap_exceeded_counterexample :
    let s := run (init 3 1) [.run true, .startAll 1, .rangeEnd 0 false, .wsCorrupt 0 2]
    countDl s.srcs = 2 ∧ s.cap = 1 ∧ s.active = 1 := by decide

theorem active_eq_downloading_full_false : ¬ active_eq_downloading_full := by
  intro h
  have := h 1 1 [.run true, .startAll 1, .rangeEnd 0 false, .wsCorrupt 0 0]
  revert this; decide

theorem active_le_cap_full_false : ¬ active_le_cap_full := by
  intro h
  have := h 3 1 (by decide) [.run true, .startAll 1, .rangeEnd 0 false, .wsCorrupt 0 2]
  revert this; decide

/-- The repaired handler on the same two histories. -/
example : (runFixed (init 1 1) [.run true, .startAll 1, .rangeEnd 0 false, .wsCorrupt 0 0]).active = 0 := by decide
example : countDl (runFixed (init 3 1) [.run true, .startAll 1, .rangeEnd 0 false, .wsCorrupt 0 2]).srcs = 1 := by
  decide

/-- **slot_leak_blocks_all** (why the balance matters for C10).  In a state whose counter has reached the maximum,
`startPieceDownloaderForWebseed` starts nothing, whatever the picker offers — so if slots leak (counter above the
number of downloaders) until the counter equals the maximum, no web seed is asked again by any handler that only
starts downloads. -/
theorem slot_leak_blocks_all (s : St) (h : s.cap ≤ s.active) (i : Nat) (pick : Bool) (k : Nat) :
    startFor s i pick = (s, false) ∧ startAll s k = s := by
  have hsf : ∀ j p, startFor s j p = (s, false) := by
    intro j p; unfold startFor; simp [h]
  refine ⟨hsf i pick, ?_⟩
  unfold startAll; split
  · rfl
  · have : ∀ is : List Nat, startLoop s is k = s := by
      intro is
      induction is with
      | nil => rfl
      | cons j is ih =>
        unfold startLoop
        split
        · exact ih
        · split
          · rw [hsf j]
          · exact ih
    exact this _

end Rain.Props.C17Ws
