import RainModel.Model.PieceDownloader
import RainModel.Model.PieceWriter
import RainModel.Model.WriteDone
import RainModel.Lemmas.PieceDownloader
import RainModel.Lemmas.PieceWriter
/-!
C01 — download integrity, package-level half: block assembly (`piecedownloader`), the hash gate
and section writes (`piecewriter`, `piece.VerifyHash`, `filesection.Piece.Write`), zeroed pool
buffers (`bufferpool`), the verifier's result logic, and the decision logic of
`handlePieceWriteDone` / `handleWebseedPieceResult` (`Model/WriteDone`).  Also `pd_pending_bound`
for C17.  Property theorems only; helper lemmas live in `Lemmas/`.

Every theorem about hashing holds for an arbitrary `H : Bytes → Hash`.
-/
namespace Rain.Props.C01
open Rain.Blocks

/-! ## bufferpool -/

/-- **bufferpool_get_zero.** Whatever a pooled backing array contained when it was put back,
`Get(n)` hands out `n` zero bytes (or panics when `n` exceeds the pool's buffer length). -/
theorem bufferpool_get_zero (backing : Rain.PW.Bytes) (n : Nat) (buf : Rain.PW.Bytes)
    (h : Rain.PW.poolGet backing n = some buf) : buf = List.replicate n 0 := by
  unfold Rain.PW.poolGet at h
  split at h
  · cases h
  · rename_i hlen
    cases h
    apply List.ext_getElem?
    intro i
    simp only [List.getElem?_map, List.getElem?_take, List.getElem?_replicate]
    by_cases hi : i < n
    · have : i < backing.length := by omega
      simp [hi, List.getElem?_eq_getElem this]
    · simp [hi]

example : Rain.PW.poolGet [0xEE, 0xEE, 7, 9] 3 = some [0, 0, 0] := by decide

/-! ## piecedownloader -/

section Downloader
open Rain.PD

/-- **pd_accept_iff.** For a downloader over the piece's computed blocks (`calculateBlocks`, any
block size) and a piece-sized buffer, in *any* bookkeeping state: `GotBlock(begin, data)` stores
the bytes **iff** `(begin, |data|)` is one of the piece's blocks and that block has not been
received yet.  When it stores, the buffer becomes `writeAt buf begin data` — the bytes
`[begin, begin+|data|)` are `data` and every other byte is unchanged — and the block is marked
received; when it does not, the state is unchanged.  The block table never changes. -/
theorem pd_accept_iff (bs : Nat) (hbs : 0 < bs) (secs : List Sec) (bl : List Block)
    (hbl : calcBlocks bs secs = some bl) (s : State) (hblocks : s.blocks = makeBlocks bl)
    (hbuf : s.buf.length = total secs) (b : Nat) (d : Bytes) :
    ((gotBlock s b d).2.stored = true ↔ ((⟨b, d.length⟩ : Block) ∈ bl ∧ b ∉ s.done)) ∧
    ((gotBlock s b d).2.stored = true →
        (gotBlock s b d).1.buf = writeAt s.buf b d ∧ b ∈ (gotBlock s b d).1.done ∧
        (∀ j, j < d.length → (gotBlock s b d).1.buf[b + j]? = d[j]?)) ∧
    ((gotBlock s b d).2.stored = false → (gotBlock s b d).1 = s) ∧
    (∀ i, (i < b ∨ b + d.length ≤ i) → (gotBlock s b d).1.buf[i]? = s.buf[i]?) ∧
    (gotBlock s b d).1.buf.length = s.buf.length ∧
    (gotBlock s b d).1.blocks = s.blocks := by
  have hw := calcBlocks_wf hbs hbl
  rcases gotBlock_cases hw s hblocks hbuf b d with
    ⟨hmem, hnd, hst, hb, hdone, hblk⟩ | ⟨hno, hst, hsame⟩
  · have hfit : b + d.length ≤ s.buf.length := by
      have := hw.within _ hmem
      simp only at this
      omega
    refine ⟨⟨fun _ => ⟨hmem, hnd⟩, fun _ => hst⟩, fun _ => ⟨hb, ?_, ?_⟩, ?_, ?_, ?_, hblk⟩
    · rw [hdone]; exact mem_setInsert.mpr (Or.inr rfl)
    · intro j hj; rw [hb]; exact writeAt_in hfit hj
    · intro hf; rw [hst] at hf; cases hf
    · intro i hi; rw [hb]; exact writeAt_out hfit hi
    · rw [hb]; exact writeAt_length hfit
  · refine ⟨⟨fun h => ?_, fun h => absurd h hno⟩, fun h => ?_, fun _ => hsame, ?_, ?_, ?_⟩
    · rw [hst] at h; cases h
    · rw [hst] at h; cases h
    · intro i _; rw [hsame]
    · rw [hsame]
    · rw [hsame]

/-- The model satisfies the executable predicate the check evaluates on the implementation's
`GotBlock` observations. -/
theorem pd_accept_oracle (bs : Nat) (hbs : 0 < bs) (secs : List Sec) (bl : List Block)
    (hbl : calcBlocks bs secs = some bl) (s : State) (hblocks : s.blocks = makeBlocks bl)
    (hbuf : s.buf.length = total secs) (b : Nat) (d : Bytes) :
    acceptOK bl s.done s.buf b d (gotBlock s b d).2.stored (gotBlock s b d).1.buf = true := by
  have hw := calcBlocks_wf hbs hbl
  unfold acceptOK
  rcases gotBlock_cases hw s hblocks hbuf b d with
    ⟨hmem, hnd, hst, hb, _, _⟩ | ⟨hno, hst, hsame⟩
  · have h1 : bl.any (fun x => x.b == b && x.l == d.length) = true := by
      rw [List.any_eq_true]
      exact ⟨_, hmem, by simp⟩
    have h2 : s.done.contains b = false := by simpa using hnd
    simp [h1, hst, hb, hnd]
  · have h3 : (bl.any (fun x => x.b == b && x.l == d.length) && !s.done.contains b) = false := by
      rw [Bool.and_eq_false_iff]
      by_cases hm : (⟨b, d.length⟩ : Block) ∈ bl
      · right
        have : b ∈ s.done := Classical.byContradiction fun hn => hno ⟨hm, hn⟩
        simp [this]
      · left
        rw [List.any_eq_false]
        intro x hx hc
        simp only [Bool.and_eq_true, beq_iff_eq] at hc
        apply hm
        cases x
        simp only at hc
        rw [← hc.1, ← hc.2]
        exact hx
    simp only [h3, hst, hsame]
    simp

/-- **pd_assembled.** Start a downloader on the piece's computed blocks with a zeroed,
piece-sized buffer (`bufferpool_get_zero`).  After EVERY sequence of calls (blocks that are
corrupt, duplicated, unrequested, out of range, truncated, in any order; chokes with any
iteration order; rejects; requests; cancels) that does not panic:

* the buffer equals `assembled`: on each block the data of the *first* call that named exactly
  that block, zero on blocks not yet received and on every byte outside the blocks (padding);
* `Done()` is true **iff** every block has been received. -/
theorem pd_assembled (bs : Nat) (hbs : 0 < bs) (secs : List Sec) (bl : List Block)
    (hbl : calcBlocks bs secs = some bl) (af : Bool) (ops : List Op) (s : State)
    (hrun : run (init bl af (List.replicate (total secs) 0)) ops = some s) :
    s.buf = assembled (total secs) bl ops ∧
    (isDone s = true ↔ ∀ b ∈ bl, (firstData ops b.b b.l).isSome) := by
  have hw := calcBlocks_wf hbs hbl
  have hi := inv_run hw ops [] _ s (inv_init hw af) hrun
  simp only [List.nil_append] at hi
  exact ⟨specBuf_unique hi.spec (assembled_spec hw ops), isDone_iff hw hi⟩

/-- **assembled_bytes.** What `assembled` is, byte by byte: piece-sized; on block `(b,l)` the
first data received for it (else zeros); zero on every byte no block covers. -/
theorem assembled_bytes (bs : Nat) (hbs : 0 < bs) (secs : List Sec) (bl : List Block)
    (hbl : calcBlocks bs secs = some bl) (ops : List Op) :
    (assembled (total secs) bl ops).length = total secs ∧
    (∀ b ∈ bl, ∀ j, j < b.l → (assembled (total secs) bl ops)[b.b + j]? =
      match firstData ops b.b b.l with
      | some d => d[j]?
      | none => some 0) ∧
    (∀ i, i < total secs → (∀ b ∈ bl, ¬ (b.b ≤ i ∧ i < b.b + b.l)) →
      (assembled (total secs) bl ops)[i]? = some 0) :=
  assembled_spec (calcBlocks_wf hbs hbl) ops

/-- **assembled_padding_zero.** The bytes no block covers are exactly the piece's padding bytes:
every padding byte of the assembled buffer is 0 (what a padding file contains), and every data
byte lies in exactly one block. -/
theorem assembled_padding_zero (bs : Nat) (hbs : 0 < bs) (secs : List Sec) (bl : List Block)
    (hbl : calcBlocks bs secs = some bl) (ops : List Op) :
    (∀ i : Nat, (secMask secs)[i]? = some false → (assembled (total secs) bl ops)[i]? = some 0) ∧
    (∀ i : Nat, (secMask secs)[i]? = some true →
      ∃ b ∈ bl, (b.b ≤ i ∧ i < b.b + b.l) ∧ ∀ b' ∈ bl, (b'.b ≤ i ∧ i < b'.b + b'.l) → b' = b) := by
  have hw := calcBlocks_wf hbs hbl
  constructor
  · intro i hi
    have hlt : i < total secs := by
      rw [← secMask_length]
      exact (List.getElem?_eq_some_iff.mp hi).1
    apply (assembled_spec hw ops).2.2 i hlt
    intro b hb hc
    have := (calcBlocks_mask_iff hbs hbl i).mpr ⟨b, hb, hc⟩
    rw [hi] at this
    cases this
  · intro i hi
    obtain ⟨b, hb, hc⟩ := (calcBlocks_mask_iff hbs hbl i).mp hi
    exact ⟨b, hb, hc, fun b' hb' hc' => hw.covers_unique hb' hb hc' hc⟩

/-- The data `firstData` returns for block `(b,l)` has length `l`. -/
theorem firstData_len (ops : List Op) (b l : Nat) (d : Bytes) (h : firstData ops b l = some d) :
    d.length = l := firstData_length h

/-- **pd_pending_bound** (for C17). After every sequence of calls, the number of in-flight
requests never exceeds the largest `queueLength` ever passed to `RequestBlocks` (and is 0 if none
was positive). -/
theorem pd_pending_bound (bl : List Block) (af : Bool) (buf : Bytes) (ops : List Op) (s : State)
    (hrun : run (init bl af buf) ops = some s) : (s.pending.length : Int) ≤ maxQ ops := by
  have := run_pending ops [] (init bl af buf) s (by simp [init, maxQ]) hrun
  simpa using this

/-- **pd_no_panic.** On the piece's computed blocks, no sequence of calls panics
(`"cannot get block"`), whatever order the runtime iterates `pending` in. -/
theorem pd_no_panic (bs : Nat) (hbs : 0 < bs) (secs : List Sec) (bl : List Block)
    (hbl : calcBlocks bs secs = some bl) (af : Bool) (buf : Bytes) (ops : List Op)
    (hadm : admissibleRun (init bl af buf) ops = true) :
    ∃ s, run (init bl af buf) ops = some s :=
  run_some (calcBlocks_wf hbs hbl) ops _ (inv2_init af buf) hadm

/-! Non-vacuity: a padded piece `[data 5][pad 2][data 3]`, block size 4 → blocks (0,4) (4,1) (7,3);
a history with an unrequested block, a wrong-length block, a duplicate, a choke re-queue, a
reject, and completion. -/
def exSecs : List Sec := [⟨5, false⟩, ⟨2, true⟩, ⟨3, false⟩]
def exBlocks : List Block := [⟨0, 4⟩, ⟨4, 1⟩, ⟨7, 3⟩]
def exOps : List Op := [
  .requestBlocks 2, .gotBlock 7 [7, 8, 9], .gotBlock 0 [1, 2, 3], .gotBlock 0 [1, 2, 3, 4],
  .gotBlock 0 [9, 9, 9, 9], .choked false [4], .rejected 4 1, .requestBlocks 5, .gotBlock 5 [6],
  .gotBlock 4 [5], .cancelPending, .done]

example : calcBlocks 4 exSecs = some exBlocks := by decide
example : admissibleRun (init exBlocks false (List.replicate 10 0)) exOps = true := by decide
-- (block 7 arrived unrequested; the repaired `RequestBlocks` drops it from `remaining` without entering it into
-- `pending` — before the fix for C10-F3 it stayed in `pending` for ever, see `Props/C10PD`)
example : (run (init exBlocks false (List.replicate 10 0)) exOps).map (fun s => (s.buf, isDone s, s.pending)) =
    some ([1, 2, 3, 4, 5, 0, 0, 7, 8, 9], true, []) := by decide
example : assembled 10 exBlocks exOps = [1, 2, 3, 4, 5, 0, 0, 7, 8, 9] := by decide
example : maxQ exOps = 5 := by decide

end Downloader

/-! ## piecewriter -/

section Writer
open Rain.PW

/-- **pw_gate.** For every hash function `H`, piece, buffer and storage failure pattern:

* `HashOK` **iff** `|buf| = piece.length ∧ H buf = piece.hash`;
* no `WriteAt` happens unless `HashOK` (and then no error is reported either);
* if `HashOK` and the sections sum to the piece length (C02 geometry): the cursor never leaves
  the buffer, the `WriteAt` calls made are a prefix of `sectionWrites`, and when no call fails
  they are exactly `sectionWrites` (see `pw_writes_cover` for what those are). -/
theorem pw_gate {Hash : Type} [DecidableEq Hash] (H : Bytes → Hash) (p : Piece Hash) (buf : Bytes)
    (failAt : Option Nat) :
    ((run H p buf failAt).hashOK = true ↔ (buf.length = p.length ∧ H buf = p.hash)) ∧
    ((run H p buf failAt).hashOK = false →
        (run H p buf failAt).writes = [] ∧ (run H p buf failAt).status = .ok) ∧
    ((run H p buf failAt).hashOK = true → p.length = totalLen p.secs →
        (run H p buf failAt).status ≠ .badGeometry ∧
        (run H p buf failAt).writes <+: sectionWrites p.secs 0 buf ∧
        ((run H p buf failAt).status = .ok → (run H p buf failAt).writes = sectionWrites p.secs 0 buf) ∧
        (failAt = none → (run H p buf failAt).status = .ok)) := by
  have hv : verifyHash H p buf = true ↔ (buf.length = p.length ∧ H buf = p.hash) := by
    unfold verifyHash
    by_cases hl : buf.length = p.length
    · simp [hl]
    · simp [hl]
  by_cases hok : verifyHash H p buf = true
  · have hrun : run H p buf failAt =
        { hashOK := true, status := (writeSecs failAt p.secs buf 0 []).1, writes := (writeSecs failAt p.secs buf 0 []).2 } := by
      unfold run; simp [hok]
    rw [hrun]
    refine ⟨⟨fun _ => hv.mp hok, fun _ => rfl⟩, fun h => by simp at h, fun _ hgeo => ?_⟩
    have hfit : 0 + totalLen p.secs ≤ buf.length := by
      have := (hv.mp hok).1
      omega
    obtain ⟨ws, h1, h2, h3, h4⟩ := writeSecs_prefix failAt p.secs buf 0 0 [] hfit
    simp only [List.drop_zero, List.reverse_nil, List.nil_append] at h1 h2 h3 h4
    refine ⟨h3, by rw [h1]; exact h2, fun hs => by rw [h1]; exact h4 hs, ?_⟩
    intro hnone
    subst hnone
    have := writeSecs_ok p.secs buf 0 0 [] hfit
    simp only [List.drop_zero] at this
    rw [this]
  · have hf : verifyHash H p buf = false := by simpa using hok
    have hrun : run H p buf failAt = { hashOK := false, status := .ok, writes := [] } := by
      unfold run; simp [hf]
    rw [hrun]
    refine ⟨⟨fun h => by simp at h, fun h => absurd (hv.mpr h) hok⟩, fun _ => ⟨rfl, rfl⟩, fun h => by simp at h⟩

/-- **pw_writes_cover.** What `sectionWrites` hands to storage, for a piece-sized buffer: one
`WriteAt` per non-padding section (none for a padding section), to that section's file and offset
and of that section's length; and the written bytes, concatenated, are exactly the buffer's bytes
at the non-padding positions, each once and in order — no padding byte, nothing outside the piece. -/
theorem pw_writes_cover (secs : List FSec) (buf : Bytes) (h : buf.length = totalLen secs) :
    (sectionWrites secs 0 buf).map (fun w => (w.file, w.off, w.data.length)) =
      (secs.filter (fun s => !s.pad)).map (fun s => (s.file, s.off, s.len)) ∧
    (sectionWrites secs 0 buf).flatMap (·.data) = keepMask (secMask (secs.map FSec.toSec)) buf ∧
    (secMask (secs.map FSec.toSec)).length = buf.length := by
  refine ⟨sectionWrites_targets secs buf 0 (by omega), ?_, ?_⟩
  · have := sectionWrites_data secs buf 0 (by omega)
    simpa using this
  · rw [secMask_length, ← totalLen_eq_total, h]

/-- The model satisfies the executable predicate the check evaluates on observed runs. -/
theorem pw_gate_oracle {Hash : Type} [DecidableEq Hash] (H : Bytes → Hash) (p : Piece Hash) (buf : Bytes)
    (failAt : Option Nat) (hgeo : p.length = totalLen p.secs) :
    gateOK p.secs buf (decide (buf.length = p.length ∧ H buf = p.hash)) (run H p buf failAt).hashOK
      ((run H p buf failAt).status == .error) (run H p buf failAt).writes = true := by
  obtain ⟨h1, h2, h3⟩ := pw_gate H p buf failAt
  unfold gateOK
  by_cases hm : buf.length = p.length ∧ H buf = p.hash
  · have hok := h1.mpr hm
    obtain ⟨hbad, hpre, hokw, _⟩ := h3 hok hgeo
    simp only [hm, and_self, decide_true, hok, beq_self_eq_true, Bool.true_or, Bool.true_and]
    cases hst : (run H p buf failAt).status with
    | ok => simp [hokw hst]
    | error =>
      obtain ⟨t, ht⟩ := hpre
      simp [← ht]
    | badGeometry => exact absurd hst hbad
  · have hno : (run H p buf failAt).hashOK = false := by
      cases hh : (run H p buf failAt).hashOK with
      | false => rfl
      | true => exact absurd (h1.mp hh) hm
    obtain ⟨hw, hs⟩ := h2 hno
    simp [hm, hno, hw, hs]

/-! Non-vacuity: `[file0@10 len 2][pad 3][file1@0 len 1]`, a hash that matches only `[1,2,0,0,0,6]`. -/
def exPiece : Rain.PW.Piece Nat :=
  { length := 6, secs := [⟨0, 10, 2, false⟩, ⟨9, 0, 3, true⟩, ⟨1, 0, 1, false⟩], hash := 42 }
def exH (b : Rain.PW.Bytes) : Nat := if b = [1, 2, 0, 0, 0, 6] then 42 else 0

example : Rain.PW.run exH exPiece [1, 2, 0, 0, 0, 6] none =
    { hashOK := true, status := .ok, writes := [⟨0, 10, [1, 2]⟩, ⟨1, 0, [6]⟩] } := by decide
example : Rain.PW.run exH exPiece [1, 2, 0, 0, 0, 7] none = { hashOK := false, status := .ok, writes := [] } := by decide
example : Rain.PW.run exH exPiece [1, 2, 0, 0, 0, 6] (some 1) =
    { hashOK := true, status := .error, writes := [⟨0, 10, [1, 2]⟩, ⟨1, 0, [6]⟩] } := by decide
example : Rain.PW.run exH exPiece [1, 2, 0, 0, 0, 6] (some 0) =
    { hashOK := true, status := .error, writes := [⟨0, 10, [1, 2]⟩] } := by decide

/-! ## verifier -/

/-- **verifier_bit_iff.** The verifier reports piece `i` as present only if the bytes it read for
`i` have the piece's length and hash; a read error sets `Error` and no bit from there on. -/
theorem verifier_bit_iff {Hash : Type} [DecidableEq Hash] (H : Bytes → Hash)
    (items : List (Piece Hash × Option Bytes)) :
    (verifyAll H items).1.length = items.length ∧
    ∀ i : Nat, (verifyAll H items).1[i]? = some true →
      ∃ (p : Piece Hash) (buf : Bytes), items[i]? = some (p, some buf) ∧ buf.length = p.length ∧ H buf = p.hash := by
  induction items with
  | nil => simp [verifyAll]
  | cons it rest ih =>
    obtain ⟨p, ob⟩ := it
    cases ob with
    | none =>
      simp only [verifyAll, List.length_replicate, List.length_cons, true_and]
      intro i hi
      rw [List.getElem?_replicate] at hi
      split at hi <;> simp at hi
    | some buf =>
      simp only [verifyAll, List.length_cons]
      refine ⟨by rw [ih.1], ?_⟩
      intro i hi
      cases i with
      | zero =>
        simp only [List.getElem?_cons_zero, Option.some.injEq] at hi
        refine ⟨p, buf, by simp, ?_⟩
        unfold verifyHash at hi
        by_cases hl : buf.length = p.length
        · simp [hl] at hi
          exact ⟨hl, hi⟩
        · simp [hl] at hi
      | succ i =>
        simp only [List.getElem?_cons_succ] at hi
        obtain ⟨p', buf', h1, h2⟩ := ih.2 i hi
        exact ⟨p', buf', by simpa using h1, h2⟩

end Writer

/-! ## `handlePieceWriteDone` / `handleWebseedPieceResult` decision logic -/

open Rain.WriteDone

/-- **bit_only_if_hash_ok.** The bit of the piece is set only when the hash matched, the write
succeeded and the bit was not already set; in that case the piece is also marked `Done`. -/
theorem bit_only_if_hash_ok (i : In) (h : Effect.setBit ∈ writeDone i) :
    i.hashOK = true ∧ i.writeError = false ∧ i.bitBefore = false ∧ Effect.markDone ∈ writeDone i := by
  cases hh : i.hashOK <;> cases he : i.writeError <;> cases hb : i.bitBefore <;>
    simp_all [writeDone, prologue, completionTail] <;>
    (cases hs : i.source <;> simp_all)

/-- **done_only_if_hash_ok.** `Piece.Done` is set only after a matching hash and a successful write. -/
theorem done_only_if_hash_ok (i : In) (h : Effect.markDone ∈ writeDone i) :
    i.hashOK = true ∧ i.writeError = false := by
  cases hh : i.hashOK <;> cases he : i.writeError <;>
    simp_all [writeDone, prologue] <;>
    (cases hs : i.source <;> simp_all)

/-- **report_only_after_bit.** A `Have` is sent, completion is declared, or the bitfield is
persisted only in a run of the handler that set the bit (hence hash matched and write succeeded),
and the bit is set *before* those effects. -/
theorem report_only_after_bit (i : In) (n : Nat) :
    (Effect.sendHave n ∈ writeDone i → before .setBit (.sendHave n) (writeDone i) = true) ∧
    (Effect.complete ∈ writeDone i → before .setBit .complete (writeDone i) = true) ∧
    (Effect.persistBitfield ∈ writeDone i → before .setBit .persistBitfield (writeDone i) = true) := by
  cases hh : i.hashOK <;> cases he : i.writeError <;> cases hb : i.bitBefore <;>
    simp [writeDone, prologue, completionTail, before, hh, he, hb] <;>
    (cases hs : i.source <;> simp) <;>
    (cases hp : i.picker <;> cases hc : i.completedBefore <;> cases ha : i.allAfter <;>
      cases hf : i.persistFails <;> cases hsd : i.stopAfterDownload <;>
      cases hw : i.webseedRequested <;> cases hx : i.webseedStopClosed <;> simp [before])

/-- **hash_fail_punished.** On a hash mismatch nothing is recorded or announced, and the source is
dropped: a peer is closed and its IP banned; a web seed is disabled and its slot freed. -/
theorem hash_fail_punished (i : In) (h : i.hashOK = false) :
    Effect.setBit ∉ writeDone i ∧ Effect.markDone ∉ writeDone i ∧ (∀ n, Effect.sendHave n ∉ writeDone i) ∧
    Effect.persistBitfield ∉ writeDone i ∧ Effect.complete ∉ writeDone i ∧
    (i.source = .peer → Effect.closePeer ∈ writeDone i ∧ Effect.banIP ∈ writeDone i) ∧
    (i.source = .webseed → Effect.disableSource ∈ writeDone i ∧ Effect.decWebseedActive ∈ writeDone i) := by
  cases hs : i.source <;> simp [writeDone, prologue, h, hs]

/-- **write_done_prologue.** Every run of the handler first clears `Writing`, resumes both
suspended channels and releases the buffer — also on hash failure and on write error. -/
theorem write_done_prologue (i : In) : prologue <+: writeDone i := by
  unfold writeDone
  exact List.prefix_append _ _

/-- **write_done_crash_iff.** The handler crashes exactly on an unknown source type with a bad
hash, or when the bit of a successfully written piece is already set. -/
theorem write_done_crash_iff (i : In) :
    (∃ w, Effect.crash w ∈ writeDone i) ↔
      ((i.hashOK = false ∧ i.source = .other) ∨ (i.hashOK = true ∧ i.writeError = false ∧ i.bitBefore = true)) := by
  cases hh : i.hashOK <;> cases he : i.writeError <;> cases hb : i.bitBefore <;> cases hs : i.source <;>
    simp [writeDone, prologue, completionTail, hh, he, hb, hs] <;>
    (cases hp : i.picker <;> cases hc : i.completedBefore <;> cases ha : i.allAfter <;>
      cases hf : i.persistFails <;> cases hsd : i.stopAfterDownload <;>
      cases hw : i.webseedRequested <;> cases hx : i.webseedStopClosed <;> simp)

/-- **ws_stale_discarded.** A web-seed result for a piece that is already `Done` never reaches
the writer, never sets `Writing`, and never crashes; its buffer is released. -/
theorem ws_stale_discarded (i : WsIn) (he : i.error = false) (hd : i.pieceDone = true) :
    WsEffect.startWriter ∉ webseedResult i ∧ WsEffect.setWriting ∉ webseedResult i ∧
    (∀ w, WsEffect.crash w ∉ webseedResult i) ∧ WsEffect.releaseBuffer ∈ webseedResult i := by
  cases hm : i.msgDone <;> cases hc : i.downloaderCurrent <;> simp [webseedResult, he, hd, hm, hc]

/-- **ws_writer_guarded.** A writer is started for a web-seed result only if the result carries no
error and the piece is neither `Done` nor `Writing`; `Writing` is then set and both result channels
are suspended before the writer starts (one write at a time). -/
theorem ws_writer_guarded (i : WsIn) (h : WsEffect.startWriter ∈ webseedResult i) :
    i.error = false ∧ i.pieceDone = false ∧ i.pieceWriting = false ∧
    [WsEffect.setWriting, .suspendPieceMessages, .suspendWebseedResults, .startWriter] <:+: webseedResult i := by
  cases he : i.error <;> cases hd : i.pieceDone <;> cases hw : i.pieceWriting <;>
    cases hm : i.msgDone <;> cases hk : i.sourceKnown <;> cases hc : i.downloaderCurrent <;>
    simp_all [webseedResult] <;>
    first
      | exact ⟨[.countDownloaded], [], rfl⟩
      | exact ⟨[.countDownloaded], [.closeDownloader, .decWebseedActive, .restartSource], rfl⟩

/-! Non-vacuity for the handler logic. -/
def exGood : In :=
  { hashOK := true, writeError := false, source := .peer, bitBefore := false, picker := true,
    webseedRequested := true, webseedStopClosed := true, otherDownloaders := 2, peers := 3, peersLacking := 2,
    completedBefore := false, allAfter := true, persistFails := false, stopAfterDownload := false }
def exBad : In := { exGood with hashOK := false }
def exStale : WsIn :=
  { error := false, pieceDone := true, pieceWriting := false, msgDone := true, downloaderCurrent := true,
    sourceKnown := true }

example : writeDone exGood =
  [.clearWriting, .resumePieceMessages, .resumeWebseedResults, .releaseBuffer, .markDone, .setBit,
   .webseedStopAt, .decWebseedActive, .restartWebseed, .cancelOthers 2, .updateInterest 3, .sendHave 2, .complete,
   .persistBitfield] := by decide
example : writeDone exBad =
  [.clearWriting, .resumePieceMessages, .resumeWebseedResults, .releaseBuffer, .addWasted, .closePeer, .banIP,
   .startPieceDownloaders] := by decide
example : webseedResult exStale =
  [.addWasted, .releaseBuffer, .closeDownloader, .decWebseedActive, .restartSource] := by decide
example : webseedResult { exStale with pieceDone := false } =
  [.countDownloaded, .setWriting, .suspendPieceMessages, .suspendWebseedResults, .startWriter,
   .closeDownloader, .decWebseedActive, .restartSource] := by decide

end Rain.Props.C01
