import RainModel.Model.STree
import RainModel.Model.Blocklist
import RainModel.Lemmas.STree
import RainModel.Lemmas.Blocklist
import RainModel.Model.AddrList
import RainModel.Lemmas.AddrList
import RainModel.Model.Admission
import RainModel.Lemmas.Admission
/-!
C18 — blocklist semantics are exact and filtered addresses are never contacted.
Property theorems only; helper lemmas live in `Lemmas/`.
-/
namespace Rain.Props.C18
open Rain.STree Rain.Blocklist

/-! ## Blocklist -/

/-- **cidr_range.** For every address `ip`, every prefix length `/0 … /32` and every query
address `v` (32-bit values): `v` lies in the closed range `[first,last]` that `parseCIDR`
computes (`first = ip & mask`, `last = first | ^mask`) exactly when `v & mask = first`, i.e.
exactly when `v` is in the CIDR network. -/
theorem cidr_range (ip p v : Nat) (hip : ip < 2 ^ 32) (hp : p ≤ 32) (hv : v < 2 ^ 32) :
    ((rangeOf ip p).first ≤ v ∧ v ≤ (rangeOf ip p).last) ↔ v &&& cidrMask p = (rangeOf ip p).first := by
  obtain ⟨hf, hl⟩ := rangeOf_eq ip p hip hp
  rw [hf, hl, and_cidrMask v p hv hp]
  have hM : 0 < 2 ^ (32 - p) := Nat.pow_pos (by decide)
  generalize 2 ^ (32 - p) = M at hM ⊢
  generalize ip / M = q
  constructor
  · rintro ⟨h1, h2⟩
    have : v / M = q := Nat.div_eq_of_lt_le (by omega) (by rw [Nat.add_mul]; omega)
    rw [this]
  · intro h
    have hq : v / M = q := Nat.eq_of_mul_eq_mul_right hM h
    have h1 := Nat.div_add_mod v M
    have h2 := Nat.mod_lt v hM
    rw [hq, Nat.mul_comm] at h1
    omega

/-- Non-vacuity of `cidr_range`: `10.1.2.3/20` is `[10.1.0.0, 10.1.15.255]`, and `/0`, `/32`. -/
example : rangeOf 0x0A010203 20 = ⟨0x0A010000, 0x0A010FFF⟩ := by decide
example : rangeOf 0x0A010203 0 = ⟨0, 0xFFFFFFFF⟩ := by decide
example : rangeOf 0x0A010203 32 = ⟨0x0A010203, 0x0A010203⟩ := by decide

/-- **stree_contains_iff** (the key theorem).  For EVERY list of closed ranges — overlapping,
nested, adjacent, duplicated, inverted, in any order — building the segment tree never
panics, and the stabbing query `Contains v` is true exactly when `v` lies in at least one of
the ranges. -/
theorem stree_contains_iff (ranges : List (Nat × Nat)) :
    ∃ t, ofRanges ranges = some t ∧
      ∀ v, t.contains v = true ↔ ∃ r ∈ ranges, r.1 ≤ v ∧ v ≤ r.2 :=
  ofRanges_contains ranges

/-- The same with the executable linear scan the check uses as its oracle. -/
theorem stree_contains_eq_linear (ranges : List (Nat × Nat)) :
    ∃ t, ofRanges ranges = some t ∧ ∀ v, t.contains v = linearContains ranges v := by
  obtain ⟨t, ht, h⟩ := stree_contains_iff ranges
  refine ⟨t, ht, fun v => ?_⟩
  have hl : linearContains ranges v = true ↔ ∃ r ∈ ranges, r.1 ≤ v ∧ v ≤ r.2 := by
    simp [linearContains]
  rw [Bool.eq_iff_iff, h v, hl]

/-- Non-vacuity: overlapping, nested, adjacent and duplicate ranges; endpoints and neighbours. -/
example : (ofRanges [(10, 20), (15, 30), (12, 13), (31, 40), (10, 20), (50, 50)]).map
    (fun t => [9, 10, 20, 21, 30, 31, 40, 41, 49, 50, 51].map t.contains) =
    some [false, true, true, true, true, true, true, false, false, true, false] := by decide

/-- **load_semantics.** For every previous state and every blocklist text:
* a line that does not fit the scanner buffer makes `Reload` fail and leaves the list unchanged;
* so does a text without a single valid rule but with at least one malformed rule line
  ("no valid rules");
* otherwise `Reload` succeeds, returns the number of well-formed rule lines (blank lines and
  `#` comments are ignored, malformed lines are skipped), **replaces** the previous rules, and
  afterwards `Blocked` answers exactly like a linear scan over the ranges of the new text —
  the previous state has no influence;
* an address without IPv4 form is never blocked. -/
theorem load_semantics (b : Blocklist) (text : Bytes) :
    (tooLong text = true → b.reload text = (b, .err .tooLong)) ∧
    (tooLong text = false → rulesOf text = [] → hasMalformed text = true →
      b.reload text = (b, .err .noValidRules)) ∧
    (tooLong text = false → (rulesOf text ≠ [] ∨ hasMalformed text = false) →
      ∃ b', b.reload text = (b', .ok (rulesOf text).length) ∧ b'.count = (rulesOf text).length ∧
        ∀ v, b'.blocked (some v) = inRules (rulesOf text) v) ∧
    (∀ b' : Blocklist, b'.blocked none = false) := by
  have hfold := loadLine_fold (scan (rawLines text)).1 {}
  obtain ⟨hn, he, ht⟩ := hfold
  have hn' : ((scan (rawLines text)).1.foldl loadLine {}).n = (rulesOf text).length := by
    rw [hn]; simp [rulesOf, ruleLines]
  have he' : ((scan (rawLines text)).1.foldl loadLine {}).hasError = hasMalformed text := by
    rw [he]; simp [hasMalformed, ruleLines]
  refine ⟨?_, ?_, ?_, fun _ => rfl⟩
  · intro h
    unfold Blocklist.reload load
    unfold tooLong at h
    simp [h]
  · intro h hr hm
    unfold Blocklist.reload load
    unfold tooLong at h
    simp only [h]
    rw [hn', he', hr, hm]
    simp
  · intro h hor
    unfold tooLong at h
    obtain ⟨t, hb, hc⟩ := stree_contains_eq_linear ((rulesOf text).map fun r => (r.first, r.last))
    have htree : ((scan (rawLines text)).1.foldl loadLine {}).tree.build = some t := by
      rw [ht, ← hb]
      unfold ofRanges
      rw [List.foldl_map]
      rfl
    have hcond : ¬ (((scan (rawLines text)).1.foldl loadLine {}).n = 0 ∧
        ((scan (rawLines text)).1.foldl loadLine {}).hasError = true) := by
      rw [hn', he']
      rintro ⟨h0, hm⟩
      rcases hor with hor | hor
      · exact hor (List.length_eq_zero_iff.1 h0)
      · rw [hor] at hm; cases hm
    refine ⟨{ tree := t, count := (rulesOf text).length }, ?_, rfl, ?_⟩
    · unfold Blocklist.reload load
      simp only [h]
      rw [if_neg (by simp), if_neg hcond, htree, hn']
    · intro v
      simp only [Blocklist.blocked]
      rw [hc v]
      simp [linearContains, inRules, List.any_map]
      rfl

/-- Non-vacuity of `load_semantics`: comments, blanks, CRLF, a malformed line, nested rules. -/
example :
    -- "# list\n\n 10.0.0.0/8 \r\n10.1.0.0/16\nfoo\n1.2.3.4/32"
    let text : Bytes := [35, 32, 108, 105, 115, 116, 10, 10, 32, 49, 48, 46, 48, 46, 48, 46, 48, 47, 56, 32, 13, 10, 49, 48, 46, 49, 46, 48, 46, 48, 47, 49, 54, 10, 102, 111, 111, 10, 49, 46, 50, 46, 51, 46, 52, 47, 51, 50]
    rulesOf text = [⟨0x0A000000, 0x0AFFFFFF⟩, ⟨0x0A010000, 0x0A01FFFF⟩, ⟨0x01020304, 0x01020304⟩]
      ∧ hasMalformed text = true ∧ tooLong text = false := by decide

/-- "No valid rules": only malformed lines. -/
example :
    -- "foo\n1.2.3.4\n"
    (({} : Blocklist).reload [102, 111, 111, 10, 49, 46, 50, 46, 51, 46, 52, 10]).2 = .err .noValidRules := by
  decide

/-! ## The candidate queue (`addrlist`) -/

section AddrList
open Rain.AddrList

/-- States of an `AddrList` created with `maxItems = max`, after any finite history of
`Push` (any addresses, any source, any clock value, any resolution `choose` of the unstable
sort that is a sort, any client IP / listen port / blocklist at that moment), `Pop` and `Reset`.
`ok` is any predicate implied by the filters of every push of the history. -/
inductive Reach (max : Nat) (ok : Nat → Nat → Prop) : St → Prop
  | init : Reach max ok {}
  | push {s s' : St} {env : Env} {choose : List PA → List PA} {addrs : List Cand} {src now : Nat} :
      Reach max ok s → env.maxItems = max → (∀ l, Admissible l (choose l)) →
      (∀ a, filtered env a = false → ok a.ip a.port) →
      push env choose s addrs src now = .ok s' → Reach max ok s'
  | pop {s s' : St} {r : Option PA} : Reach max ok s → pop s = .ok (r, s') → Reach max ok s'
  | reset {s : St} : Reach max ok s → Reach max ok (reset s)

/-- What holds between operations. -/
structure Good (max : Nat) (s : St) : Prop where
  inv : Inv s
  counts : Counts s (fun _ => 0)
  bound : s.tree.length ≤ max
  slots : s.byTime.length ≤ max

/-- One `Push` from a good state: it does not panic (in particular the assertion
"addr list data structures not in sync", the nil dereference and the index expressions of
`removeExcessItems` are unreachable), the result is good again, and every entry it holds is an
old entry or an address of this call that passed the filters. -/
theorem push_good {max : Nat} {s : St} (hg : Good max s) (env : Env) (hmax : env.maxItems = max)
    (choose : List PA → List PA) (hch : ∀ l, Admissible l (choose l)) (addrs : List Cand) (src now : Nat) :
    ∃ s', push env choose s addrs src now = .ok s' ∧ Good max s' ∧ s'.byTime.length = s'.tree.length ∧
      ∀ q ∈ s'.entries, (∃ q0 ∈ s.entries, SameCore q q0) ∨
        ∃ a ∈ addrs, filtered env a = false ∧ q.ip = a.ip ∧ q.port = a.port ∧ q.prio = a.prio ∧
          q.src = src ∧ q.stamp = now := by
  have hC0 : Counts s (off src 0) := by
    intro x; have := hg.counts x; simp only [off] at this ⊢; split <;> simpa using this
  obtain ⟨s1, added, h1, hI1, hC1, ho1⟩ := pushLoop_inv env src now addrs s 0 hg.inv hC0
  obtain ⟨s3, h3, hI3, hC3, hb3, hl3, ho3⟩ :=
    pushFinish_spec env src s1 added (choose (filterNils s1.byTime)) hI1 hC1 (hch _)
  refine ⟨s3, ?_, ⟨hI3, hC3, by omega, by omega⟩, hl3, ?_⟩
  · simp only [push, h1, h3]
  · intro q hq
    obtain ⟨q0, hq0, hc⟩ := ho3 q hq
    rcases ho1 q0 hq0 with h | ⟨a, ha, hf, e1, e2, e3, e4, e5⟩
    · exact Or.inl ⟨q0, h, hc⟩
    · obtain ⟨c1, c2, c3, c4, c5⟩ := hc
      exact Or.inr ⟨a, ha, hf, c1.trans e1, c2.trans e2, c4.trans e3, c3.trans e4, c5.trans e5⟩

theorem pop_good {max : Nat} {s : St} (hg : Good max s) :
    ∃ r s', pop s = .ok (r, s') ∧ Good max s' ∧
      (r = none → s.tree = [] ∧ s' = s) ∧
      (∀ p, r = some p → p ∈ s.entries ∧ (∀ q ∈ s.entries, q.prio ≤ p.prio) ∧
        (∀ q, q ∈ s'.entries ↔ q ∈ s.entries ∧ q ≠ p) ∧ s'.len + 1 = s.len) := by
  obtain ⟨r, s', h, hI, hC, hn, hs⟩ := pop_spec s hg.inv hg.counts
  refine ⟨r, s', h, ?_, hn, hs⟩
  cases r with
  | none =>
    obtain ⟨_, e⟩ := hn rfl
    rw [e]; exact hg
  | some p =>
    obtain ⟨_, _, _, hlen⟩ := hs p rfl
    refine ⟨hI, hC, by have := hg.bound; omega, ?_⟩
    -- `Pop` only overwrites a slot
    unfold AddrList.pop at h
    split at h
    · cases h
    · split at h
      · cases h
      · split at h
        · cases h
          simpa using hg.slots
        · cases h

theorem reach_good {max : Nat} {ok : Nat → Nat → Prop} {s : St} (h : Reach max ok s) :
    Good max s ∧ ∀ q ∈ s.entries, ok q.ip q.port := by
  induction h with
  | init =>
    exact ⟨⟨inv_empty, counts_empty, Nat.zero_le _, Nat.zero_le _⟩, fun q hq => by simp [St.entries] at hq⟩
  | @push s s' env choose addrs src now _ hmax hch hok hp ih =>
    obtain ⟨s'', h1, hg, _, ho⟩ := push_good ih.1 env hmax choose hch addrs src now
    rw [hp] at h1
    cases h1
    refine ⟨hg, ?_⟩
    intro q hq
    rcases ho q hq with ⟨q0, hq0, hc⟩ | ⟨a, _, hf, e1, e2, _⟩
    · have := ih.2 q0 hq0
      rw [hc.1, hc.2.1]; exact this
    · rw [e1, e2]; exact hok a hf
  | @pop s s' r _ hp ih =>
    obtain ⟨r', s'', h1, hg, _, hs⟩ := pop_good ih.1
    rw [hp] at h1
    cases h1
    refine ⟨hg, ?_⟩
    intro q hq
    cases r with
    | none =>
      unfold AddrList.pop at hp
      split at hp
      · cases hp; exact ih.2 q hq
      · split at hp
        · cases hp
        · split at hp <;> cases hp
    | some p => exact ih.2 q (((hs p rfl).2.2.1 q).1 hq).1
  | reset _ _ =>
    exact ⟨⟨inv_empty, counts_empty, Nat.zero_le _, Nat.zero_le _⟩, fun q hq => by simp [AddrList.reset, St.entries] at hq⟩

/-- **addr_priority_set.** After every history of pushes, pops and resets the queue is a
bounded priority set, and the next operation behaves like one:
* never more than `max` entries, no two entries of equal priority, `Len()` is the number of
  entries, `LenSource` counts exactly, the btree and `peerByTime` hold the same objects with
  correct `index` fields (`Inv`);
* the next `Push` — whatever addresses, clock, and admissible sort result — does not panic:
  the Go assertion "addr list data structures not in sync" is unreachable;
* the next `Pop` returns nil exactly when the queue is empty, and otherwise removes and returns
  an entry of maximal priority, leaving all others. -/
theorem addr_priority_set {max : Nat} {ok : Nat → Nat → Prop} {s : St} (h : Reach max ok s) :
    (s.len ≤ max ∧ (s.entries.map (·.prio)).Nodup ∧ s.len = s.entries.length ∧ Inv s ∧
      ∀ x, s.counts x = cnt s.entries x) ∧
    (∀ (env : Env) (choose : List PA → List PA) (addrs : List Cand) (src now : Nat),
      env.maxItems = max → (∀ l, Admissible l (choose l)) →
      ∃ s', push env choose s addrs src now = .ok s' ∧ s'.byTime.length = s'.tree.length) ∧
    (∃ r s', pop s = .ok (r, s') ∧ (r = none ↔ s.len = 0) ∧
      ∀ p, r = some p → p ∈ s.entries ∧ (∀ q ∈ s.entries, q.prio ≤ p.prio) ∧
        (∀ q, q ∈ s'.entries ↔ q ∈ s.entries ∧ q ≠ p) ∧ s'.len + 1 = s.len) := by
  obtain ⟨hg, _⟩ := reach_good h
  refine ⟨⟨hg.bound, hg.inv.nodup, len_eq_of hg.inv.sorted hg.inv.mem hg.inv.nodup, hg.inv, ?_⟩, ?_, ?_⟩
  · intro x; have := hg.counts x; simpa using this
  · intro env choose addrs src now hmax hch
    obtain ⟨s', h1, _, h3, _⟩ := push_good hg env hmax choose hch addrs src now
    exact ⟨s', h1, h3⟩
  · obtain ⟨r, s', h1, _, hn, hs⟩ := pop_good hg
    refine ⟨r, s', h1, ?_, hs⟩
    constructor
    · intro e; have := (hn e).1; simp [St.len, this]
    · intro e
      cases r with
      | none => rfl
      | some p =>
        have := (hs p rfl).2.2.2
        omega

/-- **addr_bound** (used by C17): the number of queued candidate addresses, and the length of
`peerByTime` including nil slots, never exceed `MaxPeerAddresses`, whatever is pushed. -/
theorem addr_bound {max : Nat} {ok : Nat → Nat → Prop} {s : St} (h : Reach max ok s) :
    s.len ≤ max ∧ s.byTime.length ≤ max :=
  ⟨(reach_good h).1.bound, (reach_good h).1.slots⟩

/-- What `filtered` tests, spelled out. -/
theorem filtered_false_iff (env : Env) (a : Cand) :
    filtered env a = false ↔
      a.port ≠ 0 ∧ ¬ (isLoopback a.ip = true ∧ a.port = env.listenPort) ∧ env.clientIP ≠ some a.ip ∧
      a.ip ∉ env.external ∧ env.blocked a.ip = false := by
  unfold filtered
  by_cases h1 : a.port = 0
  · simp [h1]
  · by_cases h2 : isLoopback a.ip = true ∧ a.port = env.listenPort
    · simp [h2]
    · by_cases h3 : env.clientIP = some a.ip
      · simp [h1, h2, h3]
      · by_cases h4 : env.external.contains a.ip = true
        · have : a.ip ∈ env.external := by simpa using h4
          simp [h1, h2, h3, this]
        · have : a.ip ∉ env.external := by simpa using h4
          cases h5 : env.blocked a.ip <;> simp [h1, h2, h3, this]

/-- **push_filters.** Whatever the history, an address held by the queue (hence any address
`Pop` can ever return) has port ≠ 0 and, at the time it was pushed, was not the client's own
listening address, not the client's external IP, not an interface address, and not blocked by
the blocklist given to the list; nothing else enters the queue. `ok` is instantiated with any
property all those push-time filters imply — e.g. "port ≠ 0", or "not in blocklist B" when the
blocklist does not change during the history. -/
theorem push_filters {max : Nat} {ok : Nat → Nat → Prop} {s : St} (h : Reach max ok s) :
    (∀ q ∈ s.entries, ok q.ip q.port) ∧
    (∀ r s', pop s = .ok (some r, s') → ok r.ip r.port) := by
  obtain ⟨hg, hok⟩ := reach_good h
  refine ⟨hok, ?_⟩
  intro r s' hp
  obtain ⟨r', s'', h1, _, _, hs⟩ := pop_good hg
  rw [hp] at h1
  cases h1
  exact hok r (hs r rfl).1

/-- The hypothesis "`choose` is a sort" of `Reach.push` is satisfiable: the stable insertion sort
by time stamp is admissible. -/
theorem choose_nonvacuous : ∀ l, Admissible l (stableSort l) := stableSort_admissible

/-- Instance: no queued address ever has port 0, in any history. -/
theorem queue_port_ne_zero {max : Nat} {s : St} (h : Reach max (fun _ port => port ≠ 0) s) :
    ∀ q ∈ s.entries, q.port ≠ 0 := (push_filters h).1

/-- Non-vacuity: max 2; three pushes (one filtered: port 0; one replacing an equal priority),
eviction of the oldest, then `Pop` returns the maximal priority. -/
example :
    let env : Env := ⟨2, 6881, some 1, [], fun ip => ip = 66⟩
    let s1 := push env stableSort {} [⟨10, 80, 5⟩, ⟨11, 0, 9⟩, ⟨66, 80, 7⟩] 0 1
    let s2 := s1.bind fun s => push env stableSort s [⟨12, 80, 3⟩, ⟨13, 81, 5⟩] 1 2
    let s3 := s2.bind fun s => push env stableSort s [⟨14, 80, 4⟩] 2 3
    (s3.toOption.map fun s => s.entries.map fun p => (p.ip, p.prio, p.stamp, p.index)) =
        some [(12, 3, 2, 0), (14, 4, 3, 1)] ∧
    ((s3.bind pop).toOption.map fun r => r.1.map (·.ip)) = some (some 14) := by decide

end AddrList

/-! ## Dial and accept decisions of package `torrent` -/

section Admission
open Rain.AddrList Rain.Admission

/-- The repaired decision code: `dialAddresses` consults `bannedPeerIPs` and re-checks the blocklist. -/
def fixedCfg (maxDial maxAccept : Nat) (blIn blOut : Bool) : Cfg := ⟨maxDial, maxAccept, blIn, blOut, true, true⟩

/-- **dial_admission.** For every state whose candidate queue is a reachable `AddrList` state,
`dialAddresses()` terminates without panic and every address it hands to an outgoing handshaker
* was taken from the queue (so, by `push_filters`, has port ≠ 0, is not the client's own address and
  was not blocked when it was pushed),
* has an IP that was not in `connectedPeerIPs` (connected or connecting), and no IP is dialled twice,
* (repaired code, `checkBan`) has an IP that is not in `bannedPeerIPs`,
* (repaired code, `recheckBlocklist`) is not blocked by the list loaded *now*, when the blocklist is
  enabled for outgoing connections;
every dialled IP is recorded in `connectedPeerIPs`, and the number of outgoing connections does not
exceed `MaxPeerDial` if it did not before.  Nothing is dialled for a completed torrent. -/
theorem dial_admission (cfg : Cfg) (blocked : Nat → Bool) {max : Nat} {ok : Nat → Nat → Prop}
    (s : State) (hq : Reach max ok s.queue) :
    ∃ s' dialled, dialAddresses cfg blocked s = .ok (s', dialled) ∧
      (s.completed = true → dialled = []) ∧
      (∀ a ∈ dialled, (∃ q ∈ s.queue.entries, q.ip = a.1 ∧ q.port = a.2) ∧ ok a.1 a.2 ∧
        a.1 ∉ s.connected ∧ a.1 ∈ s'.connected ∧
        (cfg.checkBan = true → a.1 ∉ s.banned) ∧
        (cfg.recheckBlocklist = true → cfg.blOutgoing = true → blocked a.1 = false)) ∧
      (dialled.map (·.1)).Nodup ∧
      (s.outgoing.length ≤ cfg.maxPeerDial → s'.outgoing.length ≤ cfg.maxPeerDial) ∧
      s'.banned = s.banned := by
  obtain ⟨hg, hok⟩ := reach_good hq
  unfold dialAddresses
  by_cases hc : s.completed = true
  · rw [if_pos hc]
    exact ⟨s, [], rfl, fun _ => rfl, by simp, by simp, fun h => h, rfl⟩
  · rw [if_neg hc]
    obtain ⟨s', new, h1, _, h3, h4, _, h6, h7, _, h9⟩ :=
      dialLoop_spec cfg blocked max (s.queue.len + 1) s [] ⟨hg.inv, hg.counts, hg.bound⟩ (Nat.lt_succ_self _)
    simp only [List.nil_append] at h1
    refine ⟨s', new, h1, fun h => absurd h hc, ?_, h7, h9, h3⟩
    intro a ha
    obtain ⟨⟨q, hq', e1, e2⟩, r2, r3, r4⟩ := h6 a ha
    refine ⟨⟨q, hq', e1, e2⟩, ?_, r2, ?_, r3, r4⟩
    · rw [← e1, ← e2]; exact hok q hq'
    · exact (h4 a.1).2 (Or.inr (List.mem_map.2 ⟨a, ha, rfl⟩))

/-- **accept_admission.** `handleNewConnection` starts an incoming handshake exactly when the accept
limit is not reached, the remote IP is not blocked (when the blocklist is enabled for incoming
connections), not already connected or connecting, and not banned; then the IP is recorded in
`connectedPeerIPs` and the incoming count stays ≤ `MaxPeerAccept`; otherwise nothing changes. -/
theorem accept_admission (cfg : Cfg) (blocked : Nat → Bool) (s : State) (ip : Nat) :
    ((handleNewConnection cfg blocked s ip).2 = .accept ↔
      s.incoming.length < cfg.maxPeerAccept ∧ ¬ (cfg.blIncoming = true ∧ blocked ip = true) ∧
      ip ∉ s.connected ∧ ip ∉ s.banned) ∧
    ((handleNewConnection cfg blocked s ip).2 = .accept →
      ip ∈ (handleNewConnection cfg blocked s ip).1.connected ∧
      (handleNewConnection cfg blocked s ip).1.incoming.length ≤ cfg.maxPeerAccept) ∧
    ((handleNewConnection cfg blocked s ip).2 ≠ .accept → (handleNewConnection cfg blocked s ip).1 = s) := by
  unfold handleNewConnection
  by_cases h1 : s.incoming.length ≥ cfg.maxPeerAccept
  · simp [h1]; omega
  · by_cases h2 : (cfg.blIncoming && blocked ip) = true
    · have : cfg.blIncoming = true ∧ blocked ip = true := by simpa using h2
      simp [h1, this]
    · have h2' : ¬ (cfg.blIncoming = true ∧ blocked ip = true) := by simpa using h2
      by_cases h3 : s.connected.contains ip = true
      · have : ip ∈ s.connected := by simpa using h3
        simp [h1, h2, this]
      · have h3' : ip ∉ s.connected := by simpa using h3
        by_cases h4 : s.banned.contains ip = true
        · have : ip ∈ s.banned := by simpa using h4
          simp [h1, h2, h3', this]
        · have h4' : ip ∉ s.banned := by simpa using h4
          simp only [h1, h2, h3, h4, if_false, Bool.false_eq_true]
          refine ⟨⟨fun _ => ⟨by omega, h2', h3', h4'⟩, fun _ => trivial⟩, fun _ => ⟨by simp, ?_⟩, fun h => absurd rfl h⟩
          simp; omega

/-- **peers_admission.** `handleNewPeers` never queues an address whose IP is banned at that moment
(`filterBannedIPs`), and what it dials obeys `dial_admission`. -/
theorem peers_admission (cfg : Cfg) (blocked : Nat → Bool) {max : Nat} {ok : Nat → Nat → Prop}
    (env : Env) (hmax : env.maxItems = max) (choose : List PA → List PA) (hch : ∀ l, Admissible l (choose l))
    (hok : ∀ a, filtered env a = false → ok a.ip a.port)
    (s : State) (hq : Reach max ok s.queue) (addrs : List Cand) (src now : Nat) (hc : s.completed = false) :
    ∃ q s' dialled,
      push env choose s.queue (addrs.filter fun a => !s.banned.contains a.ip) src now = .ok q ∧
      Reach max ok q ∧
      handleNewPeers cfg blocked env choose s addrs src now = .ok (s', dialled) ∧
      (∀ a ∈ dialled, ok a.1 a.2 ∧ a.1 ∉ s.connected ∧ (cfg.checkBan = true → a.1 ∉ s.banned) ∧
        (cfg.recheckBlocklist = true → cfg.blOutgoing = true → blocked a.1 = false)) := by
  obtain ⟨hg, _⟩ := reach_good hq
  obtain ⟨q, hp, _, _, _⟩ := push_good hg env hmax choose hch
    (addrs.filter fun a => !s.banned.contains a.ip) src now
  have hq' : Reach max ok q := Reach.push hq hmax hch hok hp
  obtain ⟨s', dialled, hd, _, h3, _, _, _⟩ :=
    dial_admission cfg blocked { s with needMore := false, queue := q } hq'
  refine ⟨q, s', dialled, hp, hq', ?_, ?_⟩
  · unfold handleNewPeers
    simp only [hc, Bool.false_eq_true, if_false, hp]
    rw [← hd]
    congr 1
    cases s; simp_all
  · intro a ha
    obtain ⟨_, r1, r2, _, r4, r5⟩ := h3 a ha
    exact ⟨r1, r2, r4, r5⟩

/-- A queue holding one address of IP 9 (priority 5), no connection, IP 9 banned. -/
def bannedQueued : State :=
  { queue := { byTime := [some ⟨9, 2, 0, 5, 1, 0⟩], tree := [5] }, banned := [9] }

/-- The historical defect (finding F01, fixed in rain by d1afeec): without the ban check the queued
address of a banned IP is dialled; with it, it is not.  Same witness as `corpus/admission/dial-banned-ip`. -/
theorem dial_banned_counterexample :
    ((dialAddresses ⟨1, 1, false, false, false, false⟩ (fun _ => false) bannedQueued).toOption.map (·.2)) =
      some [(9, 2)] ∧
    ((dialAddresses (fixedCfg 1 1 false false) (fun _ => false) bannedQueued).toOption.map (·.2)) = some [] := by
  decide

/-- The historical defect F02 (fixed in rain by 33a5bc8): an address queued before a blocklist reload
that blocks it was dialled; the repaired loop re-checks. -/
theorem dial_blocked_counterexample :
    ((dialAddresses ⟨1, 1, false, true, true, false⟩ (fun ip => ip = 9)
        { bannedQueued with banned := [] }).toOption.map (·.2)) = some [(9, 2)] ∧
    ((dialAddresses (fixedCfg 1 1 false true) (fun ip => ip = 9)
        { bannedQueued with banned := [] }).toOption.map (·.2)) = some [] := by
  decide

/-- Non-vacuity of `accept_admission`: one accepted, then the same IP refused as duplicate. -/
example :
    let r1 := handleNewConnection (fixedCfg 1 2 true true) (fun ip => ip = 7) {} 5
    r1.2 = .accept ∧ (handleNewConnection (fixedCfg 1 2 true true) (fun ip => ip = 7) r1.1 5).2 = .duplicate ∧
    (handleNewConnection (fixedCfg 1 2 true true) (fun ip => ip = 7) r1.1 7).2 = .blocked := by decide

end Admission

end Rain.Props.C18
