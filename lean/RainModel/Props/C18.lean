import RainModel.Model.STree
import RainModel.Model.Blocklist
import RainModel.Lemmas.STree
import RainModel.Lemmas.Blocklist
/-!
C18 — blocklist semantics are exact and filtered addresses are never contacted.
Property theorems only; helper lemmas live in `Lemmas/`.
-/
namespace Rain.Props.C18
open Rain.STree Rain.Blocklist

/-! ## Blocklist -/

/-- **cidr_range.** For every address `ip`, every prefix length `/0 … /32` and every query
address `v` (32-bit values): `v` lies in the closed range `[first,last]` that `parseCIDR`
computes (`first = ip & mask`, `last = first | ^mask`) exactly when `v & mask = first`, i.e.
exactly when `v` is in the CIDR network. -/
theorem cidr_range (ip p v : Nat) (hip : ip < 2 ^ 32) (hp : p ≤ 32) (hv : v < 2 ^ 32) :
    ((rangeOf ip p).first ≤ v ∧ v ≤ (rangeOf ip p).last) ↔ v &&& cidrMask p = (rangeOf ip p).first := by
  obtain ⟨hf, hl⟩ := rangeOf_eq ip p hip hp
  rw [hf, hl, and_cidrMask v p hv hp]
  have hM : 0 < 2 ^ (32 - p) := Nat.pow_pos (by decide)
  generalize 2 ^ (32 - p) = M at hM ⊢
  generalize ip / M = q
  constructor
  · rintro ⟨h1, h2⟩
    have : v / M = q := Nat.div_eq_of_lt_le (by omega) (by rw [Nat.add_mul]; omega)
    rw [this]
  · intro h
    have hq : v / M = q := Nat.eq_of_mul_eq_mul_right hM h
    have h1 := Nat.div_add_mod v M
    have h2 := Nat.mod_lt v hM
    rw [hq, Nat.mul_comm] at h1
    omega

/-- Non-vacuity of `cidr_range`: `10.1.2.3/20` is `[10.1.0.0, 10.1.15.255]`, and `/0`, `/32`. -/
example : rangeOf 0x0A010203 20 = ⟨0x0A010000, 0x0A010FFF⟩ := by decide
example : rangeOf 0x0A010203 0 = ⟨0, 0xFFFFFFFF⟩ := by decide
example : rangeOf 0x0A010203 32 = ⟨0x0A010203, 0x0A010203⟩ := by decide

/-- **stree_contains_iff** (the key theorem).  For EVERY list of closed ranges — overlapping,
nested, adjacent, duplicated, inverted, in any order — building the segment tree never
panics, and the stabbing query `Contains v` is true exactly when `v` lies in at least one of
the ranges. -/
theorem stree_contains_iff (ranges : List (Nat × Nat)) :
    ∃ t, ofRanges ranges = some t ∧
      ∀ v, t.contains v = true ↔ ∃ r ∈ ranges, r.1 ≤ v ∧ v ≤ r.2 :=
  ofRanges_contains ranges

/-- The same with the executable linear scan the check uses as its oracle. -/
theorem stree_contains_eq_linear (ranges : List (Nat × Nat)) :
    ∃ t, ofRanges ranges = some t ∧ ∀ v, t.contains v = linearContains ranges v := by
  obtain ⟨t, ht, h⟩ := stree_contains_iff ranges
  refine ⟨t, ht, fun v => ?_⟩
  have hl : linearContains ranges v = true ↔ ∃ r ∈ ranges, r.1 ≤ v ∧ v ≤ r.2 := by
    simp [linearContains]
  rw [Bool.eq_iff_iff, h v, hl]

/-- Non-vacuity: overlapping, nested, adjacent and duplicate ranges; endpoints and neighbours. -/
example : (ofRanges [(10, 20), (15, 30), (12, 13), (31, 40), (10, 20), (50, 50)]).map
    (fun t => [9, 10, 20, 21, 30, 31, 40, 41, 49, 50, 51].map t.contains) =
    some [false, true, true, true, true, true, true, false, false, true, false] := by decide

/-- **load_semantics.** For every previous state and every blocklist text:
* a line that does not fit the scanner buffer makes `Reload` fail and leaves the list unchanged;
* so does a text without a single valid rule but with at least one malformed rule line
  ("no valid rules");
* otherwise `Reload` succeeds, returns the number of well-formed rule lines (blank lines and
  `#` comments are ignored, malformed lines are skipped), **replaces** the previous rules, and
  afterwards `Blocked` answers exactly like a linear scan over the ranges of the new text —
  the previous state has no influence;
* an address without IPv4 form is never blocked. -/
theorem load_semantics (b : Blocklist) (text : Bytes) :
    (tooLong text = true → b.reload text = (b, .err .tooLong)) ∧
    (tooLong text = false → rulesOf text = [] → hasMalformed text = true →
      b.reload text = (b, .err .noValidRules)) ∧
    (tooLong text = false → (rulesOf text ≠ [] ∨ hasMalformed text = false) →
      ∃ b', b.reload text = (b', .ok (rulesOf text).length) ∧ b'.count = (rulesOf text).length ∧
        ∀ v, b'.blocked (some v) = inRules (rulesOf text) v) ∧
    (∀ b' : Blocklist, b'.blocked none = false) := by
  have hfold := loadLine_fold (scan (rawLines text)).1 {}
  obtain ⟨hn, he, ht⟩ := hfold
  have hn' : ((scan (rawLines text)).1.foldl loadLine {}).n = (rulesOf text).length := by
    rw [hn]; simp [rulesOf, ruleLines]
  have he' : ((scan (rawLines text)).1.foldl loadLine {}).hasError = hasMalformed text := by
    rw [he]; simp [hasMalformed, ruleLines]
  refine ⟨?_, ?_, ?_, fun _ => rfl⟩
  · intro h
    unfold Blocklist.reload load
    unfold tooLong at h
    simp [h]
  · intro h hr hm
    unfold Blocklist.reload load
    unfold tooLong at h
    simp only [h]
    rw [hn', he', hr, hm]
    simp
  · intro h hor
    unfold tooLong at h
    obtain ⟨t, hb, hc⟩ := stree_contains_eq_linear ((rulesOf text).map fun r => (r.first, r.last))
    have htree : ((scan (rawLines text)).1.foldl loadLine {}).tree.build = some t := by
      rw [ht, ← hb]
      unfold ofRanges
      rw [List.foldl_map]
      rfl
    have hcond : ¬ (((scan (rawLines text)).1.foldl loadLine {}).n = 0 ∧
        ((scan (rawLines text)).1.foldl loadLine {}).hasError = true) := by
      rw [hn', he']
      rintro ⟨h0, hm⟩
      rcases hor with hor | hor
      · exact hor (List.length_eq_zero_iff.1 h0)
      · rw [hor] at hm; cases hm
    refine ⟨{ tree := t, count := (rulesOf text).length }, ?_, rfl, ?_⟩
    · unfold Blocklist.reload load
      simp only [h]
      rw [if_neg (by simp), if_neg hcond, htree, hn']
    · intro v
      simp only [Blocklist.blocked]
      rw [hc v]
      simp [linearContains, inRules, List.any_map]
      rfl

/-- Non-vacuity of `load_semantics`: comments, blanks, CRLF, a malformed line, nested rules. -/
example :
    -- "# list\n\n 10.0.0.0/8 \r\n10.1.0.0/16\nfoo\n1.2.3.4/32"
    let text : Bytes := [35, 32, 108, 105, 115, 116, 10, 10, 32, 49, 48, 46, 48, 46, 48, 46, 48, 47, 56, 32, 13, 10, 49, 48, 46, 49, 46, 48, 46, 48, 47, 49, 54, 10, 102, 111, 111, 10, 49, 46, 50, 46, 51, 46, 52, 47, 51, 50]
    rulesOf text = [⟨0x0A000000, 0x0AFFFFFF⟩, ⟨0x0A010000, 0x0A01FFFF⟩, ⟨0x01020304, 0x01020304⟩]
      ∧ hasMalformed text = true ∧ tooLong text = false := by decide

/-- "No valid rules": only malformed lines. -/
example :
    -- "foo\n1.2.3.4\n"
    (({} : Blocklist).reload [102, 111, 111, 10, 49, 46, 50, 46, 51, 46, 52, 10]).2 = .err .noValidRules := by
  decide

end Rain.Props.C18
