import RainModel.Model.TrackerWire
import RainModel.Lemmas.TrackerWire
/-!
C15 — announces carry the torrent's true identity and follow the event discipline.
Property theorems only; helper lemmas live in `Lemmas/`.
-/
namespace Rain.Props.C15
open Rain Rain.TrackerWire

/-! ### Identity on the wire -/

/-- **udp_packet_fields.** For every torrent (any 20 peer-id / info-hash bytes, any valid port, any
64-bit counters), every connection id, transaction id, event and `numwant`, and any URL data, the
datagram built by the UDP tracker decodes — with an independent BEP 15 decoder — to action
`announce`, the torrent's info-hash, **the same 20-byte peer id**, its port and counters, the
event, IP 0, and key = the last four peer-id bytes (the key the HTTP transport sends); the bytes
after the fixed 98 are exactly the URL-data option. -/
theorem udp_packet_fields (conn tx : Nat) (hc : conn < 256 ^ 8) (htx : tx < 256 ^ 4)
    (t : Torrent) (hwf : t.wf) (event : Nat) (hev : event < 4)
    (numWant : Int) (hn1 : -(2 ^ 31 : Int) ≤ numWant) (hn2 : numWant < 2 ^ 31) (url : Bytes) :
    decodeAnnounce (encodeAnnounce conn tx t event numWant url) =
      some ({ conn := conn, action := 1, tx := tx, infoHash := t.infoHash, peerID := t.peerID,
              down := t.down, left := t.left, up := t.up, event := event, ip := 0,
              key := unbe (keyBytes t), numWant := numWant, port := t.port.toNat, ext := 0 },
            urlOpt (url.length + 1) url) := by
  obtain ⟨hih, hpid, _, hpb, hp0, hp1, hu1, hu2, hd1, hd2, hl1, hl2⟩ := hwf
  have hkeylt : unbe (keyBytes t) < 256 ^ 4 := by
    have hb : isBytes (keyBytes t) = true := by
      have hall : ∀ x ∈ t.peerID, x < 256 := by simpa [isBytes] using hpb
      simp only [isBytes, keyBytes, List.all_eq_true, decide_eq_true_eq]
      intro x hx; exact hall x (List.mem_of_mem_drop hx)
    have := unbe_lt _ hb
    have hl : (keyBytes t).length = 4 := by simp [keyBytes, hpid]
    rwa [hl] at this
  obtain ⟨hport, hportlt⟩ := toU16_port hp0 hp1
  have hevlt : event < 256 ^ 4 := by
    have : (256 : Nat) ^ 4 = 4294967296 := by decide
    omega
  simp only [decodeAnnounce, encodeAnnounce, encodeFixed, List.append_assoc]
  simp only [takeN_append _ _ (length_be _ _), takeN_append _ _ hih, takeN_append _ _ hpid,
    bind, Option.bind, pure]
  simp only [unbe_be_of_lt hc, unbe_be_of_lt htx, unbe_be_of_lt (toU64_lt _), unbe_be_of_lt (toU32_lt _),
    unbe_be_of_lt hkeylt, ofU_toU64 hu1 hu2, ofU_toU64 hd1 hd2, ofU_toU64 hl1 hl2, ofU_toU32 hn1 hn2,
    hport, unbe_be_of_lt hportlt,
    unbe_be_of_lt (show (1 : Nat) < 256 ^ 4 by decide), unbe_be_of_lt (show (0 : Nat) < 256 ^ 4 by decide),
    unbe_be_of_lt (show (0 : Nat) < 256 ^ 2 by decide), unbe_be_of_lt hevlt]

/-- The same statement as a yes/no answer of the oracle the check evaluates on captured bytes. -/
theorem udp_identity_ok (conn tx : Nat) (hc : conn < 256 ^ 8) (htx : tx < 256 ^ 4)
    (t : Torrent) (hwf : t.wf) (event : Nat) (hev : event < 4)
    (numWant : Int) (hn1 : -(2 ^ 31 : Int) ≤ numWant) (hn2 : numWant < 2 ^ 31) (url : Bytes) :
    udpIdentityOK t event numWant (encodeAnnounce conn tx t event numWant url) = true := by
  unfold udpIdentityOK
  rw [udp_packet_fields conn tx hc htx t hwf event hev numWant hn1 hn2 url]
  simp

/-- **http_query_fields.** The HTTP announce query, as an ordered key/value list: `info_hash` and
`peer_id` come first and un-escape to the torrent's info-hash and **the same 20 peer-id bytes**;
port and counters are the torrent's; `key` is the hex of the last four peer-id bytes and decodes
back to them; `event` is present exactly for started/completed/stopped. -/
theorem http_query_fields (t : Torrent) (hwf : t.wf) (event : Nat) (numWant : Int) (tid : String) :
    let q := httpQuery t event numWant tid
    (q.take 2).map (·.1) = ["info_hash", "peer_id"] ∧
    lookup "info_hash" q = some (.esc t.infoHash) ∧ percentUnescape (percentEscape t.infoHash) = some t.infoHash ∧
    lookup "peer_id" q = some (.esc t.peerID) ∧ percentUnescape (percentEscape t.peerID) = some t.peerID ∧
    lookup "port" q = some (.int t.port) ∧ lookup "uploaded" q = some (.int t.up) ∧
    lookup "downloaded" q = some (.int t.down) ∧ lookup "left" q = some (.int t.left) ∧
    lookup "numwant" q = some (.int numWant) ∧
    lookup "event" q = (if event ≠ 0 then some (.lit (eventName event)) else none) ∧
    lookup "key" q = some (.hexs (t.peerID.drop 16)) ∧
    hexDec (hexEnc (t.peerID.drop 16)) = some (t.peerID.drop 16) := by
  obtain ⟨_, _, hib, hpb, _⟩ := hwf
  have hkb : isBytes (t.peerID.drop 16) = true := by
    have hall : ∀ x ∈ t.peerID, x < 256 := by simpa [isBytes] using hpb
    simp only [isBytes, List.all_eq_true, decide_eq_true_eq]
    intro x hx; exact hall x (List.mem_of_mem_drop hx)
  refine ⟨rfl, rfl, percentUnescape_escape _ hib, rfl, percentUnescape_escape _ hpb, rfl, rfl, rfl, rfl, rfl,
    ?_, ?_, hexDec_hexEnc _ hkb⟩
  · by_cases he : event = 0 <;> by_cases ht : tid = "" <;> simp [httpQuery, lookup, he, ht]
  · by_cases he : event = 0 <;> by_cases ht : tid = "" <;> simp [httpQuery, lookup, he, ht, keyBytes]

/-- Non-vacuity: a well-formed torrent whose peer id does not end in zero bytes. -/
def sampleTorrent : Torrent :=
  { infoHash := List.replicate 20 0xab, peerID := (List.range 20).map (· + 0x41), port := 6881,
    up := 1, down := 2 ^ 40, left := 0 }

example : sampleTorrent.wf := by decide
example : (decodeAnnounce (encodeAnnounce 7 9 sampleTorrent 2 200 [0x2f, 0x61])).map (·.1.peerID)
    = some sampleTorrent.peerID := by decide

/-- The historical defect (#10): the pre-fix builder wrote the zero key *into* the peer id, so the
tracker saw a peer id whose last four bytes were zero (and key 0) — the identity oracle rejects it. -/
theorem udp_stale_counterexample :
    udpIdentityOK sampleTorrent 2 200 (encodeAnnounceStale 7 9 sampleTorrent 2 200 []) = false ∧
    (decodeAnnounce (encodeAnnounceStale 7 9 sampleTorrent 2 200 [])).map (·.1.peerID.drop 16)
      = some [0, 0, 0, 0] := by
  constructor <;> decide

end Rain.Props.C15
