import RainModel.Model.TrackerWire
import RainModel.Lemmas.TrackerWire
import RainModel.Model.Announcer
import RainModel.Lemmas.Announcer
/-!
C15 — announces carry the torrent's true identity and follow the event discipline.
Property theorems only; helper lemmas live in `Lemmas/`.
-/
namespace Rain.Props.C15
open Rain Rain.TrackerWire

/-! ### Identity on the wire -/

/-- **udp_packet_fields.** For every torrent (any 20 peer-id / info-hash bytes, any valid port, any
64-bit counters), every connection id, transaction id, event and `numwant`, and any URL data, the
datagram built by the UDP tracker decodes — with an independent BEP 15 decoder — to action
`announce`, the torrent's info-hash, **the same 20-byte peer id**, its port and counters, the
event, IP 0, and key = the last four peer-id bytes (the key the HTTP transport sends); the bytes
after the fixed 98 are exactly the URL-data option. -/
theorem udp_packet_fields (conn tx : Nat) (hc : conn < 256 ^ 8) (htx : tx < 256 ^ 4)
    (t : Torrent) (hwf : t.wf) (event : Nat) (hev : event < 4)
    (numWant : Int) (hn1 : -(2 ^ 31 : Int) ≤ numWant) (hn2 : numWant < 2 ^ 31) (url : Bytes) :
    decodeAnnounce (encodeAnnounce conn tx t event numWant url) =
      some ({ conn := conn, action := 1, tx := tx, infoHash := t.infoHash, peerID := t.peerID,
              down := t.down, left := t.left, up := t.up, event := event, ip := 0,
              key := unbe (keyBytes t), numWant := numWant, port := t.port.toNat, ext := 0 },
            urlOpt (url.length + 1) url) := by
  obtain ⟨hih, hpid, _, hpb, hp0, hp1, hu1, hu2, hd1, hd2, hl1, hl2⟩ := hwf
  have hkeylt : unbe (keyBytes t) < 256 ^ 4 := by
    have hb : isBytes (keyBytes t) = true := by
      have hall : ∀ x ∈ t.peerID, x < 256 := by simpa [isBytes] using hpb
      simp only [isBytes, keyBytes, List.all_eq_true, decide_eq_true_eq]
      intro x hx; exact hall x (List.mem_of_mem_drop hx)
    have := unbe_lt _ hb
    have hl : (keyBytes t).length = 4 := by simp [keyBytes, hpid]
    rwa [hl] at this
  obtain ⟨hport, hportlt⟩ := toU16_port hp0 hp1
  have hevlt : event < 256 ^ 4 := by
    have : (256 : Nat) ^ 4 = 4294967296 := by decide
    omega
  simp only [decodeAnnounce, encodeAnnounce, encodeFixed, List.append_assoc]
  simp only [takeN_append _ _ (length_be _ _), takeN_append _ _ hih, takeN_append _ _ hpid,
    bind, Option.bind, pure]
  simp only [unbe_be_of_lt hc, unbe_be_of_lt htx, unbe_be_of_lt (toU64_lt _), unbe_be_of_lt (toU32_lt _),
    unbe_be_of_lt hkeylt, ofU_toU64 hu1 hu2, ofU_toU64 hd1 hd2, ofU_toU64 hl1 hl2, ofU_toU32 hn1 hn2,
    hport, unbe_be_of_lt hportlt,
    unbe_be_of_lt (show (1 : Nat) < 256 ^ 4 by decide), unbe_be_of_lt (show (0 : Nat) < 256 ^ 4 by decide),
    unbe_be_of_lt (show (0 : Nat) < 256 ^ 2 by decide), unbe_be_of_lt hevlt]

/-- The same statement as a yes/no answer of the oracle the check evaluates on captured bytes. -/
theorem udp_identity_ok (conn tx : Nat) (hc : conn < 256 ^ 8) (htx : tx < 256 ^ 4)
    (t : Torrent) (hwf : t.wf) (event : Nat) (hev : event < 4)
    (numWant : Int) (hn1 : -(2 ^ 31 : Int) ≤ numWant) (hn2 : numWant < 2 ^ 31) (url : Bytes) :
    udpIdentityOK t event numWant (encodeAnnounce conn tx t event numWant url) = true := by
  unfold udpIdentityOK
  rw [udp_packet_fields conn tx hc htx t hwf event hev numWant hn1 hn2 url]
  simp

/-- **http_query_fields.** The HTTP announce query, as an ordered key/value list: `info_hash` and
`peer_id` come first and un-escape to the torrent's info-hash and **the same 20 peer-id bytes**;
port and counters are the torrent's; `key` is the hex of the last four peer-id bytes and decodes
back to them; `event` is present exactly for started/completed/stopped. -/
theorem http_query_fields (t : Torrent) (hwf : t.wf) (event : Nat) (numWant : Int) (tid : Bytes) :
    let q := httpQuery t event numWant tid
    (q.take 2).map (·.1) = ["info_hash", "peer_id"] ∧
    lookup "info_hash" q = some (.esc t.infoHash) ∧ percentUnescape (percentEscape t.infoHash) = some t.infoHash ∧
    lookup "peer_id" q = some (.esc t.peerID) ∧ percentUnescape (percentEscape t.peerID) = some t.peerID ∧
    lookup "port" q = some (.int t.port) ∧ lookup "uploaded" q = some (.int t.up) ∧
    lookup "downloaded" q = some (.int t.down) ∧ lookup "left" q = some (.int t.left) ∧
    lookup "numwant" q = some (.int numWant) ∧
    lookup "event" q = (if event ≠ 0 then some (.lit (eventName event)) else none) ∧
    lookup "key" q = some (.hexs (t.peerID.drop 16)) ∧
    hexDec (hexEnc (t.peerID.drop 16)) = some (t.peerID.drop 16) := by
  obtain ⟨_, _, hib, hpb, _⟩ := hwf
  have hkb : isBytes (t.peerID.drop 16) = true := by
    have hall : ∀ x ∈ t.peerID, x < 256 := by simpa [isBytes] using hpb
    simp only [isBytes, List.all_eq_true, decide_eq_true_eq]
    intro x hx; exact hall x (List.mem_of_mem_drop hx)
  refine ⟨rfl, rfl, percentUnescape_escape _ hib, rfl, percentUnescape_escape _ hpb, rfl, rfl, rfl, rfl, rfl,
    ?_, ?_, hexDec_hexEnc _ hkb⟩
  · by_cases he : event = 0 <;> by_cases ht : tid = [] <;> simp [httpQuery, lookup, he, ht]
  · by_cases he : event = 0 <;> by_cases ht : tid = [] <;> simp [httpQuery, lookup, he, ht, keyBytes]

/-- **http_query_trackerid.** The id a tracker handed out travels in every later announce, after the event and
before the key, percent-escaped byte by byte: whatever bytes it consists of (`#`, `&`, blanks, control bytes), it
un-escapes to exactly those bytes and cannot end, extend or break the query (finding C16-F4); without an id the key
is absent. -/
theorem http_query_trackerid (t : Torrent) (event : Nat) (numWant : Int) (tid : Bytes) (hb : isBytes tid = true) :
    let q := httpQuery t event numWant tid
    lookup "trackerid" q = (if tid ≠ [] then some (.esc tid) else none) ∧
    percentUnescape (percentEscape tid) = some tid ∧
    (q.map (·.1)).getLast? = some "key" := by
  refine ⟨?_, percentUnescape_escape _ hb, ?_⟩
  · by_cases he : event = 0 <;> by_cases ht : tid = [] <;> simp [httpQuery, lookup, he, ht]
  · by_cases he : event = 0 <;> by_cases ht : tid = [] <;> simp [httpQuery, he, ht]

example : renderVal (.esc [0x23, 0x26, 0x20, 0x01]) = "%23%26%20%01" := by decide

/-- Non-vacuity: `sampleTorrent` is well-formed and its peer id does not end in zero bytes. -/
example : sampleTorrent.wf := by decide
example : (decodeAnnounce (encodeAnnounce 7 9 sampleTorrent 2 200 [0x2f, 0x61])).map (·.1.peerID)
    = some sampleTorrent.peerID := by decide
example : lookup "key" (httpQuery sampleTorrent 2 200 []) = some (.hexs [0x51, 0x52, 0x53, 0x54]) := by decide

/-- The historical defect (#10): the pre-fix builder wrote the zero key *into* the peer id, so the
tracker saw a peer id whose last four bytes were zero (and key 0) — the identity oracle rejects it. -/
theorem udp_stale_counterexample :
    udpIdentityOK sampleTorrent 2 200 (encodeAnnounceStale 7 9 sampleTorrent 2 200 []) = false ∧
    (decodeAnnounce (encodeAnnounceStale 7 9 sampleTorrent 2 200 [])).map (·.1.peerID.drop 16)
      = some [0, 0, 0, 0] := by
  constructor <;> decide

/-! ### Event discipline (`internal/announcer/periodic.go`, `stop.go`, `torrent/torrent_stop.go`) -/

open Rain.Announcer in
/-- **first_is_started.** Whatever inputs arrive in whatever order (replies, errors, timer,
need-more-peers, completion, close — also before `Run` has begun or after it has ended), the first
announce a periodical announcer sends is `started`; every later one is `none` or `completed`
(never a second `started`, never `stopped`). -/
theorem first_is_started (c : Cfg) (tr : List (Int × In)) :
    (run c (init c) tr).2 = [] ∨
    ∃ a rest, (run c (init c) tr).2 = a :: rest ∧ a.ev = .started ∧
      ∀ b ∈ rest, b.ev = .none ∨ b.ev = .completed :=
  run_fresh storeFixed c tr (init c) ⟨by simp [init], by simp [init]⟩

open Rain.Announcer in
/-- **completed_once.** In every history `completed` is announced at most once; not at all when
the download was already complete when the run began (`start true`), and not at all unless the
completion signal arrives during the run. -/
theorem completed_once (c : Cfg) (tr : List (Int × In)) :
    countC (run c (init c) tr).2 ≤ 1 ∧
    (∀ t0 rest, tr = (t0, .start true) :: rest → countC (run c (init c) tr).2 = 0) ∧
    ((∀ p ∈ tr, p.2 ≠ .completed) → countC (run c (init c) tr).2 = 0) := by
  refine ⟨?_, ?_, ?_⟩
  · have := run_completed storeFixed c tr (init c)
    simpa [init, run] using this
  · intro t0 rest htr
    subst htr
    simp only [run, runWith, countC_append]
    have h1 : countC (stepWith storeFixed c (init c) t0 (.start true)).2 = 0 := by
      simp [stepWith, init, doAnnounce, countC]
    have h2 : (stepWith storeFixed c (init c) t0 (.start true)).1.completedArmed = false := by
      simp [stepWith, init, doAnnounce]
    have := run_completed storeFixed c rest (stepWith storeFixed c (init c) t0 (.start true)).1
    rw [h2] at this
    simp at this
    omega
  · exact run_no_completed_input storeFixed c tr (init c)

open Rain.Announcer in
/-- **stopped_only_if_announced.** `torrent.stop` hands the stop announcer exactly the trackers
whose periodical announcer has `HasAnnounced` set, and that flag is set only by a reply the
announcer received during its run: a tracker that never accepted an announce gets no `stopped`.
(Periodical announcers themselves never send `stopped`: `first_is_started`.) -/
theorem stopped_only_if_announced {τ : Type} (c : Cfg) (l : List (τ × List (Int × In))) :
    ∀ t ∈ stopTargets (l.map fun p => (p.1, (run c (init c) p.2).1)),
      ∃ tr, (t, tr) ∈ l ∧ ∃ p ∈ tr, ∃ iv mi, p.2 = .response iv mi := by
  intro t ht
  simp only [stopTargets, List.mem_map, List.mem_filter] at ht
  obtain ⟨⟨t', s⟩, ⟨⟨⟨t'', tr⟩, hmem, heq⟩, hhas⟩, rfl⟩ := ht
  simp only [Prod.mk.injEq] at heq
  obtain ⟨rfl, rfl⟩ := heq
  refine ⟨tr, hmem, ?_⟩
  rcases run_hasAnnounced storeFixed c tr (init c) hhas with h | h
  · simp [init] at h
  · exact h

open Rain.Announcer in
/-- Non-vacuity: of two trackers, only the one that replied is handed to the stop announcer. -/
example : stopTargets ([("a", [(0, In.start false), (1, In.response 1800 0)]), ("b", [(0, In.start false), (1, In.error 0 3)])].map
    fun p => (p.1, (run ⟨60, 5, 40⟩ (init ⟨60, 5, 40⟩) p.2).1)) = ["a"] := by decide

open Rain.Announcer in
/-- **interval_floor.** For every history with non-decreasing time stamps and every reply
sequence (interval and min-interval values of any sign, or absent = 0): whenever an announce is
sent because the timer ran out (`ev = none`, no intervening event) after the previous announce to
this tracker was answered by a reply (`after = working`), the gap between the two announces is at
least `fl`, for every `fl` that is ≤ the client's minimum interval and ≤ every positive interval /
min-interval value the tracker's replies contained.  (`announces_chained` shows `prevAt` is the
time of the previous announce.) -/
theorem interval_floor (c : Cfg) (tr : List (Int × In)) (hm : Mono 0 tr) (fl : Int) (hf : FloorFor c fl tr) :
    ∀ a ∈ (run c (init c) tr).2, a.ev = .none → a.after = .working → fl ≤ a.time - a.prevAt :=
  run_floor c fl tr 0 (init c) hm hf (FInv_init c fl 0 (FloorFor_clientMin c fl tr hf) (Int.le_refl 0))

open Rain.Announcer in
/-- The same with the floor computed: `floorOf c tr` = min(client minimum, positive values supplied). -/
theorem interval_floor_computed (c : Cfg) (tr : List (Int × In)) (hm : Mono 0 tr) :
    ∀ a ∈ (run c (init c) tr).2, a.ev = .none → a.after = .working → floorOf c tr ≤ a.time - a.prevAt :=
  interval_floor c tr hm (floorOf c tr) (floorOf_FloorFor c tr)

open Rain.Announcer in
/-- Announces are chained: each one's `prevAt` is the time of the announce before it. -/
theorem announces_chained (c : Cfg) (tr : List (Int × In)) : Chained 0 (run c (init c) tr).2 := by
  have := run_chain storeFixed c tr (init c)
  simpa [init, run] using this

open Rain.Announcer in
/-- Non-vacuity: started, reply without a usable interval (0, and a negative min-interval), timer,
reply with interval 30 and min-interval 10, need-more-peers, completion. The gaps are 60 (client
minimum) and 10 (the tracker's min-interval while more peers are needed). -/
example :
    ((run ⟨60, 5, 40⟩ (init ⟨60, 5, 40⟩)
      [(0, .start false), (1, .response 0 (-7)), (61, .timer), (62, .response 30 10), (63, .setNeed true),
       (63, .needSignal), (71, .timer), (72, .completed), (73, .completed)]).2.map fun a => (a.ev, a.time, a.prevAt))
    = [(.started, 0, 0), (.none, 61, 0), (.none, 71, 61), (.completed, 72, 71)] := by decide

open Rain.Announcer in
/-- The historical defect (#11): the pre-fix announcer stored a non-positive interval as sent, so a
reply with `interval = 0` re-armed the timer at once — the second announce follows after 5 time
units although the floor is the client minimum, 60. -/
theorem interval_stale_counterexample :
    Mono 0 [(0, .start false), (5, .response 0 0), (5, .timer)] ∧
    floorOf ⟨60, 5, 40⟩ [(0, .start false), (5, .response 0 0), (5, .timer)] = 60 ∧
    ((runStale ⟨60, 5, 40⟩ (init ⟨60, 5, 40⟩) [(0, .start false), (5, .response 0 0), (5, .timer)]).2.map
        fun a => (a.ev, a.after, a.time - a.prevAt))
      = [(.started, .notContactedYet, 0), (.none, .working, 5)] := by
  refine ⟨by simp [Mono], by decide, by decide⟩

theorem retryMinutesOf_le (n : Nat) : retryMinutesOf n ≤ 1440 := by
  unfold retryMinutesOf; split
  · omega
  · exact Nat.min_le_right _ _

theorem retryMinutesOf_pos (n : Nat) (h0 : n ≠ 0) (h1 : n ≤ 9223372036854775807) : 1 ≤ retryMinutesOf n := by
  unfold retryMinutesOf
  rw [if_neg (by omega)]
  omega

/-- **retry_in_bounded.** Whatever string a tracker's failure reply carries as `retry in`, the delay the client
takes from it is a whole number of minutes, at most one day: none (the client's own back-off applies) or at least
a minute — never a wrapped-around value of a few nanoseconds (finding C15-F4). -/
theorem retry_in_bounded (s : String) : ∃ m, m ≤ 1440 ∧ retryInNs s = m * 60000000000 := by
  have key : ∀ t : String, ∃ m, m ≤ 1440 ∧ retryDigits t = m * 60000000000 := by
    intro t
    unfold retryDigits
    split
    · exact ⟨0, by omega, by simp⟩
    · exact ⟨_, retryMinutesOf_le _, rfl⟩
  exact key _

/-- The values of the finding: a number of minutes whose conversion used to wrap (to 2048 ns) is a day now; what
does not fit an `int` is no delay at all. -/
example : retryMinutesOf 5 = 5 ∧ retryMinutesOf 3749353613647811 = 1440 ∧ retryMinutesOf 0 = 0 ∧
    retryMinutesOf 9223372036854775808 = 0 ∧ retryMinutesOf 1441 = 1440 := by decide

end Rain.Props.C15
