import RainModel.Lemmas.PickerComplete
import RainModel.Props.C09
/-!
C10 (picker part) — **completeness of the piece picker**: "No idle, unchoked peer holding a needed and
unrequested piece is left without a request."

The model is M-PICK (`Model/Picker.lean`, tied to `internal/piecepicker` by the suite `picker` of C09);
`pickFor false s p` is `PickFor` + `startSinglePieceDownloader` of the code as it is now and returns the
list of admissible outcomes (the Go sorts are unstable).  The theorems say that **every** admissible
outcome is a request (`Served`), so they hold for whichever choice the implementation makes.

* `FreeFor s p i` : `i < n`, piece `i` not `Done`, not `Writing`, `p ∈ Having i`, `Requested i = []`.
* `Served p r`    : `r = ok (s', some (j, af))`, and in `s'` the downloader of `p` is on `j` and
  `p ∈ Requested j`.

None of the statements below needs `PickInv`, except `pick_complete_webseed_steal`, which needs its
clauses `SrcOk` (so that `WebseedStopAt` does not panic) and `WebOwner`.  Which piece is requested is
C09's business (`pick_safe`, `sequential_lowest`).
-/
namespace Rain.Props.C10Picker
open Rain.Picker

/-- **pick_complete.**  No web seed is downloading; peer `p` has no download and is not choking us;
some piece `i` is free for `p`.  Then every admissible outcome of the picker is a request for `p` — in
sequential mode for every end-game flag and every limit, in rarest-first mode for every limit while the
end-game flag is clear and for every limit `≥ 1` once it is set (`hlim`; the excluded case is
`limit_zero_counterexample`). -/
theorem pick_complete (s : State) (p i : Nat)
    (hdl : (s.peers p).dl = none) (hch : (s.peers p).choking = false)
    (hweb : downloadingWebseed s = false) (hfree : FreeFor s p i)
    (hlim : s.sequential = false → s.endgame = true → 1 ≤ s.maxDup) :
    ∀ r ∈ pickFor false s p, Served p r :=
  pickFor_served false s p (findPiece_complete s p i hdl hch hweb hfree hlim)

/-- `pick_complete` with the hypothesis of the task statement: limit `≥ 1`, any mode, any flag. -/
theorem pick_complete_limit (s : State) (p i : Nat)
    (hdl : (s.peers p).dl = none) (hch : (s.peers p).choking = false)
    (hweb : downloadingWebseed s = false) (hfree : FreeFor s p i) (hlim : 1 ≤ s.maxDup) :
    ∀ r ∈ pickFor false s p, Served p r :=
  pick_complete s p i hdl hch hweb hfree (fun _ _ => hlim)

/-- Sequential mode: no hypothesis on the end-game flag or the limit (0 included). -/
theorem pick_complete_sequential (s : State) (p i : Nat) (hseq : s.sequential = true)
    (hdl : (s.peers p).dl = none) (hch : (s.peers p).choking = false)
    (hweb : downloadingWebseed s = false) (hfree : FreeFor s p i) :
    ∀ r ∈ pickFor false s p, Served p r :=
  pick_complete s p i hdl hch hweb hfree (fun h => by rw [hseq] at h; cases h)

/-- **pick_complete_allowed_fast.**  The same for a peer that *is* choking us when the free piece is in
its allowed-fast set: the request is made with the allowed-fast privilege.  Either mode, any end-game
flag, any limit.  (With a web seed downloading it is false: `allowed_fast_webseed_counterexample`.) -/
theorem pick_complete_allowed_fast (s : State) (p i : Nat)
    (hdl : (s.peers p).dl = none) (hch : (s.peers p).choking = true)
    (hweb : downloadingWebseed s = false) (hfree : FreeFor s p i) (haf : i ∈ (s.peers p).af) :
    ∀ r ∈ pickFor false s p, Served p r :=
  pickFor_served false s p (findPiece_complete_af s p i hdl hch hweb hfree haf)

/-- **pick_complete_webseed.**  A web seed is downloading and the free piece is *not* reserved by a web
seed (`RequestedWebseed i = nil`): the idle unchoking peer is asked for the last piece of a smallest gap.
Either mode, any end-game flag, any limit (0 included). -/
theorem pick_complete_webseed (s : State) (p i : Nat)
    (hdl : (s.peers p).dl = none) (hch : (s.peers p).choking = false)
    (hweb : downloadingWebseed s = true) (hfree : FreeFor s p i) (hw : (s.pieces i).webseed = none) :
    ∀ r ∈ pickFor false s p, Served p r :=
  pickFor_served false s p (findPiece_complete_webseed s p i hdl hch hweb hfree hw)

/-- **pick_complete_webseed_steal.**  The free piece is reserved by web seed `k` and lies strictly after
the piece that web seed is working on (`current < i`): the idle unchoking peer gets a request (a gap
piece if it also holds a free piece outside the ranges, otherwise it steals from the end of a web-seed
range).  Needs the clauses `WebOwner` and `SrcOk` of `PickInv`.  A free piece at or before `current`
is never given to a peer: `webseed_current_counterexample`. -/
theorem pick_complete_webseed_steal (s : State) (p i k : Nat) (d : Dl)
    (hown : WebOwner s) (hsrc : SrcOk s)
    (hdl : (s.peers p).dl = none) (hch : (s.peers p).choking = false)
    (hfree : FreeFor s p i) (hw : (s.pieces i).webseed = some k) (hd : s.srcs k = some d) (hci : d.c < i) :
    ∀ r ∈ pickFor false s p, Served p r := by
  obtain ⟨hk, d', hd', _, hie⟩ := hown i hfree.1 k (by simp [hw])
  have : d' = d := by simp only [Option.mem_def] at hd'; rw [hd] at hd'; exact (Option.some.inj hd').symm
  subst this
  exact pickFor_served false s p (findPiece_complete_steal s p i k d' hsrc hdl hch hk hd hci hie hfree)

/-- **The sentence of C10 for the picker**: an idle, unchoking peer holding a needed, unrequested piece
that no web seed has reserved gets a request — whether or not a web seed is downloading, in both modes
(`hlim` as in `pick_complete`). -/
theorem pick_complete_unreserved (s : State) (p i : Nat)
    (hdl : (s.peers p).dl = none) (hch : (s.peers p).choking = false)
    (hfree : FreeFor s p i) (hw : (s.pieces i).webseed = none)
    (hlim : s.sequential = false → s.endgame = true → 1 ≤ s.maxDup) :
    ∀ r ∈ pickFor false s p, Served p r := by
  cases hweb : downloadingWebseed s with
  | false => exact pick_complete s p i hdl hch hweb hfree hlim
  | true => exact pick_complete_webseed s p i hdl hch hweb hfree hw

/-- The same at the level of the caller protocol (`step … (.pick p)`, what the event loop runs for an
idle peer): every admissible outcome is the observation "piece `j` requested". -/
theorem step_pick_complete (s : State) (p i : Nat) (hp : p < s.np) (hopen : (s.peers p).closed = false)
    (hdl : (s.peers p).dl = none) (hch : (s.peers p).choking = false)
    (hfree : FreeFor s p i) (hw : (s.pieces i).webseed = none)
    (hlim : s.sequential = false → s.endgame = true → 1 ≤ s.maxDup) :
    ∀ r ∈ step false s (.pick p), ∃ s' j af, r = .ok (s', .pick (some (j, af))) ∧
      (s'.peers p).dl = some (j, af) ∧ p ∈ (s'.pieces j).requested := by
  intro r hr
  simp only [step, hp, hopen, and_self, if_true, List.mem_map] at hr
  obtain ⟨r0, hr0, rfl⟩ := hr
  obtain ⟨s', j, af, rfl, h1, h2⟩ := pick_complete_unreserved s p i hdl hch hfree hw hlim r0 hr0
  exact ⟨s', j, af, rfl, h1, h2⟩

/-! ### excluded cases: counterexamples (by `decide`) -/

/-- Pick results of a list of outcomes (`none` = a panic outcome). -/
def picks (l : List (R (State × Option (Nat × Bool)))) : List (Option (Option (Nat × Bool))) :=
  Rain.Props.C09.pickResults l

/-- Rarest-first, limit 0.  Two unchoking peers hold the only piece; peer 0 requested it, peer 1 found
nothing unrequested (end game entered), then peer 0's download was cancelled. -/
def limitZeroOps : List Op :=
  [.connect, .connect, .have 0 0, .have 1 0, .unchoke 0, .unchoke 1, .pick 0, .pick 1, .cancel 0]

/-- **Counterexample for limit 0** (the case `hlim` excludes).  After the history `limitZeroOps` on a
fresh rarest-first picker with `maxDuplicateDownload = 0` — a reachable state, so `PickInv` holds — the
end-game flag is set, piece 0 is free for the idle unchoking peer 1, no web seed exists, and `PickFor`
returns nothing: the end-game short path only considers pieces with `|Requested| < 0`. -/
theorem limit_zero_counterexample :
    ∃ s, Rain.Props.C09.Run (init [(false, false, false)] 0 0 false) limitZeroOps s ∧ PickInv s ∧
      s.sequential = false ∧ s.endgame = true ∧ s.maxDup = 0 ∧
      (s.peers 1).dl = none ∧ (s.peers 1).choking = false ∧ downloadingWebseed s = false ∧
      FreeFor s 1 0 ∧ (s.pieces 0).webseed = none ∧ picks (pickFor false s 1) = [some none] := by
  cases hr : Rain.Props.C09.runFirst (init [(false, false, false)] 0 0 false) limitZeroOps with
  | none => exact absurd hr (by decide)
  | some s =>
    have hrun := Rain.Props.C09.runFirst_run _ _ _ hr
    refine ⟨s, hrun, Rain.Props.C09.pickInv_all_histories _ _ _ _ _ _ hrun, ?_⟩
    have : (Rain.Props.C09.runFirst (init [(false, false, false)] 0 0 false) limitZeroOps).all
        (fun s => decide (s.sequential = false ∧ s.endgame = true ∧ s.maxDup = 0 ∧
          (s.peers 1).dl = none ∧ (s.peers 1).choking = false ∧ downloadingWebseed s = false ∧
          FreeFor s 1 0 ∧ (s.pieces 0).webseed = none ∧ picks (pickFor false s 1) = [some none])) = true := by
      decide
    rw [hr] at this; simpa using this

/-- Four pieces; web seed 0 downloads `[2, 4)` and works on piece 2; peer 0 holds every piece, its
allowed-fast set is {0}; `choking` is the parameter. -/
def webState (choking : Bool) : State :=
  { n := 4
    pieces := fun i => { having := [0], webseed := if 2 ≤ i then some 0 else none, done := i == 1 }
    np := 1
    peers := fun _ => { choking := choking, af := [0] }
    ns := 1
    srcs := fun _ => some ⟨2, 4, 2⟩
    maxDup := 2, maxWeb := 1, available := 4, endgame := false, sequential := false }

/-- **Counterexample for allowed-fast while a web seed downloads.**  Piece 0 is free, unreserved and in
the allowed-fast set of the choking idle peer 0, but a web seed is downloading: `findPiece` returns nil
for every choking peer in that branch (piecepicker.go:289-292).  Not a violation of C10's sentence
(which speaks of unchoked peers); it delimits `pick_complete_allowed_fast`. -/
theorem allowed_fast_webseed_counterexample :
    PickInv (webState true) ∧ ((webState true).peers 0).dl = none ∧ ((webState true).peers 0).choking = true ∧
    downloadingWebseed (webState true) = true ∧ FreeFor (webState true) 0 0 ∧
    ((webState true).pieces 0).webseed = none ∧ 0 ∈ ((webState true).peers 0).af ∧
    picks (pickFor false (webState true) 0) = [some none] := by
  decide

/-- Piece 0 done as well: the only free pieces of peer 0 are 2 (the web seed's current piece) and 3. -/
def webCurrent : State :=
  { webState false with
    pieces := fun i => { having := if i == 3 then [] else [0], webseed := if 2 ≤ i then some 0 else none, done := i ≤ 1 }
    available := 3 }

/-- **Counterexample at the web seed's current piece.**  Piece 2 is free for the idle unchoking peer 0
and reserved by web seed 0, whose `current` is 2 (so `current < i` fails): the peer gets nothing —
`peerStealsFromWebseed` only looks at pieces strictly after `current`.  This is the exemption "owned by
a web seed" of the property text. -/
theorem webseed_current_counterexample :
    PickInv webCurrent ∧ (webCurrent.peers 0).dl = none ∧ (webCurrent.peers 0).choking = false ∧
    FreeFor webCurrent 0 2 ∧ (webCurrent.pieces 2).webseed = some 0 ∧ webCurrent.srcs 0 = some ⟨2, 4, 2⟩ ∧
    picks (pickFor false webCurrent 0) = [some none] := by
  decide

/-! ### non-vacuity -/

/-- Three pieces all held by peers 0 and 1; piece 0 is being downloaded by peer 1, pieces 1 and 2 are
free; no web seed.  Parameters: mode, end-game flag, limit, whether peer 0 is choking (its allowed-fast
set is then {2}, otherwise empty). -/
def plain (seq eg : Bool) (lim : Nat) (choking : Bool) : State :=
  { n := 3
    pieces := fun i => { having := [0, 1], requested := if i == 0 then [1] else [] }
    np := 2
    peers := fun p => if p == 0 then { choking := choking, af := if choking then [2] else [] } else { choking := false, dl := some (0, false) }
    ns := 0
    srcs := fun _ => none
    maxDup := lim, maxWeb := 1, available := 3, endgame := eg, sequential := seq }

/-- Non-vacuity of `pick_complete` (rarest-first with the end-game flag set and limit 1; sequential with
the flag set and limit 0): the hypotheses hold on `PickInv` states and the pick is made. -/
example : PickInv (plain false true 1 false) ∧ ((plain false true 1 false).peers 0).dl = none ∧
    ((plain false true 1 false).peers 0).choking = false ∧ downloadingWebseed (plain false true 1 false) = false ∧
    FreeFor (plain false true 1 false) 0 1 ∧
    picks (pickFor false (plain false true 1 false) 0) = [some (some (1, false)), some (some (2, false))] ∧
    PickInv (plain true true 0 false) ∧ FreeFor (plain true true 0 false) 0 1 ∧
    picks (pickFor false (plain true true 0 false) 0) = [some (some (1, false))] := by decide

example : ∀ r ∈ pickFor false (plain false true 1 false) 0, Served 0 r :=
  pick_complete _ 0 1 (by decide) (by decide) (by decide) (by decide) (by decide)

/-- Non-vacuity of `pick_complete_allowed_fast`: peer 0 choking, allowed-fast set {2}, piece 2 free. -/
example : PickInv (plain true false 2 true) ∧ ((plain true false 2 true).peers 0).dl = none ∧
    ((plain true false 2 true).peers 0).choking = true ∧ downloadingWebseed (plain true false 2 true) = false ∧
    FreeFor (plain true false 2 true) 0 2 ∧ 2 ∈ ((plain true false 2 true).peers 0).af ∧
    picks (pickFor false (plain true false 2 true) 0) = [some (some (2, true))] := by decide

example : ∀ r ∈ pickFor false (plain true false 2 true) 0, Served 0 r :=
  pick_complete_allowed_fast _ 0 2 (by decide) (by decide) (by decide) (by decide) (by decide)

/-- Non-vacuity of `pick_complete_webseed`: in `webState false` a web seed downloads `[2,4)`, piece 0 is
free and unreserved, the unchoking idle peer 0 is asked for it (last piece of the gap `[0,1)`). -/
example : PickInv (webState false) ∧ ((webState false).peers 0).dl = none ∧
    ((webState false).peers 0).choking = false ∧ downloadingWebseed (webState false) = true ∧
    FreeFor (webState false) 0 0 ∧ ((webState false).pieces 0).webseed = none ∧
    picks (pickFor false (webState false) 0) = [some (some (0, true))] := by decide

example : ∀ r ∈ pickFor false (webState false) 0, Served 0 r :=
  pick_complete_webseed _ 0 0 (by decide) (by decide) (by decide) (by decide) (by decide)

/-- `webState false` with piece 0 done too: the only free pieces are reserved by the web seed. -/
def webSteal : State :=
  { webState false with
    pieces := fun i => { having := [0], webseed := if 2 ≤ i then some 0 else none, done := i ≤ 1 } }

/-- Non-vacuity of `pick_complete_webseed_steal`: piece 3 is free, reserved by web seed 0 and after its
current piece 2; the peer steals it (the web seed's range becomes `[2,3)`). -/
example : PickInv webSteal ∧ (webSteal.peers 0).dl = none ∧ (webSteal.peers 0).choking = false ∧
    FreeFor webSteal 0 3 ∧ (webSteal.pieces 3).webseed = some 0 ∧ webSteal.srcs 0 = some ⟨2, 4, 2⟩ ∧
    picks (pickFor false webSteal 0) = [some (some (3, false))] := by decide

example : ∀ r ∈ pickFor false webSteal 0, Served 0 r :=
  pick_complete_webseed_steal _ 0 3 0 ⟨2, 4, 2⟩ (by decide) (by decide) (by decide) (by decide) (by decide)
    (by decide) (by decide) (by decide)

/-- Non-vacuity of `step_pick_complete` / `pick_complete_unreserved`. -/
example : ∀ r ∈ step false (webState false) (.pick 0), ∃ s' j af, r = .ok (s', .pick (some (j, af))) ∧
    (s'.peers 0).dl = some (j, af) ∧ 0 ∈ (s'.pieces j).requested :=
  step_pick_complete _ 0 0 (by decide) (by decide) (by decide) (by decide) (by decide) (by decide) (by decide)

end Rain.Props.C10Picker
