import RainModel.Model.Discipline
import RainModel.Generated.Access
import RainModel.Lemmas.LockGraph
/-!
C20 — no data races or lock-ups under concurrent API use (weakest level: `other`).

What is logic here is the *ownership discipline* of package `torrent`: every field of the `torrent`
struct is a channel, a sync primitive, immutable after construction, internally synchronised, or owned
by the event loop — and then touched from other goroutines only under a mutex the loop also takes.
`Generated/Access.lean` is regenerated from the source by /verif/extract on every run; the theorems
below are re-checked by the kernel against that table.  Actual races are searched for by the `race`
suite (API stress under the Go race detector); that search is not a proof.
-/
namespace Rain.Props.C20
open Rain.Discipline Rain.Generated.Access

/-- The (function, field) pairs of the current source that break the discipline and are recorded as
finding C20-F2 (getters, the announcer callback and session background writers reading loop-owned
fields).  A pair not listed here fails `discipline_holds_except_known`. -/
def knownPairs : List (String × String) := [
  ("Session.CompactDatabase", "bitfield"),
  ("Session.CompactDatabase", "completeCmdRun"),
  ("Session.CompactDatabase", "info"),
  ("Session.CompactDatabase", "port"),
  ("Session.stopAndRemoveData", "info"),
  ("Session.stopAndRemoveData", "port"),
  ("Session.updateStats", "bitfield"),
  ("Torrent.AddTracker", "info"),
  ("Torrent.Port", "port"),
  ("torrent.FileStats", "pieces"),
  ("torrent.Files", "info"),
  ("torrent.Magnet", "info"),
  ("torrent.Torrent", "info"),
  ("torrent.announcerFields", "bitfield"),
  ("torrent.announcerFields", "info"),
  ("torrent.announcerFields", "port"),
  ("torrent.bytesComplete", "bitfield"),
  ("torrent.bytesComplete", "info"),
  ("torrent.bytesComplete", "pieces"),
  ("torrent.getTieredTrackers", "trackers")
]

def named (p : Nat × Nat) : String × String := (fnNames.getD p.1 "?", fieldNames.getD p.2 "?")

/-- **discipline_holds_except_known.** Recomputed by the kernel from the extracted table: every access
that can run outside the event loop to a loop-owned field written by the loop without a common mutex is
one of the recorded pairs. -/
theorem discipline_holds_except_known :
    ((violatingFast fieldClass table fieldNames.length).map named).all (fun p => knownPairs.contains p) = true := by
  decide +kernel

/-- The fast per-field computation agrees with the direct definition on the extracted table. -/
theorem violatingFast_complete :
    ((violating fieldClass table).map fun r => (r.fn, r.field)).all
      (fun p => (violatingFast fieldClass table fieldNames.length).contains p) = true := by
  decide +kernel

/-- **lock_order_acyclic.** The only lock held while waiting for an event loop is the session's torrent
registry lock (in `Session.Close`), and no function reachable from the event loop takes that lock: the
"holds L while waiting for the loop" / "the loop takes L" graph has no cycle. -/
theorem lock_order_acyclic :
    heldWhileWaiting.all (fun h => !(loopLocks.contains h.2.1)) = true := by
  decide +kernel

/-! ### Lock nesting (potential deadlocks among the locks themselves)

`lockEdges` (regenerated from the source on every run) has one entry per acquisition of a lock made while
another lock is held — lexically, or inside a function called from the critical section; a bbolt transaction
counts as holding `bbolt.rw` (Update/Batch and every `resumer` call) or `bbolt.ro` (View).  A deadlock among
locks needs a cycle `l₀ → l₁ → … → l₀` of "holds lᵢ, acquires lᵢ₊₁" in that table.  The kernel evaluates the
check on the table (`lock_nesting_acyclic`); `lock_nesting_no_cycle` is what the check means, for every table. -/

/-- **lock_nesting_no_cycle** (soundness of the check, all edge lists): if `lockGraphAcyclic es = true` there is
no lock `l` with a non-empty walk `l → … → l` along "holds → acquires" edges of `es`; in particular no self-edge
`l → l` (re-acquisition of a non-reentrant mutex, `RLock` inside `RLock`) and no inversion `a → b`, `b → a`. -/
theorem lock_nesting_no_cycle (es : List LockEdge) (h : lockGraphAcyclic es = true) (l : Nat) :
    ¬ Path (lockGraph es) l l :=
  no_cycle_of_graphAcyclic h l

/-- The same with the cycle written out as a list of locks `l₀ → l₁ → … → lₖ → l₀`. -/
theorem lock_nesting_no_cycle_list (es : List LockEdge) (h : lockGraphAcyclic es = true) (l₀ : Nat) (ls : List Nat) :
    ¬ Walk (lockGraph es) l₀ ls l₀ :=
  fun hw => no_cycle_of_graphAcyclic h l₀ (Walk.toPath ls l₀ l₀ hw)

/-- **lock_nesting_acyclic.** Kernel evaluation on the table extracted from the current source. -/
theorem lock_nesting_acyclic : lockGraphAcyclic lockEdges = true := by
  decide +kernel

/-- Hence: the extracted lock-nesting graph of the current source has no cycle. -/
theorem extracted_lock_graph_has_no_cycle (l : Nat) : ¬ Path (lockGraph lockEdges) l l :=
  lock_nesting_no_cycle lockEdges lock_nesting_acyclic l

/-- **loop_carried_locks_gated.** Where a loop over a collection takes the lock of the next element while it
still holds the previous one (same lock name, distinct instances: `Session.updateStats` read-locks the bitfield
of every torrent), the whole sequence runs under an exclusive lock (the bbolt write transaction), so two such
sequences cannot interleave and wait for each other's elements. -/
theorem loop_carried_locks_gated : loopCarriedGated loopCarried = true := by
  decide +kernel

/-- Non-vacuity: an inversion `A → B`, `B → A` is rejected … -/
example : lockGraphAcyclic [⟨0, 0, 1, 0⟩, ⟨1, 1, 0, 0⟩] = false := by decide
/-- … also when it is hidden among other edges and closed through a third lock, … -/
example : lockGraphAcyclic [⟨0, 0, 1, 0⟩, ⟨0, 5, 6, 0⟩, ⟨1, 1, 2, 3⟩, ⟨2, 2, 0, 0⟩, ⟨2, 2, 7, 0⟩] = false := by decide
/-- … a self-edge (re-acquisition, `RLock` inside `RLock`) is rejected, … -/
example : lockGraphAcyclic [⟨0, 3, 3, 1⟩] = false := by decide
/-- … a consistent order is accepted, and the extracted table is not empty. -/
example : lockGraphAcyclic [⟨0, 0, 1, 0⟩, ⟨1, 1, 2, 0⟩, ⟨2, 0, 2, 0⟩] = true := by decide
example : lockEdges.length > 0 := by decide +kernel
/-- The hypothesis of `lock_nesting_no_cycle` is not what makes it true: the rejected inversion has a cycle. -/
example : Path (lockGraph [⟨0, 0, 1, 0⟩, ⟨1, 1, 0, 0⟩]) 0 0 :=
  Path.cons (b := 1) (by decide) (Path.single (by decide))

/-! ### Lock-guarded fields of `Session` -/

/-- The (function, field) pairs of the current source that touch a guarded field of `Session` without its mutex
outside construction (finding C20-F5).  A pair not listed here fails `session_fields_guarded_except_known`. -/
def knownSessionSites : List (String × String) := []

def sessNamed (a : SessAcc) : String × String := (sessFnNames.getD a.fn "?", sessFieldNames.getD a.field "?")

/-- **session_fields_guarded_except_known.** Recomputed by the kernel from the extracted table: every access to a
mutex-guarded field of `Session` that can run after construction holds the guard — exclusively for a write, at
least shared for a read; lexically or in every caller — except the recorded sites. -/
theorem session_fields_guarded_except_known :
    ((sessUnguarded sessAccesses).map sessNamed).all (fun p => knownSessionSites.contains p) = true := by
  decide +kernel

/-- What the rule buys: two accesses that both satisfy it, to the same field written after construction, at least
one of them a write, neither during construction, hold the same `RWMutex` — the writer exclusively, the other at
least shared — so the mutex orders them. -/
theorem session_guard_excludes (tbl : List SessAcc) (a b : SessAcc)
    (ha : sessGuardOk tbl a = true) (hb : sessGuardOk tbl b = true)
    (hca : a.ctor = false) (hcb : b.ctor = false) (hf : a.field = b.field)
    (hw : sessFieldWritten tbl a.field = true) (haw : a.write = true) :
    a.mode = 2 ∧ b.mode ≠ 0 := by
  have hwb : sessFieldWritten tbl b.field = true := hf ▸ hw
  unfold sessGuardOk at ha hb
  simp only [hca, hcb, hw, hwb, haw, Bool.false_or, Bool.not_true, if_true] at ha hb
  refine ⟨by simpa using ha, ?_⟩
  cases hbw : b.write <;> simp [hbw] at hb <;> omega

/-- Non-vacuity: the table has guarded accesses outside construction, the rule rejects an unguarded write … -/
example : (sessAccesses.filter fun a => !a.ctor && a.mode != 0).length > 0 := by decide +kernel
example : sessUnguarded [⟨0, 0, true, 1, false⟩] = [⟨0, 0, true, 1, false⟩] := by decide
/-- … and a read under a read lock next to a write under the write lock is accepted. -/
example : sessUnguarded [⟨0, 0, true, 2, false⟩, ⟨1, 0, false, 1, false⟩] = [] := by decide

/-- **discipline_sound.** In any execution whose happens-before relation orders all events of the loop
goroutine and all pairs of critical sections of one mutex, two events whose accesses do not `clash`
(and are placed on goroutines as their contexts say) never race. -/
theorem discipline_sound (cls : List Nat) (hb : Event → Event → Prop)
    (hloop : ∀ a b : Event, a.g = 0 → b.g = 0 → hb a b ∨ hb b a)
    (hlock : ∀ a b : Event, a.acc.lock ≠ 0 → a.acc.lock = b.acc.lock → hb a b ∨ hb b a)
    (a b : Event) (ha : a.wellPlaced) (hbp : b.wellPlaced)
    (hrun : a.g ≠ 0 → a.acc.ctx ≠ 0) (hrun' : b.g = 0 → b.acc.ctx ≠ 1)
    (hsame : a.acc.fn = b.acc.fn → a.acc.ctx = 2 → False)
    (hnc : clash a.acc b.acc = false) (hag : a.g ≠ 0) (hbg : b.g = 0) :
    ¬ Race cls hb a b := by
  intro ⟨_, hf, _, hw, hn1, hn2⟩
  have hctx : b.acc.ctx ≠ 1 := hrun' hbg
  unfold clash at hnc
  have hfe : (a.acc.field == b.acc.field) = true := by simp [hf]
  have hc1 : (b.acc.ctx != 1) = true := by simp [hctx]
  have hwr : (b.acc.write || a.acc.write) = true := by
    rcases hw with h | h <;> simp [h]
  simp only [hfe, hc1, hwr, Bool.true_and, Bool.and_eq_false_iff, Bool.not_eq_false', Bool.and_eq_true,
    bne_iff_ne, ne_eq, beq_iff_eq] at hnc
  rcases hnc with ⟨hl0, hl⟩ | ⟨hfn, hc2⟩
  · rcases hlock a b hl0 hl with h | h
    · exact hn1 h
    · exact hn2 h
  · exact hsame hfn hc2

/-- Non-vacuity: the table is not empty and contains accesses from outside the loop to owned fields. -/
example : (table.filter fun r => r.ctx != 0 && owned fieldClass r.field).length > 0 := by decide +kernel

end Rain.Props.C20
