import RainModel.Model.Blocks
import RainModel.Lemmas.Blocks
import RainModel.Model.Geometry
import RainModel.Lemmas.Geometry
import RainModel.Lemmas.SectionIO
import RainModel.Lemmas.Jobs
import RainModel.Lemmas.CreateVerify
/-!
C02 — piece/file geometry.  Property theorems only; helper lemmas live in `Lemmas/`.
-/
namespace Rain.Props.C02
open Rain.Blocks

/-- **calcBlocks_tiles.** For every non-empty section list and every block size `bs > 0`,
`calculateBlocks(bs)` returns blocks that are sorted and pairwise disjoint, each of length
`1..bs`, none covering a padding byte, whose union is exactly the non-padding byte positions
of the piece (`Tiles`, the same predicate the check evaluates on the implementation's output). -/
theorem calcBlocks_tiles (bs : Nat) (hbs : 0 < bs) (secs : List Sec) (hne : secs ≠ []) :
    ∃ bl, calcBlocks bs secs = some bl ∧ Tiles bs secs bl = true := by
  refine ⟨runWith CB.nextBlock bs secs, ?_, runWith_tiles bs hbs secs⟩
  unfold calcBlocks
  cases secs with
  | nil => exact absurd rfl hne
  | cons s r => rfl

/-- No block is longer than the block size (16 KiB in production), restated on its own. -/
theorem calcBlocks_block_le (bs : Nat) (hbs : 0 < bs) (secs : List Sec) (bl : List Block)
    (h : calcBlocks bs secs = some bl) : ∀ b ∈ bl, 0 < b.l ∧ b.l ≤ bs := by
  have hne : secs ≠ [] := by
    intro e; subst e; simp [calcBlocks] at h
  obtain ⟨bl', h', ht⟩ := calcBlocks_tiles bs hbs secs hne
  rw [h] at h'
  cases h'
  intro b hb
  unfold Tiles at ht
  simp only [Bool.and_eq_true, List.all_eq_true, decide_eq_true_eq] at ht
  have := ht.1 b hb
  simpa using this

/-- Non-vacuity: a padded, multi-section piece with a block size that does not divide it. -/
example : calcBlocks 4 [⟨5, false⟩, ⟨2, true⟩, ⟨6, false⟩] =
    some [⟨0, 4⟩, ⟨4, 1⟩, ⟨7, 4⟩, ⟨11, 2⟩] := by decide

/-- The historical defect (fixed in /repo by 46bccae): the pre-fix cursor machine does *not*
tile `[pad 2][data 3]`; the same witness is kept in `corpus/blocks/`. -/
theorem calcBlocksStale_counterexample :
    ∃ bl, calcBlocksStale 4 [⟨2, true⟩, ⟨3, false⟩] = some bl ∧ Tiles 4 [⟨2, true⟩, ⟨3, false⟩] bl = false := by
  exact ⟨[⟨0, 3⟩], by decide, by decide⟩

/-! ### `piece.NewPieces` -/
section NewPieces
open Rain.Geometry

/-- **newPieces_tiles.** For every input satisfying what `metainfo.NewInfo` establishes (`WF`: at
least one file, lengths ≥ 0 summing to `Length`, `0 < pieceLength < 2^32`,
`(n−1)·pl < Length ≤ n·pl`) the two-cursor loop of `NewPieces` does not panic (no index out of
range in `nextFile`) and its result satisfies `TilesFiles` — the very predicate the check
evaluates on the implementation's output: there are `n` pieces; the flattened per-byte stream of
`(fileIndex, offset)` over all sections of all pieces in order equals the stream of all files'
bytes in order (each byte exactly once; zero-length files contribute zero-length sections or
none); every piece's length is the sum of its sections, equals `pl` except for a non-empty,
possibly shorter last piece; the piece lengths sum to `Length`; every section carries the
padding flag and name of its file and lies inside it. -/
theorem newPieces_tiles (files : List FileEnt) (pl n L : Nat) (h : WF files pl n L) :
    ∃ ps steps, newPieces files pl n L = .ok (ps, steps) ∧ TilesFiles files pl n L ps = true := by
  obtain ⟨ps, st, hrun, ht, _⟩ := newPieces_spec files pl n L h
  exact ⟨ps, st, hrun, ht⟩

/-- **newPieces_steps_le.** For *every* input (well-formed or not, non-negative lengths) the
model's fuel is never exhausted — `NewPieces` terminates — and the number of iterations of the
inner loop is at most `numPieces + numFiles`, independent of `Length` and of the file sizes
(work linear in the size of the metainfo; used by C06). -/
theorem newPieces_steps_le (files : List FileEnt) (pl n L : Nat) :
    newPieces files pl n L ≠ .fuel ∧
    ∀ ps steps, newPieces files pl n L = .ok (ps, steps) → steps ≤ n + files.length := by
  cases files with
  | nil => exact ⟨by simp [newPieces], by simp [newPieces]⟩
  | cons f r =>
    simp only [newPieces]
    rcases pieces_steps pl L n { fi := 0, cur := f, rest := r, foff := 0, total := 0 } with hp | ⟨ps, st, hrun, hst⟩
    · rw [hp]; exact ⟨by simp, by simp⟩
    · rw [hrun]
      refine ⟨by simp, ?_⟩
      intro ps' st' heq
      cases heq
      simp only [List.length_cons] at hst ⊢
      omega

/-- Non-vacuity: a layout with a zero-length file, a padding file straddling a piece boundary,
and a short last piece is well-formed, and the loop produces exactly this tiling in 6 steps. -/
example : WF [⟨3, false, 1⟩, ⟨0, false, 2⟩, ⟨2, true, 3⟩, ⟨4, false, 4⟩] 4 3 9 ∧
    newPieces [⟨3, false, 1⟩, ⟨0, false, 2⟩, ⟨2, true, 3⟩, ⟨4, false, 4⟩] 4 3 9 = .ok (
      [⟨4, [⟨0, 0, 3, false, 1⟩, ⟨1, 0, 0, false, 2⟩, ⟨2, 0, 1, true, 3⟩]⟩,
       ⟨4, [⟨2, 1, 1, true, 3⟩, ⟨3, 0, 3, false, 4⟩]⟩,
       ⟨1, [⟨3, 3, 1, false, 4⟩]⟩], 6) := by decide

/-- The hypothesis matters: with one byte more announced than the files hold the loop runs off
the end of the file list (the index panic of `nextFile`), and the predicate is not trivially true. -/
example : newPieces [⟨3, false, 1⟩] 4 1 4 = .panic ∧
    TilesFiles [⟨3, false, 1⟩, ⟨1, false, 2⟩] 4 1 4 [⟨4, [⟨0, 0, 4, false, 1⟩]⟩] = false := by decide

end NewPieces

/-! ### `filesection.Piece.Write` / `ReadAt`, `storage.PaddingFile` -/
section ReadWrite
open Rain.Geometry

/-- **read_write_roundtrip.** Let the sections of a piece fit the store (`fits`: a padding section
sits on a `PaddingFile`, a data section inside a data file) and let its data sections be pairwise
disjoint (`(dataStream p).Nodup`, which `newPieces_tiles` gives for every piece of an accepted
metainfo).  Then for every buffer of the piece's length:
* `Write` does not panic — in particular it never calls `WriteAt` on a padding file, which is
  the only way the model's `write` can yield `.panic` besides a short buffer — reports exactly the
  number of non-padding bytes, and satisfies the executable oracle `writeOK`;
* no byte outside the piece's data sections changes and padding files stay padding files;
* for **every** `off`, `n` with `0 < n` and `off + n ≤ piece length`, `ReadAt` afterwards does not
  panic (no index out of range in the skip loop, also for `off` on a section boundary and with
  zero-length sections) and returns exactly `buf[off, off+n)` with the padding regions replaced
  by zeros (`readOK`). -/
theorem read_write_roundtrip (st : Store) (p : List Geometry.Sec) (buf : List Nat)
    (hfit : fits st p = true) (hdis : (dataStream p).Nodup) (hlen : buf.length = secsLen p) :
    ∃ st', write st p buf 0 = .ok st' (secsLen (p.filter fun s => !s.pad)) ∧
      writeOK st p buf (.ok st' (secsLen (p.filter fun s => !s.pad))) = true ∧
      (∀ f o, (f, o) ∉ dataStream p → getByte st' f o = getByte st f o) ∧
      (∀ f : Nat, st[f]? = some FileStore.padding → st'[f]? = some FileStore.padding) ∧
      ∀ off n, 0 < n → off + n ≤ secsLen p →
        readAt st' p off n = .ok (((zeroPadding p buf).drop off).take n) ∧
        readOK st' p off n (readAt st' p off n) = true := by
  obtain ⟨st', hw, hsh, hfr, hc⟩ := write_spec p st buf 0 hfit hdis (by omega)
  rw [Nat.zero_add] at hw
  refine ⟨st', hw, writeOK_of rfl hc hsh hfr, hfr, hsh.pad, ?_⟩
  intro off n hn hle
  have hr := readAt_spec st' p off n (fits_of_sameShape hsh p hfit) hn hle
  refine ⟨by rw [hr, hc], ?_⟩
  rw [hr]; simp [readOK]

/-- **pieces_roundtrip.** `read_write_roundtrip` applies to every piece of every accepted
metainfo: for `WF` inputs and a store as the allocator leaves it (`storeMatches`), all pieces of
`NewPieces` fit the store, the byte positions of all sections of all pieces are pairwise distinct
(no two pieces — and no two sections of one piece — share a byte on disk; this is the
disjointness C01 uses), and hence every piece can be written and any sub-range read back. -/
theorem pieces_roundtrip (files : List FileEnt) (pl n L : Nat) (h : WF files pl n L) (st : Store)
    (hst : storeMatches files st = true) :
    ∃ ps steps, newPieces files pl n L = .ok (ps, steps) ∧ (secStream (allSecs ps)).Nodup ∧
      ∀ p ∈ ps, fits st p.secs = true ∧ (dataStream p.secs).Nodup ∧ p.len = secsLen p.secs := by
  obtain ⟨ps, steps, hrun, ht, hmeta, _⟩ := newPieces_spec files pl n L h
  obtain ⟨hnd, hnds⟩ := nodup_of_tiles ht
  refine ⟨ps, steps, hrun, hnd, fun p hp => ⟨?_, hnds p hp, ?_⟩⟩
  · apply fits_of_storeMatches hst
    intro s hs
    apply hmeta s
    simp only [allSecs, List.mem_flatMap]
    exact ⟨p, hp, hs⟩
  · simp only [TilesFiles, Bool.and_eq_true, beq_iff_eq, List.all_eq_true] at ht
    simpa [secsLen] using ht.1.1.1.2 p hp

/-- Reading needs no preceding write: any in-range `ReadAt` on a fitting piece returns the
piece's content (padding as zeros); this is the statement C03 (upload) and the verifier rely on. -/
theorem readAt_in_range (st : Store) (p : List Geometry.Sec) (off n : Nat) (hfit : fits st p = true) (hn : 0 < n)
    (hle : off + n ≤ secsLen p) : readOK st p off n (readAt st p off n) = true := by
  rw [readAt_spec st p off n hfit hn hle]; simp [readOK]

/-- Non-vacuity: a piece `[data 2 of file 0 @1][pad 2][zero-length data][data 1 of file 2 @0]`;
write `1,2,3,4,5`, then read `[1,4)` (starting inside the first section, crossing the padding and
the zero-length section boundary). -/
example :
    let st : Store := [.data [9, 9, 9], .padding, .data [7]]
    let p : List Geometry.Sec := [⟨0, 1, 2, false, 1⟩, ⟨1, 0, 2, true, 2⟩, ⟨0, 3, 0, false, 1⟩, ⟨2, 0, 1, false, 3⟩]
    fits st p = true ∧ (dataStream p).Nodup ∧
    write st p [1, 2, 3, 4, 5] 0 = .ok [.data [9, 1, 2], .padding, .data [5]] 3 ∧
    readAt [.data [9, 1, 2], .padding, .data [5]] p 1 4 = .ok [2, 0, 0, 5] ∧
    readAt [.data [9, 1, 2], .padding, .data [5]] p 2 2 = .ok [0, 0] := by decide

/-- Outside the hypotheses the model does show the Go failures: an offset past the end panics
(`p[i]` with `i = len(p)`), a data section on a padding file panics in `Write`. -/
example : readAt [.data [1, 2]] [⟨0, 0, 2, false, 1⟩] 3 1 = .panic ∧
    write [.padding] [⟨0, 0, 1, false, 1⟩] [5] 0 = .panic [.padding] := by decide

end ReadWrite

/-! ### `urldownloader.createJobs` -/
section Jobs
open Rain.Geometry

/-- **jobs_cover.** For every accepted metainfo (`WF`, and file names as `NewInfo` leaves them:
none empty, no two non-padding files with the same name — `namesOK`) and every piece range
`begin ≤ end ≤ numPieces`, `createJobs` on the pieces built by `NewPieces` does not panic and its
job list, read in order, reproduces the byte stream of the sections of pieces `[begin, end)`
token by token (`JobsCover`, the predicate the check evaluates on the implementation's output):
a byte of a non-padding section `(name, offset)` is byte `RangeBegin + k` of a job with that
file name, padding sections are covered by padding jobs (zeros, never requested), and no job is
empty (zero-length files are dropped).  Also covers `begin > 0`, where the Go code never takes its
`i == 0 && j == 0` initialisation branch and relies on the zero job being unmergeable. -/
theorem jobs_cover (files : List FileEnt) (pl n L : Nat) (h : WF files pl n L) (hnames : namesOK files = true)
    (b e : Nat) (hbe : b ≤ e) (he : e ≤ n) :
    ∃ ps steps jobs, newPieces files pl n L = .ok (ps, steps) ∧ createJobs ps b e = some jobs ∧
      JobsCover (secsOfRange ps b e) jobs = true := by
  obtain ⟨ps, st, hrun, ht, hmeta, q, hwalk⟩ := newPieces_spec files pl n L h
  have hlen : ps.length = n := by
    simp only [TilesFiles, Bool.and_eq_true, beq_iff_eq] at ht
    exact ht.1.1.1.1.1
  obtain ⟨jobs, hj, hc⟩ := createJobs_cover hnames ps (0, 0) q hwalk hmeta b e hbe (by omega)
  exact ⟨ps, st, jobs, hrun, hj, hc⟩

/-- Non-vacuity: data file 1 (3 bytes), an empty file 2, a padding file (2 bytes, name 102), data
file 4 (4 bytes), piece length 4.  Jobs for pieces `[1, 3)` start in the middle of the padding
file; the empty file is dropped in `[0, 3)`. -/
example :
    let files : List FileEnt := [⟨3, false, 1⟩, ⟨0, false, 2⟩, ⟨2, true, 102⟩, ⟨4, false, 4⟩]
    WF files 4 3 9 ∧ namesOK files = true ∧
    ∃ ps st, newPieces files 4 3 9 = .ok (ps, st) ∧
      createJobs ps 0 3 = some [⟨1, 0, 3, false⟩, ⟨102, 0, 2, true⟩, ⟨4, 0, 4, false⟩] ∧
      createJobs ps 1 3 = some [⟨102, 1, 1, true⟩, ⟨4, 0, 4, false⟩] := by
  refine ⟨by decide, by decide, _, _, rfl, by decide, by decide⟩

/-- The name hypothesis matters: two *non-padding* files with one name (rejected by `NewInfo` as
"duplicate file name") are merged into one job that does not cover the sections. -/
example :
    let files : List FileEnt := [⟨2, false, 7⟩, ⟨2, false, 7⟩]
    namesOK files = false ∧
    ∃ ps st, newPieces files 4 1 4 = .ok (ps, st) ∧
      createJobs ps 0 1 = some [⟨7, 0, 4, false⟩] ∧ JobsCover (secsOfRange ps 0 1) [⟨7, 0, 4, false⟩] = false := by
  refine ⟨by decide, _, _, rfl, by decide, by decide⟩

end Jobs

/-! ### creation (`metainfo.NewInfoBytes`) against the verifier -/
section CreateVerify
open Rain.Geometry

/-- **create_verify, full statement** (what C02 asks, FALSE of the code — finding F02): for every
hash function `H`, every list of files `(entry, content)` with `entry.len = |content|` — whatever
padding flags parsing assigns — whose metainfo is well-formed, the piece table computed by the
creation loop over the contents in order makes the verifier, run on the pieces of `NewPieces`
over the storage of that same directory, set every bit. -/
def create_verify_full : Prop :=
  ∀ (H : List Nat → Nat) (pl n : Nat) (fs : List (FileEnt × List Nat)),
    (∀ x ∈ fs, x.1.len = x.2.length) → WF (fs.map (·.1)) pl n (totalLen (fs.map (·.1))) →
    ∃ ps st, newPieces (fs.map (·.1)) pl n (totalLen (fs.map (·.1))) = .ok (ps, st) ∧
      verifyBits H (storeOf fs) ps (createHashes H pl (fs.map (·.2))) = some (List.replicate n true)

/-- **create_verify_partial.** The full statement under the one extra hypothesis that excludes
F02: no file of the tree is marked as a padding file when the created metainfo is parsed (i.e. no
name starts with `_____padding_file`).  For every `H` (SHA-1 abstract): the creation loop hashes
exactly the contents of the pieces `NewPieces` builds, in order, so the verifier's bitfield over
the same files is all ones. -/
theorem create_verify_partial (H : List Nat → Nat) (pl n : Nat) (fs : List (FileEnt × List Nat))
    (hlen : ∀ x ∈ fs, x.1.len = x.2.length) (hnopad : ∀ x ∈ fs, x.1.pad = false)
    (hwf : WF (fs.map (·.1)) pl n (totalLen (fs.map (·.1)))) :
    ∃ ps st, newPieces (fs.map (·.1)) pl n (totalLen (fs.map (·.1))) = .ok (ps, st) ∧
      verifyBits H (storeOf fs) ps (createHashes H pl (fs.map (·.2))) = some (List.replicate n true) := by
  obtain ⟨ps, st, hrun, ht, hmeta, _⟩ := newPieces_spec _ pl n _ hwf
  refine ⟨ps, st, hrun, ?_⟩
  simp only [TilesFiles, Bool.and_eq_true, beq_iff_eq, List.all_eq_true] at ht
  obtain ⟨⟨⟨⟨⟨hn, hstream⟩, hall⟩, hlens⟩, _⟩, _⟩ := ht
  have hboth : ∀ x ∈ fs, x.1.len = x.2.length ∧ x.1.pad = false := fun x hx => ⟨hlen x hx, hnopad x hx⟩
  obtain ⟨hfit, hpads⟩ := fits_storeOf fs hboth (allSecs ps) hmeta
  have hpl : ∀ p ∈ ps, p.len = secsLen p.secs := fun p hp => by simpa [secsLen] using hall p hp
  -- contents of the pieces, concatenated, are the contents of the files, concatenated
  have hcat : (fs.map (·.2)).flatten = (ps.map fun p => pieceContent (storeOf fs) p.secs).flatten := by
    rw [← pieceContent_allSecs, pieceContent_eq_look _ _ hfit hpads, hstream]
    have := fileStream_look fs [] hboth
    simpa using this.symm
  rw [createHashes_eq H hwf.pl_pos _ _ hcat (validChunks_of_lensOK _ ps hlens hpl), List.map_map, ← hn]
  apply verifyBits_all
  intro p hp
  refine ⟨?_, hpl p hp, pos_of_lensOK hwf.pl_pos ps hlens p hp⟩
  unfold fits at hfit ⊢
  rw [List.all_eq_true] at hfit ⊢
  intro s hs
  apply hfit s
  simp only [allSecs, List.mem_flatMap]
  exact ⟨p, hp, hs⟩

/-- **create_verify_counterexample** (F02 on the model).  One 2-byte file that parsing marks as
padding (`_____padding_file…`) with non-zero content: creation hashes `[1, 2]`, the verifier reads
zeros from the `PaddingFile`, and for `H = sum` the bit is not set. -/
theorem create_verify_counterexample : ¬ create_verify_full := by
  intro h
  obtain ⟨ps, st, hrun, hv⟩ := h (fun bs => bs.sum) 2 1 [(⟨2, true, 1⟩, [1, 2])] (by decide) (by decide)
  have hnp : newPieces ([(⟨2, true, 1⟩, [1, 2])].map (·.1)) 2 1 (totalLen ([(⟨2, true, 1⟩, [1, 2])].map (·.1))) =
      .ok ([⟨2, [⟨0, 0, 2, true, 1⟩]⟩], 1) := by decide
  rw [hnp] at hrun
  cases hrun
  revert hv
  decide

/-- Non-vacuity of `create_verify_partial`: three files, one empty, piece length 4, 9 bytes. -/
example : let fs : List (FileEnt × List Nat) := [(⟨3, false, 1⟩, [1, 2, 3]), (⟨0, false, 2⟩, []), (⟨6, false, 3⟩, [4, 5, 6, 7, 8, 9])]
    (∀ x ∈ fs, x.1.len = x.2.length) ∧ (∀ x ∈ fs, x.1.pad = false) ∧ WF (fs.map (·.1)) 4 3 (totalLen (fs.map (·.1))) ∧
    createHashes (fun bs => bs.sum) 4 (fs.map (·.2)) = [10, 26, 9] := by decide

end CreateVerify

/-! ### the two halves together: blocks of the pieces of an accepted metainfo -/
section PieceBlocks
open Rain.Geometry

/-- What `calculateBlocks` reads of a section. -/
def toBlockSec (s : Geometry.Sec) : Blocks.Sec := { len := s.len, pad := s.pad }

/-- **pieces_blocks_tile.** For every accepted metainfo, every piece built by `NewPieces` has at
least one section (so `calculateBlocks` does not panic on `p.Data[0]`), and its 16 KiB blocks
tile exactly its non-padding bytes, none longer than 16 KiB. -/
theorem pieces_blocks_tile (files : List FileEnt) (pl n L : Nat) (h : WF files pl n L) :
    ∃ ps steps, newPieces files pl n L = .ok (ps, steps) ∧
      ∀ p ∈ ps, ∃ bl, calcBlocks 16384 (p.secs.map toBlockSec) = some bl ∧
        Tiles 16384 (p.secs.map toBlockSec) bl = true := by
  obtain ⟨ps, steps, hrun, ht⟩ := newPieces_tiles files pl n L h
  refine ⟨ps, steps, hrun, fun p hp => ?_⟩
  apply calcBlocks_tiles 16384 (by decide)
  intro hnil
  have hsecs : p.secs = [] := by simpa using hnil
  simp only [TilesFiles, Bool.and_eq_true, beq_iff_eq, List.all_eq_true] at ht
  have hlen : p.len = 0 := by simpa [hsecs] using ht.1.1.1.2 p hp
  have := pos_of_lensOK h.pl_pos ps ht.1.1.2 p hp
  omega

end PieceBlocks

end Rain.Props.C02
