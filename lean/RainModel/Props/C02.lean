import RainModel.Model.Blocks
import RainModel.Lemmas.Blocks
/-!
C02 — piece/file geometry.  Property theorems only; helper lemmas live in `Lemmas/`.
-/
namespace Rain.Props.C02
open Rain.Blocks

/-- **calcBlocks_tiles.** For every non-empty section list and every block size `bs > 0`,
`calculateBlocks(bs)` returns blocks that are sorted and pairwise disjoint, each of length
`1..bs`, none covering a padding byte, whose union is exactly the non-padding byte positions
of the piece (`Tiles`, the same predicate the check evaluates on the implementation's output). -/
theorem calcBlocks_tiles (bs : Nat) (hbs : 0 < bs) (secs : List Sec) (hne : secs ≠ []) :
    ∃ bl, calcBlocks bs secs = some bl ∧ Tiles bs secs bl = true := by
  refine ⟨runWith CB.nextBlock bs secs, ?_, runWith_tiles bs hbs secs⟩
  unfold calcBlocks
  cases secs with
  | nil => exact absurd rfl hne
  | cons s r => rfl

/-- No block is longer than the block size (16 KiB in production), restated on its own. -/
theorem calcBlocks_block_le (bs : Nat) (hbs : 0 < bs) (secs : List Sec) (bl : List Block)
    (h : calcBlocks bs secs = some bl) : ∀ b ∈ bl, 0 < b.l ∧ b.l ≤ bs := by
  have hne : secs ≠ [] := by
    intro e; subst e; simp [calcBlocks] at h
  obtain ⟨bl', h', ht⟩ := calcBlocks_tiles bs hbs secs hne
  rw [h] at h'
  cases h'
  intro b hb
  unfold Tiles at ht
  simp only [Bool.and_eq_true, List.all_eq_true, decide_eq_true_eq] at ht
  have := ht.1 b hb
  simpa using this

/-- Non-vacuity: a padded, multi-section piece with a block size that does not divide it. -/
example : calcBlocks 4 [⟨5, false⟩, ⟨2, true⟩, ⟨6, false⟩] =
    some [⟨0, 4⟩, ⟨4, 1⟩, ⟨7, 4⟩, ⟨11, 2⟩] := by decide

/-- The historical defect (fixed in /repo by 46bccae): the pre-fix cursor machine does *not*
tile `[pad 2][data 3]`; the same witness is kept in `corpus/blocks/`. -/
theorem calcBlocksStale_counterexample :
    ∃ bl, calcBlocksStale 4 [⟨2, true⟩, ⟨3, false⟩] = some bl ∧ Tiles 4 [⟨2, true⟩, ⟨3, false⟩] bl = false := by
  exact ⟨[⟨0, 3⟩], by decide, by decide⟩

end Rain.Props.C02
