import RainModel.Model.Blocks
import RainModel.Lemmas.Blocks
import RainModel.Model.Geometry
import RainModel.Lemmas.Geometry
/-!
C02 — piece/file geometry.  Property theorems only; helper lemmas live in `Lemmas/`.
-/
namespace Rain.Props.C02
open Rain.Blocks

/-- **calcBlocks_tiles.** For every non-empty section list and every block size `bs > 0`,
`calculateBlocks(bs)` returns blocks that are sorted and pairwise disjoint, each of length
`1..bs`, none covering a padding byte, whose union is exactly the non-padding byte positions
of the piece (`Tiles`, the same predicate the check evaluates on the implementation's output). -/
theorem calcBlocks_tiles (bs : Nat) (hbs : 0 < bs) (secs : List Sec) (hne : secs ≠ []) :
    ∃ bl, calcBlocks bs secs = some bl ∧ Tiles bs secs bl = true := by
  refine ⟨runWith CB.nextBlock bs secs, ?_, runWith_tiles bs hbs secs⟩
  unfold calcBlocks
  cases secs with
  | nil => exact absurd rfl hne
  | cons s r => rfl

/-- No block is longer than the block size (16 KiB in production), restated on its own. -/
theorem calcBlocks_block_le (bs : Nat) (hbs : 0 < bs) (secs : List Sec) (bl : List Block)
    (h : calcBlocks bs secs = some bl) : ∀ b ∈ bl, 0 < b.l ∧ b.l ≤ bs := by
  have hne : secs ≠ [] := by
    intro e; subst e; simp [calcBlocks] at h
  obtain ⟨bl', h', ht⟩ := calcBlocks_tiles bs hbs secs hne
  rw [h] at h'
  cases h'
  intro b hb
  unfold Tiles at ht
  simp only [Bool.and_eq_true, List.all_eq_true, decide_eq_true_eq] at ht
  have := ht.1 b hb
  simpa using this

/-- Non-vacuity: a padded, multi-section piece with a block size that does not divide it. -/
example : calcBlocks 4 [⟨5, false⟩, ⟨2, true⟩, ⟨6, false⟩] =
    some [⟨0, 4⟩, ⟨4, 1⟩, ⟨7, 4⟩, ⟨11, 2⟩] := by decide

/-- The historical defect (fixed in /repo by 46bccae): the pre-fix cursor machine does *not*
tile `[pad 2][data 3]`; the same witness is kept in `corpus/blocks/`. -/
theorem calcBlocksStale_counterexample :
    ∃ bl, calcBlocksStale 4 [⟨2, true⟩, ⟨3, false⟩] = some bl ∧ Tiles 4 [⟨2, true⟩, ⟨3, false⟩] bl = false := by
  exact ⟨[⟨0, 3⟩], by decide, by decide⟩

/-! ### `piece.NewPieces` -/
section NewPieces
open Rain.Geometry

/-- **newPieces_tiles.** For every input satisfying what `metainfo.NewInfo` establishes (`WF`: at
least one file, lengths ≥ 0 summing to `Length`, `0 < pieceLength < 2^32`,
`(n−1)·pl < Length ≤ n·pl`) the two-cursor loop of `NewPieces` does not panic (no index out of
range in `nextFile`) and its result satisfies `TilesFiles` — the very predicate the check
evaluates on the implementation's output: there are `n` pieces; the flattened per-byte stream of
`(fileIndex, offset)` over all sections of all pieces in order equals the stream of all files'
bytes in order (each byte exactly once; zero-length files contribute zero-length sections or
none); every piece's length is the sum of its sections, equals `pl` except for a non-empty,
possibly shorter last piece; the piece lengths sum to `Length`; every section carries the
padding flag and name of its file and lies inside it. -/
theorem newPieces_tiles (files : List FileEnt) (pl n L : Nat) (h : WF files pl n L) :
    ∃ ps steps, newPieces files pl n L = .ok (ps, steps) ∧ TilesFiles files pl n L ps = true := by
  obtain ⟨ps, st, hrun, ht, _⟩ := newPieces_spec files pl n L h
  exact ⟨ps, st, hrun, ht⟩

/-- **newPieces_steps_le.** For *every* input (well-formed or not, non-negative lengths) the
model's fuel is never exhausted — `NewPieces` terminates — and the number of iterations of the
inner loop is at most `numPieces + numFiles`, independent of `Length` and of the file sizes
(work linear in the size of the metainfo; used by C06). -/
theorem newPieces_steps_le (files : List FileEnt) (pl n L : Nat) :
    newPieces files pl n L ≠ .fuel ∧
    ∀ ps steps, newPieces files pl n L = .ok (ps, steps) → steps ≤ n + files.length := by
  cases files with
  | nil => exact ⟨by simp [newPieces], by simp [newPieces]⟩
  | cons f r =>
    simp only [newPieces]
    rcases pieces_steps pl L n { fi := 0, cur := f, rest := r, foff := 0, total := 0 } with hp | ⟨ps, st, hrun, hst⟩
    · rw [hp]; exact ⟨by simp, by simp⟩
    · rw [hrun]
      refine ⟨by simp, ?_⟩
      intro ps' st' heq
      cases heq
      simp only [List.length_cons] at hst ⊢
      omega

/-- Non-vacuity: a layout with a zero-length file, a padding file straddling a piece boundary,
and a short last piece is well-formed, and the loop produces exactly this tiling in 6 steps. -/
example : WF [⟨3, false, 1⟩, ⟨0, false, 2⟩, ⟨2, true, 3⟩, ⟨4, false, 4⟩] 4 3 9 ∧
    newPieces [⟨3, false, 1⟩, ⟨0, false, 2⟩, ⟨2, true, 3⟩, ⟨4, false, 4⟩] 4 3 9 = .ok (
      [⟨4, [⟨0, 0, 3, false, 1⟩, ⟨1, 0, 0, false, 2⟩, ⟨2, 0, 1, true, 3⟩]⟩,
       ⟨4, [⟨2, 1, 1, true, 3⟩, ⟨3, 0, 3, false, 4⟩]⟩,
       ⟨1, [⟨3, 3, 1, false, 4⟩]⟩], 6) := by decide

/-- The hypothesis matters: with one byte more announced than the files hold the loop runs off
the end of the file list (the index panic of `nextFile`), and the predicate is not trivially true. -/
example : newPieces [⟨3, false, 1⟩] 4 1 4 = .panic ∧
    TilesFiles [⟨3, false, 1⟩, ⟨1, false, 2⟩] 4 1 4 [⟨4, [⟨0, 0, 4, false, 1⟩]⟩] = false := by decide

end NewPieces

end Rain.Props.C02
