import RainModel.Model.Blocks
namespace Rain.Props.C02
end Rain.Props.C02
