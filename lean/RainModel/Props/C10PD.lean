import RainModel.Model.PieceDownloader
import RainModel.Lemmas.PieceDownloader
/-!
C10 — the piece downloader's request window (`internal/piecedownloader`, model `M-PD`), after the
repair of finding C10-F3.

`RequestBlocks` walks `remaining` and, while the window (`pending`) has room, moves blocks into it and
asks the peer for them.  A block may be in `remaining` although it has already been received: it was in
flight when a choke put the window back into `remaining`, and `GotBlock` stores such a block
(`ErrBlockNotRequested`, data kept).  The old loop entered that block into `pending` without sending a
request; `GotBlock` answers `ErrBlockDuplicate` for it before it reaches its `delete(d.pending, …)`, so
nothing ever removed the entry: one window slot per such block was lost for the life of the
downloader, and with the window full of dead entries `RequestBlocks` requested nothing while blocks were
missing and nothing was outstanding (`pd_stall_unfixed_counterexample`).  The repaired loop drops a
received block from `remaining` and leaves the window alone.

Proved here for the repaired loop, over every operation sequence from `New`:

* `pd_pending_disjoint_done` — no block is both in the window and received;
* `pd_request_progress` — `RequestBlocks` with room in the window issues a request, or there is nothing
  left to request and every missing block is outstanding.

Property theorems only; helper lemmas live in `Lemmas/PieceDownloader`.
-/
namespace Rain.Props.C10PD
open Rain.Blocks Rain.PD

/-! ## The window holds only unanswered requests -/

/-- The invariant holds in the state `New` returns. -/
theorem pd_pending_disjoint_done_init (bl : List Block) (af : Bool) (buf : Bytes) :
    ∀ x, x ∈ (init bl af buf).pending → x ∉ (init bl af buf).done :=
  pendFresh_init bl af buf

/-- Every call preserves the invariant, in any state (any block table, any buffer; `Choked` with any
iteration order, admissible or not). -/
theorem pd_pending_disjoint_done_step (s s' : State) (op : Op)
    (hinv : ∀ x, x ∈ s.pending → x ∉ s.done) (hstep : step s op = some s') :
    ∀ x, x ∈ s'.pending → x ∉ s'.done :=
  step_pendFresh hinv hstep

/-- **pd_pending_disjoint_done.** After every sequence of calls (blocks that are unrequested,
duplicated, of a wrong length; chokes with any iteration order; rejects; requests; cancels), for any
block list, buffer and `allowedFast`: no block is both in `pending` and in `done` — the request window
only holds requests whose answer has not arrived, so each entry is released by the block's arrival, by
a reject or by a choke. -/
theorem pd_pending_disjoint_done (bl : List Block) (af : Bool) (buf : Bytes) (ops : List Op) (s : State)
    (hrun : run (init bl af buf) ops = some s) : ∀ x, x ∈ s.pending → x ∉ s.done :=
  run_pendFresh ops _ s (pendFresh_init bl af buf) hrun

/-! ## `RequestBlocks` makes progress -/

/-- **pd_request_progress.** On the piece's computed blocks, in every state `s` reached from `New` by
calls whose `Choked` iteration orders are admissible, `RequestBlocks(q)` with room in the window
(`len(pending) < q`) does not panic and, with `s'` the state after it and `r` the requests it sent:

1. a request was sent, **or** `remaining` is now empty, the window is unchanged, and every block of the
   piece that has not been received is in the window;
2. every request sent is for a block of the piece that has not been received, and is in the window;
3. if the piece is incomplete (`Done()` false): a request was sent, **or** some missing block is in the
   window — which by `pd_pending_disjoint_done` is a request still awaiting its answer.  There is no
   state with a free window slot, a missing block, nothing outstanding and nothing requested. -/
theorem pd_request_progress (bs : Nat) (hbs : 0 < bs) (secs : List Sec) (bl : List Block)
    (hbl : calcBlocks bs secs = some bl) (af : Bool) (buf : Bytes) (ops : List Op) (s : State)
    (hadm : admissibleRun (init bl af buf) ops = true)
    (hrun : run (init bl af buf) ops = some s) (q : Int) (hq : (s.pending.length : Int) < q) :
    ∃ s' r, requestBlocks s q = some (s', r) ∧
      (r ≠ [] ∨ (s'.remaining = [] ∧ s'.pending = s.pending ∧
        ∀ b ∈ bl, b.b ∉ s'.done → b.b ∈ s'.pending)) ∧
      (∀ e ∈ r, (⟨e.1, e.2⟩ : Block) ∈ bl ∧ e.1 ∉ s'.done ∧ e.1 ∈ s'.pending) ∧
      (isDone s = false → r ≠ [] ∨ ∃ b ∈ bl, b.b ∉ s'.done ∧ b.b ∈ s'.pending) := by
  have hw := calcBlocks_wf hbs hbl
  obtain ⟨h2, h3⟩ := run_inv23 hw ops _ s (inv2_init af buf) (inv3_init bl af buf) hadm hrun
  obtain ⟨s', r, hreq, _⟩ := requestLoop_some hw q s.remaining s [] h2.remSub h2
  have hfr := requestLoop_frame q _ _ _ _ _ hreq
  have hdone : s'.done = s.done := hfr.2.2.1
  have hcase : r ≠ [] ∨ (s'.remaining = [] ∧ s'.pending = s.pending ∧
      ∀ b ∈ bl, b.b ∉ s'.done → b.b ∈ s'.pending) := by
    rcases requestLoop_progress q _ _ _ _ _ rfl hreq hq with hlt | ⟨hrem, hpend⟩
    · left
      intro hr
      rw [hr] at hlt
      simp at hlt
    · right
      refine ⟨hrem, hpend, ?_⟩
      intro b hb hnd
      have hc := requestLoop_cover q b.b _ _ _ _ _ rfl hreq (h3.cover b.b (List.mem_map.mpr ⟨b, hb, rfl⟩))
      rw [hrem] at hc
      rcases hc with hc | hc | hc
      · simp at hc
      · exact hc
      · exact absurd hc hnd
  refine ⟨s', r, hreq, hcase, ?_, ?_⟩
  · intro e he
    rcases requestLoop_issued q e _ _ _ _ _ hreq he with hacc | ⟨hget, hnd, hp⟩
    · simp at hacc
    · refine ⟨?_, by rw [hdone]; exact hnd, hp⟩
      unfold mapGet at hget
      rw [h2.blocks, makeBlocks_eq hw, lookup_pairs hw.nodup_keys] at hget
      exact hget
  · intro hnd
    rcases hcase with hr | ⟨_, _, hall⟩
    · exact Or.inl hr
    · obtain ⟨b, hb, hbd⟩ := not_isDone_missing hw h2.blocks h3 hnd
      have hbd' : b.b ∉ s'.done := by rw [hdone]; exact hbd
      exact Or.inr ⟨b, hb, hbd', hall b hb hbd'⟩

/-! Non-vacuity, on the padded piece `[data 5][pad 2][data 3]`, block size 4 → blocks (0,4) (4,1) (7,3).

`stallOps`: all three requests go out, the peer chokes (all back into `remaining`), block 0 — already in
flight — arrives and is stored; next the peer unchokes and `RequestBlocks` runs. -/
def exSecs : List Sec := [⟨5, false⟩, ⟨2, true⟩, ⟨3, false⟩]
def exBlocks : List Block := [⟨0, 4⟩, ⟨4, 1⟩, ⟨7, 3⟩]
def exInit : State := init exBlocks false (List.replicate 10 0)
def stallOps : List Op := [.requestBlocks 3, .choked false [0, 4, 7], .gotBlock 0 [1, 2, 3, 4]]

example : calcBlocks 4 exSecs = some exBlocks := by decide
example : admissibleRun exInit stallOps = true := by decide
-- the state after `stallOps`: block 0 received *and* still queued in `remaining`; the window is empty
example : (run exInit stallOps).map (fun s => (s.remaining, s.pending, s.done, isDone s)) =
    some ([0, 4, 7], [], [0], false) := by decide
-- first alternative of `pd_request_progress`: the repaired loop skips block 0 and spends the slot on block 4
example : ((run exInit stallOps).bind (requestBlocks · 1)).map (fun p => (p.1.remaining, p.1.pending, p.2)) =
    some ([7], [4], [(4, 1)]) := by decide
-- second alternative: everything missing is outstanding, nothing more to send, `remaining` ran empty
example : ((run exInit (stallOps ++ [.requestBlocks 2])).bind (requestBlocks · 5)).map
      (fun p => (p.1.remaining, p.1.pending, p.1.done, p.2)) =
    some ([], [4, 7], [0], []) := by decide

/-! ## The loop before the repair -/

/-- The loop of `RequestBlocks` as it was: a received block is entered into `pending` (without a
request) like any other. -/
def requestLoopOld (q : Int) : List Nat → State → List (Nat × Nat) → Option (State × List (Nat × Nat))
  | [], s, acc => some (s, acc.reverse)
  | begin :: rest, s, acc =>
    if (s.pending.length : Int) ≥ q then some (s, acc.reverse)
    else
      match mapGet s.blocks begin with
      | none => none
      | some len =>
        let acc' := if s.done.contains begin then acc else (begin, len) :: acc
        requestLoopOld q rest { s with remaining := s.remaining.drop 1, pending := setInsert s.pending begin } acc'

def requestBlocksOld (s : State) (q : Int) : Option (State × List (Nat × Nat)) :=
  requestLoopOld q s.remaining s []

/-- `step` with the old `RequestBlocks`. -/
def stepOld (s : State) : Op → Option State
  | .requestBlocks q => (requestBlocksOld s q).map (·.1)
  | op => step s op

def runOld (s : State) (ops : List Op) : Option State := ops.foldlM stepOld s

/-- **pd_stall_unfixed_counterexample.** With the old loop, the history request-3 / choke / in-flight
block 0 arrives / `RequestBlocks(1)` (an admissible history on a computed block list) ends in a state
`s` in which

* block 0 is both in `pending` and in `done` (the invariant of `pd_pending_disjoint_done` is broken),
* that last `RequestBlocks(1)` sent nothing, and every later `RequestBlocks(1)` sends nothing and
  changes nothing, although
* the piece is incomplete — blocks 4 and 7 are missing and wait in `remaining` — and no request is
  outstanding: every entry of the window is a block that has already been received, and a further copy
  of it is answered `ErrBlockDuplicate` with the state unchanged, so the entry is never released.

The repaired loop, from the same history, requests block 4 (and the window never holds block 0). -/
theorem pd_stall_unfixed_counterexample :
    calcBlocks 4 exSecs = some exBlocks ∧
    admissibleRun exInit stallOps = true ∧
    ∃ s0 s, run exInit stallOps = some s0 ∧ runOld exInit stallOps = some s0 ∧
      requestBlocksOld s0 1 = some (s, []) ∧
      s.pending = [0] ∧ s.done = [0] ∧ s.remaining = [4, 7] ∧ isDone s = false ∧
      (∀ x ∈ s.pending, x ∈ s.done) ∧
      requestBlocksOld s 1 = some (s, []) ∧
      gotBlock s 0 [1, 2, 3, 4] = (s, .duplicate) ∧
      (requestBlocks s0 1).map (·.2) = some [(4, 1)] := by
  refine ⟨by decide, by decide, ?_⟩
  refine ⟨{ blocks := [(0, 4), (4, 1), (7, 3)], remaining := [0, 4, 7], pending := [], done := [0],
            buf := [1, 2, 3, 4, 0, 0, 0, 0, 0, 0], allowedFast := false },
          { blocks := [(0, 4), (4, 1), (7, 3)], remaining := [4, 7], pending := [0], done := [0],
            buf := [1, 2, 3, 4, 0, 0, 0, 0, 0, 0], allowedFast := false }, ?_⟩
  decide

end Rain.Props.C10PD
