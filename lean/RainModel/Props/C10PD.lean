import RainModel.Model.PieceDownloader
import RainModel.Lemmas.PieceDownloader
/-!
C10 — the piece downloader's request window (`internal/piecedownloader`, model `M-PD`), after the
repair of finding C10-F3.

`RequestBlocks` walks `remaining` and, while the window (`pending`) has room, moves blocks into it and
asks the peer for them.  A block may be in `remaining` although it has already been received: it was in
flight when a choke put the window back into `remaining`, and `GotBlock` stores such a block
(`ErrBlockNotRequested`, data kept).  The old loop entered that block into `pending` without sending a
request; `GotBlock` answers `ErrBlockDuplicate` for it before it reaches its `delete(d.pending, …)`, so
nothing ever removed the entry: one window slot per such block was lost for the life of the
downloader, and with the window full of dead entries `RequestBlocks` requested nothing while blocks were
missing and nothing was outstanding (`pd_stall_unfixed_counterexample`).  The repaired loop drops a
received block from `remaining` and leaves the window alone.

Proved here for the repaired loop, over every operation sequence from `New`:

* `pd_pending_disjoint_done` — no block is both in the window and received;
* `pd_request_progress` — `RequestBlocks` with room in the window issues a request, or there is nothing
  left to request and every missing block is outstanding.

For C17, after the repair of finding C17-F5 (`Rejected` of a block that is not in the window):

* `pd_remaining_nodup`, `pd_remaining_disjoint_pending` — no block is queued twice, or queued while a
  request for it is outstanding;
* `pd_requests_within_window` — requests sent minus requests retired = `len(pending)` ≤ the queue length;
* `pd_double_request_unfixed_counterexample` — the old `Rejected` breaks all three.

Property theorems only; helper lemmas live in `Lemmas/PieceDownloader` (except the two about the ledger
`outstanding`, which is defined here as specification vocabulary).
-/
namespace Rain.Props.C10PD
open Rain.Blocks Rain.PD

/-! ## The window holds only unanswered requests -/

/-- The invariant holds in the state `New` returns. -/
theorem pd_pending_disjoint_done_init (bl : List Block) (af : Bool) (buf : Bytes) :
    ∀ x, x ∈ (init bl af buf).pending → x ∉ (init bl af buf).done :=
  pendFresh_init bl af buf

/-- Every call preserves the invariant, in any state (any block table, any buffer; `Choked` with any
iteration order, admissible or not). -/
theorem pd_pending_disjoint_done_step (s s' : State) (op : Op)
    (hinv : ∀ x, x ∈ s.pending → x ∉ s.done) (hstep : step s op = some s') :
    ∀ x, x ∈ s'.pending → x ∉ s'.done :=
  step_pendFresh hinv hstep

/-- **pd_pending_disjoint_done.** After every sequence of calls (blocks that are unrequested,
duplicated, of a wrong length; chokes with any iteration order; rejects; requests; cancels), for any
block list, buffer and `allowedFast`: no block is both in `pending` and in `done` — the request window
only holds requests whose answer has not arrived, so each entry is released by the block's arrival, by
a reject or by a choke. -/
theorem pd_pending_disjoint_done (bl : List Block) (af : Bool) (buf : Bytes) (ops : List Op) (s : State)
    (hrun : run (init bl af buf) ops = some s) : ∀ x, x ∈ s.pending → x ∉ s.done :=
  run_pendFresh ops _ s (pendFresh_init bl af buf) hrun

/-! ## `RequestBlocks` makes progress -/

/-- **pd_request_progress.** On the piece's computed blocks, in every state `s` reached from `New` by
calls whose `Choked` iteration orders are admissible, `RequestBlocks(q)` with room in the window
(`len(pending) < q`) does not panic and, with `s'` the state after it and `r` the requests it sent:

1. a request was sent, **or** `remaining` is now empty, the window is unchanged, and every block of the
   piece that has not been received is in the window;
2. every request sent is for a block of the piece that has not been received, and is in the window;
3. if the piece is incomplete (`Done()` false): a request was sent, **or** some missing block is in the
   window — which by `pd_pending_disjoint_done` is a request still awaiting its answer.  There is no
   state with a free window slot, a missing block, nothing outstanding and nothing requested. -/
theorem pd_request_progress (bs : Nat) (hbs : 0 < bs) (secs : List Sec) (bl : List Block)
    (hbl : calcBlocks bs secs = some bl) (af : Bool) (buf : Bytes) (ops : List Op) (s : State)
    (hadm : admissibleRun (init bl af buf) ops = true)
    (hrun : run (init bl af buf) ops = some s) (q : Int) (hq : (s.pending.length : Int) < q) :
    ∃ s' r, requestBlocks s q = some (s', r) ∧
      (r ≠ [] ∨ (s'.remaining = [] ∧ s'.pending = s.pending ∧
        ∀ b ∈ bl, b.b ∉ s'.done → b.b ∈ s'.pending)) ∧
      (∀ e ∈ r, (⟨e.1, e.2⟩ : Block) ∈ bl ∧ e.1 ∉ s'.done ∧ e.1 ∈ s'.pending) ∧
      (isDone s = false → r ≠ [] ∨ ∃ b ∈ bl, b.b ∉ s'.done ∧ b.b ∈ s'.pending) := by
  have hw := calcBlocks_wf hbs hbl
  obtain ⟨h2, h3⟩ := run_inv23 hw ops _ s (inv2_init af buf) (inv3_init bl af buf) hadm hrun
  obtain ⟨s', r, hreq, _⟩ := requestLoop_some hw q s.remaining s [] h2.remSub h2
  have hfr := requestLoop_frame q _ _ _ _ _ hreq
  have hdone : s'.done = s.done := hfr.2.2.1
  have hcase : r ≠ [] ∨ (s'.remaining = [] ∧ s'.pending = s.pending ∧
      ∀ b ∈ bl, b.b ∉ s'.done → b.b ∈ s'.pending) := by
    rcases requestLoop_progress q _ _ _ _ _ rfl hreq hq with hlt | ⟨hrem, hpend⟩
    · left
      intro hr
      rw [hr] at hlt
      simp at hlt
    · right
      refine ⟨hrem, hpend, ?_⟩
      intro b hb hnd
      have hc := requestLoop_cover q b.b _ _ _ _ _ rfl hreq (h3.cover b.b (List.mem_map.mpr ⟨b, hb, rfl⟩))
      rw [hrem] at hc
      rcases hc with hc | hc | hc
      · simp at hc
      · exact hc
      · exact absurd hc hnd
  refine ⟨s', r, hreq, hcase, ?_, ?_⟩
  · intro e he
    rcases requestLoop_issued q e _ _ _ _ _ hreq he with hacc | ⟨hget, hnd, hp⟩
    · simp at hacc
    · refine ⟨?_, by rw [hdone]; exact hnd, hp⟩
      unfold mapGet at hget
      rw [h2.blocks, makeBlocks_eq hw, lookup_pairs hw.nodup_keys] at hget
      exact hget
  · intro hnd
    rcases hcase with hr | ⟨_, _, hall⟩
    · exact Or.inl hr
    · obtain ⟨b, hb, hbd⟩ := not_isDone_missing hw h2.blocks h3 hnd
      have hbd' : b.b ∉ s'.done := by rw [hdone]; exact hbd
      exact Or.inr ⟨b, hb, hbd', hall b hb hbd'⟩

/-! Non-vacuity, on the padded piece `[data 5][pad 2][data 3]`, block size 4 → blocks (0,4) (4,1) (7,3).

`stallOps`: all three requests go out, the peer chokes (all back into `remaining`), block 0 — already in
flight — arrives and is stored; next the peer unchokes and `RequestBlocks` runs. -/
def exSecs : List Sec := [⟨5, false⟩, ⟨2, true⟩, ⟨3, false⟩]
def exBlocks : List Block := [⟨0, 4⟩, ⟨4, 1⟩, ⟨7, 3⟩]
def exInit : State := init exBlocks false (List.replicate 10 0)
def stallOps : List Op := [.requestBlocks 3, .choked false [0, 4, 7], .gotBlock 0 [1, 2, 3, 4]]

example : calcBlocks 4 exSecs = some exBlocks := by decide
example : admissibleRun exInit stallOps = true := by decide
-- the state after `stallOps`: block 0 received *and* still queued in `remaining`; the window is empty
example : (run exInit stallOps).map (fun s => (s.remaining, s.pending, s.done, isDone s)) =
    some ([0, 4, 7], [], [0], false) := by decide
-- first alternative of `pd_request_progress`: the repaired loop skips block 0 and spends the slot on block 4
example : ((run exInit stallOps).bind (requestBlocks · 1)).map (fun p => (p.1.remaining, p.1.pending, p.2)) =
    some ([7], [4], [(4, 1)]) := by decide
-- second alternative: everything missing is outstanding, nothing more to send, `remaining` ran empty
example : ((run exInit (stallOps ++ [.requestBlocks 2])).bind (requestBlocks · 5)).map
      (fun p => (p.1.remaining, p.1.pending, p.1.done, p.2)) =
    some ([], [4, 7], [0], []) := by decide

/-! ## The loop before the repair -/

/-- The loop of `RequestBlocks` as it was: a received block is entered into `pending` (without a
request) like any other. -/
def requestLoopOld (q : Int) : List Nat → State → List (Nat × Nat) → Option (State × List (Nat × Nat))
  | [], s, acc => some (s, acc.reverse)
  | begin :: rest, s, acc =>
    if (s.pending.length : Int) ≥ q then some (s, acc.reverse)
    else
      match mapGet s.blocks begin with
      | none => none
      | some len =>
        let acc' := if s.done.contains begin then acc else (begin, len) :: acc
        requestLoopOld q rest { s with remaining := s.remaining.drop 1, pending := setInsert s.pending begin } acc'

def requestBlocksOld (s : State) (q : Int) : Option (State × List (Nat × Nat)) :=
  requestLoopOld q s.remaining s []

/-- `step` with the old `RequestBlocks`. -/
def stepOld (s : State) : Op → Option State
  | .requestBlocks q => (requestBlocksOld s q).map (·.1)
  | op => step s op

def runOld (s : State) (ops : List Op) : Option State := ops.foldlM stepOld s

/-- **pd_stall_unfixed_counterexample.** With the old loop, the history request-3 / choke / in-flight
block 0 arrives / `RequestBlocks(1)` (an admissible history on a computed block list) ends in a state
`s` in which

* block 0 is both in `pending` and in `done` (the invariant of `pd_pending_disjoint_done` is broken),
* that last `RequestBlocks(1)` sent nothing, and every later `RequestBlocks(1)` sends nothing and
  changes nothing, although
* the piece is incomplete — blocks 4 and 7 are missing and wait in `remaining` — and no request is
  outstanding: every entry of the window is a block that has already been received, and a further copy
  of it is answered `ErrBlockDuplicate` with the state unchanged, so the entry is never released.

The repaired loop, from the same history, requests block 4 (and the window never holds block 0). -/
theorem pd_stall_unfixed_counterexample :
    calcBlocks 4 exSecs = some exBlocks ∧
    admissibleRun exInit stallOps = true ∧
    ∃ s0 s, run exInit stallOps = some s0 ∧ runOld exInit stallOps = some s0 ∧
      requestBlocksOld s0 1 = some (s, []) ∧
      s.pending = [0] ∧ s.done = [0] ∧ s.remaining = [4, 7] ∧ isDone s = false ∧
      (∀ x ∈ s.pending, x ∈ s.done) ∧
      requestBlocksOld s 1 = some (s, []) ∧
      gotBlock s 0 [1, 2, 3, 4] = (s, .duplicate) ∧
      (requestBlocks s0 1).map (·.2) = some [(4, 1)] := by
  refine ⟨by decide, by decide, ?_⟩
  refine ⟨{ blocks := [(0, 4), (4, 1), (7, 3)], remaining := [0, 4, 7], pending := [], done := [0],
            buf := [1, 2, 3, 4, 0, 0, 0, 0, 0, 0], allowedFast := false },
          { blocks := [(0, 4), (4, 1), (7, 3)], remaining := [4, 7], pending := [0], done := [0],
            buf := [1, 2, 3, 4, 0, 0, 0, 0, 0, 0], allowedFast := false }, ?_⟩
  decide

/-! ## No block is queued twice (C17) — after the repair of finding C17-F5

`Rejected(begin, length)` used to append `begin` to `remaining` whenever `(begin, length)` is a block of
the piece — also when no request for it was outstanding (a second reject for the same request, a reject
for a block never requested).  The block was then in `remaining` twice, or in `remaining` and in the
window at once; `RequestBlocks` sent a request for every occurrence, while the window (a set) got one
entry: more requests at the peer than the window counts (`pd_double_request_unfixed_counterexample`).
The repaired `Rejected` ignores a reject for a block that is not in the window. -/

/-- The begins of a computed block list are pairwise different (the hypothesis of the theorems below). -/
theorem calcBlocks_keys_nodup (bs : Nat) (hbs : 0 < bs) (secs : List Sec) (bl : List Block)
    (hbl : calcBlocks bs secs = some bl) : (bl.map (·.b)).Nodup :=
  (calcBlocks_wf hbs hbl).nodup_keys

/-- The queue invariant holds in the state `New` returns, for a block list with pairwise different begins. -/
theorem pd_queues_init (bl : List Block) (hkeys : (bl.map (·.b)).Nodup) (af : Bool) (buf : Bytes) :
    (init bl af buf).remaining.Nodup ∧ (init bl af buf).pending.Nodup ∧
    ∀ x, x ∈ (init bl af buf).remaining → x ∉ (init bl af buf).pending :=
  let h := inv4_init hkeys af buf
  ⟨h.remNodup, h.pendNodup, h.disj⟩

/-- Every call preserves the queue invariant (the three parts together; none is inductive alone), in any
state, provided a re-queueing `Choked` iterates `pending` in an admissible order (a permutation of it). -/
theorem pd_queues_step (s s' : State) (op : Op)
    (hinv : s.remaining.Nodup ∧ s.pending.Nodup ∧ ∀ x, x ∈ s.remaining → x ∉ s.pending)
    (hadm : ∀ pf order, op = .choked pf order → chokedRequeues s pf = true → chokedAdmissible s order = true)
    (hstep : step s op = some s') :
    s'.remaining.Nodup ∧ s'.pending.Nodup ∧ ∀ x, x ∈ s'.remaining → x ∉ s'.pending :=
  let h := step_inv4 ⟨hinv.1, hinv.2.1, hinv.2.2⟩ hadm hstep
  ⟨h.remNodup, h.pendNodup, h.disj⟩

/-- **pd_remaining_nodup.** For a block list with pairwise different begins (every computed one,
`calcBlocks_keys_nodup`), after every sequence of calls whose re-queueing chokes use admissible iteration
orders: no block occurs twice in `remaining` (nor in `pending`). -/
theorem pd_remaining_nodup (bl : List Block) (hkeys : (bl.map (·.b)).Nodup) (af : Bool) (buf : Bytes)
    (ops : List Op) (s : State) (hadm : admissibleRun (init bl af buf) ops = true)
    (hrun : run (init bl af buf) ops = some s) : s.remaining.Nodup ∧ s.pending.Nodup :=
  let h := run_inv4 ops _ s (inv4_init hkeys af buf) hadm hrun
  ⟨h.remNodup, h.pendNodup⟩

/-- **pd_remaining_disjoint_pending.** Under the same hypotheses no block is in `remaining` and in
`pending` at once: a block is never queued for a request while a request for it is outstanding. -/
theorem pd_remaining_disjoint_pending (bl : List Block) (hkeys : (bl.map (·.b)).Nodup) (af : Bool)
    (buf : Bytes) (ops : List Op) (s : State) (hadm : admissibleRun (init bl af buf) ops = true)
    (hrun : run (init bl af buf) ops = some s) : ∀ x, x ∈ s.remaining → x ∉ s.pending :=
  (run_inv4 ops _ s (inv4_init hkeys af buf) hadm hrun).disj

/-! Both hypotheses are needed: two blocks with the same begin are queued twice by `New`; a choke that
"iterates" a key twice queues it twice. -/
example : (init [⟨0, 4⟩, ⟨0, 4⟩] false []).remaining = [0, 0] := by decide
example : (run (init [⟨0, 4⟩] false []) [.requestBlocks 1, .choked false [0, 0]]).map (·.remaining) =
    some [0, 0] := by decide

/-! ### The window counts the requests at the peer -/

/-- `RequestPiece` calls made by the call `op` in state `s`. -/
def issuedBy (s : State) : Op → Nat
  | .requestBlocks q =>
    match requestBlocks s q with
    | some (_, r) => r.length
    | none => 0
  | _ => 0

/-- Requests that the call `op` in state `s` takes off the books: one for a block that answers a request
(`GotBlock` returning nil), one for a reject of a request that is in the window, all of the window for a
choke that re-queues (the peer has dropped them: no fast extension).  A block that arrives unrequested, a
duplicate, a reject for a block that is not in the window retire nothing. -/
def retiredBy (s : State) : Op → Nat
  | .gotBlock b d => if (gotBlock s b d).2 = .ok then 1 else 0
  | .rejected b l => if findBlock s b l && s.pending.contains b then 1 else 0
  | .choked pf _ => if chokedRequeues s pf then s.pending.length else 0
  | _ => 0

/-- Requests sent minus requests retired along `ops` from `s`, for the transition function `stp`. -/
def outstandingWith (stp : State → Op → Option State) : State → List Op → Int
  | _, [] => 0
  | s, op :: rest =>
    (issuedBy s op : Int) - (retiredBy s op : Int) +
      match stp s op with
      | some s' => outstandingWith stp s' rest
      | none => 0

/-- Requests sent minus requests retired along `ops` from `s`. -/
def outstanding (s : State) (ops : List Op) : Int := outstandingWith step s ops

/-- One call: the window grows by the requests sent and shrinks by the requests retired. -/
theorem step_outstanding {s s' : State} {op : Op} (hi : Inv4 s) (h : step s op = some s') :
    (s'.pending.length : Int) = s.pending.length + issuedBy s op - retiredBy s op := by
  cases op with
  | gotBlock b d =>
    simp only [step, Option.some.injEq] at h
    subst h
    have := gotBlock_window s hi b d
    simp only [issuedBy, retiredBy]
    split at this <;> rename_i hc <;> simp [hc] <;> omega
  | choked pf order =>
    simp only [step, Option.some.injEq] at h
    subst h
    have := choked_window s pf order
    simp only [issuedBy, retiredBy]
    split at this <;> rename_i hc <;> simp only [hc, if_true, if_false, Bool.false_eq_true] <;> omega
  | rejected b l =>
    simp only [step, Option.some.injEq] at h
    subst h
    have := rejected_window s hi b l
    simp only [issuedBy, retiredBy]
    split at this <;> rename_i hc <;> simp only [hc, if_true, if_false, Bool.false_eq_true] <;> omega
  | requestBlocks q =>
    simp only [step, Option.map_eq_some_iff] at h
    obtain ⟨⟨s1, r⟩, h1, h2⟩ := h
    simp only at h2
    subst h2
    have := requestBlocks_window hi h1
    simp only [issuedBy, retiredBy, h1]
    omega
  | cancelPending =>
    simp only [step, Option.map_eq_some_iff] at h
    obtain ⟨_, _, h2⟩ := h
    subst h2
    simp [issuedBy, retiredBy]
  | done =>
    simp only [step, Option.some.injEq] at h
    subst h
    simp [issuedBy, retiredBy]

theorem run_outstanding : ∀ (ops : List Op) (s s' : State), Inv4 s → admissibleRun s ops = true →
    run s ops = some s' → outstanding s ops = (s'.pending.length : Int) - s.pending.length := by
  intro ops
  induction ops with
  | nil =>
    intro s s' _ _ h
    simp [run, List.foldlM] at h
    subst h
    simp [outstanding, outstandingWith]
  | cons op rest ih =>
    intro s s' hi hadm h
    obtain ⟨hadm1, hadm2⟩ := admissible_head hadm
    unfold run at h
    rw [List.foldlM_cons] at h
    cases hs : step s op with
    | none => rw [hs] at h; cases h
    | some s1 =>
      rw [hs] at h
      have h1 := step_outstanding hi hs
      have h2 := ih s1 s' (step_inv4 hi hadm1 hs) (hadm2 s1 hs) h
      unfold outstanding at h2 ⊢
      simp only [outstandingWith, hs]
      omega

/-- **pd_requests_within_window.** For a block list with pairwise different begins, along every history
from `New` with admissible choke orders: the number of `RequestPiece` calls made minus the number of
requests retired (answered by their block, rejected, or dropped by a re-queueing choke) **equals**
`len(pending)` — every request sent has its own entry in the window, every entry stands for exactly one
request — and therefore never exceeds the largest `queueLength` passed to `RequestBlocks`.  (`ops` is
arbitrary, so this holds after every prefix of a history.) -/
theorem pd_requests_within_window (bl : List Block) (hkeys : (bl.map (·.b)).Nodup) (af : Bool)
    (buf : Bytes) (ops : List Op) (s : State) (hadm : admissibleRun (init bl af buf) ops = true)
    (hrun : run (init bl af buf) ops = some s) :
    outstanding (init bl af buf) ops = s.pending.length ∧ outstanding (init bl af buf) ops ≤ maxQ ops := by
  have h1 := run_outstanding ops _ s (inv4_init hkeys af buf) hadm hrun
  have h2 := run_pending ops [] (init bl af buf) s (by simp [init, maxQ]) hrun
  simp only [List.nil_append] at h2
  have h0 : (init bl af buf).pending.length = 0 := by simp [init]
  rw [h0] at h1
  constructor
  · omega
  · omega

/-! Non-vacuity: 3 requests, a reject (and a second reject for the same request, ignored), a re-request,
one block answered, a choke that drops the rest, an in-flight block arriving afterwards, 2 re-requests. -/
def winOps : List Op := [.requestBlocks 3, .rejected 4 1, .rejected 4 1, .requestBlocks 3,
  .gotBlock 0 [1, 2, 3, 4], .choked false [7, 4], .gotBlock 7 [7, 8, 9], .requestBlocks 3]

example : admissibleRun exInit winOps = true := by decide
example : (List.range 9).map (fun n => outstanding exInit (winOps.take n)) = [0, 3, 2, 2, 3, 2, 0, 0, 1] := by
  decide
example : (run exInit winOps).map (fun s => (s.remaining, s.pending, s.done)) = some ([], [4], [0, 7]) := by
  decide

/-! ### `Rejected` before the repair -/

/-- `Rejected` as it was: the block goes back into `remaining` whether or not a request was outstanding. -/
def rejectedOld (s : State) (begin length : Nat) : State × Bool :=
  if !findBlock s begin length then (s, false)
  else ({ s with pending := setDelete s.pending begin, remaining := s.remaining ++ [begin] }, true)

/-- `step` with the old `Rejected`. -/
def stepRejOld (s : State) : Op → Option State
  | .rejected b l => some (rejectedOld s b l).1
  | op => step s op

def runRejOld (s : State) (ops : List Op) : Option State := ops.foldlM stepRejOld s

def dblOps : List Op := [.requestBlocks 3, .rejected 4 1, .rejected 4 1]
def overOps : List Op := dblOps ++ [.requestBlocks 3, .rejected 0 4, .requestBlocks 3]

/-- **pd_double_request_unfixed_counterexample.** With the old `Rejected`, on a computed block list:

* after request-3 / reject of block 4 / a second reject of block 4, block 4 is in `remaining` twice, and
  `RequestBlocks(4)` then sends two requests for it while the window gets one entry;
  (a single reject for a block never requested already queues it twice);
* continuing with window size 3 throughout (`overOps`), 4 requests are at the peer — for blocks 7, 4, 4, 0
  — while `len(pending)` = 3 = the largest `queueLength`: the bound of `pd_requests_within_window` fails.

With the repaired `Rejected` the same calls leave block 4 queued once, one request is sent, and the books
balance. -/
theorem pd_double_request_unfixed_counterexample :
    calcBlocks 4 exSecs = some exBlocks ∧
    (∃ s s', runRejOld exInit dblOps = some s ∧ s.remaining = [4, 4] ∧ s.pending = [0, 7] ∧
      requestBlocks s 4 = some (s', [(4, 1), (4, 1)]) ∧ s'.pending = [0, 7, 4]) ∧
    (runRejOld exInit [.rejected 4 1]).map (·.remaining) = some [0, 4, 7, 4] ∧
    (outstandingWith stepRejOld exInit overOps = 4 ∧ maxQ overOps = 3 ∧
      (runRejOld exInit overOps).map (·.pending) = some [7, 4, 0]) ∧
    (∃ s s', run exInit dblOps = some s ∧ s.remaining = [4] ∧ s.pending = [0, 7] ∧
      requestBlocks s 4 = some (s', [(4, 1)]) ∧ s'.pending = [0, 7, 4]) ∧
    outstanding exInit overOps = 3 := by
  refine ⟨by decide, ?_, by decide, by decide, ?_, by decide⟩
  · refine ⟨{ blocks := [(0, 4), (4, 1), (7, 3)], remaining := [4, 4], pending := [0, 7], done := [],
              buf := List.replicate 10 0, allowedFast := false },
            { blocks := [(0, 4), (4, 1), (7, 3)], remaining := [], pending := [0, 7, 4], done := [],
              buf := List.replicate 10 0, allowedFast := false }, ?_⟩
    decide
  · refine ⟨{ blocks := [(0, 4), (4, 1), (7, 3)], remaining := [4], pending := [0, 7], done := [],
              buf := List.replicate 10 0, allowedFast := false },
            { blocks := [(0, 4), (4, 1), (7, 3)], remaining := [], pending := [0, 7, 4], done := [],
              buf := List.replicate 10 0, allowedFast := false }, ?_⟩
    decide

end Rain.Props.C10PD
