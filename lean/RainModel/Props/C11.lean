import RainModel.Model.Codec
import RainModel.Lemmas.Codec
/-!
C11 — peer wire encoding is protocol-exact and round-trips through the reader.
Property theorems only; helper lemmas live in `Lemmas/Codec.lean`, `Lemmas/Bencode.lean`.

`encode` is what `PeerWriter.messageWriter` writes for a message, `step` one trip through the loop
of `PeerReader.Run`, `run` the whole loop on a byte stream (the reader is a function of the whole
stream; that TCP fragmentation is invisible rests on `bufio`/`io.ReadFull` and is validated by the
`codec` suite's random fragmentation).
-/
namespace Rain.Props.C11
open Rain.Codec
open Rain.Bencode (Bytes)

/-- **decode_encode.** For every well-formed message `m` of every kind and every continuation of
the stream, one trip through the reader loop on `encode m ++ rest` delivers exactly `m` and leaves
exactly `rest`. -/
theorem decode_encode (max : Nat) (m : Msg) (h : WFMsg max m) (rest : Bytes) :
    step max (encode m ++ rest) = .msg m (effsOf m) rest :=
  step_encode max m h rest

/-- **bencode_roundtrip.** The payload of each of the three extension messages (handshake,
ut_metadata incl. the raw block after the dictionary, ut_pex), as the encoder writes it, passes the
guard and is decoded back to the identical record, for every well-formed record: any number of
`m` entries with distinct keys, any strings, any block. -/
theorem bencode_roundtrip (p : Rain.Bencode.ExtPayload) (h : Rain.Bencode.WFPayload p) :
    (Rain.Bencode.parseExt (Rain.Bencode.kindId p) (Rain.Bencode.encPayload p)).1 = some p :=
  Rain.Bencode.parseExt_encPayload p h

/-- **encode_spec (extension payloads).** The dictionaries are in canonical bencode: keys in
sorted order (`m` < `metadata_size` < `reqq` < `v` < `yourip`; `msg_type` < `piece` < `total_size`;
`added` < `dropped`), `omitempty` fields left out when zero/empty, integers as `i<decimal>e`,
strings as `<len>:<bytes>`, the metadata block raw after the dictionary. -/
theorem encode_spec_ext :
    (∀ h, Rain.Bencode.encHandshake h = Rain.Bencode.render (Rain.Bencode.hsToks h)) ∧
    (∀ m, Rain.Bencode.encMetadata m = Rain.Bencode.render (Rain.Bencode.mdToks m) ++ m.data) ∧
    (∀ p, Rain.Bencode.encPex p = Rain.Bencode.render (Rain.Bencode.pexToks p)) := by
  refine ⟨Rain.Bencode.encHandshake_render, Rain.Bencode.encMetadata_render, ?_⟩
  intro p
  simp [Rain.Bencode.encPex, Rain.Bencode.pexToks, Rain.Bencode.render, Rain.Bencode.renderTok]

/-- **encode_spec (framing).** Every frame is the 4-byte big-endian value `1 + |body|`, then the
message id, then the body. -/
theorem encode_spec_frame (m : Msg) :
    encode m = be32 (1 + (body m).length) ++ [msgId m] ++ body m := by
  simp [encode]

/-- **encode_spec (fields).** The body of every kind, field by field, in the order of BEP 3 / 6 /
10: 32-bit big-endian index / begin / length, 16-bit port, raw bitfield, block bytes after the
piece header, extended id then bencoded dictionary (then the raw metadata block). -/
theorem encode_spec_fields :
    (∀ m, m ∈ [Msg.choke, .unchoke, .interested, .notInterested, .haveAll, .haveNone] → body m = []) ∧
    (∀ i, body (.have i) = be32 i) ∧ (∀ i, body (.allowedFast i) = be32 i) ∧
    (∀ d, body (.bitfield d) = d) ∧
    (∀ i b l, body (.request i b l) = be32 i ++ be32 b ++ be32 l) ∧
    (∀ i b l, body (.cancel i b l) = be32 i ++ be32 b ++ be32 l) ∧
    (∀ i b l, body (.reject i b l) = be32 i ++ be32 b ++ be32 l) ∧
    (∀ i b d, body (.piece i b d) = be32 i ++ be32 b ++ d) ∧
    (∀ p, body (.port p) = be16 p) ∧
    (∀ eid p, body (.ext eid p) = eid :: Rain.Bencode.encPayload p) := by
  refine ⟨?_, fun _ => rfl, fun _ => rfl, fun _ => rfl, fun _ _ _ => rfl, fun _ _ _ => rfl,
    fun _ _ _ => rfl, fun _ _ _ => rfl, fun _ => rfl, fun _ _ => rfl⟩
  intro m hm
  simp at hm
  rcases hm with rfl | rfl | rfl | rfl | rfl | rfl <;> rfl

/-- `be32` is the big-endian representation: four bytes, each < 256, value recovered by `rd32`. -/
theorem be32_spec (n : Nat) (h : n < 4294967296) :
    ∃ a b c d, be32 n = [a, b, c, d] ∧ a < 256 ∧ b < 256 ∧ c < 256 ∧ d < 256 ∧ rd32 a b c d = n := by
  refine ⟨_, _, _, _, rfl, ?_, ?_, ?_, ?_, ?_⟩ <;> (try unfold rd32) <;> omega

/-- **encode_spec (ids).** The id table is the protocol's (BEP 3: 0–9, BEP 6: 14–17, BEP 10: 20)
and injective: two kinds never share an id. -/
theorem ids_table :
    Kind.all.map Kind.id = [0, 1, 2, 3, 4, 5, 6, 7, 8, 9, 14, 15, 16, 17, 20] ∧
    (∀ k, k ∈ Kind.all) ∧
    (∀ k1 k2 : Kind, k1.id = k2.id → k1 = k2) ∧
    (∀ m : Msg, msgId m = m.kind.id) := by
  refine ⟨by decide, ?_, ?_, ?_⟩
  · intro k; cases k <;> decide
  · intro k1 k2; cases k1 <;> cases k2 <;> decide
  · intro m; cases m <;> rfl

/-- **stream_concat.** Decoding the concatenation of the frames of any list of well-formed
messages, followed by any further bytes, yields exactly that list and then whatever the further
bytes decode to.  The parser is a function of the whole stream, so the result does not depend on
how the stream is cut into reads (`stream_fragments`). -/
theorem stream_concat (max : Nat) (ms : List Msg) (h : ∀ m ∈ ms, WFMsg max m) (tail : Bytes) :
    run max (encodeAll ms ++ tail) =
      ⟨ms ++ (run max tail).msgs, ms.flatMap effsOf ++ (run max tail).effs, (run max tail).err⟩ :=
  run_encodeAll max ms h tail

/-- A complete stream of well-formed messages decodes to exactly those messages and ends with a
clean end-of-stream. -/
theorem stream_roundtrip (max : Nat) (ms : List Msg) (h : ∀ m ∈ ms, WFMsg max m) :
    (run max (encodeAll ms)).msgs = ms ∧ (run max (encodeAll ms)).err = .eof := by
  have := run_encodeAll max ms h []
  simp only [List.append_nil, run_nil] at this
  simp [this]

/-- Any two fragmentations of the same stream (lists of chunks with the same concatenation) decode
alike; in particular every fragmentation of `encodeAll ms` decodes to `ms`. -/
theorem stream_fragments (max : Nat) (ms : List Msg) (h : ∀ m ∈ ms, WFMsg max m)
    (frags : List Bytes) (hf : frags.flatten = encodeAll ms) :
    (run max frags.flatten).msgs = ms ∧ (run max frags.flatten).err = .eof := by
  rw [hf]; exact stream_roundtrip max ms h

/-- Keep-alives between frames are invisible. -/
theorem keepalive_skipped (max : Nat) (rest : Bytes) : run max (keepAlive ++ rest) = run max rest :=
  run_keepAlive max rest

/-- **handshake_layout.** The handshake is 68 bytes — 19, "BitTorrent protocol", 8 reserved bytes,
the info-hash, the peer id, in this order — and reads back to the same three fields, leaving the
rest of the stream untouched. -/
theorem handshake_layout (ext ih pid rest : Bytes)
    (he : ext.length = 8) (hi : ih.length = 20) (hp : pid.length = 20) :
    (handshakeBytes ext ih pid).length = 68 ∧
    handshakeBytes ext ih pid = pstr ++ ext ++ ih ++ pid ∧
    pstr = 19 :: [66, 105, 116, 84, 111, 114, 114, 101, 110, 116, 32, 112, 114, 111, 116, 111, 99, 111, 108] ∧
    readHandshake (handshakeBytes ext ih pid ++ rest) = .ok ext ih pid rest := by
  refine ⟨?_, rfl, rfl, ?_⟩
  · simp [handshakeBytes, pstr, he, hi, hp]
  · have h1 : Rain.Bencode.take? 20 (pstr ++ (ext ++ (ih ++ (pid ++ rest)))) = some (pstr, ext ++ (ih ++ (pid ++ rest))) :=
      take?_append pstr _
    have h2 : Rain.Bencode.take? 8 (ext ++ (ih ++ (pid ++ rest))) = some (ext, ih ++ (pid ++ rest)) := by
      rw [← he]; exact take?_append ext _
    have h3 : Rain.Bencode.take? 20 (ih ++ (pid ++ rest)) = some (ih, pid ++ rest) := by
      rw [← hi]; exact take?_append ih _
    have h4 : Rain.Bencode.take? 20 (pid ++ rest) = some (pid, rest) := by
      rw [← hp]; exact take?_append pid _
    simp [readHandshake, handshakeBytes, List.append_assoc, h1, h2, h3, h4]

/-- A stream that does not start with the protocol string is refused. -/
theorem handshake_rejects (bs p r : Bytes) (h : Rain.Bencode.take? 20 bs = some (p, r)) (hp : p ≠ pstr) :
    readHandshake bs = .invalidProtocol := by
  simp [readHandshake, h, hp]

/-- **upload_counter.** For a piece frame the counter reported to the torrent is the number of
block bytes: exactly `|data|` when the frame was written completely, and for a short write of `n`
bytes the number of block bytes among them (nothing for the 13 header bytes). -/
theorem upload_counter (i b : Nat) (d : Bytes) :
    countUpload (encode (.piece i b d)).length = d.length ∧
    (∀ n, n ≤ (encode (.piece i b d)).length →
      countUpload n = ((encode (.piece i b d)).take n).length - 13 ∧ countUpload n ≤ d.length) := by
  have hl : (encode (.piece i b d)).length = 13 + d.length := by
    simp [encode, body, be32_length]; omega
  refine ⟨by simp [countUpload, hl], ?_⟩
  intro n hn
  simp [countUpload, List.length_take]
  omega

/-- Non-vacuity of `decode_encode` / `stream_concat`: a concrete mixed stream. -/
example : (run 100 (encodeAll [.have 7, .request 1 16384 16384, .piece 2 0 [1, 2, 3], .bitfield [255, 0], .port 6881])).msgs
    = [.have 7, .request 1 16384 16384, .piece 2 0 [1, 2, 3], .bitfield [255, 0], .port 6881] := by decide

example : WFMsg 100 (.piece 2 0 [1, 2, 3]) := by simp [WFMsg]

/-- Non-vacuity for the extension kinds: an extension handshake as rain sends it
(`m = {ut_metadata: 1, ut_pex: 2}`, `v = "Rain"`, `reqq = 250`) is well-formed and round-trips. -/
example : (run 1000 (encode (.ext 0 (.handshake
    { m := [([117,116,95,109,101,116,97,100,97,116,97], 1), ([117,116,95,112,101,120], 2)],
      v := [82,97,105,110], yourip := [127,0,0,1], metadataSize := 31337, reqq := 250 })))).msgs =
    [.ext 0 (.handshake
    { m := [([117,116,95,109,101,116,97,100,97,116,97], 1), ([117,116,95,112,101,120], 2)],
      v := [82,97,105,110], yourip := [127,0,0,1], metadataSize := 31337, reqq := 250 })] := by decide

example : Rain.Bencode.WFPayload (.metadata { msgType := 1, piece := 2, totalSize := 40000, data := [0, 17, 34] }) := by
  simp [Rain.Bencode.WFPayload, Rain.Bencode.WFMetadata]

example : encode (.request 1 16384 16384) = [0, 0, 0, 13, 6, 0, 0, 0, 1, 0, 0, 64, 0, 0, 0, 64, 0] := by decide

end Rain.Props.C11
