import RainModel.Model.Codec
import RainModel.Lemmas.Codec
/-!
C11 — peer wire encoding is protocol-exact and round-trips through the reader.
Property theorems only; helper lemmas live in `Lemmas/Codec.lean`.
-/
namespace Rain.Props.C11
open Rain.Codec
open Rain.Bencode (Bytes)

/-- **decode_encode.** For every well-formed message `m` of every kind and every continuation of
the stream, one trip through the reader loop on `encode m ++ rest` delivers exactly `m` and leaves
exactly `rest`. -/
theorem decode_encode (max : Nat) (m : Msg) (h : WFMsg max m) (rest : Bytes) :
    step max (encode m ++ rest) = .msg m (effsOf m) rest :=
  step_encode max m h rest

end Rain.Props.C11
