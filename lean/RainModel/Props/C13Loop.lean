import RainModel.Lemmas.LoopPeers
import RainModel.Lemmas.LoopHmd
import RainModel.Lemmas.LoopMetaStop
import RainModel.Lemmas.LoopMeta
import RainModel.Lemmas.LoopIdl
import RainModel.Lemmas.LoopWeak
/-!
C13 — magnet metadata, loop level (M-LOOP): the info dictionary is adopted only through the hash gate,
never for a private torrent, and a metadata download is only ever started for an admissible size.
The tie to the code is the `loop-magnet` suite.
-/
namespace Rain.Props.C13Loop
open Rain.Loop

/-- What the hash gate of `handleMetadataData` checks for the downloader `d` after block `i` arrived:
the announced size is the true size and every block's last stored data was the true bytes. -/
def HashOK (s : St) (d : IDl) (i : Nat) (good : Bool) : Prop :=
  d.size = s.isize ∧ ∀ x ∈ d.blocks.set i (some good), x = some true

/-- **adopt_only_if_hash.** If a metadata data message turns `info` from false to true, then the
torrent is not private, the message completed the download of the peer's downloader, and the assembled
buffer passed the hash gate. -/
theorem adopt_only_if_hash (m : M) (k i len : Nat) (good : Bool) (h0 : m.1.info = false)
    (h1 : (handleMetadataData m k i len good).1.info = true) :
    m.1.cfg.isPrivate = false ∧
    ∃ d, m.1.idls.find? (·.k = k) = some d ∧ i < d.nb ∧ len = blockSizeOf d.size i ∧
      d.pending - 1 = 0 ∧ HashOK m.1 d i good := by
  rcases handleMetadataData_info_cases m k i len good with h | ⟨d, hc⟩
  · rw [h, h0] at h1; cases h1
  · rw [handleMetadataData_complete m d k i len good hc, hmdAdopt_info_eq] at h1
    have h0' : (hmdStored m d k i good).1.info = false := h0
    have hcfg : (hmdStored m d k i good).1.cfg = m.1.cfg := rfl
    rw [h0', hcfg] at h1
    obtain ⟨hd, hi, hlen, _, hpend, hh⟩ := hc
    have h2 : m.1.cfg.n ≤ m.1.cfg.maxPieces ∧ m.1.cfg.isPrivate = false := by simpa using h1
    exact ⟨h2.2, d, hd, hi, hlen, hpend, hh⟩

/-- **private_magnet_refused.** A private torrent never adopts metadata fetched from peers, whatever the
peers send. -/
theorem private_magnet_refused (m : M) (k i len : Nat) (good : Bool) (hp : m.1.cfg.isPrivate = true) :
    (handleMetadataData m k i len good).1.info = m.1.info := by
  rcases handleMetadataData_info_cases m k i len good with h | ⟨d, hc⟩
  · exact h
  · rw [handleMetadataData_complete m d k i len good hc, hmdAdopt_refused (hmdStored m d k i good) (Or.inr hp)]
    simp [hmdStored]

/-- Every event other than a metadata data message leaves `info` alone (handler part of a step). -/
theorem handle_info (s : St) (p : Parked) (kn : Nat → Bool) (op : Op)
    (h : ∀ k i len good, op ≠ .metadata k i len good) : (handle s p kn op).1.1.info = s.info := by
  unfold handle
  repeat' split
  all_goals first
    | rfl
    | (simp; done)
    | (exfalso; exact h _ _ _ _ rfl)
    | (next heq => have hm := congrArg Prod.fst heq; simp only at hm; rw [← hm]; simp)

/-- **adopt_only_if_hash, step form.** Whatever the event, its parameters and the state: if a step of
the event loop turns `info` from false to true, the event was a metadata data message that passed
the hash gate, and the torrent is not private. -/
theorem step_adopts_only_if_hash (s : St) (p : Parked) (kn : Nat → Bool) (op : Op)
    (h0 : s.info = false) (h1 : (step s p kn op).1.st.info = true) :
    ∃ k i len good, op = .metadata k i len good ∧ s.cfg.isPrivate = false ∧
      ∃ d, s.idls.find? (·.k = k) = some d ∧ HashOK s d i good := by
  have hstep : (step s p kn op).1.st.info =
      (handle { s with sto := [], mayStart := [], closedDl := [], mayStartI := false } p kn op).1.1.info := by
    unfold step
    dsimp only
    split <;> simp
  rw [hstep] at h1
  by_cases hop : ∃ k i len good, op = .metadata k i len good
  · obtain ⟨k, i, len, good, rfl⟩ := hop
    refine ⟨k, i, len, good, rfl, ?_⟩
    unfold handle at h1
    dsimp only at h1
    split at h1
    · simp [h0] at h1
    · have := adopt_only_if_hash (({ s with sto := [], mayStart := [], closedDl := [], mayStartI := false } : St), []) k i len good h0 h1
      obtain ⟨hp, d, hd, _, _, _, hh⟩ := this
      exact ⟨hp, d, hd, hh⟩
  · rw [handle_info _ _ _ _ (fun k i len good h => hop ⟨k, i, len, good, h⟩)] at h1
    simp [h0] at h1

/-- **adopt_only_if_within_limit.**  `Session.parseInfo` holds an info dictionary received from peers to
`Config.MaxPieces` like any other: if a metadata data message turns `info` from false to true, the torrent
has at most `maxPieces` pieces. -/
theorem adopt_only_if_within_limit (m : M) (k i len : Nat) (good : Bool) (h0 : m.1.info = false)
    (h1 : (handleMetadataData m k i len good).1.info = true) : m.1.cfg.n ≤ m.1.cfg.maxPieces := by
  rcases handleMetadataData_info_cases m k i len good with h | ⟨d, hc⟩
  · rw [h, h0] at h1; cases h1
  · rw [handleMetadataData_complete m d k i len good hc, hmdAdopt_info_eq] at h1
    have h0' : (hmdStored m d k i good).1.info = false := h0
    have hcfg : (hmdStored m d k i good).1.cfg = m.1.cfg := rfl
    rw [h0', hcfg] at h1
    have h2 : m.1.cfg.n ≤ m.1.cfg.maxPieces ∧ m.1.cfg.isPrivate = false := by simpa using h1
    exact h2.1

/-- **over_limit_info_refused, handler form.**  A torrent with more pieces than `Config.MaxPieces`: whatever
metadata message arrives, `info` keeps its value; and the message that completes a metadata download with
the right hash (`HmdComplete`) on a running torrent leaves it stopping with the error recorded
(`lastErr = true`: "cannot parse info bytes"), every peer and metadata download closed, no allocator. -/
theorem over_limit_info_refused_step (m : M) (k i len : Nat) (good : Bool)
    (hn : m.1.cfg.n > m.1.cfg.maxPieces) :
    (handleMetadataData m k i len good).1.info = m.1.info ∧
    ∀ d, HmdComplete m d k i len good → m.1.errC = true → m.1.stopAnn = false →
      (handleMetadataData m k i len good).1.status = .stopping ∧
      (handleMetadataData m k i len good).1.lastErr = true ∧
      (handleMetadataData m k i len good).1.idls = [] ∧ (handleMetadataData m k i len good).1.peers = [] ∧
      (handleMetadataData m k i len good).1.allocator = false ∧
      (handleMetadataData m k i len good).1.panicked = m.1.panicked := by
  constructor
  · rcases handleMetadataData_info_cases m k i len good with h | ⟨d, hc⟩
    · exact h
    · rw [handleMetadataData_complete m d k i len good hc, hmdAdopt_refused (hmdStored m d k i good) (Or.inl hn)]
      simp [hmdStored]
  · intro d hc he hs
    rw [handleMetadataData_complete m d k i len good hc]
    obtain ⟨_, _, f3, f4, f5, _, _, f8, _, f10, f11⟩ :=
      hmdAdopt_refused_fields (hmdStored m d k i good) (Or.inl hn) ⟨he, hs⟩
    exact ⟨f3, f4, f10, f8, f5, f11⟩

/-- One event, any parameters: a torrent whose info dictionary `parseInfo` refuses (too many pieces, or
private) never gets `info`. -/
theorem step_refused_info (s : St) (p : Parked) (kn : Nat → Bool) (op : Op) (h0 : s.info = false)
    (h : s.cfg.n > s.cfg.maxPieces ∨ s.cfg.isPrivate = true) : (step s p kn op).1.st.info = false := by
  cases h1 : (step s p kn op).1.st.info
  · rfl
  · obtain ⟨k, i, len, good, rfl, hp, d, hd, hh⟩ := step_adopts_only_if_hash s p kn op h0 h1
    rcases h with h | h
    · -- the step adopted: `handleMetadataData` did, but it refuses above the limit
      exfalso
      have hstep : (step s p kn (.metadata k i len good)).1.st.info =
          (handle { s with sto := [], mayStart := [], closedDl := [], mayStartI := false } p kn
            (.metadata k i len good)).1.1.info := by
        unfold step
        dsimp only
        split <;> simp
      rw [hstep] at h1
      unfold handle at h1
      dsimp only at h1
      split at h1
      · simp [h0] at h1
      · have := (over_limit_info_refused_step
          (({ s with sto := [], mayStart := [], closedDl := [], mayStartI := false } : St), []) k i len good h).1
        rw [this] at h1
        simp [h0] at h1
    · rw [h] at hp; cases hp

/-- **over_limit_info_refused.**  Along every history — any events with any parameters, any choices of the
implementation, admissible or not, from any state without metadata (in particular a freshly added magnet
torrent, `InitLike`) — a torrent with more pieces than `Config.MaxPieces` never adopts an info dictionary
received from peers: `info` stays false (and the configuration is never changed).  The same holds for a
private torrent (`private_magnet_refused`, run form). -/
theorem refused_info_never_adopted (s0 : St) (p0 : Parked) (hi : s0.info = false)
    (h : s0.cfg.n > s0.cfg.maxPieces ∨ s0.cfg.isPrivate = true) (evs : List Ev) :
    (drun (s0, p0) evs).1.info = false ∧ (drun (s0, p0) evs).1.cfg = s0.cfg := by
  induction evs generalizing s0 p0 with
  | nil => exact ⟨hi, rfl⟩
  | cons e evs ih =>
    show (drun (dstep (s0, p0) e) evs).1.info = false ∧ (drun (dstep (s0, p0) e) evs).1.cfg = s0.cfg
    have hc : (dstep (s0, p0) e).1.cfg = s0.cfg := by unfold dstep; simp
    have hi' : (dstep (s0, p0) e).1.info = false := by
      unfold dstep
      simp only [reconcileIdl_info, reconcile_info]
      exact step_refused_info s0 p0 e.known e.op hi h
    have := ih (dstep (s0, p0) e).1 (dstep (s0, p0) e).2 hi' (by rw [hc]; exact h)
    rw [hc] at this
    exact this

theorem over_limit_info_refused (s0 : St) (hi : s0.info = false) (hn : s0.cfg.n > s0.cfg.maxPieces)
    (evs : List Ev) : (drun (s0, none) evs).1.info = false ∧ (drun (s0, none) evs).1.cfg = s0.cfg :=
  refused_info_never_adopted s0 none hi (Or.inl hn) evs

/-- **over_limit_info_refused, step form.**  The whole step (handler, workers, parked message) in which a
metadata download completes with the right hash, on a torrent above the piece-count limit (or private), from
any state of the lifecycle invariant: `info` keeps its value and the torrent ends `Stopped` — or `Stopping`
behind a tracker that does not answer — with nothing running.  Hypotheses: no panic so far, no verify command
pending (this stop is the loop's own, not the stop command, which alone withdraws a verification request). -/
theorem over_limit_metadata_stops (s : St) (p : Parked) (kn : Nat → Bool) (d : IDl) (k i len : Nat) (good : Bool)
    (l : Life s) (hpan : s.panicked = none) (hdv : s.doVerify = false)
    (hk : (s.findPeer k).isSome = true) (hc : HmdComplete (s, []) d k i len good)
    (h : s.cfg.n > s.cfg.maxPieces ∨ s.cfg.isPrivate = true) :
    (step s p kn (.metadata k i len good)).1.st.info = s.info ∧
    ((step s p kn (.metadata k i len good)).1.st.status = .stopped ∨
      (s.stopHang = true ∧ (step s p kn (.metadata k i len good)).1.st.status = .stopping)) ∧
    (step s p kn (.metadata k i len good)).1.st.allocator = false ∧
    (step s p kn (.metadata k i len good)).1.st.peers = [] ∧
    (step s p kn (.metadata k i len good)).1.st.idls = [] := by
  obtain ⟨l1, _, l3, l4⟩ := step_metadata_stops s p kn d k i len good l hpan hdv hk hc (Or.inl h)
  rw [if_pos h] at l3
  have hnr : (step s p kn (.metadata k i len good)).1.st.errC = false ∨
      (step s p kn (.metadata k i len good)).1.st.stopAnn = true := by
    rcases l4 with l4 | ⟨_, l4, _⟩
    · exact Or.inl ((status_stopped_iff _).1 l4)
    · exact Or.inr ((status_stopping_iff _).1 l4).2
  obtain ⟨i1, _, _, _, _, i6, _, i8⟩ := l1.idle hnr
  refine ⟨l3, ?_, i1, i6, i8⟩
  rcases l4 with l4 | ⟨l4, l5, _⟩
  · exact Or.inl l4
  · exact Or.inr ⟨l4, l5⟩

/-- **oversize_never_requested.** Whenever the implementation's set of metadata downloads is accepted
by `reconcileIdl` without complaint, every download that was not already running is from a connected
peer that advertised `ut_metadata` with a size `0 < size ≤ MaxMetadataSize`, and the metadata is still
unknown.  (The driver reports any other choice of the implementation as a C13 violation.) -/
theorem oversize_never_requested (s : St) (impl : List Nat) (h : (reconcileIdl s impl).2 = []) :
    ∀ d ∈ (reconcileIdl s impl).1.idls, d ∈ s.idls ∨
      (d.size ≠ 0 ∧ d.size ≤ s.maxMeta ∧ s.info = false ∧
        ∃ p, s.findPeer d.k = some p ∧ p.extMeta = true ∧ p.extSize = d.size) := by
  intro d hd
  rcases reconcileIdl_idls s impl h d hd with h1 | ⟨hi, _, p, hp, _, hm, hs, h0, hmax⟩
  · exact Or.inl h1
  · exact Or.inr ⟨h0, hmax, hi, p, hp, hm, hs.symm⟩

/-- **The size bound is a step invariant.** `IdlInv s`: every running metadata download is for a size
`0 < size ≤ maxMeta`.  No event of the loop, whatever its parameters, creates a metadata download or
changes the size of one (they are closed with their peer, cleared by `stop` and by the completion of the
metadata, or updated in place by data messages and snubs), and `maxMeta` never changes. -/
theorem idl_size_bound_step (s : St) (p : Parked) (kn : Nat → Bool) (op : Op) (h : IdlInv s) :
    IdlInv (step s p kn op).1.st ∧ (step s p kn op).1.st.maxMeta = s.maxMeta :=
  ⟨step_idlInv s p kn op h, step_maxMeta ..⟩

/-- … and it survives the adoption of the implementation's choices: any choice of piece downloads
(`reconcile` does not touch `idls`), and a choice of metadata downloads that `reconcileIdl` accepted. -/
theorem idl_size_bound_adopt (s : St) (impl : List ImplDl) (implI : List Nat) (h : IdlInv s)
    (ha : (reconcileIdl (reconcile s impl).1 implI).2 = []) :
    IdlInv (reconcileIdl (reconcile s impl).1 implI).1 :=
  reconcileIdl_idlInv _ _ (reconcile_idlInv s impl h) ha

/-- **oversize_never_requested_run.** Along every history from a freshly added torrent — any events with
any parameters, any choices of piece downloads (admissible or not), and choices of metadata downloads that
`reconcileIdl` accepted after every event (`drunAdmissibleI`: the runs on which the driver reports no C13
violation) — no metadata download in `idls` is for a metadata size above `MaxMetadataSize`, or for size 0;
and `maxMeta` is still the configured value. -/
theorem oversize_never_requested_run (s0 : St) (h0 : InitLike s0) (evs : List Ev)
    (ha : drunAdmissibleI (s0, none) evs) :
    (∀ d ∈ (drun (s0, none) evs).1.idls, d.size ≠ 0 ∧ d.size ≤ s0.maxMeta) ∧
    (drun (s0, none) evs).1.maxMeta = s0.maxMeta := by
  have hm : ∀ (evs : List Ev) (sp : St × Parked), (drun sp evs).1.maxMeta = sp.1.maxMeta := by
    intro evs
    induction evs with
    | nil => intro sp; rfl
    | cons e evs ih =>
      intro sp
      show (drun (dstep sp e) evs).1.maxMeta = _
      rw [ih]
      unfold dstep
      simp
  have hinv : IdlInv s0 := by
    intro d hd; rw [h0.idls] at hd; cases hd
  have := drun_idlInv evs (s0, none) hinv ha
  refine ⟨fun d hd => ?_, hm evs _⟩
  have h1 := this d hd
  rw [hm evs] at h1
  exact h1

/-! Non-vacuity: a public magnet torrent adopts the metadata from an honest one-block answer; the same
answer to a private one does not. -/
example :
    let c : Cfg := { pl := 16384, plens := [], blocks := [], flens := [], fpads := [], fnames := [] }
    let s : St := { cfg := c, info := false, errC := true, isize := 100,
                    idls := [{ k := 1, size := 100, nb := 1, pending := 1, blocks := [none] }] }
    (handleMetadataData (s, []) 1 0 100 true).1.info = true := by decide

example :
    let c : Cfg := { pl := 16384, plens := [], blocks := [], flens := [], fpads := [], fnames := [], isPrivate := true }
    let s : St := { cfg := c, info := false, errC := true, isize := 100,
                    idls := [{ k := 1, size := 100, nb := 1, pending := 1, blocks := [none] }] }
    (handleMetadataData (s, []) 1 0 100 true).1.info = false := by decide

/-! Non-vacuity of `oversize_never_requested_run`: a magnet torrent, two peers advertise `ut_metadata`, one
with an admissible size (the implementation starts a download from it: accepted, `idls` holds it), one
with a size above the cap; a download from the second is **not** accepted by `reconcileIdl`. -/
section Example
private def cm : Cfg := { pl := 16384, plens := [], blocks := [], flens := [], fpads := [], fnames := [] }
private def sm : St := { cfg := cm, info := false, infoAtAdd := false, isize := 100, maxMeta := 1000 }
private def kn (l : List Nat) : Nat → Bool := fun k => l.contains k
private def evsm : List Ev := [
  ⟨.start, kn [], [], []⟩,
  ⟨.peer 1 "10.0.0.2" true true false, kn [], [], []⟩,
  ⟨.peer 2 "10.0.0.3" true true false, kn [1], [], []⟩,
  ⟨.exths 1 true 100 false, kn [1, 2], [], [1]⟩,
  ⟨.exths 2 true 5000 false, kn [1, 2], [], [1]⟩]

example : drunAdmissibleI (sm, none) evsm := by
  simp only [evsm, drunAdmissibleI, Ev.admissibleI, and_true]
  decide

example : (drun (sm, none) evsm).1.idls.map (fun d => (d.k, d.size)) = [(1, 100)] ∧
    (drun (sm, none) evsm).1.status = .dlmeta := by decide

/-- a download from the peer that announced 5000 > `maxMeta` bytes is refused by `reconcileIdl` -/
example : ¬ drunAdmissibleI (sm, none) (evsm.dropLast ++ [⟨.exths 2 true 5000 false, kn [1, 2], [], [1, 2]⟩]) := by
  simp only [evsm, List.dropLast, List.cons_append, List.nil_append, drunAdmissibleI, Ev.admissibleI, and_true]
  decide

/-! Non-vacuity of `over_limit_info_refused(_step)`: a one-piece magnet torrent under `MaxPieces = 0`.  Two peers
are connected, peer 1 delivers the whole info dictionary with the right hash: the hypothesis `HmdComplete`
holds, `info` stays false, the torrent is stopped with the error recorded, both peers are gone.  Under
`MaxPieces = 1` the same history adopts the metadata and allocates. -/
private def cl (maxp : Nat) : Cfg :=
  { pl := 16384, plens := [16384], blocks := [[(0, 16384)]], flens := [16384], fpads := [false], fnames := ["t"],
    maxPieces := maxp }
private def sl (maxp : Nat) : St :=
  { cfg := cl maxp, info := false, infoAtAdd := false, isize := 100, fileExists := [false], known := [false],
    bad := (cl maxp).dataSects }
private def evsl : List Ev := [
  ⟨.gate .open true, kn [], [], []⟩,
  ⟨.start, kn [], [], []⟩,
  ⟨.peer 1 "10.0.0.2" true true false, kn [], [], []⟩,
  ⟨.peer 2 "10.0.0.3" true true false, kn [1], [], []⟩,
  ⟨.exths 1 true 100 false, kn [1, 2], [], [1]⟩]
private def evl : Ev := ⟨.metadata 1 0 100 true, kn [1, 2], [], []⟩

example : (sl 0).cfg.n > (sl 0).cfg.maxPieces ∧ (sl 0).info = false := by decide
/-- the hypotheses of the handler form hold in the state the fifth event leaves -/
example : (drun (sl 0, none) evsl).1.errC = true ∧ (drun (sl 0, none) evsl).1.stopAnn = false ∧
    (drun (sl 0, none) evsl).1.peers.length = 2 ∧
    ∃ d, HmdComplete ((drun (sl 0, none) evsl).1, []) d 1 0 100 true :=
  ⟨by decide, by decide, by decide,
    ⟨{ k := 1, size := 100, nb := 1, pending := 1, blocks := [none] }, by rfl, by decide, by decide, by decide,
      by decide, by decide⟩⟩
example : (drun (sl 0, none) (evsl ++ [evl])).1.info = false ∧ (drun (sl 0, none) (evsl ++ [evl])).1.status = .stopped ∧
    (drun (sl 0, none) (evsl ++ [evl])).1.lastErr = true ∧ (drun (sl 0, none) (evsl ++ [evl])).1.peers = [] ∧
    (drun (sl 0, none) (evsl ++ [evl])).1.allocator = false ∧ (drun (sl 0, none) (evsl ++ [evl])).1.panicked = none := by
  decide
example : (drun (sl 1, none) (evsl ++ [evl])).1.info = true ∧ (drun (sl 1, none) (evsl ++ [evl])).1.status = .allocating ∧
    (drun (sl 1, none) (evsl ++ [evl])).1.peers.length = 2 := by decide
end Example

end Rain.Props.C13Loop
