import RainModel.Lemmas.LoopNoPanicRun
import RainModel.Lemmas.LoopQuiesceStep
import RainModel.Props.C01LoopCfg
/-!
C08 / C04, loop level (M-LOOP): **no event history makes the event loop panic.**

Where the Go event loop would panic (`t.crash("allocator exists")`, `"verifier exists"`, close of the closed
`completeC`, nil bitfield in `checkCompletion` / `writeBitfield` / `handlePieceWriteDone`, `"piece is already
writing"`, `"already have the piece"`) the model sets `St.panicked`.  This file states, for **every** event
(any op of `Op`: commands, gates incl. `failOpen`/`failWrite`, file mutations, peers, every `Msg` with any
field values, extension handshakes, metadata blocks/rejects/requests, PEX, DHT, disconnects, snubs), any
parked block, any set of known peers:

* `never_panics_step`  — `NP s → NP (step s p kn op).1.st`, where `NP s = s.panicked = none ∧ Full s` and
  `Full = Life ∧ CompInv ∧ WInv` (`Lemmas/LoopLife*.lean`, `LoopComp.lean`, `LoopWInv*.lean`);
* `never_panics_dstep` — the same for the driver's step (`step`, then the implementation's choice of
  downloads is adopted by `reconcile` / `reconcileIdl`) when that choice is *sane* (`Ev.sane`);
* `never_panics_run_sane`, `never_panics_run_partial`, `never_panics_run_admissible`, `never_panics_driver` —
  whole histories from a freshly added torrent;
* `never_panics_steps`, `never_panics_peer_messages` — histories of bare steps (the picker starts nothing):
  no hypothesis on the history at all.

The statement the task asked for first,

    theorem never_panics_run (s0 : St) (h0 : InitLike s0) (hp0 : s0.panicked = none)
        (hw : s0.writing = none) (hc : s0.cfg.blocksHaveData = true)
        (evs : List Ev) (ha : drunAdmissible (s0, none) evs) : (drun (s0, none) evs).1.panicked = none

is **false** (`never_panics_run_counterexample`, `never_panics_run_false`): `drunAdmissible` speaks about the
piece downloads only, and a metadata download the "implementation" starts after the metadata is known finds
the allocator running when it completes (`allocator exists`).  rain does not do that
(`startInfoDownloaders` returns when `t.info != nil`; the driver reports it as C13), so the theorem is proved
under the narrowest hypothesis that excludes it — `drunIdlsSane`: *no metadata download is adopted while the
metadata is known* — as `never_panics_run_partial`.  The other hypotheses are needed too, each with a
concrete panicking history (section `Counterexamples`); none of them is a run of rain.

**…or hang it** (second half of the file).  An event is followed by a chain of worker completions (allocator →
verifier → stop announcer → restart for a pending verify → …), `runWorkers 12` in the model; each link is a
goroutine of the real client reporting back to the loop.  `workersQuiet s`: no link is pending that no gate holds.

* `never_hangs_step`: from a state of the invariants every event — any op, any parameters — ends with the
  workers quiescent (the chain has at most 10 links, the fuel never cuts it short), **unless** the handler
  leaves a verification request pending while the storage's `Open` fails;
* `never_hangs_run_failOpen_off`, `never_hangs_run_no_verify`, `never_hangs_peer_messages`: whole histories;
* **finding** `verify_failOpen_livelock` (+ `…_counterexample`): in that one case the chain never ends — the
  torrent is restarted, fails to open its files and stops, for ever (until a stop command withdraws the
  verification request): `handleAllocationDone` does not clear `t.doVerify` when `al.Error != nil`, and
  `handleStopped` restarts the torrent whenever `t.doVerify` is set.  This is the code of rain as it is.
-/
namespace Rain.Props.C08Loop
open Rain.Loop

/-- **never_panics_step.**  The invariant is preserved — in particular `panicked` stays `none` — by every event:
handler, the worker completions no gate holds (`runWorkers`), delivery of the parked block. -/
theorem never_panics_step (s : St) (p : Parked) (kn : Nat → Bool) (op : Op) (h : NP s) :
    NP (step s p kn op).1.st := step_np s p kn op h

/-- The step-level statement spelled out. -/
theorem never_panics_step_panicked (s : St) (p : Parked) (kn : Nat → Bool) (op : Op) (hp : s.panicked = none)
    (hl : Life s) (hc : CompInv s) (hw : WInv s) : (step s p kn op).1.st.panicked = none :=
  (step_np s p kn op ⟨hp, hl, hc, hw⟩).np

/-- **never_panics_dstep.**  One event of the driver: `step`, then the implementation's sane choices. -/
theorem never_panics_dstep (sp : St × Parked) (e : Ev) (h : NP sp.1) (hs : e.sane sp) : NP (dstep sp e).1 :=
  dstep_np sp e h hs

/-- **never_panics_run_sane** (the strongest form).  From a freshly added torrent — `InitLike`, not
panicked, no write in flight, a configuration whose pieces with blocks have data — no history whose picker
choices are sane (`drunSane`) ever panics, and the invariant holds at its end. -/
theorem never_panics_run_sane (s0 : St) (h0 : InitLike s0) (hp0 : s0.panicked = none) (hw : s0.writing = none)
    (hc : s0.cfg.blocksHaveData = true) (evs : List Ev) (hs : drunSane (s0, none) evs) :
    (drun (s0, none) evs).1.panicked = none ∧ NP (drun (s0, none) evs).1 :=
  ⟨(drun_np evs (s0, none) (h0.np hp0 hw hc) hs).np, drun_np evs (s0, none) (h0.np hp0 hw hc) hs⟩

/-- No metadata download is adopted while the metadata is known, along the run. -/
def drunIdlsSane : St × Parked → List Ev → Prop
  | _, [] => True
  | sp, e :: evs =>
    IdlsSane (reconcile (step sp.1 sp.2 e.known e.op).1.st e.impl).1 e.implI ∧ drunIdlsSane (dstep sp e) evs

theorem drunSane_of_admissible_idlsSane (evs : List Ev) (sp : St × Parked) (ha : drunAdmissible sp evs)
    (hi : drunIdlsSane sp evs) : drunSane sp evs := by
  induction evs generalizing sp with
  | nil => trivial
  | cons e evs ih => exact ⟨⟨dlsSane_of_admissible _ e.impl ha.1, hi.1⟩, ih _ ha.2 hi.2⟩

/-- **never_panics_run_partial.**  The statement of the header plus `drunIdlsSane`. -/
theorem never_panics_run_partial (s0 : St) (h0 : InitLike s0) (hp0 : s0.panicked = none) (hw : s0.writing = none)
    (hc : s0.cfg.blocksHaveData = true) (evs : List Ev) (ha : drunAdmissible (s0, none) evs)
    (hi : drunIdlsSane (s0, none) evs) : (drun (s0, none) evs).1.panicked = none :=
  (never_panics_run_sane s0 h0 hp0 hw hc evs (drunSane_of_admissible_idlsSane evs _ ha hi)).1

/-- **never_panics_run_admissible.**  On the runs the driver accepts (neither a C09 error from `reconcile` nor
a C13 error from `reconcileIdl`): no panic. -/
theorem never_panics_run_admissible (s0 : St) (h0 : InitLike s0) (hp0 : s0.panicked = none) (hw : s0.writing = none)
    (hc : s0.cfg.blocksHaveData = true) (evs : List Ev) (ha : drunAdmissible (s0, none) evs)
    (hi : drunAdmissibleI (s0, none) evs) : (drun (s0, none) evs).1.panicked = none :=
  (never_panics_run_sane s0 h0 hp0 hw hc evs (drunSane_of_admissible evs _ (h0.np hp0 hw hc) ha hi)).1

/-- The state `stepDriver` installs for a `new …` line (Driver/Suites/Loop.lean), whatever the line says. -/
def driverInit (toks : List String) (magnet seeded iaa : Bool) (nu no isz mm pm : Nat) : St :=
  let c := Driver.Suites.Loop.parseNew toks
  let s := Driver.Suites.Loop.initSt c magnet
  let s := if seeded then { s with known := c.flens.map (fun _ => true), fileExists := c.flens.map (fun _ => true), bad := [] } else s
  let s := { s with nUnchoke := nu, nOptimistic := no }
  { s with infoAtAdd := iaa, isize := isz, maxMeta := mm, parMeta := pm }

/-- **never_panics_driver.**  For the states the driver really starts from the hypotheses about the initial
state are theorems (`driver_new_initLike`): every history with sane choices, from every `new` line. -/
theorem never_panics_driver (toks : List String) (magnet seeded iaa : Bool) (nu no isz mm pm : Nat) (evs : List Ev)
    (hs : drunSane (driverInit toks magnet seeded iaa nu no isz mm pm, none) evs) :
    (drun (driverInit toks magnet seeded iaa nu no isz mm pm, none) evs).1.panicked = none := by
  obtain ⟨h0, _, _, hp, hc, hw⟩ := Rain.Props.C01LoopCfg.driver_new_initLike toks magnet seeded iaa nu no isz mm pm
  exact (never_panics_run_sane _ h0 hp hw hc evs hs).1

/-- **never_panics_steps.**  Histories of bare steps — every event handled, the implementation starts no
download — need no hypothesis on the history: any ops, any parameters, any `known` sets. -/
theorem never_panics_steps (s : St) (p : Parked) (h : NP s) (ops : List (Op × (Nat → Bool))) :
    (srun (s, p) ops).1.panicked = none := (srun_np ops (s, p) h).np

/-- **never_panics_peer_messages** (the C08 reading).  From any state of the invariant — any peers connected,
any downloads running, any write in flight, any block parked — no sequence of peer messages, of any kinds, in
any order, with any field values, from any peer ids (connected or not), panics the loop. -/
theorem never_panics_peer_messages (s : St) (p : Parked) (h : NP s) (kn : Nat → Bool) (msgs : List (Nat × Msg)) :
    (srun (s, p) (msgs.map fun km => (Op.msg km.1 km.2, kn))).1.panicked = none :=
  never_panics_steps s p h _

/-! ### Counterexamples: every hypothesis is needed -/
section Counterexamples

private def kn (l : List Nat) : Nat → Bool := fun k => l.contains k

private def c1 : Cfg :=
  { pl := 16384, plens := [16384], blocks := [[(0, 16384)]], flens := [16384], fpads := [false], fnames := ["t"] }
private def s1 : St := { cfg := c1, fileExists := [false], known := [false], bad := c1.dataSects }

private theorem initLike_of (s : St) (h1 : s.cfg.wfCheck = true) (h2 : s.bad = s.cfg.dataSects) (h3 : s.bf = none)
    (h4 : s.persisted = none) (h5 : s.errC = false) (h6 : s.stopAnn = false) (h7 : s.allocator = false)
    (h8 : s.verifier = false) (h9 : s.loaded = false) (h10 : s.acceptor = false) (h11 : s.openFiles = [])
    (h12 : s.peers = []) (h13 : s.dls = []) (h14 : s.idls = []) (h15 : s.leaked = 0) (h16 : s.completed = false)
    (h17 : s.completeCClosed = false) : InitLike s :=
  ⟨cfgWF_of_check _ h1, badWF_dataSects s h2, h3, h4, h5, h6, h7, h8, h9, h10, h11, h12, h13, h14, h15, h16, h17⟩

/-- A magnet link (one piece, one file, metadata of 100 bytes). -/
private def sM : St := { s1 with info := false, infoAtAdd := false, isize := 100 }

/-- The history of `never_panics_run_counterexample`: hold the allocation gate, start, a peer that offers the
metadata, the implementation downloads it (admissibly), the block arrives: metadata adopted, `Allocating`.
Then the "implementation" runs a metadata download again (`implI = [1]` in the fifth event — `reconcileIdl`
objects, `reconcile` and so `drunAdmissible` do not); the same block again completes it: `allocator exists`. -/
private def evsM : List Ev := [
  ⟨.gate .open true, kn [], [], []⟩,
  ⟨.start, kn [], [], []⟩,
  ⟨.peer 1 "10.0.0.2" true true false, kn [], [], []⟩,
  ⟨.exths 1 true 100 false, kn [1], [], [1]⟩,
  ⟨.metadata 1 0 100 true, kn [1], [], [1]⟩,
  ⟨.metadata 1 0 100 true, kn [1], [], []⟩]

/-- **never_panics_run_counterexample.**  All hypotheses of the header statement hold, and the model panics. -/
theorem never_panics_run_counterexample :
    InitLike sM ∧ sM.panicked = none ∧ sM.writing = none ∧ sM.cfg.blocksHaveData = true ∧
    drunAdmissible (sM, none) evsM ∧
    (drun (sM, none) evsM).1.panicked = some "allocator exists" ∧
    -- what is wrong with it: a metadata download adopted while the metadata is known
    ¬ drunIdlsSane (sM, none) evsM ∧ ¬ drunAdmissibleI (sM, none) evsM ∧
    -- and only that choice is (fifth event): the first four events satisfy everything
    drunSane (sM, none) (evsM.take 4) :=
  ⟨by apply initLike_of <;> decide, by decide, by decide, by decide, by decide, by decide,
   by unfold evsM; simp only [drunIdlsSane]; decide, by decide, by decide⟩

/-- The header statement as a proposition … -/
def never_panics_run_stmt : Prop :=
  ∀ (s0 : St), InitLike s0 → s0.panicked = none → s0.writing = none → s0.cfg.blocksHaveData = true →
    ∀ evs : List Ev, drunAdmissible (s0, none) evs → (drun (s0, none) evs).1.panicked = none

/-- … is false. -/
theorem never_panics_run_false : ¬ never_panics_run_stmt := by
  intro h
  obtain ⟨a, b, c, d, e, f, _⟩ := never_panics_run_counterexample
  have := h sM a b c d evsM e
  rw [f] at this
  cases this

/-- Two pieces in one file. -/
private def c2 : Cfg :=
  { pl := 16384, plens := [16384, 16384], blocks := [[(0, 16384)], [(0, 16384)]], flens := [32768],
    fpads := [false], fnames := ["t"] }
private def s2 : St := { cfg := c2, fileExists := [false], known := [false], bad := c2.dataSects }

/-- Piece 0 is downloaded from peer 1 and written; then the "implementation" lets peer 1 download piece 0
again (fifth event: a piece that is done — `reconcile` objects); its block completes a second write of a piece
the bitfield already has. -/
private def evsP : List Ev := [
  ⟨.start, kn [], [], []⟩,
  ⟨.peer 1 "10.0.0.2" true true false, kn [], [], []⟩,
  ⟨.msg 1 .haveAll, kn [1], [], []⟩,
  ⟨.msg 1 .unchoke, kn [1], [⟨1, 0, false, false, false⟩], []⟩,
  ⟨.msg 1 (.piece 0 0 16384 true), kn [1], [⟨1, 0, false, false, false⟩], []⟩,
  ⟨.msg 1 (.piece 0 0 16384 true), kn [1], [], []⟩]

/-- **Sanity of the piece downloads is needed** (and with it some hypothesis on the picker: without
`drunAdmissible` / `drunSane` the statement is false).  Everything else holds, `drunIdlsSane` included. -/
theorem never_panics_needs_sane_picker_counterexample :
    InitLike s2 ∧ s2.panicked = none ∧ s2.writing = none ∧ s2.cfg.blocksHaveData = true ∧
    drunAdmissibleI (s2, none) evsP ∧
    (drun (s2, none) evsP).1.panicked = some "already have the piece" ∧
    ¬ drunSane (s2, none) evsP ∧ ¬ drunAdmissible (s2, none) evsP ∧ drunSane (s2, none) (evsP.take 4) :=
  ⟨by apply initLike_of <;> decide, by decide, by decide, by decide, by decide, by decide, by decide, by decide,
   by decide⟩

/-- Piece 1 consists of a padding file only but has a block. -/
private def cB : Cfg :=
  { pl := 16384, plens := [16384, 16384], blocks := [[(0, 16384)], [(0, 16384)]], flens := [16384, 16384],
    fpads := [false, true], fnames := ["t", "pad"] }
private def sB : St := { cfg := cB, fileExists := [false, false], known := [false, false], bad := cB.dataSects }
private def evsB : List Ev := [
  ⟨.start, kn [], [], []⟩,
  ⟨.peer 1 "10.0.0.2" true true false, kn [], [], []⟩,
  ⟨.msg 1 .haveAll, kn [1], [], []⟩,
  ⟨.msg 1 .unchoke, kn [1], [⟨1, 1, false, false, false⟩], []⟩,
  ⟨.gate .write true, kn [1], [⟨1, 1, false, false, false⟩], []⟩,
  ⟨.msg 1 (.piece 1 0 16384 true), kn [1], [], []⟩,
  ⟨.verify, kn [1], [], []⟩,
  ⟨.gate .write false, kn [1], [], []⟩]

/-- **`blocksHaveData` is needed**: the write of the padding-only piece is held by the gate, a verify runs
meanwhile (the verifier finds the padding piece fine: bit set), then the stale write completes without touching
the storage and takes the success path.  (`calcBlocks` never produces such block lists:
`parseNew_blocksHaveData`.) -/
theorem never_panics_needs_blocksHaveData_counterexample :
    InitLike sB ∧ sB.panicked = none ∧ sB.writing = none ∧ sB.cfg.blocksHaveData = false ∧
    drunAdmissible (sB, none) evsB ∧ drunAdmissibleI (sB, none) evsB ∧ drunSane (sB, none) evsB ∧
    (drun (sB, none) evsB).1.panicked = some "already have the piece" :=
  ⟨by apply initLike_of <;> decide, by decide, by decide, by decide, by decide, by decide, by decide, by decide⟩

/-- `InitLike` does not say that no write is in flight. -/
private def sW : St := { s1 with writing := some { piece := 5, src := 0, good := true, gen := 0 } }
private def evsW : List Ev := [⟨.nop, kn [], [], []⟩]

/-- **`writing = none` is needed**: a good job for a piece without sections completes at the first event and
finds no bitfield.  (No torrent object is created with a write in flight.) -/
theorem never_panics_needs_no_initial_write_counterexample :
    InitLike sW ∧ sW.panicked = none ∧ sW.cfg.blocksHaveData = true ∧
    drunAdmissible (sW, none) evsW ∧ drunAdmissibleI (sW, none) evsW ∧ drunSane (sW, none) evsW ∧
    (drun (sW, none) evsW).1.panicked = some "handlePieceWriteDone: nil bitfield" :=
  ⟨by apply initLike_of <;> decide, by decide, by decide, by decide, by decide, by decide, by decide⟩

end Counterexamples

/-! ### Non-vacuity -/
section NonVacuity

private def kn' (l : List Nat) : Nat → Bool := fun k => l.contains k

/-- Two pieces, two peers; peer 1 downloads piece 0, whose write is held by the write gate, and goes on with
piece 1; peer 2 gets interested and is unchoked. -/
private def evsN : List Ev := [
  ⟨.start, kn' [], [], []⟩,
  ⟨.peer 1 "10.0.0.2" true true false, kn' [], [], []⟩,
  ⟨.peer 2 "10.0.0.3" false false false, kn' [1], [], []⟩,
  ⟨.msg 1 .haveAll, kn' [1, 2], [], []⟩,
  ⟨.msg 2 (.bitfield [true, true] 1), kn' [1, 2], [], []⟩,
  ⟨.msg 1 .unchoke, kn' [1, 2], [⟨1, 0, false, false, false⟩], []⟩,
  ⟨.gate .write true, kn' [1, 2], [⟨1, 0, false, false, false⟩], []⟩,
  ⟨.msg 1 (.piece 0 0 16384 true), kn' [1, 2], [⟨1, 1, false, false, false⟩], []⟩,
  ⟨.msg 2 .interested, kn' [1, 2], [⟨1, 1, false, false, false⟩], []⟩]

/-- A concrete state of the invariant that is not the initial one: `Downloading`, two peers, a verified write
of piece 0 in flight behind the write gate, peer 2 unchoked — reached by a history that satisfies every
hypothesis of `never_panics_run_sane` (so `NP` holds there by the theorem, not by assumption). -/
example : NP (drun (s2, none) evsN).1 ∧
    (drun (s2, none) evsN).1.status = .downloading ∧ (drun (s2, none) evsN).1.peers.length = 2 ∧
    (drun (s2, none) evsN).1.writing.isSome = true ∧ (drun (s2, none) evsN).1.unchoked = [2] ∧
    (drun (s2, none) evsN).1.wflag = [true, false] ∧ (drun (s2, none) evsN).1.dls.length = 1 :=
  ⟨(never_panics_run_sane s2 (by apply initLike_of <;> decide) (by decide) (by decide) (by decide) evsN (by decide)).2,
   by decide, by decide, by decide, by decide, by decide, by decide⟩

/-- From there every further event keeps the invariant (`never_panics_step` is not vacuous) — e.g. the hostile
ones: a block for a piece that is being written, a block nobody asked for from an unknown peer, a bitfield of
the wrong length, an out-of-range `have`, a metadata block. -/
example (op : Op) (p : Parked) (kn : Nat → Bool) :
    (step (drun (s2, none) evsN).1 p kn op).1.st.panicked = none :=
  (never_panics_step _ p kn op
    (never_panics_run_sane s2 (by apply initLike_of <;> decide) (by decide) (by decide) (by decide) evsN (by decide)).2).np

/-- … and the same history continued: the gate opens, the write completes, piece 1 follows, `Seeding`; the
hypotheses of `never_panics_run_partial` and `never_panics_run_admissible` hold as well. -/
private def evsN2 : List Ev := evsN ++ [
  ⟨.gate .write false, kn' [1, 2], [⟨1, 1, false, false, false⟩], []⟩,
  ⟨.msg 1 (.piece 1 0 16384 true), kn' [1, 2], [], []⟩]

example : drunAdmissible (s2, none) evsN2 ∧ drunAdmissibleI (s2, none) evsN2 ∧ drunSane (s2, none) evsN2 ∧
    (drun (s2, none) evsN2).1.status = .seeding ∧ (drun (s2, none) evsN2).1.bf = some [true, true] ∧
    (drun (s2, none) evsN2).1.panicked = none :=
  ⟨by decide, by decide, by decide, by decide, by decide, by decide⟩

end NonVacuity

/-! ## The loop does not hang: the worker chain after an event ends -/

/-- **never_hangs_step.**  From a state of the invariants (`Full`, and `DV`: a set `doVerify` is being acted
upon) every event ends with no un-gated worker completion pending, unless its handler leaves a verification
pending while `Open` fails. -/
theorem never_hangs_step (s : St) (p : Parked) (kn : Nat → Bool) (op : Op) (h : NP s) (hdv : DV s)
    (hfl : (handled s p kn op).failOpen = true → (handled s p kn op).doVerify = false) :
    workersQuiet (step s p kn op).1.st = true ∧ (step s p kn op).1.st.panicked = none :=
  ⟨step_quiet s p kn op h.full hdv hfl, (step_np s p kn op h).np⟩

/-- The chain has at most 10 links: more fuel changes nothing (the quiet states are fixed points). -/
theorem never_hangs_fuel (n : Nat) (m : M) (h : QInv m.1) : runWorkers (10 + n) m = runWorkers 10 m := by
  rw [runWorkers_add]
  exact runWorkers_of_quiet n _ (runWorkers_quiet 10 m h (wrank_le _)).1

/-- **never_hangs_run_failOpen_off.**  From a freshly added torrent, along every history with sane picker
choices in which the storage's `Open` is never made to fail: after every event the workers are quiescent, and
nothing has panicked. -/
theorem never_hangs_run_failOpen_off (s0 : St) (h0 : InitLike s0) (hp0 : s0.panicked = none) (hw : s0.writing = none)
    (hc : s0.cfg.blocksHaveData = true) (hd : s0.doVerify = false) (hf : s0.failOpen = false) (evs : List Ev)
    (hop : ∀ e ∈ evs, e.op.setsFailOpen = false) (hs : drunSane (s0, none) evs) :
    workersQuiet (drun (s0, none) evs).1 = true ∧ (drun (s0, none) evs).1.panicked = none :=
  have h := drun_qrun_failOpen_off evs (s0, none) (h0.qrun hp0 hw hc hd) hf hop hs
  ⟨h.quiet, h.np.np⟩

/-- **never_hangs_run_no_verify.**  The same with `Open` failing at will (`failOpen`, `failWrite`, every gate)
along histories without the verify command. -/
theorem never_hangs_run_no_verify (s0 : St) (h0 : InitLike s0) (hp0 : s0.panicked = none) (hw : s0.writing = none)
    (hc : s0.cfg.blocksHaveData = true) (hd : s0.doVerify = false) (evs : List Ev)
    (hop : ∀ e ∈ evs, e.op.isVerify = false) (hs : drunSane (s0, none) evs) :
    workersQuiet (drun (s0, none) evs).1 = true ∧ (drun (s0, none) evs).1.panicked = none :=
  have h := drun_qrun_no_verify evs (s0, none) (h0.qrun hp0 hw hc hd) hd hop hs
  ⟨h.quiet, h.np.np⟩

/-- **never_hangs_peer_messages** (the C08 reading).  From any quiescent state of the invariants with no
verification pending — whatever the gates, failing storage included — no sequence of peer messages (any kinds,
any order, any field values, any peer ids) panics the loop or leaves its workers busy. -/
theorem never_hangs_peer_messages (s : St) (p : Parked) (h : QRun s) (hd : s.doVerify = false) (kn : Nat → Bool)
    (msgs : List (Nat × Msg)) :
    workersQuiet (srun (s, p) (msgs.map fun km => (Op.msg km.1 km.2, kn))).1 = true ∧
    (srun (s, p) (msgs.map fun km => (Op.msg km.1 km.2, kn))).1.panicked = none := by
  have := srun_qrun_no_verify (msgs.map fun km => (Op.msg km.1 km.2, kn)) (s, p) h hd (by
    intro o ho
    simp only [List.mem_map] at ho
    obtain ⟨km, _, rfl⟩ := ho
    rfl)
  exact ⟨this.quiet, this.np.np⟩

/-- **verify_failOpen_livelock** (finding).  A stopped torrent whose metadata is known, trackers answering,
`Open` failing: after the verify command the restart loop runs, and however long one waits (`k` further
events, each letting 12 more links of the chain run) it still runs: a worker completion is always pending, the
verification request is never dropped, nothing panics. -/
theorem verify_failOpen_livelock (s : St) (p : Parked) (kn : Nat → Bool) (h : Life s) (he : s.errC = false)
    (hi : s.info = true) (hp : s.panicked = none) (hf : s.failOpen = true) (hh : s.stopHang = false) (k : Nat) :
    let s' := (srun ((step s p kn .verify).1.st, (step s p kn .verify).2) (List.replicate k (Op.nop, kn))).1
    workersQuiet s' = false ∧ s'.doVerify = true ∧ s'.panicked = none ∧
      (s'.status = .stopping ∨ s'.status = .allocating) := by
  have key : ∀ (k : Nat) (sp : St × Parked), Flap sp.1 → Flap (srun sp (List.replicate k (Op.nop, kn))).1 := by
    intro k
    induction k with
    | zero => intro sp hsp; exact hsp
    | succ k ih =>
      intro sp hsp
      rw [List.replicate_succ]
      exact ih _ (flap_step_nop sp.1 sp.2 kn hsp)
  have hfl := key k ((step s p kn .verify).1.st, (step s p kn .verify).2) (verify_failOpen_flaps s p kn h he hi hp hf hh)
  refine ⟨hfl.pending, hfl.dv, hfl.np, ?_⟩
  rcases hfl.phase with ⟨a, _⟩ | ⟨a, b, c⟩
  · left
    exact (status_stopping_iff _).2 ⟨hfl.errC, a⟩
  · right
    unfold St.status
    simp [a, b, c]

/-! ### The livelock on a concrete torrent, and non-vacuity of the quiescence theorems -/
section Livelock

private def knL (l : List Nat) : Nat → Bool := fun k => l.contains k

/-- One piece, one file, nothing on disk; the storage's `Open` is made to fail, then `Verify()`. -/
private def evsL : List Ev := [⟨.gate .failOpen true, knL [], [], []⟩, ⟨.verify, knL [], [], []⟩]
private def nopL : Ev := ⟨.nop, knL [], [], []⟩

/-- **verify_failOpen_livelock_counterexample.**  Shortest history: `gate failOpen on`, `verify` from the freshly
added torrent.  Every hypothesis of `never_panics_run_sane` holds (and nothing panics), but the step ends with
its fuel exhausted in the middle of the restart loop — `Allocating`, the verification request still pending,
the allocator about to fail again; the twelve links it ran failed to open the file six times.  Three events later
nothing has changed, except that the file was tried eighteen more times. -/
theorem verify_failOpen_livelock_counterexample :
    InitLike s1 ∧ s1.panicked = none ∧ s1.writing = none ∧ s1.cfg.blocksHaveData = true ∧ s1.doVerify = false ∧
    drunSane (s1, none) (evsL ++ [nopL, nopL, nopL]) ∧
    (drun (s1, none) evsL).1.status = .allocating ∧ (drun (s1, none) evsL).1.doVerify = true ∧
    workersQuiet (drun (s1, none) evsL).1 = false ∧ (drun (s1, none) evsL).1.panicked = none ∧
    (drun (s1, none) evsL).1.sto = List.replicate 6 "openfail:t" ∧
    (drun (s1, none) (evsL ++ [nopL, nopL, nopL])).1.status = .allocating ∧
    workersQuiet (drun (s1, none) (evsL ++ [nopL, nopL, nopL])).1 = false ∧
    (drun (s1, none) (evsL ++ [nopL, nopL, nopL])).1.sto = List.replicate 6 "openfail:t" ∧
    -- a stop command ends it (it withdraws the request: fix C04-F6)
    (drun (s1, none) (evsL ++ [nopL, ⟨.stop, knL [], [], []⟩])).1.status = .stopped ∧
    workersQuiet (drun (s1, none) (evsL ++ [nopL, ⟨.stop, knL [], [], []⟩])).1 = true :=
  ⟨by apply initLike_of <;> decide, by decide, by decide, by decide, by decide, by decide, by decide, by decide,
   by decide, by decide, by decide, by decide, by decide, by decide, by decide, by decide⟩

/-- The general theorem applies to it (its hypotheses are satisfiable). -/
example (k : Nat) :
    workersQuiet (srun ((step (drun (s1, none) (evsL.take 1)).1 none (knL []) .verify).1.st,
      (step (drun (s1, none) (evsL.take 1)).1 none (knL []) .verify).2) (List.replicate k (Op.nop, knL []))).1 = false :=
  (verify_failOpen_livelock _ none (knL [])
    (drun_np _ (s1, none) (InitLike.np (by apply initLike_of <;> decide) (by decide) (by decide) (by decide))
      (by decide)).full.life (by decide) (by decide) (by decide) (by decide) (by decide) k).1

/-- Non-vacuity of `never_hangs_run_failOpen_off` / `never_hangs_run_no_verify`: the download of section
`NonVacuity` (two peers, a gated write, `Seeding` at the end) followed by `Verify()` (stop, restart, allocation,
verification of the existing file, stop: a chain of five links inside one step) satisfies the hypotheses of the
first; without the verify, with `Open` made to fail at the end, those of the second. -/
example : (∀ e ∈ evsN2 ++ [⟨.verify, kn' [1, 2], [], []⟩], e.op.setsFailOpen = false) ∧
    drunSane (s2, none) (evsN2 ++ [⟨.verify, kn' [1, 2], [], []⟩]) ∧
    (drun (s2, none) (evsN2 ++ [⟨.verify, kn' [1, 2], [], []⟩])).1.status = .stopped ∧
    (drun (s2, none) (evsN2 ++ [⟨.verify, kn' [1, 2], [], []⟩])).1.bf = some [true, true] ∧
    (drun (s2, none) (evsN2 ++ [⟨.verify, kn' [1, 2], [], []⟩])).1.doVerify = false ∧
    workersQuiet (drun (s2, none) (evsN2 ++ [⟨.verify, kn' [1, 2], [], []⟩])).1 = true :=
  ⟨by decide, by decide, by decide, by decide, by decide, by decide⟩

example : (∀ e ∈ evsN2 ++ [⟨.gate .failOpen true, kn' [1, 2], [], []⟩, ⟨.stop, kn' [1, 2], [], []⟩,
      ⟨.start, kn' [1, 2], [], []⟩], e.op.isVerify = false) ∧
    drunSane (s2, none) (evsN2 ++ [⟨.gate .failOpen true, kn' [1, 2], [], []⟩, ⟨.stop, kn' [1, 2], [], []⟩,
      ⟨.start, kn' [1, 2], [], []⟩]) ∧
    -- the restart fails to open the file: stopped with the error, once
    (drun (s2, none) (evsN2 ++ [⟨.gate .failOpen true, kn' [1, 2], [], []⟩, ⟨.stop, kn' [1, 2], [], []⟩,
      ⟨.start, kn' [1, 2], [], []⟩])).1.status = .stopped ∧
    (drun (s2, none) (evsN2 ++ [⟨.gate .failOpen true, kn' [1, 2], [], []⟩, ⟨.stop, kn' [1, 2], [], []⟩,
      ⟨.start, kn' [1, 2], [], []⟩])).1.lastErr = true ∧
    (drun (s2, none) (evsN2 ++ [⟨.gate .failOpen true, kn' [1, 2], [], []⟩, ⟨.stop, kn' [1, 2], [], []⟩,
      ⟨.start, kn' [1, 2], [], []⟩])).1.sto = ["openfail:t"] :=
  ⟨by decide, by decide, by decide, by decide, by decide⟩

end Livelock

end Rain.Props.C08Loop
