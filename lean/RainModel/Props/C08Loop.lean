import RainModel.Lemmas.LoopNoPanicRun
import RainModel.Lemmas.LoopQuiesceStep
import RainModel.Props.C01LoopCfg
/-!
C08 / C04, loop level (M-LOOP): **no event history makes the event loop panic, or hang.**

Where the Go event loop would panic (`t.crash("allocator exists")`, `"verifier exists"`, close of the closed
`completeC`, nil bitfield in `checkCompletion` / `writeBitfield` / `handlePieceWriteDone`, `"piece is already
writing"`, `"already have the piece"`) the model sets `St.panicked`.  This file states, for **every** event
(any op of `Op`: commands, gates incl. `failOpen` / `failOpenAt` / `failWrite` / `writeDone`, file mutations,
peers, every `Msg` with any field values, extension handshakes, metadata blocks/rejects/requests, PEX, DHT,
disconnects, snubs), any parked block, any set of known peers:

* `never_panics_step`  — `NP s → NP (step s p kn op).1.st`, where `NP s = s.panicked = none ∧ Full s` and
  `Full = Life ∧ CompInv ∧ WInv` (`Lemmas/LoopLife*.lean`, `LoopComp.lean`, `LoopWInv*.lean`);
* `never_panics_dstep` — the same for the driver's step (`step`, then the implementation's choice of
  downloads is adopted by `reconcile` / `reconcileIdl`) when that choice is *sane* (`Ev.sane`);
* `never_panics_run_sane`, `never_panics_run_partial`, `never_panics_run_admissible`, `never_panics_driver` —
  whole histories from a freshly added torrent;
* `never_panics_steps`, `never_panics_peer_messages` — histories of bare steps (the picker starts nothing):
  no hypothesis on the history at all.

The statement the task asked for first,

    theorem never_panics_run (s0 : St) (h0 : InitLike s0) (hp0 : s0.panicked = none)
        (hw : ∀ w, s0.writing = some w → w.gen ≤ s0.gen)
        (evs : List Ev) (ha : drunAdmissible (s0, none) evs) : (drun (s0, none) evs).1.panicked = none

is **false** (`never_panics_run_counterexample`, `never_panics_run_false`): `drunAdmissible` speaks about the
piece downloads only, and a metadata download the "implementation" starts after the metadata is known finds
the allocator running when it completes (`allocator exists`).  rain does not do that
(`startInfoDownloaders` returns when `t.info != nil`; the driver reports it as C13), so the theorem is proved
under the narrowest hypothesis that excludes it — `drunIdlsSane`: *no metadata download is adopted while the
metadata is known* — as `never_panics_run_partial`.  The other hypotheses are needed too, each with a
concrete panicking history (section `Counterexamples`); none of them is a run of rain.

Since rain's fix of finding C04-F9 (the result of a write that was started in an earlier run of the torrent is
ignored) two hypotheses of the first version of these theorems are **gone**: `Cfg.blocksHaveData` (a piece with
blocks has a non-padding section) and "no write in flight in the initial state" (now only: no write *of a future
generation*, `never_panics_needs_no_future_write_counterexample`).  The histories that needed them
(`never_panics_stale_write_…` below) no longer panic.

**…or hang it** (second half of the file).  An event is followed by a chain of worker completions (allocator →
verifier → stop announcer → restart for a pending verify → piece writer → …), `runWorkers 12` in the model; each
link is a goroutine of the real client reporting back to the loop.  `workersQuiet s`: no link is pending that no
gate holds.

* `never_hangs_step`: from a state of the invariants **every** event — any op, any gates, any parameters — ends
  with the workers quiescent (the chain has at most 11 links, the fuel never cuts it short: `never_hangs_fuel`);
* `never_hangs_run`, `never_hangs_peer_messages`: whole histories.

Before rain's fix of finding C04-F8 (a stop caused by an error withdraws a pending verification request) there
was one exception — a verification pending while the storage's `Open` fails: the torrent was restarted, failed to
open its files and stopped, for ever — found by the first version of this file (`verify_failOpen_livelock`, commit
0208222) and confirmed on the real loop.  `verify_failOpen_stops` is that history on the repaired code.
-/
namespace Rain.Props.C08Loop
open Rain.Loop

/-- **never_panics_step.**  The invariant is preserved — in particular `panicked` stays `none` — by every event:
handler, the worker completions no gate holds (`runWorkers`), delivery of the parked block. -/
theorem never_panics_step (s : St) (p : Parked) (kn : Nat → Bool) (op : Op) (h : NP s) :
    NP (step s p kn op).1.st := step_np s p kn op h

/-- The step-level statement spelled out. -/
theorem never_panics_step_panicked (s : St) (p : Parked) (kn : Nat → Bool) (op : Op) (hp : s.panicked = none)
    (hl : Life s) (hc : CompInv s) (hw : WInv s) : (step s p kn op).1.st.panicked = none :=
  (step_np s p kn op ⟨hp, hl, hc, hw⟩).np

/-- **never_panics_dstep.**  One event of the driver: `step`, then the implementation's sane choices. -/
theorem never_panics_dstep (sp : St × Parked) (e : Ev) (h : NP sp.1) (hs : e.sane sp) : NP (dstep sp e).1 :=
  dstep_np sp e h hs

/-- **never_panics_run_sane** (the strongest form).  From a freshly added torrent — `InitLike`, not
panicked, no write of a future generation in flight — no history whose picker choices are sane (`drunSane`) ever
panics, and the invariant holds at its end. -/
theorem never_panics_run_sane (s0 : St) (h0 : InitLike s0) (hp0 : s0.panicked = none)
    (hw : ∀ w, s0.writing = some w → w.gen ≤ s0.gen) (evs : List Ev) (hs : drunSane (s0, none) evs) :
    (drun (s0, none) evs).1.panicked = none ∧ NP (drun (s0, none) evs).1 :=
  ⟨(drun_np evs (s0, none) (h0.np hp0 hw) hs).np, drun_np evs (s0, none) (h0.np hp0 hw) hs⟩

/-- No metadata download is adopted while the metadata is known, along the run. -/
def drunIdlsSane : St × Parked → List Ev → Prop
  | _, [] => True
  | sp, e :: evs =>
    IdlsSane (reconcile (step sp.1 sp.2 e.known e.op).1.st e.impl).1 e.implI ∧ drunIdlsSane (dstep sp e) evs

theorem drunSane_of_admissible_idlsSane (evs : List Ev) (sp : St × Parked) (ha : drunAdmissible sp evs)
    (hi : drunIdlsSane sp evs) : drunSane sp evs := by
  induction evs generalizing sp with
  | nil => trivial
  | cons e evs ih => exact ⟨⟨dlsSane_of_admissible _ e.impl ha.1, hi.1⟩, ih _ ha.2 hi.2⟩

/-- **never_panics_run_partial.**  The statement of the header plus `drunIdlsSane`. -/
theorem never_panics_run_partial (s0 : St) (h0 : InitLike s0) (hp0 : s0.panicked = none)
    (hw : ∀ w, s0.writing = some w → w.gen ≤ s0.gen) (evs : List Ev) (ha : drunAdmissible (s0, none) evs)
    (hi : drunIdlsSane (s0, none) evs) : (drun (s0, none) evs).1.panicked = none :=
  (never_panics_run_sane s0 h0 hp0 hw evs (drunSane_of_admissible_idlsSane evs _ ha hi)).1

/-- **never_panics_run_admissible.**  On the runs the driver accepts (neither a C09 error from `reconcile` nor
a C13 error from `reconcileIdl`): no panic. -/
theorem never_panics_run_admissible (s0 : St) (h0 : InitLike s0) (hp0 : s0.panicked = none)
    (hw : ∀ w, s0.writing = some w → w.gen ≤ s0.gen) (evs : List Ev) (ha : drunAdmissible (s0, none) evs)
    (hi : drunAdmissibleI (s0, none) evs) : (drun (s0, none) evs).1.panicked = none :=
  (never_panics_run_sane s0 h0 hp0 hw evs (drunSane_of_admissible evs _ (h0.np hp0 hw) ha hi)).1

/-- The state `stepDriver` installs for a `new …` line (Driver/Suites/Loop.lean), whatever the line says. -/
def driverInit (toks : List String) (magnet seeded iaa : Bool) (nu no isz mm pm : Nat) : St :=
  let c := Driver.Suites.Loop.parseNew toks
  let s := Driver.Suites.Loop.initSt c magnet
  let s := if seeded then { s with known := c.flens.map (fun _ => true), fileExists := c.flens.map (fun _ => true), bad := [] } else s
  let s := { s with nUnchoke := nu, nOptimistic := no }
  { s with infoAtAdd := iaa, isize := isz, maxMeta := mm, parMeta := pm }

/-- **never_panics_driver.**  For the states the driver really starts from the hypotheses about the initial
state are theorems (`driver_new_initLike`): every history with sane choices, from every `new` line. -/
theorem never_panics_driver (toks : List String) (magnet seeded iaa : Bool) (nu no isz mm pm : Nat) (evs : List Ev)
    (hs : drunSane (driverInit toks magnet seeded iaa nu no isz mm pm, none) evs) :
    (drun (driverInit toks magnet seeded iaa nu no isz mm pm, none) evs).1.panicked = none := by
  obtain ⟨h0, _, _, hp, _, hw⟩ := Rain.Props.C01LoopCfg.driver_new_initLike toks magnet seeded iaa nu no isz mm pm
  exact (never_panics_run_sane _ h0 hp (noFuture_of_none hw) evs hs).1

/-- **never_panics_steps.**  Histories of bare steps — every event handled, the implementation starts no
download — need no hypothesis on the history: any ops, any parameters, any `known` sets. -/
theorem never_panics_steps (s : St) (p : Parked) (h : NP s) (ops : List (Op × (Nat → Bool))) :
    (srun (s, p) ops).1.panicked = none := (srun_np ops (s, p) h).np

/-- **never_panics_peer_messages** (the C08 reading).  From any state of the invariant — any peers connected,
any downloads running, any write in flight, any block parked — no sequence of peer messages, of any kinds, in
any order, with any field values, from any peer ids (connected or not), panics the loop. -/
theorem never_panics_peer_messages (s : St) (p : Parked) (h : NP s) (kn : Nat → Bool) (msgs : List (Nat × Msg)) :
    (srun (s, p) (msgs.map fun km => (Op.msg km.1 km.2, kn))).1.panicked = none :=
  never_panics_steps s p h _

/-! ### Counterexamples: every hypothesis is needed -/
section Counterexamples

private def kn (l : List Nat) : Nat → Bool := fun k => l.contains k

private def c1 : Cfg :=
  { pl := 16384, plens := [16384], blocks := [[(0, 16384)]], flens := [16384], fpads := [false], fnames := ["t"] }
private def s1 : St := { cfg := c1, fileExists := [false], known := [false], bad := c1.dataSects }

private theorem initLike_of (s : St) (h1 : s.cfg.wfCheck = true) (h2 : s.bad = s.cfg.dataSects) (h3 : s.bf = none)
    (h4 : s.persisted = none) (h5 : s.errC = false) (h6 : s.stopAnn = false) (h7 : s.allocator = false)
    (h8 : s.verifier = false) (h9 : s.loaded = false) (h10 : s.acceptor = false) (h11 : s.openFiles = [])
    (h12 : s.peers = []) (h13 : s.dls = []) (h14 : s.idls = []) (h15 : s.leaked = 0) (h16 : s.completed = false)
    (h17 : s.completeCClosed = false) : InitLike s :=
  ⟨cfgWF_of_check _ h1, badWF_dataSects s h2, h3, h4, h5, h6, h7, h8, h9, h10, h11, h12, h13, h14, h15, h16, h17⟩

/-- A magnet link (one piece, one file, metadata of 100 bytes). -/
private def sM : St := { s1 with info := false, infoAtAdd := false, isize := 100 }

/-- The history of `never_panics_run_counterexample`: hold the allocation gate, start, a peer that offers the
metadata, the implementation downloads it (admissibly), the block arrives: metadata adopted, `Allocating`.
Then the "implementation" runs a metadata download again (`implI = [1]` in the fifth event — `reconcileIdl`
objects, `reconcile` and so `drunAdmissible` do not); the same block again completes it: `allocator exists`. -/
private def evsM : List Ev := [
  ⟨.gate .open true, kn [], [], []⟩,
  ⟨.start, kn [], [], []⟩,
  ⟨.peer 1 "10.0.0.2" true true false, kn [], [], []⟩,
  ⟨.exths 1 true 100 false, kn [1], [], [1]⟩,
  ⟨.metadata 1 0 100 true, kn [1], [], [1]⟩,
  ⟨.metadata 1 0 100 true, kn [1], [], []⟩]

/-- **never_panics_run_counterexample.**  All hypotheses of the header statement hold, and the model panics. -/
theorem never_panics_run_counterexample :
    InitLike sM ∧ sM.panicked = none ∧ sM.writing = none ∧
    drunAdmissible (sM, none) evsM ∧
    (drun (sM, none) evsM).1.panicked = some "allocator exists" ∧
    -- what is wrong with it: a metadata download adopted while the metadata is known
    ¬ drunIdlsSane (sM, none) evsM ∧ ¬ drunAdmissibleI (sM, none) evsM ∧
    -- and only that choice is (fifth event): the first four events satisfy everything
    drunSane (sM, none) (evsM.take 4) :=
  ⟨by apply initLike_of <;> decide, by decide, by decide, by decide, by decide,
   by unfold evsM; simp only [drunIdlsSane]; decide, by decide, by decide⟩

/-- The header statement as a proposition … -/
def never_panics_run_stmt : Prop :=
  ∀ (s0 : St), InitLike s0 → s0.panicked = none → (∀ w, s0.writing = some w → w.gen ≤ s0.gen) →
    ∀ evs : List Ev, drunAdmissible (s0, none) evs → (drun (s0, none) evs).1.panicked = none

/-- … is false. -/
theorem never_panics_run_false : ¬ never_panics_run_stmt := by
  intro h
  obtain ⟨a, b, c, e, f, _⟩ := never_panics_run_counterexample
  have := h sM a b (noFuture_of_none c) evsM e
  rw [f] at this
  cases this

/-- Two pieces in one file. -/
private def c2 : Cfg :=
  { pl := 16384, plens := [16384, 16384], blocks := [[(0, 16384)], [(0, 16384)]], flens := [32768],
    fpads := [false], fnames := ["t"] }
private def s2 : St := { cfg := c2, fileExists := [false], known := [false], bad := c2.dataSects }

/-- Piece 0 is downloaded from peer 1 and written; then the "implementation" lets peer 1 download piece 0
again (fifth event: a piece that is done — `reconcile` objects); its block completes a second write of a piece
the bitfield already has. -/
private def evsP : List Ev := [
  ⟨.start, kn [], [], []⟩,
  ⟨.peer 1 "10.0.0.2" true true false, kn [], [], []⟩,
  ⟨.msg 1 .haveAll, kn [1], [], []⟩,
  ⟨.msg 1 .unchoke, kn [1], [⟨1, 0, false, false, false⟩], []⟩,
  ⟨.msg 1 (.piece 0 0 16384 true), kn [1], [⟨1, 0, false, false, false⟩], []⟩,
  ⟨.msg 1 (.piece 0 0 16384 true), kn [1], [], []⟩]

/-- **Sanity of the piece downloads is needed** (and with it some hypothesis on the picker: without
`drunAdmissible` / `drunSane` the statement is false).  Everything else holds, `drunIdlsSane` included. -/
theorem never_panics_needs_sane_picker_counterexample :
    InitLike s2 ∧ s2.panicked = none ∧ s2.writing = none ∧
    drunAdmissibleI (s2, none) evsP ∧
    (drun (s2, none) evsP).1.panicked = some "already have the piece" ∧
    ¬ drunSane (s2, none) evsP ∧ ¬ drunAdmissible (s2, none) evsP ∧ drunSane (s2, none) (evsP.take 4) :=
  ⟨by apply initLike_of <;> decide, by decide, by decide, by decide, by decide, by decide, by decide, by decide⟩

/-- `InitLike` does not exclude a write in flight that claims to belong to the *next* generation of pieces. -/
private def sW : St :=
  { s1 with fileExists := [true], known := [true], bad := [], gateWrite := true,
            writing := some { piece := 0, src := 0, good := true, gen := 1 } }
private def evsW : List Ev := [⟨.start, kn [], [], []⟩, ⟨.gate .write false, kn [], [], []⟩]
private theorem initLike_sW : InitLike sW :=
  ⟨cfgWF_of_check _ (by decide), fun x hx => (by cases hx), rfl, rfl, rfl, rfl, rfl, rfl, rfl, rfl, rfl, rfl, rfl, rfl,
    rfl, rfl, rfl⟩

/-- **"No write of a future generation in the initial state" is needed**: the file is on disk and good, the job
is held by the write gate; `start` allocates and verifies — bit set, `Seeding`, and the pieces now loaded are of the
job's generation; the gate is released, the job is "current", the piece is written again and the success path
finds the bit set.  (No torrent object is created with a write in flight; with `gen ≤` the job is stale for ever
and ignored.) -/
theorem never_panics_needs_no_future_write_counterexample :
    InitLike sW ∧ sW.panicked = none ∧ ¬ (∀ w, sW.writing = some w → w.gen ≤ sW.gen) ∧
    drunAdmissible (sW, none) evsW ∧ drunAdmissibleI (sW, none) evsW ∧ drunSane (sW, none) evsW ∧
    (drun (sW, none) (evsW.take 1)).1.status = .seeding ∧
    (drun (sW, none) evsW).1.panicked = some "already have the piece" :=
  ⟨initLike_sW, by decide, fun h => absurd (h _ rfl) (by decide), by decide, by decide, by decide, by decide, by decide⟩

/-! #### histories that panicked before the fix of finding C04-F9 (stale write results are ignored) -/

/-- Piece 1 consists of a padding file only but has a block (`Cfg.blocksHaveData` is false). -/
private def cB : Cfg :=
  { pl := 16384, plens := [16384, 16384], blocks := [[(0, 16384)], [(0, 16384)]], flens := [16384, 16384],
    fpads := [false, true], fnames := ["t", "pad"] }
private def sB : St := { cfg := cB, fileExists := [false, false], known := [false, false], bad := cB.dataSects }
private def evsB : List Ev := [
  ⟨.start, kn [], [], []⟩,
  ⟨.peer 1 "10.0.0.2" true true false, kn [], [], []⟩,
  ⟨.msg 1 .haveAll, kn [1], [], []⟩,
  ⟨.msg 1 .unchoke, kn [1], [⟨1, 1, false, false, false⟩], []⟩,
  ⟨.gate .write true, kn [1], [⟨1, 1, false, false, false⟩], []⟩,
  ⟨.msg 1 (.piece 1 0 16384 true), kn [1], [], []⟩,
  ⟨.verify, kn [1], [], []⟩,
  ⟨.gate .write false, kn [1], [], []⟩]

/-- The write of the padding-only piece is held by the gate, a verify runs meanwhile (the verifier finds the
padding piece fine: bit set), then the stale write completes without touching the storage.  It used to take the
success path (`already have the piece`, which is why `blocksHaveData` was a hypothesis); now it is ignored, and
the theorem applies to this configuration. -/
theorem never_panics_stale_write_padding_piece :
    InitLike sB ∧ sB.cfg.blocksHaveData = false ∧ drunSane (sB, none) evsB ∧
    (drun (sB, none) (evsB.take 7)).1.writing.isSome = true ∧ (drun (sB, none) (evsB.take 7)).1.bf = some [false, true] ∧
    (drun (sB, none) evsB).1.writing = none ∧ (drun (sB, none) evsB).1.bf = some [false, true] ∧
    (drun (sB, none) evsB).1.panicked = none :=
  ⟨by apply initLike_of <;> decide, by decide, by decide, by decide, by decide, by decide, by decide,
   (never_panics_run_sane sB (by apply initLike_of <;> decide) (by decide) (noFuture_of_none (by decide)) evsB (by decide)).1⟩

/-- **The crash seed of finding C04-F9** on the repaired code: the piece is written, the writer is held after its
storage calls (`gate writeDone`), the torrent is stopped and started again (the new run's bitfield comes from the
resume record or a fresh allocation), then the old result is delivered: stale, ignored — before the fix it was
applied to the new run (`handlePieceWriteDone: nil bitfield` when delivered while the restart was still
allocating).  The histories contain `gate writeDone` ops and satisfy the hypotheses of `never_panics_run_sane`. -/
private def evsS : List Ev := [
  ⟨.start, kn [], [], []⟩,
  ⟨.peer 1 "10.0.0.2" true true false, kn [], [], []⟩,
  ⟨.msg 1 .haveAll, kn [1], [], []⟩,
  ⟨.msg 1 .unchoke, kn [1], [⟨1, 0, false, false, false⟩], []⟩,
  ⟨.gate .writeDone true, kn [1], [⟨1, 0, false, false, false⟩], []⟩,
  ⟨.msg 1 (.piece 0 0 16384 true), kn [1], [], []⟩,
  ⟨.stop, kn [1], [], []⟩,
  ⟨.gate .open true, kn [1], [], []⟩,
  ⟨.start, kn [1], [], []⟩,
  ⟨.gate .writeDone false, kn [1], [], []⟩]

theorem never_panics_stale_write_after_restart :
    drunSane (s2, none) evsS ∧
    -- the bytes are on disk, the result is held
    (drun (s2, none) (evsS.take 6)).1.writing.map (fun w => (w.piece, w.src, w.good, w.gen, w.written)) =
      some (0, 1, true, 1, true) ∧
    (drun (s2, none) (evsS.take 6)).1.diskOK = [true, false] ∧ (drun (s2, none) (evsS.take 6)).1.bf = some [false, false] ∧
    -- stopped and started again: allocating (gate held), no pieces loaded, the old result still held
    (drun (s2, none) (evsS.take 9)).1.status = .allocating ∧ (drun (s2, none) (evsS.take 9)).1.loaded = false ∧
    (drun (s2, none) (evsS.take 9)).1.writing.isSome = true ∧
    -- delivered: ignored
    (drun (s2, none) evsS).1.writing = none ∧ (drun (s2, none) evsS).1.status = .allocating ∧
    (drun (s2, none) evsS).1.bf = some [false, false] ∧ (drun (s2, none) evsS).1.panicked = none :=
  ⟨by decide, by decide, by decide, by decide, by decide, by decide, by decide, by decide, by decide, by decide,
   (never_panics_run_sane s2 (by apply initLike_of <;> decide) (by decide) (noFuture_of_none (by decide)) evsS (by decide)).1⟩

/-- … and a held result that is still current when it is delivered is applied: bit set, `have` sent, the invariant
`WInv.wd` in between (flag set, piece not done). -/
theorem held_write_result_delivered :
    (drun (s2, none) (evsS.take 6 ++ [⟨.gate .writeDone false, kn [1], [], []⟩])).1.bf = some [true, false] ∧
    (drun (s2, none) (evsS.take 6 ++ [⟨.gate .writeDone false, kn [1], [], []⟩])).1.writing = none ∧
    (drun (s2, none) (evsS.take 6)).1.wflag = [true, false] ∧ (drun (s2, none) (evsS.take 6)).1.done = [false, false] ∧
    drunSane (s2, none) (evsS.take 6 ++ [⟨.gate .writeDone false, kn [1], [], []⟩]) := by decide

end Counterexamples

/-! ### Non-vacuity -/
section NonVacuity

private def kn' (l : List Nat) : Nat → Bool := fun k => l.contains k

/-- Two pieces, two peers; peer 1 downloads piece 0, whose write is held by the write gate, and goes on with
piece 1; peer 2 gets interested and is unchoked. -/
private def evsN : List Ev := [
  ⟨.start, kn' [], [], []⟩,
  ⟨.peer 1 "10.0.0.2" true true false, kn' [], [], []⟩,
  ⟨.peer 2 "10.0.0.3" false false false, kn' [1], [], []⟩,
  ⟨.msg 1 .haveAll, kn' [1, 2], [], []⟩,
  ⟨.msg 2 (.bitfield [true, true] 1), kn' [1, 2], [], []⟩,
  ⟨.msg 1 .unchoke, kn' [1, 2], [⟨1, 0, false, false, false⟩], []⟩,
  ⟨.gate .write true, kn' [1, 2], [⟨1, 0, false, false, false⟩], []⟩,
  ⟨.msg 1 (.piece 0 0 16384 true), kn' [1, 2], [⟨1, 1, false, false, false⟩], []⟩,
  ⟨.msg 2 .interested, kn' [1, 2], [⟨1, 1, false, false, false⟩], []⟩]

/-- A concrete state of the invariant that is not the initial one: `Downloading`, two peers, a verified write
of piece 0 in flight behind the write gate, peer 2 unchoked — reached by a history that satisfies every
hypothesis of `never_panics_run_sane` (so `NP` holds there by the theorem, not by assumption). -/
example : NP (drun (s2, none) evsN).1 ∧
    (drun (s2, none) evsN).1.status = .downloading ∧ (drun (s2, none) evsN).1.peers.length = 2 ∧
    (drun (s2, none) evsN).1.writing.isSome = true ∧ (drun (s2, none) evsN).1.unchoked = [2] ∧
    (drun (s2, none) evsN).1.wflag = [true, false] ∧ (drun (s2, none) evsN).1.dls.length = 1 :=
  ⟨(never_panics_run_sane s2 (by apply initLike_of <;> decide) (by decide) (noFuture_of_none (by decide)) evsN (by decide)).2,
   by decide, by decide, by decide, by decide, by decide, by decide⟩

/-- From there every further event keeps the invariant (`never_panics_step` is not vacuous) — e.g. the hostile
ones: a block for a piece that is being written, a block nobody asked for from an unknown peer, a bitfield of
the wrong length, an out-of-range `have`, a metadata block. -/
example (op : Op) (p : Parked) (kn : Nat → Bool) :
    (step (drun (s2, none) evsN).1 p kn op).1.st.panicked = none :=
  (never_panics_step _ p kn op
    (never_panics_run_sane s2 (by apply initLike_of <;> decide) (by decide) (noFuture_of_none (by decide)) evsN (by decide)).2).np

/-- … and the same history continued: the gate opens, the write completes, piece 1 follows, `Seeding`; the
hypotheses of `never_panics_run_partial` and `never_panics_run_admissible` hold as well. -/
private def evsN2 : List Ev := evsN ++ [
  ⟨.gate .write false, kn' [1, 2], [⟨1, 1, false, false, false⟩], []⟩,
  ⟨.msg 1 (.piece 1 0 16384 true), kn' [1, 2], [], []⟩]

example : drunAdmissible (s2, none) evsN2 ∧ drunAdmissibleI (s2, none) evsN2 ∧ drunSane (s2, none) evsN2 ∧
    (drun (s2, none) evsN2).1.status = .seeding ∧ (drun (s2, none) evsN2).1.bf = some [true, true] ∧
    (drun (s2, none) evsN2).1.panicked = none :=
  ⟨by decide, by decide, by decide, by decide, by decide, by decide⟩

end NonVacuity

/-! ## The loop does not hang: the worker chain after an event ends -/

/-- **never_hangs_step.**  From a state of the invariants (`Full`, and `DV`: a set `doVerify` is being acted
upon) **every** event — any op, any gates (`failOpen`, `failOpenAt`, `failWrite`, `writeDone`, …), any parameters,
any parked block — ends with no un-gated worker completion pending, without panic, in a state of the invariants. -/
theorem never_hangs_step (s : St) (p : Parked) (kn : Nat → Bool) (op : Op) (h : NP s) (hdv : DV s) :
    workersQuiet (step s p kn op).1.st = true ∧ (step s p kn op).1.st.panicked = none ∧
    NP (step s p kn op).1.st ∧ DV (step s p kn op).1.st :=
  ⟨(step_quiet s p kn op ⟨h.full, hdv⟩).1, (step_np s p kn op h).np, step_np s p kn op h, step_dv s p kn op hdv⟩

/-- The chain has at most 11 links: more fuel changes nothing (the quiet states are fixed points). -/
theorem never_hangs_fuel (n : Nat) (m : M) (h : QInv m.1) : runWorkers (11 + n) m = runWorkers 11 m := by
  rw [runWorkers_add]
  exact runWorkers_of_quiet n _ (runWorkers_quiet 11 m h (wrank_le _)).1

/-- **never_hangs_run.**  From a freshly added torrent, along every history with sane picker choices — any ops,
the verify command and failing storage included —: after every event the workers are quiescent, and nothing has
panicked. -/
theorem never_hangs_run (s0 : St) (h0 : InitLike s0) (hp0 : s0.panicked = none) (hw : s0.writing = none)
    (hd : s0.doVerify = false) (evs : List Ev) (hs : drunSane (s0, none) evs) :
    workersQuiet (drun (s0, none) evs).1 = true ∧ (drun (s0, none) evs).1.panicked = none :=
  have h := drun_qrun evs (s0, none) (h0.qrun hp0 hw hd) hs
  ⟨h.quiet, h.np.np⟩

/-- **never_hangs_peer_messages** (the C08 reading).  From any quiescent state of the invariants — whatever the
gates, failing storage and a pending verification included — no sequence of peer messages (any kinds, any order,
any field values, any peer ids) panics the loop or leaves its workers busy. -/
theorem never_hangs_peer_messages (s : St) (p : Parked) (h : QRun s) (kn : Nat → Bool) (msgs : List (Nat × Msg)) :
    workersQuiet (srun (s, p) (msgs.map fun km => (Op.msg km.1 km.2, kn))).1 = true ∧
    (srun (s, p) (msgs.map fun km => (Op.msg km.1 km.2, kn))).1.panicked = none :=
  have := srun_qrun (msgs.map fun km => (Op.msg km.1 km.2, kn)) (s, p) h
  ⟨this.quiet, this.np.np⟩

/-! ### The former livelock, and non-vacuity -/
section Livelock

private def knL (l : List Nat) : Nat → Bool := fun k => l.contains k

/-- One piece, one file, nothing on disk; the storage's `Open` is made to fail, then `Verify()`. -/
private def evsL : List Ev := [⟨.gate .failOpen true, knL [], [], []⟩, ⟨.verify, knL [], [], []⟩]

/-- **verify_failOpen_stops** (finding C04-F8 on the repaired code).  `gate failOpen on`, `verify` from the freshly
added torrent: the restart for the verification fails to open the file once, `stop(err)` withdraws the request,
the torrent ends `Stopped` with the error recorded, the workers quiescent.  (On the unrepaired code this step
never ended: twelve links of the chain failed to open the file six times and left the torrent `Allocating` with
the request still pending — theorem `verify_failOpen_livelock` of the first version of this file.) -/
theorem verify_failOpen_stops :
    InitLike s1 ∧ drunSane (s1, none) evsL ∧
    (drun (s1, none) evsL).1.status = .stopped ∧ (drun (s1, none) evsL).1.doVerify = false ∧
    (drun (s1, none) evsL).1.lastErr = true ∧ workersQuiet (drun (s1, none) evsL).1 = true ∧
    (drun (s1, none) evsL).1.panicked = none ∧ (drun (s1, none) evsL).1.sto = ["openfail:t"] :=
  ⟨by apply initLike_of <;> decide, by decide, by decide, by decide, by decide, by decide, by decide, by decide⟩

/-- Non-vacuity of `never_hangs_run`: the download of section `NonVacuity` (two peers, a gated write, `Seeding` at
the end) followed by `Verify()` (stop, restart, allocation, verification of the existing file, stop: a chain of
five links inside one step), and then `Open` failing at the second of … one file: `failOpenAt 0`, a start that
fails: the hypotheses hold, and so does the conclusion. -/
example : drunSane (s2, none) (evsN2 ++ [⟨.verify, kn' [1, 2], [], []⟩, ⟨.gate (.failOpenAt 0) true, kn' [1, 2], [], []⟩,
      ⟨.verify, kn' [1, 2], [], []⟩]) ∧
    (drun (s2, none) (evsN2 ++ [⟨.verify, kn' [1, 2], [], []⟩])).1.status = .stopped ∧
    (drun (s2, none) (evsN2 ++ [⟨.verify, kn' [1, 2], [], []⟩])).1.bf = some [true, true] ∧
    (drun (s2, none) (evsN2 ++ [⟨.verify, kn' [1, 2], [], []⟩, ⟨.gate (.failOpenAt 0) true, kn' [1, 2], [], []⟩,
      ⟨.verify, kn' [1, 2], [], []⟩])).1.status = .stopped ∧
    (drun (s2, none) (evsN2 ++ [⟨.verify, kn' [1, 2], [], []⟩, ⟨.gate (.failOpenAt 0) true, kn' [1, 2], [], []⟩,
      ⟨.verify, kn' [1, 2], [], []⟩])).1.doVerify = false ∧
    workersQuiet (drun (s2, none) (evsN2 ++ [⟨.verify, kn' [1, 2], [], []⟩, ⟨.gate (.failOpenAt 0) true, kn' [1, 2], [], []⟩,
      ⟨.verify, kn' [1, 2], [], []⟩])).1 = true :=
  ⟨by decide, by decide, by decide, by decide, by decide, by decide⟩

end Livelock

end Rain.Props.C08Loop
