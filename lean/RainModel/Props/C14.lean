import RainModel.Model.Registry
import RainModel.Lemmas.RegistryDead
import RainModel.Model.ResumeCodec
import RainModel.Lemmas.ResumeCodec
/-!
C14 — session registry and resume data consistent across add/remove/restart.
Property theorems only; the invariant and its preservation are in `Lemmas/Registry*.lean`.

All theorems quantify over every configured range `[lo, hi)` and every finite history `ops` of the
registry machine `Rain.Registry.step` started from a fresh session — including every failing add
at each of its failure points (inputs `Env`, exhausted range, duplicate id, inadmissible choices)
and, where stated, arbitrary interleavings of the steps of concurrent adds.  Restarts take the set
of records that fail to load as an input (`Op.reopen resume bad`: damaged info bytes, a bitfield of the
wrong length, an info-hash that is not 20 bytes long, more pieces than `MaxPieces`, no storage).

Hypothesis `tameRun`: the history is *tame* (`Registry.tame`, decidable, evaluated by the driver on
every generated case): a record that failed to load does not load at a later restart (outside, the code
breaks the property: finding F07, `reload_shares_port_counterexample`), and `CleanDatabase` does not run
between the `resumer.Write` and the `insertTorrent` of an add whose id is listed invalid (like
Close/reopen it is assumed not to run concurrently with an add; `clean_during_add_counterexample`).
An add under an explicit id that is listed as invalid is part of the tame histories since the repair of
finding F08 (`invalid_id_reuse_is_safe`; pre-fix behaviour: `invalid_id_reuse_unfixed_counterexample`).
A history in which no record ever fails to load is tame (`tame_of_no_dead`).
-/
namespace Rain.Props.C14
open Rain.Registry

/-- **port_conservation** (all schedules). After every history — whole adds, single add steps of
concurrent callers in any interleaving, failing steps, removes, restarts, compaction — the configured
range is, as a multiset, exactly: free ports + ports of registered torrents + ports held by adds in
flight.  The range has no duplicates, so the three parts are pairwise disjoint and no port is owned twice. -/
theorem port_conservation (lo hi : Nat) (ops : List Op) (ht : tameRun (init lo hi) ops = true) :
    let s := run (init lo hi) ops
    (s.free ++ s.reg.map (·.f.port) ++ s.pending.map (·.port)).Perm s.range :=
  (good_run ops (init_good lo hi) ht).1.ports

/-- **port_conservation** for one caller at a time: after every sequential history the executable
predicate the check evaluates on the implementation holds — the range is the disjoint union of the
free ports and the ports of the live torrents. -/
theorem port_conservation_sequential (lo hi : Nat) (ops : List Op) (ht : tameRun (init lo hi) ops = true)
    (hs : ∀ op ∈ ops, op.sequential = true) :
    portConservation (observe (run (init lo hi) ops)) = true ∧ lostPorts (observe (run (init lo hi) ops)) = [] := by
  have h := portConservation_of_inv (good_run ops (init_good lo hi) ht).1 (run_pending_nil ops rfl hs)
  exact ⟨h, lostPorts_nil_of_conservation h⟩

/-- **failing_add_releases_port**: a failing add at any failure point — exhausted range, duplicate
id, storage, newTorrent, resume write (inputs `Env`), inadmissible choice — from *any* state leaves the
free-port set as it was (the taken port is back) and does not touch registry, index, database or the
adds in flight. -/
theorem failing_add_releases_port (s : State) (m : Meta) (o : Opts) (p : Nat) (gen : String) (e : Env) (err : AddErr)
    (h : (addSeq s m o p gen e).2 = .error err) :
    (addSeq s m o p gen e).1.free.Perm s.free ∧ (addSeq s m o p gen e).1.reg = s.reg ∧
    (addSeq s m o p gen e).1.db = s.db ∧ (addSeq s m o p gen e).1.idx = s.idx ∧
    (addSeq s m o p gen e).1.pending = s.pending :=
  addSeq_error_restores s m o p gen e err h

private def errOf : Except AddErr String → Option AddErr
  | .error e => some e
  | .ok _ => none
private def mX : Meta := ⟨"h", "n", [], [], [], true⟩
private def oX : Opts := ⟨none, true, false, false, false⟩
/-- Non-vacuity: each failure point is reachable, and the port is free again afterwards. -/
example : [errOf (addSeq (init 10 11) mX oX 10 "g" { stoFail := true }).2,
           errOf (addSeq (init 10 11) mX oX 10 "g" { buildFail := true }).2,
           errOf (addSeq (init 10 11) mX oX 10 "g" { writeFail := true }).2,
           errOf (addSeq (init 10 10) mX oX 10 "g" {}).2] =
    [some .storage, some .build, some .write, some .noport] ∧
    (addSeq (init 10 11) mX oX 10 "g" { writeFail := true }).1.free = [10] := by decide

/-- **ids_unique** (all schedules): ids of live torrents are pairwise different and the info-hash index
lists exactly the live torrents; moreover ids of registered torrents and of adds in flight never clash. -/
theorem ids_unique (lo hi : Nat) (ops : List Op) (ht : tameRun (init lo hi) ops = true) :
    let s := run (init lo hi) ops
    idsUnique (observe s) = true ∧ (s.regIds ++ s.pendIds).Nodup :=
  ⟨idsUnique_of_inv (good_run ops (init_good lo hi) ht).1, (good_run ops (init_good lo hi) ht).1.ids⟩

/-- **registry_eq_db** (all schedules): the ids of the sub-buckets of the torrents bucket (`bucket =
db ++ dead`) are exactly the ids of the registered torrents, plus those of adds that have written their
record but are not inserted yet, plus the ids of the records that were read at the last start and did
not load, each once; every record that did not load is listed in `invalidTorrentIDs`; every id listed
there still has its dead record or is the id of an add in flight that has just written a new record
under it (with no add in flight: `invalidTorrentIDs` = the records that did not load); an invalid id
is never the id of a registered torrent; and every registered torrent has a record that describes it. -/
theorem registry_eq_db (lo hi : Nat) (ops : List Op) (ht : tameRun (init lo hi) ops = true) :
    let s := run (init lo hi) ops
    (s.bucket.map (·.1)).Perm (s.regIds ++ ((s.pending.filter (fun q => q.stage == .written)).map (·.id)) ++ s.deadIds) ∧
    (s.bucket.map (·.1)).Nodup ∧
    (∀ id ∈ s.deadIds, id ∈ s.invalid) ∧
    (∀ id ∈ s.invalid, id ∈ s.deadIds ∨ ∃ q ∈ s.pending, q.id = id ∧ q.stage = .written) ∧
    (s.pending = [] → s.invalid.Perm s.deadIds) ∧
    (∀ id ∈ s.invalid, id ∉ s.regIds) ∧
    ∀ t ∈ s.reg, ∃ r, dbGet s.bucket t.id = some r ∧ describes r t.f = true := by
  intro s
  obtain ⟨h, hd⟩ := good_run ops (init_good lo hi) ht
  refine ⟨?_, bucket_nodup h hd, hd.deadInv, hd.invSrc, hd.invalid_perm, hd.fresh, ?_⟩
  · rw [State.bucket, List.map_append]
    exact List.Perm.append h.dbIds_perm (List.Perm.refl _)
  · intro t ht
    obtain ⟨r, hr, hdesc⟩ := h.synced t ht
    exact ⟨r, dbGet_append_left (dbGet_of_mem h.dbIds_nodup hr), hdesc⟩

/-- **registry_eq_db** for one caller at a time, as the executable predicate. -/
theorem registry_eq_db_sequential (lo hi : Nat) (ops : List Op) (ht : tameRun (init lo hi) ops = true)
    (hs : ∀ op ∈ ops, op.sequential = true) :
    registryEqDb (observe (run (init lo hi) ops)) = true :=
  registryEqDb_of_inv (good_run ops (init_good lo hi) ht).1 (good_run ops (init_good lo hi) ht).2
    (run_pending_nil ops rfl hs)

/-- **restart_equiv**: closing the session reached by any history (with no add in flight) and opening
a new one on the same database, in which the records of the ids `bad` fail to load, yields the ids that
are not in `bad`, and every such torrent comes back with the same info-hash, name, port, trackers, web
seeds, fixed peers, options and counters; its started flag is `ResumeOnStartup && <started flag of its
record>`.  A torrent whose record fails to load is not registered, its id is listed as invalid, its
record is still in the database, and **its port is free**. -/
theorem restart_equiv (lo hi : Nat) (ops : List Op) (resume : Bool) (bad : List String)
    (ht : tameRun (init lo hi) (ops ++ [.reopen resume bad]) = true)
    (hq : (run (init lo hi) ops).pending = []) :
    restartEquiv resume bad (observe (run (init lo hi) ops)) (observe (reopen (run (init lo hi) ops) resume bad)) = true := by
  obtain ⟨ht1, ht2⟩ := tameRun_append ht
  refine restartEquiv_of_inv (good_run ops (init_good lo hi) ht1).1 hq resume bad ?_
  intro e he
  simp only [tameRun, tame, Bool.and_true, List.all_eq_true] at ht2
  simpa using ht2 e he

/-- **failed_load_then_clean**: after any tame history, `CleanDatabase` (itself tame: no add under an
invalid id between its write and its insert) succeeds, removes exactly the records that did not load,
empties the invalid list and changes nothing else — afterwards the database holds exactly the
registered torrents and the adds that have written. -/
theorem failed_load_then_clean (lo hi : Nat) (ops : List Op) (ht : tameRun (init lo hi) (ops ++ [.clean]) = true) :
    let s := run (init lo hi) ops
    (clean s).2 = true ∧ (clean s).1.dead = [] ∧ (clean s).1.invalid = [] ∧ (clean s).1.db = s.db ∧
    (clean s).1.free = s.free ∧ (clean s).1.reg = s.reg ∧ (clean s).1.idx = s.idx ∧ (clean s).1.pending = s.pending := by
  intro s
  obtain ⟨ht1, ht2⟩ := tameRun_append ht
  obtain ⟨h, hd⟩ := good_run ops (init_good lo hi) ht1
  simp only [tameRun, Bool.and_true] at ht2
  exact clean_spec h hd (tame_clean ht2)

/-- **invalid_id_reuse_is_safe** (finding F08, fixed).  After any tame sequential history, an add —
in particular one under an explicit id that is listed in `invalidTorrentIDs` because its old record did
not load — followed by `CleanDatabase`: no registered torrent has an invalid id after the add (the
insert took it off the list), `CleanDatabase` succeeds and leaves registry and the records of the
registered torrents alone, the registry is exactly the database, and the stats writer does not hit a
missing bucket. -/
theorem invalid_id_reuse_is_safe (lo hi : Nat) (ops : List Op) (m : Meta) (o : Opts) (p : Nat) (gen : String) (e : Env)
    (ht : tameRun (init lo hi) (ops ++ [.add m o p gen e]) = true) (hs : ∀ op ∈ ops, op.sequential = true) :
    let s1 := run (init lo hi) (ops ++ [.add m o p gen e])
    (∀ id ∈ s1.regIds, id ∉ s1.invalid) ∧
    (clean s1).2 = true ∧ (clean s1).1.db = s1.db ∧ (clean s1).1.reg = s1.reg ∧ (clean s1).1.invalid = [] ∧
    registryEqDb (observe (clean s1).1) = true ∧ updateStatsPanics (clean s1).1 = false := by
  intro s1
  obtain ⟨h, hd⟩ := good_run _ (init_good lo hi) ht
  have hseq : ∀ op ∈ ops ++ [Op.add m o p gen e], op.sequential = true := by
    intro op hop
    rcases List.mem_append.1 hop with h1 | h1
    · exact hs op h1
    · simp only [List.mem_singleton] at h1; subst h1; rfl
  have hp : s1.pending = [] := run_pending_nil _ rfl hseq
  have htc : tame s1 .clean = true := by simp [tame, hp]
  have hg2 : Good (step s1 .clean) := good_step ⟨h, hd⟩ htc
  obtain ⟨c1, _, c3, c4, _, c6, _, c8⟩ := clean_spec h hd (tame_clean htc)
  refine ⟨fun id hid hc => hd.fresh id hc hid, c1, c4, c6, c3, ?_, ?_⟩
  · exact registryEqDb_of_inv hg2.1 hg2.2 (by rw [c8]; exact hp)
  · exact updateStats_no_panic hg2.1

/-- **compact_equiv**: after any history `CompactDatabase` succeeds, and the database it writes holds
exactly the torrents that have metadata, each record equal to the torrent's current record with the
counters brought up to date; a session opened on it (`rain compact-database`) has exactly these
torrents, with the fields they had. -/
theorem compact_equiv (lo hi : Nat) (ops : List Op) (ht : tameRun (init lo hi) ops = true) :
    let s := run (init lo hi) ops
    ∃ c, compact s = some c ∧ compactEquiv (observe s) c = true ∧
      (s.pending = [] → ∀ resume,
        restartEquiv resume [] { observe s with live := s.reg.filter (·.f.hasInfo), db := c }
          (observe (compactSwap s resume)) = true) := by
  intro s
  have h := (good_run ops (init_good lo hi) ht).1
  obtain ⟨c, hc, he⟩ := compactEquiv_of_inv h
  refine ⟨c, hc, he, ?_⟩
  intro hp resume
  obtain ⟨c', hc', hr⟩ := compactSwap_equiv h hp resume
  rw [hc] at hc'
  cases hc'
  exact hr

/-- The periodic stats writer never dereferences a missing bucket. -/
theorem updateStats_never_panics (lo hi : Nat) (ops : List Op) (ht : tameRun (init lo hi) ops = true) :
    updateStatsPanics (run (init lo hi) ops) = false :=
  updateStats_no_panic (good_run ops (init_good lo hi) ht).1

/-! ### Non-vacuity: a history with accepted adds, every kind of rejected add, a restart, a compaction -/

private def mA : Meta := ⟨"h1", "n1", [["u1", "u2"], ["u3"]], ["w1"], [], true⟩
private def mB : Meta := ⟨"h2", "n2", [["u1"]], [], ["p1"], false⟩
private def history : List Op :=
  [ .add mA ⟨some "x", false, true, false, false⟩ 10 "" {},            -- accepted, started
    .add mB ⟨some "x", true, false, false, false⟩ 11 "" {},             -- duplicate id
    .add mB ⟨none, true, false, false, true⟩ 11 "g1" { writeFail := true },   -- write fails: port 11 comes back
    .add mB ⟨none, true, false, false, true⟩ 11 "g1" {},                -- accepted (magnet)
    .add mA ⟨none, true, false, false, false⟩ 12 "g2" {},               -- no free port
    .addTracker "x" "u9", .bump "x" ⟨5, 6, 0, 7⟩, .reopen true [], .compactSwap true ]

example : (run (init 10 12) history).reg.map (·.id) = ["x"] := by decide
example : (run (init 10 12) (history.take 8)).reg.length = 2 := by decide
example : (run (init 10 12) history).free = [11] := by decide
example : ((run (init 10 12) history).reg.map (·.f)).map (fun f => (f.trackers, f.cnt.dl, f.started)) =
    [([["u1", "u2"], ["u3"], ["u9"]], 5, true)] := by decide
example : ∀ op ∈ history, op.sequential = true := by decide
example : tameRun (init 10 12) history = true := by decide

/-! ### Records that fail to load -/

/-- A tame history with failing loads: `x` (port 10) and the magnet `g1` (port 11) are added; at the
restart the record of `x` does not load (and again at the next one); its port is taken by `y`;
`CleanDatabase`; a last restart. -/
private def failHistory : List Op :=
  [ .add mA ⟨some "x", false, true, false, false⟩ 10 "" {},
    .add mB ⟨none, true, false, false, true⟩ 11 "g1" {},
    .bump "x" ⟨5, 6, 0, 7⟩,
    .reopen true ["x"],                                              -- x fails to load: port 10 is free
    .tamper "x" "19bytes",
    .add mA ⟨some "y", true, false, false, false⟩ 10 "" {},          -- and is given to y
    .reopen true ["x"],                                              -- x fails again
    .clean,
    .reopen false [] ]

example : tameRun (init 10 12) failHistory = true := by decide
example : let s := run (init 10 12) (failHistory.take 4)
    s.regIds = ["g1"] ∧ s.free = [10] ∧ s.invalid = ["x"] ∧ s.deadIds = ["x"] ∧
    (s.dead.map (·.2.cnt.dl)) = [5] := by decide
example : let s := run (init 10 12) (failHistory.take 7)
    s.regIds = ["g1", "y"] ∧ s.free = [] ∧ s.invalid = ["x"] ∧ (s.bucket.map (·.1)) = ["y", "g1", "x"] := by decide
example : let s := run (init 10 12) failHistory
    s.regIds = ["g1", "y"] ∧ s.invalid = [] ∧ (s.bucket.map (·.1)) = ["y", "g1"] := by decide
example : restartEquiv true ["x"] (observe (run (init 10 12) (failHistory.take 3)))
    (observe (run (init 10 12) (failHistory.take 4))) = true := by decide

/-- **finding F07 (known): a record that failed to load loads later.**  The record of `x` (port 10)
does not load at the first restart (a transient cause: `MaxPieces` lowered, storage unavailable); port
10 is free and is given to `y`; at the next restart the record of `x` loads again —
`loadExistingTorrent` deletes the port from `availablePorts` without looking whether it was there — and
two live torrents own port 10.  The history is not tame, and port conservation fails. -/
theorem reload_shares_port_counterexample :
    let ops : List Op :=
      [ .add mA ⟨some "x", true, false, false, false⟩ 10 "" {}, .reopen true ["x"],
        .add mB ⟨some "y", true, false, false, false⟩ 10 "" {}, .reopen true [] ]
    tameRun (init 10 12) ops = false ∧
    (run (init 10 12) ops).reg.map (fun t => (t.id, t.f.port)) = [("x", 10), ("y", 10)] ∧
    portConservation (observe (run (init 10 12) ops)) = false := by decide

/-- Non-vacuity of `invalid_id_reuse_is_safe` (the history of finding F08 on the repaired machine): the
record of `x` does not load, `x` is used again as an explicit id, `CleanDatabase`: the history is tame,
`x` is live with its new record, the invalid list is empty, nothing panics. -/
private def reuse : List Op :=
  [ .add mA ⟨some "x", true, false, false, false⟩ 10 "" {}, .reopen true ["x"],
    .add mB ⟨some "x", true, false, false, false⟩ 10 "" {}, .clean ]
example : tameRun (init 10 12) reuse = true ∧ (run (init 10 12) (reuse.take 2)).invalid = ["x"] ∧
    (run (init 10 12) (reuse.take 3)).invalid = [] ∧
    (run (init 10 12) reuse).regIds = ["x"] ∧ (run (init 10 12) reuse).bucket.map (·.1) = ["x"] ∧
    (run (init 10 12) reuse).bucket.map (·.2.infoHash) = ["h2"] ∧
    registryEqDb (observe (run (init 10 12) reuse)) = true ∧
    updateStatsPanics (run (init 10 12) reuse) = false := by decide

/-- **`CleanDatabase` between the write and the insert of an add under an invalid id** (not tame; a
narrow race that remains after the repair of F08, `CleanDatabase` is not meant to run concurrently with
an add): the freshly written record is deleted, the torrent is then registered without a record. -/
theorem clean_during_add_counterexample :
    let o : Opts := ⟨some "x", true, false, false, false⟩
    let q : Pending := ⟨"x", 10, mB, o, .reserved⟩
    let ops : List Op :=
      [ .add mA o 10 "" {}, .reopen true ["x"],
        .abegin mB o 10 "" false, .abuild q true, .awrite { q with stage := .built } true,
        .clean, .ainsert { q with stage := .written } ]
    tameRun (init 10 12) ops = false ∧ tameRun (init 10 12) (ops.take 5) = true ∧
    (run (init 10 12) ops).regIds = ["x"] ∧ (run (init 10 12) ops).bucket = [] ∧
    updateStatsPanics (run (init 10 12) ops) = true := by decide

/-! ### The pre-fix behaviour, kept as checked counterexamples -/

private def dupA : Meta := ⟨"h1", "n1", [], [], [], true⟩
private def dupO : Opts := ⟨some "same", true, false, false, false⟩
private def q1 : Pending := ⟨"same", 10, dupA, dupO, .reserved⟩
private def q2 : Pending := ⟨"same", 11, dupA, dupO, .reserved⟩
/-- Two callers add with the same explicit id; both pass the duplicate check before either inserts. -/
private def race : List Op :=
  [ .abegin dupA dupO 10 "" false, .abegin dupA dupO 11 "" false,
    .abuild q1 true, .abuild q2 true,
    .awrite { q1 with stage := .built } true, .awrite { q2 with stage := .built } true,
    .ainsert { q1 with stage := .written }, .ainsert { q2 with stage := .written } ]

/-- **concurrent duplicate id (finding F05, fixed).** With the historical duplicate check (registry
only) the interleaving `race` lets both adds succeed: one torrent is registered, the other one's port
is neither free nor owned — port conservation fails in a quiescent state. -/
theorem concurrent_dup_counterexample :
    (runUnfixed (init 10 13) race).pending = [] ∧
    portConservation (observe (runUnfixed (init 10 13) race)) = false := by decide

/-- The same interleaving on the repaired machine: the second caller is rejected at once. -/
example : (run (init 10 13) race).reg.length = 1 ∧ (run (init 10 13) race).free = [11, 12] := by decide

/-- **compaction of a freshly added torrent (finding F03, fixed).** The pre-fix record had empty
tracker and web-seed lists for a torrent that was not loaded at startup, so it does not equal the
torrent's record. -/
theorem compact_unfixed_counterexample :
    let s := run (init 10 12) [.add mA ⟨some "x", false, false, false, false⟩ 10 "" {}]
    (s.reg.map fun t => compactRecUnfixed false t) ≠ s.db.map (·.2) := by decide

/-- **finding F08 (fixed): an explicit id that is listed as invalid, before the repair.**  With the
historical `insertTorrent` (`addInsertUnfixed`: the id stays in `invalidTorrentIDs`) the record of `x`
does not load, a new torrent is added under `x`, and `CleanDatabase` deletes the record of the live
torrent: the registry is no longer the database and the next `updateStats` dereferences a nil bucket. -/
theorem invalid_id_reuse_unfixed_counterexample :
    let o : Opts := ⟨some "x", true, false, false, false⟩
    let q : Pending := ⟨"x", 10, mB, o, .reserved⟩
    let s3 := run (init 10 12)
      [ .add mA o 10 "" {}, .reopen true ["x"],
        .abegin mB o 10 "" false, .abuild q true, .awrite { q with stage := .built } true ]
    let s5 := (clean (addInsertUnfixed s3 { q with stage := .written }).1).1
    s5.regIds = ["x"] ∧ s5.bucket = [] ∧ registryEqDb (observe s5) = false ∧ updateStatsPanics s5 = true := by decide

/-! ### Resume record codec -/

section Codec
open Rain.ResumeCodec

/-- **resume_roundtrip** (proved part). For every record whose numbers fit the Go types and whose
three JSON-encoded string lists decode to themselves (`JsonOk`: a decidable condition on the record;
it holds for the example below and fails exactly as in the counterexample), `Read(Write(s))` returns
`s` field by field (the version read is the one stored: `LatestVersion` when the spec says 0) —
including the sub-second part of `AddedAt`, after the `fix:` commit. -/
theorem resume_roundtrip_partial (s : Spec) (hr : InRange s) (hj : JsonOk s) :
    read (write s) = some (stored s) :=
  read_write s hr hj

/-- The oracle the check evaluates (`diffFields`) reports no field exactly when the two records are equal. -/
theorem diffFields_nil_iff (w r : Spec) : diffFields w r = [] ↔ w = r := by
  constructor
  · intro h
    unfold diffFields at h
    simp only [List.append_eq_nil_iff] at h
    obtain ⟨⟨⟨⟨⟨⟨⟨⟨⟨⟨⟨⟨⟨⟨⟨⟨⟨⟨h1, h2⟩, h3⟩, h4⟩, h5⟩, h6⟩, h7⟩, h8⟩, h9⟩, h10⟩, h11⟩, h12⟩, h13⟩, h14⟩, h15⟩, h16⟩, h17⟩, h18⟩, h19⟩ := h
    cases w; cases r
    simp only [Spec.mk.injEq]
    simp only [ite_eq_left_iff, reduceCtorEq, imp_false, Classical.not_not] at *
    exact ⟨h1, h2, h3, h4, h5, h6, h7, h8, h9, h10, h11, h12, h13, h14, h15, h16, h17, h18, h19⟩
  · rintro rfl
    unfold diffFields
    simp

/-- The full-strength statement: every in-range record reads back equal. -/
def resume_roundtrip_full : Prop := ∀ s : Spec, InRange s → read (write s) = some (stored s)

private def base : Spec :=
  { infoHash := List.replicate 20 7, port := 6881, name := [110], trackers := [], urlList := [], fixedPeers := [],
    info := [100, 101], bitfield := [], addedAt := ⟨1790000000, 500000000⟩, bytesDownloaded := 1, bytesUploaded := 2,
    bytesWasted := 0, seededFor := 1500000000, started := true, stopAfterDownload := false, stopAfterMetadata := false,
    completeCmdRun := false, sequential := true, version := 0 }

/-- **finding F06 (known).** A tracker URL that is not valid UTF-8 (`http://a/\xff`, as a .torrent
may carry it) is stored with the byte replaced by U+FFFD and does not read back equal; so the
full-strength statement is false. -/
theorem resume_roundtrip_counterexample : ¬ resume_roundtrip_full := by
  intro h
  have := h { base with trackers := [[[104, 116, 116, 112, 58, 47, 47, 97, 47, 255]]] }
    ⟨by decide, by decide, by decide, by decide, by decide, by decide, by decide⟩
  revert this
  decide

/-- **finding F04 (fixed).** With the pre-fix time format (whole seconds) an `AddedAt` with a
sub-second part does not read back equal. -/
theorem addedAt_unfixed_counterexample : read (writeUnfixed base) ≠ some (stored base) := by decide

/-- Non-vacuity: a record with tiers, JSON specials, multi-byte UTF-8 and a sub-second `AddedAt`
satisfies the hypotheses and reads back equal. -/
private def rich : Spec :=
  { base with trackers := [[[104, 116, 116, 112, 58, 47, 47, 34, 92, 60, 10, 1], [195, 169]], [], [[]]],
              urlList := [[226, 128, 168], [240, 159, 152, 128]], fixedPeers := [[49, 46, 50, 58, 51]],
              addedAt := ⟨-1, 120⟩, version := 2 }
example : InRange rich ∧ JsonOk rich :=
  ⟨⟨by decide, by decide, by decide, by decide, by decide, by decide, by decide⟩, by decide⟩
example : read (write rich) = some rich := by decide

end Codec

end Rain.Props.C14
