import RainModel.Model.Request
/-!
C03 — upload integrity.  Property theorems only; helper lemmas live in `Lemmas/`.
-/
namespace Rain.Props.C03
open Rain.Request

/-- **validReq_iff.** For *all* 32-bit `begin`, `length`, `pieceLength`: the code's check accepts
exactly when the length is non-zero and the block lies inside the piece, the sum being taken in
the naturals — so no choice of the attacker-controlled fields makes the 64-bit sum wrap. -/
theorem validReq_iff (b l pl : U32) :
    validPieceRequest b l pl = true ↔ l ≠ 0#32 ∧ b.toNat + l.toNat ≤ pl.toNat := by
  unfold validPieceRequest
  have hb := b.isLt; have hl := l.isLt; have hp := pl.isLt
  simp only [Bool.and_eq_true, bne_iff_ne, ne_eq, decide_eq_true_eq, BitVec.le_def,
    BitVec.toNat_add, BitVec.toNat_setWidth]
  constructor
  · rintro ⟨h1, h2⟩
    exact ⟨h1, by omega⟩
  · rintro ⟨h1, h2⟩
    exact ⟨h1, by omega⟩

/-- Non-vacuity, both directions: the last block of a piece is valid, one byte more is not. -/
example : validPieceRequest 0x3C000#32 0x4000#32 0x40000#32 = true := by decide
example : validPieceRequest 0x3C001#32 0x4000#32 0x40000#32 = false := by decide

/-- Without the `uint64` widening the check is wrong: `begin = 2^32 − 1`, `length = 2` wraps to 1
and would be accepted for any piece although it ends 4 GiB past it. -/
theorem validReq32_counterexample :
    validPieceRequest32 0xFFFFFFFF#32 2#32 0x4000#32 = true ∧
    validPieceRequest 0xFFFFFFFF#32 2#32 0x4000#32 = false := by decide

end Rain.Props.C03
