import RainModel.Model.Request
import RainModel.Model.Cache
import RainModel.Model.CachedPiece
import RainModel.Lemmas.Request
import RainModel.Lemmas.Cache
import RainModel.Lemmas.CachedPiece
import RainModel.Model.WriteQueue
import RainModel.Lemmas.WriteQueue
/-!
C03 — upload integrity (and the read-cache / upload-queue bounds C17 relies on).
Property theorems only; helper lemmas live in `Lemmas/`.
-/
set_option linter.unusedSimpArgs false
namespace Rain.Props.C03
open Rain.Request Rain.Cache Rain.CachedPiece

/-! ## Request validation (M-REQ) -/

/-- **validReq_iff.** For *all* 32-bit `begin`, `length`, `pieceLength`: the code's check accepts
exactly when the length is non-zero and the block lies inside the piece, the sum being taken in
the naturals — so no choice of the attacker-controlled fields makes the 64-bit sum wrap. -/
theorem validReq_iff (b l pl : U32) :
    validPieceRequest b l pl = true ↔ l ≠ 0#32 ∧ b.toNat + l.toNat ≤ pl.toNat :=
  validReq_iff' b l pl

/-- Non-vacuity, both directions: the last block of a piece is valid, one byte more is not. -/
example : validPieceRequest 0x3C000#32 0x4000#32 0x40000#32 = true := by decide
example : validPieceRequest 0x3C001#32 0x4000#32 0x40000#32 = false := by decide

/-- Without the `uint64` widening the check is wrong: `begin = 2^32 − 1`, `length = 2` wraps to 1
and would be accepted for any piece although it ends 4 GiB past it. -/
theorem validReq32_counterexample :
    validPieceRequest32 0xFFFFFFFF#32 2#32 0x4000#32 = true ∧
    validPieceRequest 0xFFFFFFFF#32 2#32 0x4000#32 = false := by decide

/-- **serve_sound.** The request branch hands a block to the writer (`SendPiece`) exactly when: the
torrent has its info, the index is a piece index, the block is non-empty and inside that piece
(natural-number sum), the piece is `Done`, and the peer is unchoked or (fast extension and the piece
is in the allowed-fast set sent to it). -/
theorem serve_sound (c : Ctx) (idx b l : U32) :
    handleRequest c idx b l = .serve ↔
      c.haveInfo = true ∧ idx.toNat < c.numPieces.toNat ∧
      ∃ pi, c.pieces[idx.toNat]? = some pi ∧
        l ≠ 0#32 ∧ b.toNat + l.toNat ≤ pi.length.toNat ∧ pi.done = true ∧
        (c.choking = false ∨ (c.fast = true ∧ idx.toNat ∈ c.allowedFast)) := by
  unfold handleRequest
  by_cases hI : c.haveInfo = true
  · by_cases hidx : idx ≥ c.numPieces
    · have := (ge_iff _ _).mp hidx
      simp [hI, hidx, this]
    · have hlt : idx.toNat < c.numPieces.toNat := by
        have := mt (ge_iff idx c.numPieces).mpr hidx; omega
      cases hp : c.pieces[idx.toNat]? with
      | none => simp [hI, hidx]
      | some pi =>
        simp only [valid_eq]
        by_cases h1 : l = 0#32 <;> by_cases h2 : b.toNat + l.toNat ≤ pi.length.toNat <;>
          cases hd : pi.done <;> cases hc : c.choking <;> cases hf : c.fast <;>
          by_cases ha : idx.toNat ∈ c.allowedFast <;>
          simp [hI, hidx, hlt, h1, h2, hd, hc, hf, ha]
  · simp [hI]

/-- **request_outcomes.** Every other outcome, exactly as the code: the connection is closed for a
request before the info is known, for an index out of range and for an empty or out-of-bounds block;
a valid request is *rejected* when the piece is not `Done` or when a choked fast peer asks for a
piece outside its allowed-fast set, and *ignored* when a choked peer has no fast extension. -/
theorem request_outcomes (c : Ctx) (idx b l : U32) (hlen : c.pieces.length = c.numPieces.toNat) :
    (handleRequest c idx b l = .closeNoInfo ↔ c.haveInfo = false) ∧
    (handleRequest c idx b l = .closeBadIndex ↔ c.haveInfo = true ∧ c.numPieces.toNat ≤ idx.toNat) ∧
    (handleRequest c idx b l = .closeBadRange ↔ c.haveInfo = true ∧
        ∃ pi, c.pieces[idx.toNat]? = some pi ∧ ¬ (l ≠ 0#32 ∧ b.toNat + l.toNat ≤ pi.length.toNat)) ∧
    (handleRequest c idx b l = .reject ↔ c.haveInfo = true ∧
        ∃ pi, c.pieces[idx.toNat]? = some pi ∧ (l ≠ 0#32 ∧ b.toNat + l.toNat ≤ pi.length.toNat) ∧
          (pi.done = false ∨ (c.choking = true ∧ c.fast = true ∧ idx.toNat ∉ c.allowedFast))) ∧
    (handleRequest c idx b l = .ignore ↔ c.haveInfo = true ∧
        ∃ pi, c.pieces[idx.toNat]? = some pi ∧ (l ≠ 0#32 ∧ b.toNat + l.toNat ≤ pi.length.toNat) ∧
          pi.done = true ∧ c.choking = true ∧ c.fast = false) ∧
    handleRequest c idx b l ≠ .panicIndex := by
  unfold handleRequest
  by_cases hI : c.haveInfo = true
  · by_cases hidx : idx ≥ c.numPieces
    · have hn := (ge_iff _ _).mp hidx
      have hnone : c.pieces[idx.toNat]? = none := by
        apply List.getElem?_eq_none; omega
      simp [hI, hidx, hnone]
      omega
    · have hlt : idx.toNat < c.numPieces.toNat := by
        have := mt (ge_iff idx c.numPieces).mpr hidx; omega
      have hsome : ∃ pi, c.pieces[idx.toNat]? = some pi :=
        ⟨c.pieces[idx.toNat]'(by omega), List.getElem?_eq_getElem (by omega)⟩
      obtain ⟨pi, hp⟩ := hsome
      simp only [hp, valid_eq]
      by_cases h1 : l = 0#32 <;> by_cases h2 : b.toNat + l.toNat ≤ pi.length.toNat <;>
        cases hd : pi.done <;> cases hc : c.choking <;> cases hf : c.fast <;>
        by_cases ha : idx.toNat ∈ c.allowedFast <;>
        simp [hI, hidx, hlt, h1, h2, hd, hc, hf, ha] <;> omega
  · have : c.haveInfo = false := by simpa using hI
    simp [this]

/-- Reader and handler together: a block is served only for lengths `1..16384` (the reader closes
the connection for longer ones before the handler sees them). -/
theorem wire_served_le_16k (c : Ctx) (idx b l : U32) (h : wireRequest c idx b l = some .serve) :
    0 < l.toNat ∧ l.toNat ≤ 16384 := by
  unfold wireRequest at h
  split at h
  · rename_i hr
    have h' : handleRequest c idx b l = .serve := by simpa using h
    obtain ⟨_, _, pi, _, hl, _⟩ := (serve_sound c idx b l).mp h'
    have : l.toNat ≠ 0 := fun e => hl (BitVec.eq_of_toNat_eq (by simpa using e))
    exact ⟨by omega, (readerAccepts_iff l).mp hr⟩
  · cases h

/-- Non-vacuity: a choked fast peer is served an allowed-fast piece, rejected for another one. -/
example :
    let c : Ctx := ⟨true, 3#32, [⟨0x8000#32, true⟩, ⟨0x8000#32, true⟩, ⟨0x100#32, false⟩], true, true, [1]⟩
    handleRequest c 1#32 0x4000#32 0x4000#32 = .serve ∧ handleRequest c 0#32 0#32 0x4000#32 = .reject ∧
    handleRequest c 2#32 0#32 0x100#32 = .reject ∧ handleRequest c 3#32 0#32 1#32 = .closeBadIndex ∧
    handleRequest c 1#32 0x4001#32 0x4000#32 = .closeBadRange := by decide

/-! ## Read cache (M-CACHE) -/

/-- **cache_transparent.** After *any* history of `get / fire / advance / clear` on a fresh cache, for
every configured `maxSize` (also zero and negative) and TTL: `size = Σ |value|`, the map and the
access list hold the same keys (each once), every cached value is one a loader returned for that
key; and the next `Get` does not panic and returns the loader's own result — bytes or error — on a
miss, or on a hit a value that an earlier loader call returned for the same key. -/
theorem cache_transparent {κ : Type} [DecidableEq κ] (maxSize : Int) (ttl : Nat) (ops : List (Op κ)) :
    let c := (runLog (new maxSize ttl) [] ops).1
    let log := (runLog (new maxSize ttl) [] ops).2
    c.size = sumLen c.heap ∧ c.keys.Perm (c.heap.map (·.key)) ∧ (c.heap.map (·.key)).Nodup ∧
    (∀ i ∈ c.heap, (i.key, i.value) ∈ log) ∧
    ∀ k r, match (get c k r).2 with
      | .value v true => (k, v) ∈ log
      | .value v false => r = .ok v
      | .error => r = .err
      | .panic => False := by
  intro c log
  obtain ⟨hinv, _, hprov⟩ := runLog_spec ops (new maxSize ttl : Cache κ) [] (new_inv _ _) (fun j hj => by cases hj)
  refine ⟨hinv.size_eq, hinv.keys_perm, hinv.nodup, hprov, ?_⟩
  intro k r
  have hs := get_spec c hinv k r
  generalize hg : (get c k r).2 = g at hs
  cases g with
  | panic => exact hs.no_panic rfl
  | error => exact (hs.error rfl).2
  | value v hit =>
    cases hit with
    | false => exact (hs.miss v rfl).2
    | true =>
      obtain ⟨_, j, hj, e1, e2⟩ := hs.hit v rfl
      exact e1 ▸ e2 ▸ hprov j hj

/-- **cache_bound** (for C17). After any history: `0 ≤ size ≤ max maxSize 0`, `size` is the sum of the
cached value lengths, map and access list have the same number of entries, every cached value fits
`maxSize` by itself, and `maxSize` never changes. -/
theorem cache_bound {κ : Type} [DecidableEq κ] (maxSize : Int) (ttl : Nat) (ops : List (Op κ)) :
    let c := run (new maxSize ttl) ops
    0 ≤ c.size ∧ c.size ≤ max maxSize 0 ∧ c.size = sumLen c.heap ∧ c.keys.length = c.heap.length ∧
    c.maxSize = maxSize := by
  intro c
  obtain ⟨hinv, hmax, _⟩ := runLog_spec ops (new maxSize ttl : Cache κ) [] (new_inv _ _) (fun j hj => by cases hj)
  have hc : (runLog (new maxSize ttl : Cache κ) [] ops).1 = c := rfl
  rw [hc] at hinv hmax
  have hmax' : c.maxSize = maxSize := hmax
  have h0 : 0 ≤ c.size := by rw [hinv.size_eq]; exact sumLen_nonneg _
  refine ⟨h0, ?_, hinv.size_eq, by simpa using hinv.keys_perm.length_eq, hmax'⟩
  rcases hinv.bound with he | hb
  · have : c.size = 0 := by rw [hinv.size_eq, he]; rfl
    omega
  · omega

/-- Non-vacuity: capacity 5, three loads of 3, 2 and 4 bytes — the least recently used items go. -/
example :
    let c := run (new 5 10 : Cache Nat) [.get 1 (.ok [1, 2, 3]), .get 2 (.ok [4, 5]), .get 1 .err, .get 3 (.ok [6, 7, 8, 9])]
    c.size = 4 ∧ c.keys = [3] := by decide

/-! ## Cached piece reads (M-CP) -/

/-- **cachedpiece_exact.** For every `readSize > 0` (any size: block arithmetic is 64-bit), every
invariant cache state that is coherent with the pieces of the world — whatever it holds or has
evicted —, every disk that returns the piece's bytes or fails, and every `off + n ≤ pieceLength`:
`ReadAt` returns exactly `n` bytes equal to `data[off, off+n)`, or an error that stems from a disk
error; never a short read, never a panic; the cache stays invariant and coherent. -/
theorem cachedpiece_exact (w : World) (rs : Nat) (hrs : 0 < rs) (pid : Bytes) (hpid : pid.length = 20)
    (idx : Nat) (hidx : idx < 4294967296) (hL : (w pid idx).length < 4294967296)
    (rd : Reader) (hrd : ExactReader (w pid idx) rd)
    (c : Cache Bytes) (hinv : Inv c) (hcoh : Coherent w rs c)
    (off n : Nat) (hrange : off + n ≤ (w pid idx).length) :
    let cp : CP := { peerID := pid, index := idx, length := (w pid idx).length, readSize := rs }
    let r := readAt cp rd c n off
    ((r.2 = .ok (slice (w pid idx) off n) ∧ (slice (w pid idx) off n).length = n) ∨
      (∃ bs, r.2 = .err bs ∧ ∃ o l, o + l ≤ (w pid idx).length ∧ rd o l = .err)) ∧
    Inv r.1 ∧ Coherent w rs r.1 ∧ r.1.maxSize = c.maxSize := by
  intro cp r
  obtain ⟨i1, i2, i3, i4⟩ := readAtLoop_spec w rs hrs pid hpid idx hidx hL rd hrd (n + 1) c n off [] hinv hcoh
    hrange (by omega)
  refine ⟨?_, i1, i2, i3⟩
  rcases i4 with h | h
  · left
    refine ⟨by simpa [r, readAt] using h, ?_⟩
    rw [slice_length]; omega
  · right; exact h

/-- With a disk that does not fail the read is exact, outright. -/
theorem cachedpiece_exact_total (w : World) (rs : Nat) (hrs : 0 < rs) (pid : Bytes) (hpid : pid.length = 20)
    (idx : Nat) (hidx : idx < 4294967296) (hL : (w pid idx).length < 4294967296)
    (c : Cache Bytes) (hinv : Inv c) (hcoh : Coherent w rs c)
    (off n : Nat) (hrange : off + n ≤ (w pid idx).length) :
    let cp : CP := { peerID := pid, index := idx, length := (w pid idx).length, readSize := rs }
    (readAt cp (dataReader (w pid idx)) c n off).2 = .ok (slice (w pid idx) off n) := by
  intro cp
  have := cachedpiece_exact w rs hrs pid hpid idx hidx hL _ (dataReader_exact _) c hinv hcoh off n hrange
  rcases this.1 with h | ⟨bs, _, o, l, hol, herr⟩
  · exact h.1
  · exact absurd herr (dataReader_total _ o l hol)

/-- **upload_reads_exact.** Session level: starting from an empty cache of any capacity and TTL, after
any history of valid reads of any pieces of any torrents (sharing the one cache, whose keys never
collide: `mkKey_inj`), timer expiries, clock advances and clears, *every* read returned exactly its
`n` bytes `data[off, off+n)`. -/
theorem upload_reads_exact (w : World) (rs : Nat) (hrs : 0 < rs) (maxSize : Int) (ttl : Nat) (ops : List WOp)
    (hv : ∀ o ∈ ops, o.Valid w) :
    wrun w rs (new maxSize ttl) ops = wexpected w ops :=
  wrun_spec w rs hrs ops _ (new_inv _ _) (coherent_new w rs _ _) hv

/-- Non-vacuity (the witness of DESIGN 10 #2): 20 bytes at offset 25 of a 50-byte piece with 32-byte
cache blocks, cache capacity 40 (the second block evicts the first). -/
example :
    let data : Bytes := (List.range 50).map (· + 100)
    let cp : CP := { peerID := List.replicate 20 1, index := 0, length := 50, readSize := 32 }
    (readAt cp (dataReader data) (new 40 60) 20 25).2 = .ok ((List.range 20).map (· + 125)) := by decide

/-- The defect repaired by rain d79bb15: the old `ReadAt` answers the same request with 7 bytes and
no error. -/
theorem readAtOld_short_counterexample :
    let data : Bytes := (List.range 50).map (· + 100)
    let cp : CP := { peerID := List.replicate 20 1, index := 0, length := 50, readSize := 32 }
    (readAtOld cp (dataReader data) (new 40 60) 20 25).2 = .ok ((List.range 7).map (· + 125)) := by decide

/-- The defect repaired by rain 5e7d231: with `readSize = 2^32` the old block end wraps to 0, the
cached block is empty and `buf[begin:]` panics for a valid request. -/
theorem readAtOld_wide_counterexample :
    let data : Bytes := (List.range 50).map (· + 100)
    let cp : CP := { peerID := List.replicate 20 1, index := 0, length := 50, readSize := 4294967296 }
    (readAtOld cp (dataReader data) (new 40 60) 20 25).2 = .panic := by decide

/-! ## Upload queue and framing (M-WQ) -/

open Rain.WriteQueue in
/-- **wq_bound** (for C17). After any interleaving of enqueues (any message), cancels and hand-offs to
the writer goroutine, for every configured `maxQueuedRequests` (also zero and negative) and both
fast modes: the counter equals the number of piece messages in the queue and that number is at most
`max maxQueuedRequests 0`. -/
theorem wq_bound (maxQ : Int) (fast : Bool) (ops : List Rain.WriteQueue.Op) :
    let s := Rain.WriteQueue.run (Rain.WriteQueue.new maxQ fast) ops
    s.queued = countPieces s.queue ∧ (countPieces s.queue : Int) ≤ max maxQ 0 ∧ s.maxQueued = maxQ := by
  intro s
  obtain ⟨h1, h2⟩ := run_inv ops (Rain.WriteQueue.new maxQ fast) (Rain.WriteQueue.new_inv maxQ fast)
  have h2' : s.maxQueued = maxQ := h2
  refine ⟨h1.count, ?_, h2'⟩
  have := h1.bound
  rw [← h1.count]; rw [h2'] at this; exact this

open Rain.WriteQueue in
/-- **cancel_not_sent.** From any queue state in which request `r` is queued at most once: after
`CancelRequest(r)` the writer never takes a piece message for `r` again — whatever else happens —
until `r` is requested anew. -/
theorem cancel_not_sent (s : WQ) (r : Req) (ops : List Rain.WriteQueue.Op)
    (hone : List.count (Msg.piece r) s.queue ≤ 1) (hops : ∀ o ∈ ops, o ≠ .enqueue (.piece r)) :
    ∀ x ∈ handed (Rain.WriteQueue.cancel s r) ops, x.1 ≠ .piece r :=
  handed_no_piece r ops _ (cancel_removes s r hone) hops

open Rain.WriteQueue in
/-- **choke_not_sent.** After a `choke` is enqueued no piece message that was queued before it is
ever written (whatever the fast mode), until requested anew. -/
theorem choke_not_sent (s : WQ) (r : Req) (ops : List Rain.WriteQueue.Op)
    (hops : ∀ o ∈ ops, o ≠ .enqueue (.piece r)) :
    ∀ x ∈ handed (enqueue s .choke) ops, x.1 ≠ .piece r :=
  handed_no_piece r ops _ (choke_removes s r) hops

open Rain.WriteQueue in
/-- **piece_frame_exact.** What the writer emits for a piece message, completely: a *reject* frame
if the request was served before (duplicate); otherwise — for a length within the 16 KiB buffer and
`n` bytes returned by the data source — the frame `be32(9+n) ‖ 7 ‖ be32 index ‖ be32 begin ‖ bytes`;
the writer gives up on a read error; a length above 16 KiB would index past the buffer (excluded
upstream by `wire_served_le_16k`). -/
theorem piece_frame_exact (served : List Req) (r : Req) (d : DataRes) :
    (r ∈ served ∧ writeMsg served (.piece r) d = (served, .frame (frame 16 (reqBytes r)))) ∨
    (r ∉ served ∧ (writeMsg served (.piece r) d).1 = r :: served ∧
      ((maxBlock < r.l ∧ (writeMsg served (.piece r) d).2 = .panic) ∨
       (r.l ≤ maxBlock ∧ ((∃ bytes, (d = .ok bytes ∨ d = .eof bytes) ∧
            (writeMsg served (.piece r) d).2 =
              .frame (Rain.WriteQueue.be32 (9 + bytes.length) ++ [7] ++ Rain.WriteQueue.be32 r.idx ++
                        Rain.WriteQueue.be32 r.b ++ bytes)) ∨
          (d = .err ∧ (writeMsg served (.piece r) d).2 = .died))))) :=
  writeMsg_piece served r d

open Rain.WriteQueue in
/-- **served_once.** In every history, from any state, the requests answered with a data-carrying
piece frame are pairwise distinct and none of them had been served before: a duplicate of a served
request is rejected, never answered with data twice. -/
theorem served_once (s : WQ) (ops : List Rain.WriteQueue.Op) :
    (dataSent (handed s ops)).Nodup ∧ ∀ r ∈ dataSent (handed s ops), r ∉ s.served :=
  dataSent_nodup ops s

open Rain.WriteQueue in
/-- Non-vacuity: limit 1, no fast extension — the second request is dropped, the first is cancelled,
the third is queued and sent as `be32(9+2) 7 idx begin data`. -/
example :
    let ops : List Rain.WriteQueue.Op := [.enqueue (.piece ⟨0, 0, 2⟩), .enqueue (.piece ⟨0, 2, 2⟩), .cancel ⟨0, 0, 2⟩,
      .enqueue (.piece ⟨1, 4, 2⟩), .handoff (.ok [0xAA, 0xBB]), .handoff .err]
    handed (Rain.WriteQueue.new 1 false) ops =
      [(.piece ⟨1, 4, 2⟩, .frame [0, 0, 0, 11, 7, 0, 0, 0, 1, 0, 0, 0, 4, 0xAA, 0xBB])] := by decide

/-! ## The read path composed -/

open Rain.WriteQueue in
/-- **upload_frame_exact.** Handler, cached read and framing composed: if the request branch decides
to serve `(index, begin, length)` (32-bit values from the wire that passed the reader), then — for
every read-cache block size `> 0`, every invariant cache state coherent with the world's pieces, the
piece's bytes `data` having the piece's length — the bytes the writer puts on the wire for that
request (not served before) are exactly
`be32(9+length) ‖ 7 ‖ be32 index ‖ be32 begin ‖ data[begin, begin+length)`, `13 + length` bytes. -/
theorem upload_frame_exact (ctx : Ctx) (idx b l : U32) (hserve : wireRequest ctx idx b l = some .serve)
    (w : World) (rs : Nat) (hrs : 0 < rs) (pid : Bytes) (hpid : pid.length = 20)
    (hdata : ∀ pi, ctx.pieces[idx.toNat]? = some pi → (w pid idx.toNat).length = pi.length.toNat)
    (c : Cache Bytes) (hinv : Inv c) (hcoh : Coherent w rs c)
    (served : List Req) (hnew : (⟨idx.toNat, b.toNat, l.toNat⟩ : Req) ∉ served) :
    let data := w pid idx.toNat
    let cp : CP := { peerID := pid, index := idx.toNat, length := data.length, readSize := rs }
    let r : Req := ⟨idx.toNat, b.toNat, l.toNat⟩
    ∃ bytes, (readAt cp (dataReader data) c l.toNat b.toNat).2 = .ok bytes ∧
      bytes = slice data b.toNat l.toNat ∧ bytes.length = l.toNat ∧
      (writeMsg served (.piece r) (.ok bytes)).2 =
        .frame (Rain.WriteQueue.be32 (9 + l.toNat) ++ [7] ++ Rain.WriteQueue.be32 idx.toNat ++
                  Rain.WriteQueue.be32 b.toNat ++ slice data b.toNat l.toNat) := by
  intro data cp r
  have hl := wire_served_le_16k ctx idx b l hserve
  have hs : handleRequest ctx idx b l = .serve := by
    unfold wireRequest at hserve
    split at hserve
    · simpa using hserve
    · cases hserve
  obtain ⟨_, _, pi, hpi, _, hrange, _, _⟩ := (serve_sound ctx idx b l).mp hs
  have hlen := hdata pi hpi
  have hL : data.length < 4294967296 := by
    have := pi.length.isLt
    show (w pid idx.toNat).length < 4294967296
    omega
  have hrange' : b.toNat + l.toNat ≤ data.length := by
    show b.toNat + l.toNat ≤ (w pid idx.toNat).length
    omega
  have hread := cachedpiece_exact_total w rs hrs pid hpid idx.toNat idx.isLt hL c hinv hcoh b.toNat l.toNat hrange'
  have hblen : (slice data b.toNat l.toNat).length = l.toNat := by
    rw [slice_length]; omega
  refine ⟨slice data b.toNat l.toNat, hread, rfl, hblen, ?_⟩
  rcases writeMsg_piece served r (.ok (slice data b.toNat l.toNat)) with ⟨hin, _⟩ | ⟨_, _, hrest⟩
  · exact absurd hin hnew
  · rcases hrest with ⟨hbig, _⟩ | ⟨_, ⟨bytes, hb, hw⟩ | ⟨hb, _⟩⟩
    · have : r.l = l.toNat := rfl
      unfold maxBlock at hbig; omega
    · rcases hb with hb | hb
      · cases hb
        rw [hw, pieceFrame, hblen]
      · cases hb
    · cases hb

end Rain.Props.C03
