import RainModel.Model.Validate
/-!
C06 — untrusted metainfo is rejected or well-formed.  Property theorems only.
-/
namespace Rain.Props.C06
open Rain.Path Rain.Validate

/-- The historical defect: the parser as it was accepted `files = [50, −50, 100]` (only the sum
was checked), a description that is not well-formed. -/
theorem newInfoPre_negative_counterexample :
    acceptedNotWF (newInfoPre ⟨true, true, []⟩
      { pieceLength := 64, piecesLen := 40, name := [0x74], nameUtf8 := [], priv := [], length := 0,
        files := [⟨50, [[0x61]], [], []⟩, ⟨-50, [[0x62]], [], []⟩, ⟨100, [[0x63]], [], []⟩] }) = true := by
  decide

end Rain.Props.C06
