import RainModel.Model.Validate
import RainModel.Lemmas.Validate
/-!
C06 — untrusted metainfo is rejected or well-formed.  Property theorems only; helper lemmas live
in `Lemmas/Validate.lean`.

Hypotheses that appear below are guarantees of the Go types / the decoder, not restrictions on the
attacker: `PieceLength` is a `uint32`, `Length` an `int64`, and `zeebo/bencode` parses the length of
a byte string with `ParseInt(…, 10, 32)`, so `len(pieces) < 2^31`.
-/
namespace Rain.Props.C06
open Rain.Path Rain.Validate

/-- **newInfo_accept_wf.** Whatever the decoded dictionary contains, an accepting run of
`NewInfo` yields a well-formed description (`WF`, the predicate the check evaluates on the
implementation's output): positive piece length, at least one piece, every file length
non-negative, the *true* (non-wrapping) sum of the file lengths equals `Length ≤ MaxInt64`, and
`(numPieces − 1)·pieceLength < Length ≤ numPieces·pieceLength`; `0 ≤ Padding ≤ Length`. -/
theorem newInfo_accept_wf (p : Params) (ib : InfoIn) (o : InfoOut)
    (hpl : ib.pieceLength < two32) (hpieces : ib.piecesLen < 2147483648)
    (hlen : inInt64 ib.length = true) (h : newInfo p ib = .ok o) : WF o = true := by
  obtain ⟨h1, h2, h3, _, _, length, padding, fs, hl, hd, hfs, ho⟩ := newInfo_ok_elim p ib o h
  have hnp1 : 1 ≤ ib.piecesLen / 20 := by omega
  have hnp2 : ib.piecesLen / 20 < 134217728 := by omega
  have hmod : ib.piecesLen / 20 % two32 = ib.piecesLen / 20 := by
    unfold two32; omega
  rw [hmod] at hd ho
  have hplpos : 0 < ib.pieceLength := by omega
  -- the product as one integer atom with its bounds
  have hT1 : (ib.pieceLength : Int) ≤ (ib.pieceLength : Int) * ((ib.piecesLen / 20 : Nat) : Int) := by
    have : (ib.pieceLength : Int) * 1 ≤ (ib.pieceLength : Int) * ((ib.piecesLen / 20 : Nat) : Int) :=
      Int.mul_le_mul_of_nonneg_left (by omega) (by omega)
    omega
  have hT2 : (ib.pieceLength : Int) * ((ib.piecesLen / 20 : Nat) : Int) < 576460752303423488 := by
    have h1 : ib.pieceLength * (ib.piecesLen / 20) < 4294967296 * 134217728 := by
      unfold two32 at hpl
      exact Nat.mul_lt_mul'' hpl hnp2
    have : ((ib.pieceLength * (ib.piecesLen / 20) : Nat) : Int) < 576460752303423488 := by omega
    simpa [Int.natCast_mul] using this
  have hsub : (((ib.piecesLen / 20 : Nat) : Int) - 1) * (ib.pieceLength : Int)
      = (ib.pieceLength : Int) * ((ib.piecesLen / 20 : Nat) : Int) - (ib.pieceLength : Int) := by
    rw [Int.sub_mul, Int.one_mul, Int.mul_comm]
  have hcomm : ((ib.piecesLen / 20 : Nat) : Int) * (ib.pieceLength : Int)
      = (ib.pieceLength : Int) * ((ib.piecesLen / 20 : Nat) : Int) := Int.mul_comm _ _
  generalize hT : (ib.pieceLength : Int) * ((ib.piecesLen / 20 : Nat) : Int) = T at *
  have hwT : wrap64 T = T := wrap64_id T (by unfold two63; omega) (by unfold two63; omega)
  unfold deltaBad at hd
  simp only [hT, hwT, Bool.or_eq_false_iff, decide_eq_false_iff_not] at hd
  unfold lengthsOf at hl
  split at hl
  · -- single-file mode
    rename_i hemp
    cases hl
    simp only [hemp, if_true] at hfs
    cases hfs
    unfold inInt64 at hlen
    simp only [Bool.and_eq_true, decide_eq_true_eq] at hlen
    have hdl := hd.1
    have hdr := hd.2
    unfold wrap64 two63 two64 at hdl hdr
    unfold two63 maxInt64 at hlen
    subst ho
    apply WF_intro <;> simp only [List.map_cons, List.map_nil, sumInt, hsub, hcomm, hT]
    all_goals first
      | omega
      | (unfold two32; omega)
      | (unfold maxInt64; omega)
      | (simp; done)
      | (simp; omega)
  · rename_i hemp
    simp only [if_true] at hl
    obtain ⟨ha, hb, hc, hdd, he⟩ := sumLengths_spec _ 0 0 length padding hl (by omega) (by omega) (by unfold maxInt64; omega)
    simp only [hemp, Bool.false_eq_true, if_false] at hfs
    obtain ⟨hfs1, _, _⟩ := buildFiles_spec _ _ _ _ _ _ hfs
    simp only [List.reverse_nil, List.nil_append] at hfs1
    have hdl := hd.1
    have hdr := hd.2
    have hlen0 : 0 ≤ length := by omega
    have hw : wrap64 (T - length) = T - length := wrap64_id _ (by unfold two63; unfold maxInt64 at he; omega) (by unfold two63; omega)
    rw [hw] at hdl hdr
    subst ho
    apply WF_intro <;> simp only [hsub, hcomm, hT]
    all_goals first
      | omega
      | (unfold two32; omega)
      | (unfold maxInt64 at he; unfold maxInt64; omega)
      | skip
    · -- files ≠ []
      rw [hfs1]
      intro e
      have := congrArg List.isEmpty e
      simp at this
      simp [this] at hemp
    · intro f hf
      rw [hfs1] at hf
      obtain ⟨g, hg, rfl⟩ := List.mem_map.mp hf
      exact ha (g.1, g.2.2) (List.mem_map.mpr ⟨g, hg, rfl⟩)
    · rw [hfs1, sumInt_map_mkFile, hb]; omega

/-- Non-vacuity: a padded multi-file torrent is accepted. -/
example : (newInfo ⟨true, true, []⟩
      { pieceLength := 64, piecesLen := 40, name := [0x74], nameUtf8 := [], priv := [0x69, 0x31, 0x65], length := 0,
        files := [⟨50, [[0x61]], [], []⟩, ⟨14, [[0x62]], [], [0x70]⟩, ⟨36, [[0x63]], [], []⟩] }).toBool = true := by
  decide

/-- A negative file length is never accepted (corollary, stated on its own because it is the
defect the unrepaired code had). -/
theorem newInfo_rejects_negative (p : Params) (ib : InfoIn) (o : InfoOut)
    (hpl : ib.pieceLength < two32) (hpieces : ib.piecesLen < 2147483648)
    (hlen : inInt64 ib.length = true) (h : newInfo p ib = .ok o) : ∀ f ∈ o.files, 0 ≤ f.length := by
  have := newInfo_accept_wf p ib o hpl hpieces hlen h
  unfold WF at this
  simp only [Bool.and_eq_true, decide_eq_true_eq, List.all_eq_true] at this
  exact this.1.1.1.1.1.1.2

/-- **limits (resume data, peer-supplied info).** What `Session.parseInfo` lets through is
well-formed and has at most `MaxPieces` pieces. -/
theorem sessionParseInfo_limits (maxPieces : Nat) (version : Int) (hashHex : Bytes) (ib : InfoIn) (o : InfoOut)
    (hpl : ib.pieceLength < two32) (hpieces : ib.piecesLen < 2147483648) (hlen : inInt64 ib.length = true)
    (h : sessionParseInfo maxPieces version hashHex ib = some o) :
    o.numPieces ≤ maxPieces ∧ WF o = true := by
  unfold sessionParseInfo at h
  split at h
  · cases h
  rename_i u pd hv
  split at h
  · cases h
  rename_i o' hn
  unfold piecesGuard at h
  split at h
  · rename_i o'' hg
    split at hg
    · cases hg
    · cases hg; cases h
      rename_i hle
      exact ⟨by omega, newInfo_accept_wf _ ib _ hpl hpieces hlen hn⟩
  · cases h

/-- **limits (.torrent file, URL body).** The same for `Session.parseMetaInfo`. -/
theorem sessionParseMetaInfo_limits (maxPieces : Nat) (hashHex : Bytes) (ib : InfoIn) (o : InfoOut)
    (hpl : ib.pieceLength < two32) (hpieces : ib.piecesLen < 2147483648) (hlen : inInt64 ib.length = true)
    (h : sessionParseMetaInfo maxPieces hashHex ib = some o) :
    o.numPieces ≤ maxPieces ∧ WF o = true := by
  unfold sessionParseMetaInfo at h
  split at h
  · cases h
  rename_i o' hn
  unfold piecesGuard at h
  split at h
  · rename_i o'' hg
    split at hg
    · cases hg
    · cases hg; cases h
      rename_i hle
      exact ⟨by omega, newInfo_accept_wf _ ib _ hpl hpieces hlen hn⟩
  · cases h

/-- **limits (size).** The decoder never sees more than `MaxTorrentSize` bytes of a `.torrent`
file or URL body (`io.LimitReader`), and a declared `Content-Length` above the limit is refused
before anything is read. -/
theorem limitRead_le (maxTorrentSize : Nat) (body : Bytes) :
    (limitRead maxTorrentSize body).length ≤ maxTorrentSize := by
  unfold limitRead; simp [List.length_take]; omega

theorem contentLengthGuard_spec (maxTorrentSize : Nat) (cl : Int) :
    contentLengthGuard maxTorrentSize cl = false → cl ≤ (maxTorrentSize : Int) := by
  unfold contentLengthGuard; intro h; simpa using h

/-- Non-vacuity of the limits theorems: an accepted dictionary within, and one beyond, the limit. -/
example : (sessionParseInfo 2 3 [] { pieceLength := 64, piecesLen := 40, name := [0x74], nameUtf8 := [], priv := [], length := 100, files := [] }).isSome = true := by decide
example : (sessionParseInfo 1 3 [] { pieceLength := 64, piecesLen := 40, name := [0x74], nameUtf8 := [], priv := [], length := 100, files := [] }).isSome = false := by decide

/-- The historical defect (fixed in the rain checkout): the parser as it was accepted
`files = [50, −50, 100]` (only the sum was checked), a description that is not well-formed — the one
`piece.NewPieces` never terminates on.  The same witness is kept in `corpus/parse/`. -/
theorem newInfoPre_negative_counterexample :
    acceptedNotWF (newInfoPre ⟨true, true, []⟩
      { pieceLength := 64, piecesLen := 40, name := [0x74], nameUtf8 := [], priv := [], length := 0,
        files := [⟨50, [[0x61]], [], []⟩, ⟨-50, [[0x62]], [], []⟩, ⟨100, [[0x63]], [], []⟩] }) = true := by
  decide

/-- The same defect through a wrapping sum: `2^63−1 + 2^63−1 + 102 ≡ 100 (mod 2^64)`. -/
theorem newInfoPre_wrap_counterexample :
    acceptedNotWF (newInfoPre ⟨true, true, []⟩
      { pieceLength := 64, piecesLen := 40, name := [0x74], nameUtf8 := [], priv := [], length := 0,
        files := [⟨9223372036854775807, [[0x61]], [], []⟩, ⟨9223372036854775807, [[0x62]], [], []⟩,
                  ⟨102, [[0x63]], [], []⟩] }) = true := by
  decide

end Rain.Props.C06
