import RainModel.Model.UdpShared
import RainModel.Lemmas.UdpShared
/-!
C16 / C15 — several torrents share one UDP tracker transport (`udptracker.Transport`).
Property theorems over M-UDPSHARED (`Model/UdpShared.lean`), for ALL message sequences of the run
loop (requests of any number of calls on any destinations, cancellations at any moment, datagrams
with any transaction id and any of the modelled shapes, back-off ticks, close):

* `udp_no_orphan` — in every reachable state a call that still blocks (and that its caller has not
  cancelled) has a retransmitting announce transaction in the table, or waits on a connecting
  connection whose connect transaction is in the table and retransmits: no announce is left without
  somebody working on its answer.
* `udp_connect_abort_answers_all`, `udp_connect_failure_answers_all` — when the connect of a
  destination is aborted (the context of the call that opened it is cancelled) or answered by
  something that is not a connection id, EVERY call waiting on it returns with the error in that
  very step, the destination has no connection any more (the next request connects afresh) and
  the connect transaction has left the table.
* `udp_reconnect_after_abort` — the next request for that destination sends a new connect request.
* `udp_reply_removes_transaction`, `udp_answered_never_retransmitted` — a datagram that is
  delivered to a transaction removes it from the table, and from then on, whatever happens, no
  datagram of that transaction is ever written again (no retransmission stays scheduled).
* `udp_reply_only_own_transaction` — a call only returns reply bytes in the step that handles a
  datagram carrying the id of that call's own announce transaction.
* `silent_abort_counterexample` — the seeded change "`resolveDestinationAndConnect` returns when the
  connect was cancelled" breaks `udp_no_orphan` (kept as a proved counterexample of the changed model).
-/
namespace Rain.Props.C16Udp
open Rain.UdpShared

/-- **udp_no_orphan.** For every message sequence from the initial state: a call that has not
returned is either retransmitting its own announce, or queued on a connection whose connect
request is retransmitting. -/
theorem udp_no_orphan (is : List In) (r : Nat) (q : Req)
    (hq : (run State.init is).1.reqs r = some q) (hres : q.result = none) :
    q.cancelled = false ∧
    ((∃ tx, (run State.init is).1.txs tx = some ⟨.announce r, true⟩) ∨
     (∃ tx o ws, (run State.init is).1.conns q.dest = some (.connecting tx o ws) ∧ r ∈ ws ∧
        (run State.init is).1.txs tx = some ⟨.connect q.dest, true⟩)) := by
  have h := run_inv State.init inv_init is
  refine ⟨h.canc r q hq hres, ?_⟩
  rcases h.no_orphan r q hq hres with hx | ⟨tx, o, ws, hc, hm⟩
  · exact Or.inl hx
  · exact Or.inr ⟨tx, o, ws, hc, hm, h.conn_tx _ _ _ _ hc⟩

/-- `failAll` really tells every blocked request of the list. -/
theorem failAll_emits (res : Res) (ws : List Nat) (reqs : Nat → Option Req) (w : Nat) (q : Req)
    (hw : w ∈ ws) (hq : reqs w = some q) (hres : q.result = none) :
    Out.deliver w res ∈ (failAll res ws reqs).2 := by
  induction ws generalizing reqs with
  | nil => cases hw
  | cons x ws ih =>
    unfold failAll
    by_cases e : x = w
    · subst e
      simp [hq, hres]
    · have hw' : w ∈ ws := by
        rcases List.mem_cons.mp hw with e2 | h
        · exact absurd e2.symm e
        · exact h
      cases hx : reqs x with
      | none => exact ih reqs hw' hq
      | some qx =>
        by_cases hqx : qx.result = none
        · simp only [hqx, if_true]
          refine List.mem_cons_of_mem _ (ih _ hw' ?_)
          rw [upd_other _ _ _ _ (Ne.symm e)]; exact hq
        · simp only [hqx, if_false]
          exact ih reqs hw' hq

/-- **udp_connect_abort_answers_all.** Destination `d` is connecting under the context of call `o`
with the calls `ws` waiting.  When `o`'s caller cancels: the connection and its transaction are
gone, every call of `ws` has returned, and each one that was still blocking is told
`context.Canceled` in this step. -/
theorem udp_connect_abort_answers_all (s : State) (d tx o : Nat) (ws : List Nat) (q : Req)
    (hc : s.conns d = some (.connecting tx o ws)) (ho : s.reqs o = some q) (hd : q.dest = d)
    (hres : q.result = none) :
    (step s (.cancel o)).1.conns d = none ∧ (step s (.cancel o)).1.txs tx = none ∧
    (∀ w ∈ ws, ∀ q', (step s (.cancel o)).1.reqs w = some q' → q'.result ≠ none) ∧
    (∀ w ∈ ws, ∀ qw, w ≠ o → s.reqs w = some qw → qw.result = none →
        Out.deliver w .canceled ∈ (step s (.cancel o)).2) := by
  subst hd
  simp only [step, ho, hres, hc]
  simp only [ne_eq, not_true_eq_false, if_false, if_true]
  refine ⟨by simp, by simp, ?_, ?_⟩
  · intro w hw q' hq'
    rw [failAll_fst] at hq'
    split at hq'
    · rename_i q0 h0
      split at hq'
      · cases hq'; simp
      · rename_i hnot
        cases hq'
        intro hn
        exact hnot ⟨hw, hn⟩
    · cases hq'
  · intro w hw qw hne hqw hr
    refine List.mem_cons_of_mem _ (failAll_emits _ _ _ w qw hw ?_ hr)
    rw [upd_other _ _ _ _ hne]; exact hqw

/-- **udp_connect_failure_answers_all.** The same when the tracker answers the connect
transaction with anything but a connection id (wrong action, bare header, error action). -/
theorem udp_connect_failure_answers_all (s : State) (h : Inv s) (d tx o : Nat) (ws : List Nat) (c : Content)
    (hc : s.conns d = some (.connecting tx o ws)) (hbad : c ≠ .good) :
    (step s (.dgram (some tx) c)).1.conns d = none ∧ (step s (.dgram (some tx) c)).1.txs tx = none ∧
    (∀ w ∈ ws, ∀ q', (step s (.dgram (some tx) c)).1.reqs w = some q' → q'.result ≠ none) ∧
    (∀ w ∈ ws, ∀ qw, s.reqs w = some qw → qw.result = none →
        Out.deliver w (.connectFailed c) ∈ (step s (.dgram (some tx) c)).2) := by
  have ht := h.conn_tx _ _ _ _ hc
  simp only [step, ht, hc, hbad, if_false]
  refine ⟨by simp, by simp, ?_, ?_⟩
  · intro w hw q' hq'
    rw [failAll_fst] at hq'
    split at hq'
    · rename_i q0 h0
      split at hq'
      · cases hq'; simp
      · rename_i hnot
        cases hq'
        intro hn
        exact hnot ⟨hw, hn⟩
    · cases hq'
  · intro w hw qw hqw hr
    exact failAll_emits _ _ _ w qw hw hqw hr

/-- **udp_reconnect_after_abort.** A destination without connection (never connected, connect
aborted or failed, see the two theorems above) is connected afresh by the next request: a new
connect transaction is begun and its datagram written. -/
theorem udp_reconnect_after_abort (s : State) (d r : Nat) (hc : s.conns d = none) (hr : s.reqs r = none)
    (hopen : s.closed = false) :
    (step s (.request r d)).2 = [.send s.nextTx (.connect d)] ∧
    (step s (.request r d)).1.conns d = some (.connecting s.nextTx r [r]) := by
  simp [step, hr, hopen, hc]

/-- A transaction that has left the table and whose id is below the counter. -/
def Gone (s : State) (tx : Nat) : Prop := s.txs tx = none ∧ tx < s.nextTx

theorem gone_step (s : State) (tx : Nat) (g : Gone s tx) (i : In) :
    Gone (step s i).1 tx ∧ ∀ o ∈ (step s i).2, ∀ k, o ≠ Out.send tx k := by
  obtain ⟨g1, g2⟩ := g
  cases i with
  | request r d =>
    cases hr : s.reqs r with
    | some q => simp only [step, hr]; exact ⟨⟨g1, g2⟩, by simp⟩
    | none =>
      cases hc : s.closed with
      | true => simp only [step, hr, hc, if_true]; exact ⟨⟨g1, g2⟩, by simp⟩
      | false =>
        simp only [step, hr, hc, Bool.false_eq_true, if_false]
        cases hd : s.conns d with
        | none =>
          refine ⟨⟨?_, ?_⟩, ?_⟩ <;> (try dsimp only [])
          · rw [upd_other _ _ _ _ (by omega)]; exact g1
          · omega
          · intro o ho k; simp at ho; subst ho; intro e; cases e; omega
        | some c =>
          cases c with
          | connected =>
            refine ⟨⟨?_, ?_⟩, ?_⟩ <;> (try dsimp only [])
            · rw [upd_other _ _ _ _ (by omega)]; exact g1
            · omega
            · intro o ho k; simp at ho; subst ho; intro e; cases e; omega
          | connecting tx' o ws => exact ⟨⟨g1, g2⟩, by simp⟩
  | cancel r =>
    cases hr : s.reqs r with
    | none => simp only [step, hr]; exact ⟨⟨g1, g2⟩, by simp⟩
    | some q =>
      by_cases hq : q.result = none
      · have gk : killAnnounce r s.txs tx = none := (killAnnounce_none _ _ _).mpr g1
        cases hd : s.conns q.dest with
        | none =>
          simp only [step, hr, hq, hd]
          simp only [ne_eq, not_true_eq_false, if_false]
          exact ⟨⟨gk, g2⟩, by simp⟩
        | some c =>
          cases c with
          | connected =>
            simp only [step, hr, hq, hd]
            simp only [ne_eq, not_true_eq_false, if_false]
            exact ⟨⟨gk, g2⟩, by simp⟩
          | connecting tx' o ws =>
            simp only [step, hr, hq, hd]
            simp only [ne_eq, not_true_eq_false, if_false]
            by_cases ho : o = r
            · simp only [ho, if_true]
              refine ⟨⟨?_, g2⟩, ?_⟩
              · dsimp only []
                by_cases e : tx = tx'
                · subst e; simp
                · rw [upd_other _ _ _ _ e]; exact gk
              · intro o' ho' k
                rcases List.mem_cons.mp ho' with e | ho'
                · subst e; simp
                · obtain ⟨w, _, e⟩ := failAll_outs _ _ _ o' ho'
                  subst e; simp
            · simp only [ho, if_false]
              exact ⟨⟨gk, g2⟩, by simp⟩
      · simp only [step, hr]
        simp only [ne_eq, hq, not_false_eq_true, if_true]
        exact ⟨⟨g1, g2⟩, by simp⟩
  | dgram tx? c =>
    cases tx? with
    | none => simp only [step]; exact ⟨⟨g1, g2⟩, by simp⟩
    | some tx' =>
      have gu : upd s.txs tx' none tx = none := by
        by_cases e : tx = tx'
        · subst e; simp
        · rw [upd_other _ _ _ _ e]; exact g1
      cases ht : s.txs tx' with
      | none => simp only [step, ht]; exact ⟨⟨g1, g2⟩, by simp⟩
      | some t =>
        obtain ⟨k, a⟩ := t
        cases k with
        | announce r =>
          cases hr : s.reqs r with
          | none => simp only [step, ht, hr]; exact ⟨⟨gu, g2⟩, by simp⟩
          | some q =>
            by_cases hq : q.result = none
            · simp only [step, ht, hr, hq, if_true]; exact ⟨⟨gu, g2⟩, by simp⟩
            · simp only [step, ht, hr, hq, if_false]; exact ⟨⟨gu, g2⟩, by simp⟩
        | connect d =>
          cases hd : s.conns d with
          | none => simp only [step, ht, hd]; exact ⟨⟨gu, g2⟩, by simp⟩
          | some cn =>
            cases cn with
            | connected => simp only [step, ht, hd]; exact ⟨⟨gu, g2⟩, by simp⟩
            | connecting tx'' o ws =>
              by_cases hc : c = .good
              · subst hc
                simp only [step, ht, hd, if_true]
                refine ⟨⟨?_, ?_⟩, ?_⟩ <;> (try dsimp only [])
                · rw [beginAll_below _ _ _ _ _ g2]; exact gu
                · rw [beginAll_next]; omega
                · intro o' ho' k
                  obtain ⟨tx3, k3, e, hge⟩ := beginAll_outs _ _ _ _ o' ho'
                  subst e; intro e2; cases e2; omega
              · simp only [step, ht, hd, hc, if_false]
                refine ⟨⟨gu, g2⟩, ?_⟩
                intro o' ho' k
                obtain ⟨w, _, e⟩ := failAll_outs _ _ _ o' ho'
                subst e; simp
  | tick tx' =>
    simp only [step]
    split
    · rename_i k hk
      refine ⟨⟨g1, g2⟩, ?_⟩
      intro o ho k'
      simp at ho; subst ho
      intro e; cases e
      rw [g1] at hk; cases hk
    · exact ⟨⟨g1, g2⟩, by simp⟩
  | close =>
    cases hc : s.closed with
    | true => simp only [step, hc, if_true]; exact ⟨⟨g1, g2⟩, by simp⟩
    | false =>
      simp only [step, hc, Bool.false_eq_true, if_false]
      refine ⟨⟨rfl, g2⟩, ?_⟩
      intro o ho k
      obtain ⟨w, _, e⟩ := failAll_outs _ _ _ o ho
      subst e; simp

theorem gone_run (s : State) (tx : Nat) (g : Gone s tx) (is : List In) :
    ∀ o ∈ (run s is).2, ∀ k, o ≠ Out.send tx k := by
  induction is generalizing s with
  | nil => simp [run]
  | cons i is ih =>
    simp only [run]
    intro o ho k
    rcases List.mem_append.mp ho with h | h
    · exact (gone_step s tx g i).2 o h k
    · exact ih _ (gone_step s tx g i).1 o h k

/-- **udp_reply_removes_transaction.** A datagram (≥ 8 bytes, any content) whose id is in the table
removes that transaction — whether it is a connect or an announce, whatever the answer says. -/
theorem udp_reply_removes_transaction (s : State) (h : Inv s) (tx : Nat) (t : Trx) (c : Content)
    (ht : s.txs tx = some t) : Gone (step s (.dgram (some tx) c)).1 tx := by
  have hlt := h.tx_lt _ _ ht
  obtain ⟨k, a⟩ := t
  cases k with
  | announce r =>
    cases hr : s.reqs r with
    | none => simp only [step, ht, hr]; exact ⟨by simp, hlt⟩
    | some q =>
      by_cases hq : q.result = none
      · simp only [step, ht, hr, hq, if_true]; exact ⟨by simp, hlt⟩
      · simp only [step, ht, hr, hq, if_false]; exact ⟨by simp, hlt⟩
  | connect d =>
    obtain ⟨o, ws, hd⟩ := h.tx_conn _ _ _ ht
    by_cases hc : c = .good
    · subst hc
      simp only [step, ht, hd, if_true]
      refine ⟨?_, ?_⟩ <;> (try dsimp only [])
      · rw [beginAll_below _ _ _ _ _ hlt]; simp
      · rw [beginAll_next]; omega
    · simp only [step, ht, hd, hc, if_false]; exact ⟨by simp, hlt⟩

/-- **udp_answered_never_retransmitted.** From any reachable state: once a datagram has been
delivered to transaction `tx`, no later step — ticks of any back-off timer included — writes a
datagram of `tx` again. -/
theorem udp_answered_never_retransmitted (pre : List In) (tx : Nat) (t : Trx) (c : Content)
    (ht : (run State.init pre).1.txs tx = some t) (post : List In) :
    ∀ o ∈ (run (step (run State.init pre).1 (.dgram (some tx) c)).1 post).2, ∀ k, o ≠ Out.send tx k :=
  gone_run _ tx (udp_reply_removes_transaction _ (run_inv _ inv_init pre) tx t c ht) post

/-- **udp_reply_only_own_transaction.** A call returns reply bytes only in the step that handles a
datagram with the id of its own announce transaction (and gets exactly that datagram). -/
theorem udp_reply_only_own_transaction (s : State) (i : In) (r tx : Nat) (c : Content)
    (ho : Out.deliver r (.reply tx c) ∈ (step s i).2) :
    i = .dgram (some tx) c ∧ ∃ a, s.txs tx = some ⟨.announce r, a⟩ := by
  cases i with
  | request r' d =>
    exfalso
    cases hr : s.reqs r' with
    | some q => simp [step, hr] at ho
    | none =>
      cases hc : s.closed with
      | true => simp [step, hr, hc] at ho
      | false =>
        cases hd : s.conns d with
        | none => simp [step, hr, hc, hd] at ho
        | some cn => cases cn <;> simp [step, hr, hc, hd] at ho
  | cancel r' =>
    exfalso
    cases hr : s.reqs r' with
    | none => simp [step, hr] at ho
    | some q =>
      by_cases hq : q.result = none
      · cases hd : s.conns q.dest with
        | none => simp [step, hr, hq, hd] at ho
        | some cn =>
          cases cn with
          | connected => simp [step, hr, hq, hd] at ho
          | connecting tx' o ws =>
            by_cases e : o = r'
            · simp only [step, hr, hq, hd, e] at ho
              simp only [ne_eq, not_true_eq_false, if_false, if_true] at ho
              rcases List.mem_cons.mp ho with h | h
              · cases h
              · obtain ⟨w, _, e2⟩ := failAll_outs _ _ _ _ h
                cases e2
            · simp [step, hr, hq, hd, e] at ho
      · simp [step, hr, hq] at ho
  | dgram tx? c' =>
    cases tx? with
    | none => simp [step] at ho
    | some tx' =>
      cases ht : s.txs tx' with
      | none => simp [step, ht] at ho
      | some t =>
        obtain ⟨k, a⟩ := t
        cases k with
        | announce r' =>
          cases hr : s.reqs r' with
          | none => simp [step, ht, hr] at ho
          | some q =>
            by_cases hq : q.result = none
            · simp [step, ht, hr, hq] at ho
              obtain ⟨e1, e2, e3⟩ := ho
              subst e1 e2 e3
              exact ⟨rfl, a, ht⟩
            · simp [step, ht, hr, hq] at ho
        | connect d =>
          exfalso
          cases hd : s.conns d with
          | none => simp [step, ht, hd] at ho
          | some cn =>
            cases cn with
            | connected => simp [step, ht, hd] at ho
            | connecting tx'' o ws =>
              by_cases hc : c' = .good
              · subst hc
                simp only [step, ht, hd, if_true] at ho
                obtain ⟨tx3, k3, e, _⟩ := beginAll_outs _ _ _ _ _ ho
                cases e
              · simp only [step, ht, hd, hc, if_false] at ho
                obtain ⟨w, _, e⟩ := failAll_outs _ _ _ _ ho
                cases e
  | tick tx' =>
    exfalso
    simp only [step] at ho
    split at ho <;> simp at ho
  | close =>
    exfalso
    cases hc : s.closed with
    | true => simp [step, hc] at ho
    | false =>
      simp only [step, hc, Bool.false_eq_true, if_false] at ho
      obtain ⟨w, _, e⟩ := failAll_outs _ _ _ _ ho
      cases e

/-! ### Non-vacuity: concrete histories -/

/-- Three torrents queue on one connect; the torrent whose announce opened it is stopped: the two
others are told at once, nothing stays scheduled, and the next announce connects afresh. -/
example :
    (run State.init [.request 0 0, .request 1 0, .request 2 0, .cancel 0, .request 3 0]).2 =
      [.send 0 (.connect 0), .deliver 0 .canceled, .deliver 1 .canceled, .deliver 2 .canceled,
       .send 1 (.connect 0)] := by decide

/-- The hypotheses of `udp_connect_abort_answers_all` are met by a reachable state. -/
example :
    let s := (run State.init [.request 0 0, .request 1 0, .request 2 0]).1
    Inv s ∧ s.conns 0 = some (.connecting 0 0 [0, 1, 2]) ∧ s.reqs 0 = some ⟨0, false, none⟩ :=
  ⟨run_inv _ inv_init _, by decide, by decide⟩

/-- A failed connect (error action) tells every waiting call. -/
example :
    (run State.init [.request 0 0, .request 1 0, .dgram (some 0) .errAction]).2 =
      [.send 0 (.connect 0), .deliver 0 (.connectFailed .errAction), .deliver 1 (.connectFailed .errAction)] := by
  decide

/-- Unanswered transactions are retransmitted by their ticker; after the answer the tick is silent
(`udp_answered_never_retransmitted` is not vacuous: transaction 1 is in the table when answered). -/
example :
    (run State.init [.request 0 0, .tick 0, .dgram (some 0) .good, .tick 0, .tick 1,
                     .dgram (some 1) .good, .tick 1, .dgram (some 1) .good]).2 =
      [.send 0 (.connect 0), .send 0 (.connect 0), .send 1 (.announce 0), .send 1 (.announce 0),
       .deliver 0 (.reply 1 .good)] := by decide

/-- A datagram with a foreign id or fewer than 8 bytes answers nobody. -/
example :
    (run State.init [.request 0 0, .dgram (some 0) .good, .dgram (some 7) .good, .dgram none .good]).2 =
      [.send 0 (.connect 0), .send 1 (.announce 0)] := by decide

/-! ### The seeded change as a counter-model -/

def runSilent (s : State) : List In → State
  | [] => s
  | i :: is => runSilent (stepSilentAbort s i).1 is

/-- **silent_abort_counterexample.** If the cancellation of the opener is not reported to the run
loop (`stepSilentAbort`), call 1 blocks for ever: it has no result, no transaction of its own, and
the connection it waits on has a connect transaction that no longer retransmits — `udp_no_orphan`
fails; and destination 0 stays "connecting", so call 2, started later, only joins the dead queue. -/
theorem silent_abort_counterexample :
    let s := runSilent State.init [.request 0 0, .request 1 0, .cancel 0, .request 2 0]
    s.reqs 1 = some ⟨0, false, none⟩ ∧ s.reqs 2 = some ⟨0, false, none⟩ ∧
    s.conns 0 = some (.connecting 0 0 [0, 1, 2]) ∧ s.txs 0 = some ⟨.connect 0, false⟩ ∧
    s.txs 1 = none ∧ s.nextTx = 1 := by decide

end Rain.Props.C16Udp
