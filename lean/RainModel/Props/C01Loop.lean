import RainModel.Lemmas.LoopWeak
import RainModel.Lemmas.LoopPeers
import RainModel.Lemmas.LoopHaves
import RainModel.Lemmas.LoopHavesStep
/-!
C01 — download integrity, loop level (M-LOOP).  For every state, every event with arbitrary parameters,
and every (admissible) choice of the implementation's picker:

* a set bit of the bitfield means the piece's non-padding bytes on disk are the true content
  (`bits_sound`), the disk never gets worse through the client's own actions (`disk_never_regresses`);
* with files deleted or restored behind the client's back this still holds whenever the torrent is
  downloading or seeding (`bits_sound_with_mutations`; needs the fix of finding C05-F1);
* the disk changes only through a write job whose hash matched, and only for that job's piece
  (`writes_verified`); a job whose hash failed writes nothing, its source is disconnected and banned
  (`bad_job_writes_nothing_and_bans`), and a banned address is never accepted (`banned_not_accepted`).

The tie to the code: suites `loop-dl`, `lifecycle`, `loop-magnet`, `private` (Driver/Suites/Loop.lean replays
`step`, `reconcile`, `reconcileIdl` — `dstep` below — against the real event loop).  Property theorems only;
helper lemmas live in `Lemmas/Loop*.lean`.
-/
namespace Rain.Props.C01Loop
open Rain.Loop

/-- **bits_sound.** One event of the loop (any event except an external change of the files, any
parameters, any state satisfying the invariant) preserves: every bit set in the bitfield, and every bit
of the resume bitfield, names a piece whose bytes on disk are the true content.
Hypotheses inside `Sound`: `CfgWF` (a piece without blocks has no data section) and `BadWF` (the disk
model `bad` only names real data sections) — both hold for the driver's `initSt`. -/
theorem bits_sound (s : St) (p : Parked) (kn : Nat → Bool) (op : Op) (hop : op.isMutate = false)
    (h : Sound s) (hw : WrOK s) :
    BitsSound (step s p kn op).1.st ∧ PersistedSound (step s p kn op).1.st ∧ Sound (step s p kn op).1.st := by
  have h' := step_sound s p kn op hop h hw
  exact ⟨(bitsSound_iff _).2 h'.bits, h'.pers, h'⟩

/-- **bits_sound_run.** From a freshly added torrent, after any history of events without external file
changes, with any choices of the implementation adopted by `reconcile`/`reconcileIdl`. -/
theorem bits_sound_run (s0 : St) (h0 : InitLike s0) (hw : NoWritten s0) (evs : List Ev)
    (hop : ∀ e ∈ evs, e.op.isMutate = false) :
    BitsSound (drun (s0, none) evs).1 ∧ PersistedSound (drun (s0, none) evs).1 := by
  have h := drun_sound evs (s0, none) hop h0.sound (h0.wrOK hw)
  exact ⟨(bitsSound_iff _).2 h.bits, h.pers⟩

/-- **disk_never_regresses.** No event other than an external change of the files makes a piece that was
fine on disk bad: the client never overwrites verified data with anything but verified data. -/
theorem disk_never_regresses (s : St) (p : Parked) (kn : Nat → Bool) (op : Op) (hop : op.isMutate = false)
    (h : Sound0 s) (i : Nat) (hi : s.diskOKi i = true) : (step s p kn op).1.st.diskOKi i = true := by
  have h1 := handle_adv { s with sto := [], mayStart := [], closedDl := [], mayStartI := false } p kn op hop
  have hi1 : (handle { s with sto := [], mayStart := [], closedDl := [], mayStartI := false } p kn op).1.1.diskOKi i = true :=
    diskOKi_mono h1.cfg h1.bad i hi
  rw [step_st]
  split
  · exact diskOKi_of_bad_sub (by simp) (fun x hx => runWorkers_bad_sub 12 _ x (deliverParked_bad_sub _ _ x hx)) i hi1
  · exact diskOKi_of_bad_sub (by simp) (runWorkers_bad_sub 12 _) i hi1

/-- **bits_sound_with_mutations.** Files may be deleted or restored (not corrupted) behind the stopped
client's back at any point of the history: whenever the torrent is then downloading or seeding, every
set bit is again backed by verified bytes — missing files are found by the allocator and re-checked or
re-downloaded, never trusted.  `drunAdmissible`: the picker's choices were accepted by `reconcile`. -/
theorem bits_sound_with_mutations (s0 : St) (h0 : InitLike s0) (hw : NoWritten s0) (evs : List Ev)
    (hop : ∀ e ∈ evs, e.op.isCorrupt = false) (ha : drunAdmissible (s0, none) evs)
    (hs : (drun (s0, none) evs).1.status = .downloading ∨ (drun (s0, none) evs).1.status = .seeding) :
    BitsSound (drun (s0, none) evs).1 :=
  bits_sound_of_running (drun_wsound evs (s0, none) hop h0.wsound (h0.wrOK hw)) (drun_life evs (s0, none) h0.life ha) hs

/-- **bits_weakly_sound.** In every status (also stopped, allocating, verifying) after such a history: a
set bit whose piece is not fine on disk is bad only inside files that are currently missing. -/
theorem bits_weakly_sound (s0 : St) (h0 : InitLike s0) (hw : NoWritten s0) (evs : List Ev)
    (hop : ∀ e ∈ evs, e.op.isCorrupt = false) : WS (drun (s0, none) evs).1 :=
  (drun_wsound evs (s0, none) hop h0.wsound (h0.wrOK hw)).ws

/-- **writes_verified.** The storage image changes through the piece writer only for a job whose hash
matched, of the current generation of pieces, and then exactly that piece becomes (and is) good;
everything else on disk is untouched. -/
theorem writes_verified (m : M) (w : WriteJob) :
    (writerRun m w).1.bad = m.1.bad ∨
    (w.good = true ∧ w.gen = m.1.gen ∧ m.1.loaded = true ∧ m.1.failWrite = false ∧
      (writerRun m w).1.bad = m.1.bad.filter (fun b => b.1 ≠ w.piece) ∧
      (writerRun m w).1.diskOKi w.piece = true) :=
  writerRun_disk m w

/-- **bad_job_writes_nothing_and_bans.** A job whose hash failed issues no storage call, changes neither
disk nor bitfield; afterwards its source peer is not connected and its address is banned. -/
theorem bad_job_writes_nothing_and_bans (m : M) (w : WriteJob) (hg : w.good = false) :
    (writerRun m w).1.sto = m.1.sto ∧ (writerRun m w).1.bad = m.1.bad ∧ (writerRun m w).1.bf = m.1.bf ∧
    (∀ q ∈ (writerRun m w).1.peers, q.k ≠ w.src) ∧
    (∀ p, m.1.findPeer w.src = some p → p.ip ∈ (writerRun m w).1.banned) :=
  writerRun_bad_job m w hg

/-- **banned_not_accepted.** `acceptPeer` refuses a banned address whatever else holds. -/
theorem banned_not_accepted (m : M) (k : Nat) (ip : String) (fast ext badHash dupId : Bool)
    (hb : ip ∈ m.1.banned) : acceptPeer m k ip fast ext badHash dupId = (m, "refused-closed") :=
  Rain.Loop.banned_not_accepted m k ip fast ext badHash dupId hb

/-- **reported_only_verified.** The two places where the loop announces pieces — the `have`s after a
completed write and the `have`s after a verification — only name pieces whose verified bytes are on disk
at the end of the handler; and the first message to a new peer is the client's own bitfield (`haveall` only
if every bit is set), which by `bits_sound` names only such pieces.  `haveMsg i` is the text `have:i` the
model emits; `QueueOK`: only messages that need the metadata are ever queued (preserved by the handlers,
`processQueued_no_panic`).  (Not proved at the level of a whole `step`: that needs the same string
bookkeeping for every other message the loop sends; none of them starts with `have:`.) -/
theorem reported_only_verified :
    (∀ (m : M) (w : WriteJob), Sound0 m.1 → ∀ o ∈ (writerRun m w).2,
        o ∈ m.2 ∨ ∀ i, o.msg = haveMsg i → (writerRun m w).1.diskOKi i = true) ∧
    (∀ m : M, QueueOK m.1 → ∀ o ∈ (handleVerificationDone m).2,
        o ∈ m.2 ∨ ∀ i, o.msg = haveMsg i → (handleVerificationDone m).1.diskOKi i = true) ∧
    (∀ (s : St) (p : Peer) (b : List Bool), s.bf = some b →
        firstMessages s p = (if p.fast && allTrue b && !b.isEmpty then ["haveall"]
          else if p.fast && !(b.any id) then ["havenone"] else ["bitfield:" ++ bitsHex b]) ++
          (if p.ext then ["exths"] else [])) :=
  ⟨writerRun_haves, handleVerificationDone_haves, firstMessages_bitfield⟩

/-- **reported_only_verified_step.** Whole-step form: in any state with a well-formed configuration and disk
model (`Sound0` = `CfgWF ∧ BadWF`, an invariant of every op), for **every** op with any parameters (an
external change of the files included), with or without a parked piece message: every `have:i` among the
messages the loop sends during the step names a piece whose non-padding bytes on disk are the true content
at the end of the step.  Proof: no handler sends a `have` (`handle_noHave`: `unchoke`, `reject:…`, `piece:…`,
`extmeta:…`, `bitfield:…`, `haveall`, `havenone`, `exths`, `interested`, `notinterested` are not `have:i`
for any `i`), the two workers that do (`writerRun`, `handleVerificationDone`) name verified pieces, and
the disk never gets worse inside a step.  The statement is about the disk, not about the bit: the bit of
a piece announced in a step can be gone at the end of the same step (example below: the completion stops
the torrent and a pending verify drops the bitfield). -/
theorem reported_only_verified_step (s : St) (p : Parked) (kn : Nat → Bool) (op : Op) (h : Sound0 s) (hw : WrOK s) :
    ∀ o ∈ (step s p kn op).1.outs, ∀ i, o.msg = haveMsg i → (step s p kn op).1.st.diskOKi i = true :=
  step_havesOK s p kn op h hw

/-- … and while the bitfield is sound (every non-mutate step from a `Sound` state, `bits_sound`) the
announced piece and the bitfield agree with the disk together: the piece is verified on disk, and so is
every piece whose bit is set. -/
theorem reported_only_verified_step_sound (s : St) (p : Parked) (kn : Nat → Bool) (op : Op)
    (hop : op.isMutate = false) (h : Sound s) (hw : WrOK s) :
    (∀ o ∈ (step s p kn op).1.outs, ∀ i, o.msg = haveMsg i → (step s p kn op).1.st.diskOKi i = true) ∧
    BitsSound (step s p kn op).1.st :=
  ⟨step_havesOK s p kn op h.zero hw, (bits_sound s p kn op hop h hw).1⟩

/-- **reported_only_verified_run.** Along every history from a freshly added torrent — any ops (deletions,
corruptions and restorations of files included), any choices of the implementation adopted by
`reconcile`/`reconcileIdl`, admissible or not — every `have:i` sent in the next step names a piece that is
verified on disk when the step ends, and still is after the implementation's choices are adopted. -/
theorem reported_only_verified_run (s0 : St) (h0 : InitLike s0) (hw : NoWritten s0) (evs : List Ev) (e : Ev) :
    ∀ o ∈ (step (drun (s0, none) evs).1 (drun (s0, none) evs).2 e.known e.op).1.outs, ∀ i, o.msg = haveMsg i →
      (step (drun (s0, none) evs).1 (drun (s0, none) evs).2 e.known e.op).1.st.diskOKi i = true ∧
      (dstep (drun (s0, none) evs) e).1.diskOKi i = true := by
  intro o ho i hi
  have h := step_havesOK _ _ e.known e.op (drun_sound0 evs (s0, none) h0.sound.zero) (drun_wrOK evs (s0, none) (h0.wrOK hw))
    o ho i hi
  refine ⟨h, ?_⟩
  unfold dstep
  exact diskOKi_mono ((reconcile_adv _ _).trans (reconcileIdl_adv _ _)).cfg ((reconcile_adv _ _).trans (reconcileIdl_adv _ _)).bad i h

/-- **bad_padding_piece_never_done.** A piece that lies entirely inside BEP 47 padding files and whose
recorded SHA-1 is not the hash of zeroes (`padOK i = false`: `padOnly i` and `padHashOK[i] = false`) can
never be verified.  From a freshly added torrent, after **any** history — every op, files deleted,
restored or corrupted behind the client's back, any adopted choices, admissible or not —: its bit is
not set in the bitfield nor in the resume record, the torrent is not complete and does not report
`Seeding`. -/
theorem bad_padding_piece_never_done (s0 : St) (h0 : InitLike s0) (hw : NoWritten s0) (evs : List Ev) (i : Nat)
    (hi : i < s0.cfg.n) (hbad : s0.cfg.padOK i = false) :
    bitOf (drun (s0, none) evs).1.bf i = false ∧ bitOf (drun (s0, none) evs).1.persisted i = false ∧
    (drun (s0, none) evs).1.completed = false ∧ (drun (s0, none) evs).1.status ≠ .seeding := by
  have h := drun_padInv evs (s0, none) h0.padInv (h0.wrOK hw)
  have hu : Unver (drun (s0, none) evs).1.cfg i := by rw [drun_cfg]; exact ⟨hi, hbad⟩
  have hc := h.nc ⟨i, hu⟩
  refine ⟨h.nobit i hu, h.nobitP i hu, hc, ?_⟩
  unfold St.status
  rw [hc]
  repeat' split
  all_goals simp_all

/-- The step form, from any state that satisfies the invariant (`PadInv`: `CfgWF`, `BadWF`, one bit per
piece, no bit for a piece that can never be verified, not complete). -/
theorem bad_padding_piece_never_done_step (s : St) (p : Parked) (kn : Nat → Bool) (op : Op) (h : PadInv s)
    (hw : WrOK s) : PadInv (step s p kn op).1.st := step_padInv s p kn op h hw

/-- Every set bit, in every state of every history (mutations included), names a piece whose recorded
hash is the hash of its true content. -/
theorem bits_only_for_hashable_pieces (s0 : St) (h0 : InitLike s0) (hw : NoWritten s0) (evs : List Ev) (i : Nat)
    (hi : i < s0.cfg.n) (hb : bitOf (drun (s0, none) evs).1.bf i = true) : s0.cfg.padOK i = true := by
  cases hp : s0.cfg.padOK i with
  | true => rfl
  | false =>
    have := (bad_padding_piece_never_done s0 h0 hw evs i hi hp).1
    rw [hb] at this; cases this

/-! Non-vacuity: a one-piece torrent, an honest peer, the piece is written and the bit is set. -/
section Example
private def c1 : Cfg :=
  { pl := 16384, plens := [16384], blocks := [[(0, 16384)]], flens := [16384], fpads := [false], fnames := ["t"] }
private def s1 : St := { cfg := c1, fileExists := [false], known := [false], bad := c1.dataSects }
private def kn (l : List Nat) : Nat → Bool := fun k => l.contains k
private def evs1 : List Ev := [
  ⟨.start, kn [], [], []⟩,
  ⟨.peer 1 "10.0.0.2" true true false, kn [], [], []⟩,
  ⟨.msg 1 .haveAll, kn [1], [], []⟩,
  ⟨.msg 1 .unchoke, kn [1], [⟨1, 0, false, false, false⟩], []⟩,
  ⟨.msg 1 (.piece 0 0 16384 true), kn [1], [], []⟩]

example : (drun (s1, none) evs1).1.bf = some [true] ∧ (drun (s1, none) evs1).1.diskOK = [true] ∧
    (drun (s1, none) evs1).1.status = .seeding := by decide

/-- `s1` is `InitLike`-sound enough for the step theorems: `CfgWF` and `BadWF`. -/
private theorem s1_sound0 : Sound0 s1 := by
  refine ⟨?_, badWF_dataSects s1 rfl⟩
  intro i hi sc hsc
  match i with
  | 0 => simp [c1, s1] at hi
  | i + 1 =>
    have : c1.sections (i + 1) = [] := by
      simp [Cfg.sections, Cfg.n, c1, npAll]
    rw [show s1.cfg = c1 from rfl, this] at hsc
    cases hsc

/-- **Why the run theorems ask for `NoWritten s0`** (and the step theorems for `WrOK s`).  Since the model has held
write results (`WriteJob.written`, `gate writeDone`: the piece writer's storage calls have returned, its result
is delivered later) a `written` job is *trusted*: its delivery sets the bit without any storage call.  `InitLike`
does not exclude an initial state with such a job claiming the next generation of pieces: one `start` — fresh
allocation, generation 1, the "result" is delivered as current — and the bit of piece 0 is set, the torrent seeds,
with nothing on disk.  (No torrent object is created with a write in flight; along every history from a state
without one the invariant `WrOK` — a held, current result has its bytes on disk — holds: `drun_wrOK`.) -/
theorem held_result_trusted_counterexample :
    InitLike { s1 with writing := some { piece := 0, src := 0, good := true, gen := 1, written := true } } ∧
    ¬ NoWritten { s1 with writing := some { piece := 0, src := 0, good := true, gen := 1, written := true } } ∧
    (drun ({ s1 with writing := some { piece := 0, src := 0, good := true, gen := 1, written := true } }, none)
      [⟨.start, kn [], [], []⟩]).1.bf = some [true] ∧
    (drun ({ s1 with writing := some { piece := 0, src := 0, good := true, gen := 1, written := true } }, none)
      [⟨.start, kn [], [], []⟩]).1.diskOK = [false] ∧
    (drun ({ s1 with writing := some { piece := 0, src := 0, good := true, gen := 1, written := true } }, none)
      [⟨.start, kn [], [], []⟩]).1.status = .seeding :=
  ⟨⟨s1_sound0.cfg, s1_sound0.bad, rfl, rfl, rfl, rfl, rfl, rfl, rfl, rfl, rfl, rfl, rfl, rfl, rfl, rfl, rfl⟩,
   fun h => absurd (h _ rfl).1 (by decide), by decide, by decide, by decide⟩

/-! `reported_only_verified_step` is not vacuous: with a second peer that lacks the piece, the step in
which the write completes sends it `have:0`, and piece 0 is then verified on disk. -/
private def evs2 : List Ev := [
  ⟨.start, kn [], [], []⟩,
  ⟨.peer 1 "10.0.0.2" true true false, kn [], [], []⟩,
  ⟨.peer 2 "10.0.0.3" true true false, kn [1], [], []⟩,
  ⟨.msg 1 .haveAll, kn [1, 2], [], []⟩,
  ⟨.msg 1 .unchoke, kn [1, 2], [⟨1, 0, false, false, false⟩], []⟩]

example : (step (drun (s1, none) evs2).1 none (kn [1, 2]) (.msg 1 (.piece 0 0 16384 true))).1.outs =
      [⟨1, "notinterested"⟩, ⟨2, haveMsg 0⟩] ∧
    (step (drun (s1, none) evs2).1 none (kn [1, 2]) (.msg 1 (.piece 0 0 16384 true))).1.st.diskOK = [true] ∧
    (step (drun (s1, none) evs2).1 none (kn [1, 2]) (.msg 1 (.piece 0 0 16384 true))).1.st.bf = some [true] := by
  decide

example : ∀ o ∈ (step (drun (s1, none) evs2).1 none (kn [1, 2]) (.msg 1 (.piece 0 0 16384 true))).1.outs,
    ∀ i, o.msg = haveMsg i →
      (step (drun (s1, none) evs2).1 none (kn [1, 2]) (.msg 1 (.piece 0 0 16384 true))).1.st.diskOKi i = true :=
  reported_only_verified_step _ _ _ _ (drun_sound0 evs2 (s1, none) s1_sound0)
    (drun_wrOK evs2 (s1, none) ⟨fun w a => (by cases a), fun w a => (by cases a), fun _ => ⟨rfl, rfl, rfl, rfl, rfl⟩⟩)

/-! The step form speaks of the disk and not of the bit.  Before the fix of finding C04-F4 there was a step
that sends `have:0` and ends without a bitfield: stop-after-download, a verify issued while nothing was on
disk (it started the download and stayed pending), the allocator gate held; the step in which the write
completed announced `have:0`, completed, stopped, and the stale pending verify restarted the torrent without its
bitfield — all inside the same op.  After the fix that history is gone: the verify ends `Stopped` at once
(`Props/C04.lean`, `verify_without_files_ends_stopped`), and a pending verify excludes `Downloading`
(`no_stale_verify_flag`).  No other witness is known; the bit form ("every `have:i` of a step has bit `i`
set afterwards") is not proved.  Below: the same events now, and the stop-after-download step, which sends
`have:0` and ends `Stopped` with its bitfield. -/
private def s1sa : St := { s1 with cfg := { c1 with stopAfter := true } }
private def evs3 : List Ev := [
  ⟨.verify, kn [], [], []⟩,
  ⟨.peer 1 "10.0.0.2" true true false, kn [], [], []⟩]

example : (drun (s1sa, none) (evs3.take 1)).1.status = .stopped ∧ (drun (s1sa, none) (evs3.take 1)).1.doVerify = false ∧
    (drun (s1sa, none) evs3).1.peers = [] := by decide

example : (step (drun (s1sa, none) evs2).1 none (kn [1, 2]) (.msg 1 (.piece 0 0 16384 true))).1.outs =
      [⟨1, "notinterested"⟩, ⟨2, haveMsg 0⟩] ∧
    (step (drun (s1sa, none) evs2).1 none (kn [1, 2]) (.msg 1 (.piece 0 0 16384 true))).1.st.diskOK = [true] ∧
    (step (drun (s1sa, none) evs2).1 none (kn [1, 2]) (.msg 1 (.piece 0 0 16384 true))).1.st.bf = some [true] ∧
    (step (drun (s1sa, none) evs2).1 none (kn [1, 2]) (.msg 1 (.piece 0 0 16384 true))).1.st.status = .stopped := by
  decide

/-! `bad_padding_piece_never_done` is not vacuous: piece 0 is data, piece 1 is one padding file.  With a
wrong recorded hash for piece 1 the download of piece 0 leaves the torrent `Downloading` with bitfield
`10`, also after a stop, a restart from the resume record and a manual verification; with the right
hash the same history ends `Seeding` with `11`. -/
private def c2 (ok : Bool) : Cfg :=
  { pl := 16384, plens := [16384, 16384], blocks := [[(0, 16384)], []], flens := [16384, 16384],
    fpads := [false, true], fnames := ["t/f0", "t/.pad/16384"], padHashOK := [true, ok] }
private def s2 (ok : Bool) : St :=
  { cfg := c2 ok, fileExists := [false, false], known := [false, false], bad := (c2 ok).dataSects }
private def evs4 : List Ev := evs1 ++ [
  ⟨.stop, kn [1], [], []⟩, ⟨.start, kn [], [], []⟩, ⟨.verify, kn [], [], []⟩, ⟨.start, kn [], [], []⟩]

example : (c2 false).padOnly 1 = true ∧ (c2 false).padOK 1 = false ∧ (c2 false).padOK 0 = true ∧
    (c2 true).padOK 1 = true := by decide

example : (drun (s2 false, none) evs1).1.bf = some [true, false] ∧
    (drun (s2 false, none) evs1).1.status = .downloading ∧ (drun (s2 false, none) evs1).1.completed = false ∧
    (drun (s2 false, none) evs4).1.bf = some [true, false] ∧
    (drun (s2 false, none) evs4).1.persisted = some [true, false] ∧
    (drun (s2 false, none) evs4).1.status = .downloading := by decide

example : (drun (s2 true, none) evs1).1.bf = some [true, true] ∧
    (drun (s2 true, none) evs1).1.status = .seeding ∧
    (drun (s2 true, none) evs4).1.bf = some [true, true] ∧ (drun (s2 true, none) evs4).1.status = .seeding := by decide

private theorem s2_bad : (s2 false).bad = (s2 false).cfg.dataSects := rfl

private theorem s2_initLike : InitLike (s2 false) := by
  refine ⟨?_, badWF_dataSects (s2 false) s2_bad, rfl, rfl, rfl, rfl, rfl, rfl, rfl, rfl, rfl, rfl, rfl, rfl, rfl, rfl, rfl⟩
  intro i hi sc hsc
  match i with
  | 0 => simp [c2, s2] at hi
  | 1 =>
    have : (c2 false).sections 1 = [⟨1, 0, 16384⟩] := by decide
    rw [show (s2 false).cfg = c2 false from rfl, this] at hsc
    simp only [List.mem_singleton] at hsc
    subst hsc
    decide
  | i + 2 =>
    have : (c2 false).sections (i + 2) = [] := by
      simp [Cfg.sections, Cfg.n, c2, npAll]
    rw [show (s2 false).cfg = c2 false from rfl, this] at hsc
    cases hsc

example : ∀ evs, bitOf (drun (s2 false, none) evs).1.bf 1 = false ∧ (drun (s2 false, none) evs).1.status ≠ .seeding :=
  fun evs => ⟨(bad_padding_piece_never_done (s2 false) s2_initLike (noWritten_of_none rfl) evs 1 (by decide) (by decide)).1,
    (bad_padding_piece_never_done (s2 false) s2_initLike (noWritten_of_none rfl) evs 1 (by decide) (by decide)).2.2.2⟩
end Example

end Rain.Props.C01Loop
