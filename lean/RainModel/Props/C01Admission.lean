import RainModel.Model.AdmissionRun
import RainModel.Lemmas.AdmissionRun
import RainModel.Props.C18
/-!
C01 (clause "a peer that supplied a piece failing the hash check is disconnected and not
reused") at the level of HISTORIES of admission operations.

A history is a finite list of `(Op, blocklist in force at that step)`, of any length and in any
interleaving; `run` folds it over a state.  `OpOk max` are the per-step hypotheses of `Reach.push`
(the `AddrList` was created with `maxItems = max`; the resolution of the unstable sort is a sort);
they restrict `Op.peers` only.  Property theorems only; helper lemmas live in
`Lemmas/AdmissionRun`.
-/
namespace Rain.Props.C01Admission
open Rain.AddrList Rain.Admission Rain.Props.C18

/-- **run_total.** For either version of the decision code (in particular `fixedCfg …`), from the
initial state, every history runs to the end: no step reaches a panic branch of the model
("addr list data structures not in sync", "desync", "index out of range", "dial loop out of
fuel"), and there is exactly one output per step. -/
theorem run_total (cfg : Cfg) (max : Nat) (hist : List (Op × (Nat → Bool)))
    (hok : ∀ e ∈ hist, OpOk max e.1) :
    ∃ s outs, run cfg {} hist = .ok (s, outs) ∧ outs.length = hist.length := by
  obtain ⟨s, outs, e, _, l, _⟩ := run_spec cfg hist {} (sinv_init max) hok
  exact ⟨s, outs, e, l⟩

/-- The instance asked for: the repaired code. -/
theorem run_total_fixed (maxDial maxAccept : Nat) (blIn blOut : Bool) (max : Nat)
    (hist : List (Op × (Nat → Bool))) (hok : ∀ e ∈ hist, OpOk max e.1) :
    ∃ s outs, run (fixedCfg maxDial maxAccept blIn blOut) {} hist = .ok (s, outs) ∧
      outs.length = hist.length :=
  run_total _ max hist hok

/-- The same from any state that satisfies the step invariant (good queue, `connected` without
duplicates); the invariant holds again at the end. -/
theorem run_total_from (cfg : Cfg) (max : Nat) (s0 : State) (h0 : SInv max s0)
    (hist : List (Op × (Nat → Bool))) (hok : ∀ e ∈ hist, OpOk max e.1) :
    ∃ s outs, run cfg s0 hist = .ok (s, outs) ∧ outs.length = hist.length ∧ SInv max s := by
  obtain ⟨s, outs, e, i, l, _⟩ := run_spec cfg hist s0 h0 hok
  exact ⟨s, outs, e, l, i⟩

/-- **banned_monotone_run.** `bannedPeerIPs` only grows: whatever the history, every IP banned at
its start is banned at its end (no operation of the admission path removes a ban). -/
theorem banned_monotone_run (cfg : Cfg) (max : Nat) (s0 : State) (h0 : SInv max s0)
    (hist : List (Op × (Nat → Bool))) (hok : ∀ e ∈ hist, OpOk max e.1)
    (s : State) (outs : List StepOut) (hr : run cfg s0 hist = .ok (s, outs)) :
    ∀ x ∈ s0.banned, x ∈ s.banned := by
  obtain ⟨s', outs', e, _, _, m, _⟩ := run_spec cfg hist s0 h0 hok
  rw [hr] at e
  cases e
  exact m

/-- **corrupt_sender_never_reused.** Repaired code (`cfg.checkBan = true`), any history
`pre ++ [(op, b)] ++ post` from the initial state in which `op` is the corrupt-piece branch of
`handlePieceWriteDone` for a peer with IP `ip` (outgoing `(ip, port)`, or incoming `ip`).
The history runs to the end, it decomposes along the three parts, and
* right after the corrupt-piece step `ip` is in `bannedPeerIPs` and NOT in `connectedPeerIPs`
  (the peer is disconnected and its IP released);
* the `dialAddresses` call inside that very step (`closePeer`) dials no address with IP `ip`;
* (i) no step of `post` — whatever it is, however many there are — dials an address with IP `ip`;
* (ii) every `Op.accept ip` in `post` gets a verdict different from `accept`
  (`post.zip outs3` pairs each step with its output; the lengths are equal);
* `ip` is still banned at the end. -/
theorem corrupt_sender_never_reused (cfg : Cfg) (hcb : cfg.checkBan = true) (max : Nat)
    (pre post : List (Op × (Nat → Bool))) (op : Op) (b : Nat → Bool) (ip : Nat)
    (hop : (∃ port, op = .corruptOut (ip, port)) ∨ op = .corruptIn ip)
    (hok : ∀ e ∈ pre ++ [(op, b)] ++ post, OpOk max e.1) :
    ∃ s1 outs1 s2 o s3 outs3,
      run cfg {} pre = .ok (s1, outs1) ∧ step cfg b s1 op = .ok (s2, o) ∧
      run cfg s2 post = .ok (s3, outs3) ∧
      run cfg {} (pre ++ [(op, b)] ++ post) = .ok (s3, outs1 ++ [o] ++ outs3) ∧
      ip ∈ s2.banned ∧ ip ∉ s2.connected ∧
      (∀ a ∈ o.dialled, a.1 ≠ ip) ∧
      (∀ so ∈ outs3, ∀ a ∈ so.dialled, a.1 ≠ ip) ∧
      outs3.length = post.length ∧
      (∀ p ∈ post.zip outs3, p.1.1 = .accept ip → p.2.verdict ≠ some .accept) ∧
      ip ∈ s3.banned := by
  have hok1 : ∀ e ∈ pre, OpOk max e.1 := fun e he => hok e (by simp [he])
  have hok2 : OpOk max op := hok (op, b) (by simp)
  have hok3 : ∀ e ∈ post, OpOk max e.1 := fun e he => hok e (by simp [he])
  obtain ⟨s1, outs1, e1, i1, _, _, _, j1, _⟩ := run_spec cfg pre {} (sinv_init max) hok1
  obtain ⟨s2, o, e2, i2, _, d2, j2, _, c1, c2⟩ := step_spec cfg b s1 op i1 hok2
  have hb : ip ∈ s2.banned := by
    rcases hop with ⟨port, rfl⟩ | rfl
    · exact c1 _ rfl
    · exact c2 _ rfl
  obtain ⟨s3, outs3, e3, _, l3, m3, d3, _, a3⟩ := run_spec cfg post s2 i2 hok3
  refine ⟨s1, outs1, s2, o, s3, outs3, e1, e2, e3, ?_, hb, j2 hcb (j1 hcb disj_init) ip hb, ?_, ?_,
    l3, ?_, m3 ip hb⟩
  · have hmid : run cfg s1 ([(op, b)] ++ post) = .ok (s3, [o] ++ outs3) := by
      simp only [List.singleton_append, run, e2, e3]
    rw [List.append_assoc, List.append_assoc]
    exact run_append cfg pre _ _ _ _ _ _ e1 hmid
  · intro a ha e
    exact d2 hcb a ha (e ▸ hb)
  · intro so hso a ha e
    exact d3 hcb so hso a ha (e ▸ hb)
  · intro p hp e
    exact a3 p hp ip e hb

/-- **banned_disjoint_connected_run.** Repaired code: after every history from the initial state
no IP is both in `bannedPeerIPs` and in `connectedPeerIPs` — a banned peer is never connected or
connecting.  No precondition on `corruptOut` / `corruptIn` is needed (for an address / IP that is
not a current peer — unreachable in the Go code — the step still only bans and releases), because
`connected` has no duplicates in every reachable state, so `erase` removes the IP entirely. -/
theorem banned_disjoint_connected_run (cfg : Cfg) (hcb : cfg.checkBan = true) (max : Nat)
    (hist : List (Op × (Nat → Bool))) (hok : ∀ e ∈ hist, OpOk max e.1)
    (s : State) (outs : List StepOut) (hr : run cfg {} hist = .ok (s, outs)) :
    s.connected.Nodup ∧ ∀ x, x ∈ s.banned → x ∉ s.connected := by
  obtain ⟨s', outs', e, i, _, _, _, j, _⟩ := run_spec cfg hist {} (sinv_init max) hok
  rw [hr] at e
  cases e
  exact ⟨i.nodup, j hcb disj_init⟩

/-! ### Non-vacuity -/

/-- `MaxPeerDial = 1`.  (1) a tracker announces 7:80 — dialled, the only dial slot is now taken;
(2) 9 connects to us — accepted; (3) a tracker announces 9:81 — queued (9 is not banned), not
dialled because the slot is taken; (4) the incoming peer 9 sends a corrupt piece — banned and
closed; (5) the handshake with 7:80 fails — the slot is free and `dialAddresses` pops 9:81;
(6) 9 connects again. -/
def witness : List (Op × (Nat → Bool)) :=
  let env : Env := ⟨10, 6881, none, [], fun _ => false⟩
  let nb : Nat → Bool := fun _ => false
  [(.peers env stableSort [⟨7, 80, 5⟩] 0 1, nb), (.accept 9, nb),
   (.peers env stableSort [⟨9, 81, 6⟩] 0 2, nb), (.corruptIn 9, nb), (.hsfail (7, 80), nb),
   (.accept 9, nb)]

/-- The hypotheses of the theorems hold for `witness`. -/
example : ∀ e ∈ witness, OpOk 10 e.1 := by
  intro e he
  simp only [witness, List.mem_cons, List.not_mem_nil, or_false] at he
  rcases he with rfl | rfl | rfl | rfl | rfl | rfl <;>
    first | trivial | exact ⟨rfl, stableSort_admissible⟩

/-- Repaired code: the queue held 9:81 when the slot was released, and it is NOT dialled; the
second connection from 9 is refused as banned. -/
example : ((run (fixedCfg 1 2 false false) {} witness).toOption.map (·.2)) =
    some [{ dialled := [(7, 80)] }, { verdict := some .accept }, {}, {}, {},
          { verdict := some .banned }] := by decide

/-- The queue does hold the banned address right before the slot is released (steps 1–4). -/
example : ((run (fixedCfg 1 2 false false) {} (witness.take 4)).toOption.map
    fun r => (r.1.queue.entries.map fun p => (p.ip, p.port), r.1.banned, r.1.connected, r.1.outgoing)) =
    some ([(9, 81)], [9], [7], [(7, 80)]) := by decide

/-- Contrast, `checkBan := false` (the code before d1afeec): the banned address IS dialled. -/
example : ((run ⟨1, 2, false, false, false, true⟩ {} witness).toOption.map (·.2)) =
    some [{ dialled := [(7, 80)] }, { verdict := some .accept }, {}, {}, { dialled := [(9, 81)] },
          { verdict := some .duplicate }] := by decide

end Rain.Props.C01Admission
