import RainModel.Model.MSE
import RainModel.Lemmas.MSE
/-!
C12 — MSE handshake/stream correct for all pads and chunkings; forced encryption holds.
Property theorems only; definitions (`Honest`, `MatchAt`, `doneA/doneB`, `sendAll/recvAll`,
`Conn.encrypted`) and helper lemmas live in `Lemmas/MSE`.

Cryptography is a parameter `c : Crypto`; every theorem holds for every `c`.  What an honest run
needs from it (sizes, Diffie-Hellman agreement) and the two *named hypotheses* — the
synchronisation markers do not occur in the random pads before their true position — are the
fields of `Honest`.  The transport's fragmentation enters the handshake only through the size of
the first read (`frA`, `frB`: every admissible value `96 ≤ fr ≤ 96 + |pad|`), and the stream
afterwards through arbitrary fragment lists (`recvAll`).
-/
namespace Rain.Props.C12
open Rain.MSE

/-- **sync_found.** For a marker `key` behind `pub ‖ pad` (`|pub| = 96`), every admissible first
read `fr` and the scan budget the code uses (`96 + 512 + |key| - fr`; 628 for `req1`, 616 for the
encrypted VC): if `key` does not occur earlier (named hypothesis `hno`), then for every
`|pad| ≤ 512` the scan stops exactly behind the marker, and for every longer pad it reports
failure after exactly `608 + |key|` bytes of the stream — it never runs past its bound. -/
theorem sync_found (key pub pad tail : Bytes) (fr : Nat)
    (hpub : pub.length = 96) (hfr : 96 ≤ fr) (hfr2 : fr ≤ 96 + pad.length) (hfr3 : fr ≤ 608)
    (hno : ∀ j, fr ≤ j → j < 96 + pad.length → ¬ MatchAt key (pub ++ pad ++ key) j) :
    readSync key (((608 + key.length : Nat) : Int) - fr) ((pub ++ pad ++ key ++ tail).drop fr) =
      if pad.length ≤ 512 then .found tail
      else .notFound ((pub ++ pad ++ key ++ tail).drop (608 + key.length)) := by
  split
  · exact sync_generic key pub pad tail fr (608 + key.length) hpub hfr hfr2 (by omega) hno
  · rename_i hp
    apply sync_generic_fail key _ fr (608 + key.length) (by omega)
    · simp only [List.length_append, hpub]; omega
    · intro j hj hj2
      rw [matchAt_append_left key (pub ++ pad ++ key) tail j (by simp only [List.length_append, hpub]; omega)]
      exact hno j hj (by omega)

/-- The scan for `req1` exactly as `HandshakeIncoming` runs it (`readSync(req1, 628-firstRead)`),
for all `|PadA| ≤ 512` and all admissible first reads. -/
theorem sync_found_req1 (req1 pub pad tail : Bytes) (fr : Nat) (h20 : req1.length = 20)
    (hpub : pub.length = 96) (hpad : pad.length ≤ 512) (hfr : 96 ≤ fr) (hfr2 : fr ≤ 96 + pad.length)
    (hno : ∀ j, fr ≤ j → j < 96 + pad.length → ¬ MatchAt req1 (pub ++ pad ++ req1) j) :
    readSync req1 (628 - (fr : Int)) ((pub ++ pad ++ req1 ++ tail).drop fr) = .found tail := by
  have := sync_found req1 pub pad tail fr hpub hfr hfr2 (by omega) hno
  simp only [h20, hpad, if_true] at this
  exact this

/-- The scan for the encrypted VC exactly as `HandshakeOutgoing` runs it
(`readSync(vcEnc, 616-firstRead)`), for all `|PadB| ≤ 512` and all admissible first reads. -/
theorem sync_found_vc (vcEnc pub pad tail : Bytes) (fr : Nat) (h8 : vcEnc.length = 8)
    (hpub : pub.length = 96) (hpad : pad.length ≤ 512) (hfr : 96 ≤ fr) (hfr2 : fr ≤ 96 + pad.length)
    (hno : ∀ j, fr ≤ j → j < 96 + pad.length → ¬ MatchAt vcEnc (pub ++ pad ++ vcEnc) j) :
    readSync vcEnc (616 - (fr : Int)) ((pub ++ pad ++ vcEnc ++ tail).drop fr) = .found tail := by
  have := sync_found vcEnc pub pad tail fr hpub hfr hfr2 (by omega) hno
  simp only [h8, hpad, if_true] at this
  exact this

/-- Soundness for arbitrary input (no hypothesis on the pad): a scan that succeeds stopped behind
the *first* occurrence of the marker and that occurrence ends within the budget. -/
theorem sync_sound (key s : Bytes) (max : Nat) (hmax : key.length ≤ max) (r : Bytes)
    (h : readSync key (max : Int) s = .found r) :
    ∃ k, MatchAt key s k ∧ (∀ j, j < k → ¬ MatchAt key s j) ∧ k + key.length ≤ max ∧
      r = s.drop (k + key.length) := by
  obtain ⟨k, a, b, c, _, e⟩ := readSync_sound key s max hmax r h
  exact ⟨k, a, b, c, e⟩

/-- Non-vacuity of `sync_found`: pad 3 with first read 97, marker found; and a planted early
occurrence is where the scan stops (the named hypothesis is needed). -/
example : readSync [7, 7] (628 - 97) ((List.replicate 96 1 ++ [1, 2, 3] ++ [7, 7] ++ [9]).drop 97) = .found [9] := by
  decide
example : readSync [7, 7] (628 - 96) ((List.replicate 96 1 ++ [7, 7, 3] ++ [7, 7] ++ [9]).drop 96)
    = .found [3, 7, 7, 9] := by decide

/-- Non-vacuity of `Honest` (and with it of `agree`, `stream_id`, `both_or_neither`): pads 2/1/1/2,
initiator's first read 97 (one pad byte swallowed), receiver's 96. -/
example : Honest toyC toyO toyI 97 96 where
  pubA := by decide
  pubB := by decide
  dhAgree := by decide
  req1Len := by decide
  req3Len := by decide
  hskLen := by decide
  padA := by decide
  padB := by decide
  padC := by decide
  padD := by decide
  provide := by decide
  frAok := by decide
  frBok := by decide
  noEarlyReq1 := by
    intro j h1 h2
    have : j = 96 ∨ j = 97 := by simp [toyO] at h2; omega
    rcases this with rfl | rfl <;> decide
  noEarlyVC := by
    intro j h1 h2
    simp [toyI] at h2; omega

example : selectedCheck (toyI.select toyO.provide) toyO.provide = .ok () := by rfl
example : toyI.getSKey (toyC.hashSKey toyO.sKey) = some toyO.sKey := by decide

/-- **agree.** Two honest endpoints, any pads `≤ 512`, any admissible first reads, any offer and
any `cryptoSelect` function: if both sides complete, they hold the same selected method, it is a
single bit, and that bit is one of the offered ones. -/
theorem agree (c : Crypto) (o : OutCfg) (i : InCfg) (frA frB : Nat) (H : Honest c o i frA frB)
    (hl : LooksUpByHash c i) (hinj : ∀ a b, c.hashSKey a = c.hashSKey b → a = b)
    (hselR : i.select o.provide < 4294967296)
    (dA dB : Done) (hA : (session c o i frA frB).resA = .ok dA) (hB : (session c o i frA frB).resB = .ok dB) :
    dA.selected = dB.selected ∧ dB.provided = o.provide ∧
      ∃ k, k < 32 ∧ dA.selected = 2 ^ k ∧ o.provide.testBit k = true := by
  by_cases hpre : o.provide = 0 ∨ o.ia.length > 65535
  · rw [session_precheck c o i frA frB hpre] at hA; simp at hA
  · have hprov0 : o.provide ≠ 0 := fun h => hpre (Or.inl h)
    have hia : o.ia.length ≤ 65535 := by
      rcases Nat.lt_or_ge 65535 o.ia.length with h | h
      · exact absurd (Or.inr h) hpre
      · exact h
    rcases getSKey_cases c o i hl hinj with hk | hk
    · rw [session_unknown_key c o i frA frB H hprov0 hia hk] at hA; simp at hA
    · cases hchk : selectedCheck (i.select o.provide) o.provide with
      | error e => rw [session_reject c o i frA frB H hprov0 hia hk e hchk] at hA; simp at hA
      | ok u =>
        cases u
        rw [session_ok c o i frA frB H hprov0 hia hk hselR hchk] at hA hB
        simp only [Except.ok.injEq] at hA hB
        subst hA; subst hB
        obtain ⟨k, hk2, hb⟩ := selectedCheck_ok _ _ hchk
        refine ⟨rfl, rfl, k, ?_, hk2, hb⟩
        have : 2 ^ k < 2 ^ 32 := by
          rw [← hk2]; exact hselR
        exact (Nat.pow_lt_pow_iff_right (by omega)).1 this

/-- **both_or_neither.** Under the same hypotheses the handshake completes on both sides or on
neither. -/
theorem both_or_neither (c : Crypto) (o : OutCfg) (i : InCfg) (frA frB : Nat) (H : Honest c o i frA frB)
    (hl : LooksUpByHash c i) (hinj : ∀ a b, c.hashSKey a = c.hashSKey b → a = b)
    (hselR : i.select o.provide < 4294967296) :
    (∃ dA, (session c o i frA frB).resA = .ok dA) ↔ (∃ dB, (session c o i frA frB).resB = .ok dB) := by
  by_cases hpre : o.provide = 0 ∨ o.ia.length > 65535
  · rw [session_precheck c o i frA frB hpre]; simp
  · have hprov0 : o.provide ≠ 0 := fun h => hpre (Or.inl h)
    have hia : o.ia.length ≤ 65535 := by
      rcases Nat.lt_or_ge 65535 o.ia.length with h | h
      · exact absurd (Or.inr h) hpre
      · exact h
    rcases getSKey_cases c o i hl hinj with hk | hk
    · rw [session_unknown_key c o i frA frB H hprov0 hia hk]; simp
    · cases hchk : selectedCheck (i.select o.provide) o.provide with
      | error e => rw [session_reject c o i frA frB H hprov0 hia hk e hchk]; simp
      | ok u =>
        cases u
        rw [session_ok c o i frA frB H hprov0 hia hk hselR hchk]; simp

/-- **completes.** Liveness half: an honest run whose offer is non-empty, whose initial payload
fits the 16-bit length field, whose key the receiver knows and whose `cryptoSelect` picks one
offered bit *does* complete on both sides (so `agree` and `stream_id` are not vacuous). -/
theorem completes (c : Crypto) (o : OutCfg) (i : InCfg) (frA frB : Nat) (H : Honest c o i frA frB)
    (hprov0 : o.provide ≠ 0) (hia : o.ia.length ≤ 65535)
    (hkey : i.getSKey (c.hashSKey o.sKey) = some o.sKey)
    (hselR : i.select o.provide < 4294967296)
    (hchk : selectedCheck (i.select o.provide) o.provide = .ok ()) :
    ∃ dA dB, (session c o i frA frB).resA = .ok dA ∧ (session c o i frA frB).resB = .ok dB := by
  rw [session_ok c o i frA frB H hprov0 hia hkey hselR hchk]
  exact ⟨_, _, rfl, rfl⟩

/-- **fragmentation_irrelevant.** The only place where the transport's fragmentation enters the
handshake is the size of each side's first read.  For any two admissible pairs of first-read sizes
the whole session — both results with their cipher states, and every byte put on the wire in
either direction — is the same. -/
theorem fragmentation_irrelevant (c : Crypto) (o : OutCfg) (i : InCfg) (frA frB frA' frB' : Nat)
    (H : Honest c o i frA frB) (H' : Honest c o i frA' frB')
    (hl : LooksUpByHash c i) (hinj : ∀ a b, c.hashSKey a = c.hashSKey b → a = b)
    (hselR : i.select o.provide < 4294967296) :
    session c o i frA frB = session c o i frA' frB' := by
  by_cases hpre : o.provide = 0 ∨ o.ia.length > 65535
  · rw [session_precheck c o i frA frB hpre, session_precheck c o i frA' frB' hpre]
  · have hprov0 : o.provide ≠ 0 := fun h => hpre (Or.inl h)
    have hia : o.ia.length ≤ 65535 := by
      rcases Nat.lt_or_ge 65535 o.ia.length with h | h
      · exact absurd (Or.inr h) hpre
      · exact h
    rcases getSKey_cases c o i hl hinj with hk | hk
    · rw [session_unknown_key c o i frA frB H hprov0 hia hk, session_unknown_key c o i frA' frB' H' hprov0 hia hk]
    · cases hchk : selectedCheck (i.select o.provide) o.provide with
      | error e =>
        rw [session_reject c o i frA frB H hprov0 hia hk e hchk, session_reject c o i frA' frB' H' hprov0 hia hk e hchk]
      | ok u =>
        cases u
        rw [session_ok c o i frA frB H hprov0 hia hk hselR hchk, session_ok c o i frA' frB' H' hprov0 hia hk hselR hchk]

/-- **stream_id.** If both sides complete: the receiver holds the initial payload unchanged; each
side's write cipher state equals the other side's read cipher state — same key-stream, same
position (1024 discarded bytes + VC + fields + pads [+ initial payload]), same RC4/plaintext
switch; nothing of the transport is left unconsumed; and therefore, for every sequence of writes
on one side and every fragmentation of the resulting wire bytes on the other, the bytes read are
exactly the bytes written (after the initial payload in the A→B direction). -/
theorem stream_id (c : Crypto) (o : OutCfg) (i : InCfg) (frA frB : Nat) (H : Honest c o i frA frB)
    (hl : LooksUpByHash c i) (hinj : ∀ a b, c.hashSKey a = c.hashSKey b → a = b)
    (hselR : i.select o.provide < 4294967296)
    (dA dB : Done) (hA : (session c o i frA frB).resA = .ok dA) (hB : (session c o i frA frB).resB = .ok dB) :
    dB.buffered = o.ia ∧ dA.buffered = [] ∧ dA.rest = [] ∧ dB.rest = [] ∧
    dA.w = dB.r ∧ dB.w = dA.r ∧
    (dA.selected ≠ 1 →
      dA.w.pos = 1024 + (8 + 4 + 2 + o.padCLen + 2 + o.ia.length) ∧
      dB.w.pos = 1024 + (8 + 4 + 2 + i.padDLen) ∧ dA.w.plain = false ∧ dB.w.plain = false) ∧
    (dA.selected = 1 → dA.w.plain = true ∧ dB.w.plain = true) ∧
    (∀ (ps frags : List Bytes), frags.flatten = (sendAll dA ps).1 →
      (recvAll dB frags).1 = o.ia ++ ps.flatten) ∧
    (∀ (ps frags : List Bytes), frags.flatten = (sendAll dB ps).1 →
      (recvAll dA frags).1 = ps.flatten) := by
  by_cases hpre : o.provide = 0 ∨ o.ia.length > 65535
  · rw [session_precheck c o i frA frB hpre] at hA; simp at hA
  · have hprov0 : o.provide ≠ 0 := fun h => hpre (Or.inl h)
    have hia : o.ia.length ≤ 65535 := by
      rcases Nat.lt_or_ge 65535 o.ia.length with h | h
      · exact absurd (Or.inr h) hpre
      · exact h
    rcases getSKey_cases c o i hl hinj with hk | hk
    · rw [session_unknown_key c o i frA frB H hprov0 hia hk] at hA; simp at hA
    · cases hchk : selectedCheck (i.select o.provide) o.provide with
      | error e => rw [session_reject c o i frA frB H hprov0 hia hk e hchk] at hA; simp at hA
      | ok u =>
        cases u
        rw [session_ok c o i frA frB H hprov0 hia hk hselR hchk] at hA hB
        simp only [Except.ok.injEq] at hA hB
        subst hA; subst hB
        refine ⟨rfl, rfl, rfl, rfl, rfl, rfl, ?_, ?_, ?_, ?_⟩
        · intro hne
          have hne' : i.select o.provide ≠ 1 := hne
          simp [doneA, doneB, updateCipher, hne', Ciph.init, apply_rc4, body3_length, body4_length]
        · intro he
          have he' : i.select o.provide = 1 := he
          simp [doneA, doneB, updateCipher, he']
        · intro ps frags hf
          rw [recvAll_plain, hf, (sendAll_wire _ ps).1]
          simp only [doneA, doneB, List.nil_append]
          rw [apply_apply]
        · intro ps frags hf
          rw [recvAll_plain, hf, (sendAll_wire _ ps).1]
          simp only [doneA, doneB, List.nil_append]
          rw [apply_apply]

/-- **wrong_key_fails.** The receiver looks keys up by hash, `HashSKey` is injective (named
hypothesis) and the receiver does not hold the initiator's key: the receiver stops with
"invalid SKEY hash" (after `req2 ⊕ req3` was un-xored with its own `req3`), the initiator never
sees step 4, and so neither side completes — for all pads and first reads. -/
theorem wrong_key_fails (c : Crypto) (o : OutCfg) (i : InCfg) (frA frB : Nat) (H : Honest c o i frA frB)
    (hl : LooksUpByHash c i) (hinj : ∀ a b, c.hashSKey a = c.hashSKey b → a = b)
    (hunknown : ∀ h, i.getSKey h ≠ some o.sKey) :
    (∀ d, (session c o i frA frB).resA ≠ .ok d) ∧ (∀ d, (session c o i frA frB).resB ≠ .ok d) ∧
    (o.provide ≠ 0 → o.ia.length ≤ 65535 →
      (session c o i frA frB).resB = .error .invalidSKey ∧ (session c o i frA frB).resA = .error .eof) := by
  have hk : i.getSKey (c.hashSKey o.sKey) = none := by
    rcases getSKey_cases c o i hl hinj with hk | hk
    · exact hk
    · exact absurd hk (hunknown _)
  by_cases hpre : o.provide = 0 ∨ o.ia.length > 65535
  · rw [session_precheck c o i frA frB hpre]
    refine ⟨by simp, by simp, ?_⟩
    intro h0 h1
    rcases hpre with h | h
    · exact absurd h h0
    · omega
  · have hprov0 : o.provide ≠ 0 := fun h => hpre (Or.inl h)
    have hia : o.ia.length ≤ 65535 := by
      rcases Nat.lt_or_ge 65535 o.ia.length with h | h
      · exact absurd (Or.inr h) hpre
      · exact h
    rw [session_unknown_key c o i frA frB H hprov0 hia hk]
    exact ⟨by simp, by simp, fun _ _ => ⟨rfl, rfl⟩⟩

/-- Each side's own guarantee needs no honesty of the other: whatever bytes arrive, a completed
`HandshakeOutgoing` returns a single bit of its own offer, and the stream is switched to plaintext
exactly when that bit is `PlainText`. -/
theorem outgoing_selected (c : Crypto) (o : OutCfg) (fr : Nat) (inp : Bytes) (d : Done)
    (h : (outgoing c o fr inp).2 = .ok d) :
    (∃ k, d.selected = 2 ^ k ∧ o.provide.testBit k = true) ∧
    d.r.plain = decide (d.selected = 1) ∧ d.w.plain = decide (d.selected = 1) := by
  have := outgoing_ok h
  exact ⟨selectedCheck_ok _ _ this.check, this.rplain, this.wplain⟩

/-- … and a completed `HandshakeIncoming` has selected, with its `cryptoSelect`, a single bit of
the offer it decoded. -/
theorem incoming_selected (c : Crypto) (i : InCfg) (fr : Nat) (inp : Bytes) (d : Done)
    (h : (incoming c i fr inp).2 = .ok d) :
    d.selected = i.select d.provided ∧ (∃ k, d.selected = 2 ^ k ∧ d.provided.testBit k = true) ∧
    d.r.plain = decide (d.selected = 1) ∧ d.w.plain = decide (d.selected = 1) := by
  have := incoming_ok h
  exact ⟨this.selected, selectedCheck_ok _ _ this.check, this.rplain, this.wplain⟩

/-- **force_accept.** With `forceEncryption` set, for every byte stream a remote can send, every
first-read size and every `getSKey`: if `Accept` returns a connection at all, it is the MSE
connection with RC4 selected and both directions still under RC4, and the `cipher` it reports is
RC4.  (A plaintext BitTorrent handshake and an MSE handshake offering only plaintext are both
refused.) -/
theorem force_accept (c : Crypto) (a : AcceptCfg) (i : InCfg) (fr : Nat) (inp : Bytes) (w : Bytes) (r : ConnOk)
    (hforce : a.force = true) (h : accept c a i fr inp = (w, .ok r)) :
    r.conn.encrypted = true ∧ r.cipher = 2 := by
  unfold accept at h
  split at h; · simp at h
  split at h
  · -- plaintext BitTorrent handshake
    have := acceptTail_ok h
    have := this.1 hforce
    simp at this
  · split at h
    · split at h
      · simp only [Prod.mk.injEq] at h; simp at h
      · rename_i w0 d hinc
        split at h
        · simp only [Prod.mk.injEq] at h; simp at h
        · rename_i ext ih conn hrh
          simp only [Prod.mk.injEq] at h
          obtain ⟨_, h2⟩ := h
          have hd : (incoming c { i with select := acceptSelect a.force } fr inp).2 = .ok d := by rw [hinc]
          have io := incoming_ok hd
          have hsel : d.selected = 2 := by
            have hs := io.selected
            simp only [hforce] at hs
            rcases acceptSelect_force d.provided with h2' | h0
            · rw [hs, h2']
            · have hc := io.check
              rw [hs, h0] at hc
              simp [selectedCheck] at hc
          have hEnc : (Conn.mse d).encrypted = true := by
            simp [Conn.encrypted, hsel, io.rplain, io.wplain]
          have hpair : acceptTail a (decide (d.provided &&& 2 ≠ 0)) d.selected ext ih conn
              = ((acceptTail a (decide (d.provided &&& 2 ≠ 0)) d.selected ext ih conn).1, .ok r) := by
            rw [← h2]
          have t := acceptTail_ok hpair
          refine ⟨?_, ?_⟩
          · rw [t.2.1, readHandshake1_encrypted hrh, hEnc]
          · rw [t.2.2.1, hsel]
    · simp at h
  · simp at h

/-- **force_dial.** With encryption enabled and `forceEncryption` set (the consistent settings of
the outgoing direction), for every behaviour of the remote and of the network: the offer is RC4
only; if `Dial` returns a connection it is the MSE connection with RC4 selected and both
directions under RC4, it is the *first* connection (`retried = false`), nothing was ever written
on a second connection, and the reported `cipher` is RC4. -/
theorem force_dial (c : Crypto) (g : DialCfg) (e : DialEnv) (w1 w2 : Bytes) (r : ConnOk)
    (henable : g.enable = true) (hforce : g.force = true)
    (h : dial c g e = (w1, w2, .ok r)) :
    dialProvide g.force = 2 ∧ r.conn.encrypted = true ∧ r.retried = false ∧ w2 = [] ∧ r.cipher = 2 := by
  refine ⟨by simp [dialProvide, hforce], ?_⟩
  unfold dial at h
  split at h; · simp at h
  dsimp only at h
  split at h
  · rename_i w err hout
    split at h <;> simp at h
  · rename_i w d hout
    simp only [Prod.mk.injEq] at h
    obtain ⟨_, h2, h3⟩ := h
    have hd : (outgoing c ⟨e.x, g.ih, dialProvide g.force, btHandshake g.ext g.ih g.ourId, e.padA, e.padCLen⟩
        e.fr e.inp1).2 = .ok d := by
      rw [hout]
    have oo := outgoing_ok hd
    have hsel : d.selected = 2 := by
      have := oo.check
      simp only [dialProvide, hforce, if_true] at this
      exact selectedCheck_two _ this
    have t := dialTail_ok h3
    refine ⟨?_, t.2.2, h2.symm, ?_⟩
    · rw [t.1]; simp [Conn.encrypted, hsel, oo.rplain, oo.wplain]
    · rw [t.2.1, hsel]

/-- Without `force` the plaintext retry *is* reachable (so `force_dial` is about the flag, not
about an unreachable branch): any failed MSE handshake followed by a successful second dial. -/
theorem retry_reachable : ∃ (c : Crypto) (g : DialCfg) (e : DialEnv) (w1 w2 : Bytes) (r : ConnOk),
    g.enable = true ∧ g.force = false ∧ dial c g e = (w1, w2, .ok r) ∧ r.retried = true ∧
    r.conn.encrypted = false := by
  let c : Crypto := ⟨fun _ => [], fun _ _ => [], fun _ => [], fun _ => [], fun _ => [], fun _ _ _ _ => 0⟩
  let ih := List.replicate 20 1
  let g : DialCfg := ⟨true, false, List.replicate 8 0, ih, List.replicate 20 2⟩
  let e : DialEnv := { dial1 := true, stopped := false, dial2 := true, fr := 96, inp1 := [],
                       inp2 := btHandshake (List.replicate 8 0) ih (List.replicate 20 3),
                       x := [], padA := [], padCLen := 0 }
  refine ⟨c, g, e, (dial c g e).1, (dial c g e).2.1, ?_⟩
  have : ∃ r, (dial c g e).2.2 = .ok r ∧ r.retried = true ∧ r.conn.encrypted = false := by
    simp [dial, c, g, e, outgoing, dialProvide, btHandshake, pstr, firstRead, dialTail, readHandshake1,
      Conn.readN, readN, bind, Except.bind, pure, Except.pure, Conn.encrypted, ih]
  obtain ⟨r, hr, h1, h2⟩ := this
  exact ⟨r, rfl, rfl, by rw [← hr], h1, h2⟩

/-- The inconsistent setting the property excludes ("disable" and "force" both set for the
outgoing direction): `Dial` never negotiates and returns the raw socket. Recorded so the exclusion
in the property's quantifier is visibly needed. -/
theorem disable_and_force_is_plaintext (c : Crypto) (g : DialCfg) (e : DialEnv) (w1 w2 : Bytes) (r : ConnOk)
    (hdis : g.enable = false) (h : dial c g e = (w1, w2, .ok r)) : r.conn.encrypted = false := by
  unfold dial at h
  split at h; · simp at h
  simp only [hdis] at h
  simp only [Bool.false_eq_true, if_false, Prod.mk.injEq] at h
  have t := dialTail_ok h.2.2
  rw [t.1]; rfl

/-- By-catch (not part of C12, which only speaks about the forced settings): after a failed MSE
handshake `Dial` keeps the `selected` value the failed handshake decoded and reports it as the
`cipher` of the plaintext retry connection.  Witness: the remote selects RC4, announces 5 bytes of
PadD and hangs up; the retry succeeds in plaintext and is labelled RC4 (`Stats` then shows
`EncryptedStream` for an unencrypted peer).  The policy suite exhibits the same on the real code
(`c1=trunc`). -/
theorem retry_label_stale :
    let c : Crypto := ⟨fun x => List.replicate 96 (x.headD 0), fun _ _ => [1], fun _ => List.replicate 20 9,
                       fun _ => List.replicate 20 5, fun _ => List.replicate 20 4, fun _ _ _ _ => 0⟩
    let ih := List.replicate 20 1
    let g : DialCfg := ⟨true, false, List.replicate 8 0, ih, List.replicate 20 2⟩
    let e : DialEnv := { dial1 := true, stopped := false, dial2 := true, fr := 96,
                         inp1 := List.replicate 96 7 ++ zeros 8 ++ be32 2 ++ be16 5,
                         inp2 := btHandshake (List.replicate 8 0) ih (List.replicate 20 3),
                         x := [3], padA := [], padCLen := 0 }
    (match (dial c g e).2.2 with
     | .ok r => r.cipher == 2 && r.retried && !r.conn.encrypted
     | _ => false) = true := by
  decide

end Rain.Props.C12
