import RainModel.Model.InfoDownloader
import RainModel.Lemmas.InfoDownloader
/-!
C13 — magnet metadata is adopted only if it hashes to the link's info-hash.
Property theorems only; helper lemmas live in `Lemmas/`.
-/
namespace Rain.Props.C13
open Rain.InfoDL

/-! ## InfoDownloader (`internal/infodownloader`) -/

/-- **id_accept.** After *any* history of `RequestBlocks`/`GotBlock` calls on a fresh downloader
for a `sz`-byte info, a further `GotBlock(i, data)`
* never panics (no slice-bounds failure, no `uint32` wrap: the byte range fits in `sz`);
* if it returns nil, then `i` is an index that was passed to `RequestMetadataPiece` in that
  history, `i` is a valid piece index, `data` has exactly that piece's size, and the buffer changes
  to `splice old (i*bs) data` — i.e. bytes before `i*bs` and from `i*bs + len(data)` on are untouched;
* if it returns an error, the downloader (buffer, pending, cursor) is unchanged. -/
theorem id_accept (bs sz : Nat) (hbs : 0 < bs) (ops : List Op) (i : Nat) (data : Bytes) :
    let d := run bs (newWith bs sz) ops
    let r := gotBlock bs d i data
    r.2 ≠ .panic ∧
    (r.2 = .ok →
      i ∈ requestedIdx bs (newWith bs sz) ops ∧ i < numBlocks bs sz ∧
      data.length = blockLen bs sz i ∧ i * bs + data.length ≤ sz ∧
      r.1.bytes = splice d.bytes (i * bs) data ∧ r.1.bytes.length = sz) ∧
    (r.2 ≠ .ok → r.1 = d) := by
  intro d r
  have w : WF bs sz d := wf_run hbs ops (wf_new hbs)
  have hspec := gotBlock_spec hbs w i data
  have hmem := mem_requestedIdx hbs ops (wf_new (sz := sz) hbs) i
  have w' : WF bs sz r.1 := wf_gotBlock hbs w i data
  show (gotBlock bs d i data).2 ≠ .panic ∧ ((gotBlock bs d i data).2 = .ok → _ ∧ _ ∧ _ ∧ _ ∧ (gotBlock bs d i data).1.bytes = _ ∧ (gotBlock bs d i data).1.bytes.length = sz) ∧
    ((gotBlock bs d i data).2 ≠ .ok → (gotBlock bs d i data).1 = d)
  have hlen : (gotBlock bs d i data).1.bytes.length = sz := w'.blen
  rw [hspec] at hlen ⊢
  split
  · simp
  split
  · simp
  split
  · simp
  · rename_i h1 h2 h3
    have hi : i < numBlocks bs sz := by omega
    have hr := range_le (sz := sz) hbs hi
    have hl : data.length = blockLen bs sz i := by omega
    simp only [h1, h2, h3, ↓reduceIte] at hlen
    refine ⟨by simp, fun _ => ⟨?_, hi, hl, by omega, rfl, hlen⟩, by simp⟩
    rw [hmem]
    exact ⟨Nat.zero_le _, by simpa using h2⟩

/-- Non-vacuity of `id_accept` (block size 2, 5-byte info): an accepted answer for the short last
piece, and the three rejections. -/
example :
    let d := run 2 (newWith 2 5) [.req 3]
    (gotBlock 2 d 2 [9]).2 = .ok ∧ (gotBlock 2 d 2 [9]).1.bytes = [0, 0, 0, 0, 9] ∧
    (gotBlock 2 d 2 [9, 9]).2 = .err .size ∧ (gotBlock 2 d 3 [9]).2 = .err .index ∧
    (gotBlock 2 (run 2 (newWith 2 5) [.req 2]) 2 [9]).2 = .err .unrequested := by decide

/-- **id_assembled_honest.** For every history from a fresh downloader in which no index is
answered (accepted) twice: if `Done()` is true at the end, then every piece index has an accepted
answer and `Bytes` is the concatenation of the accepted answers in index order. -/
theorem id_assembled_honest (bs sz : Nat) (hbs : 0 < bs) (ops : List Op)
    (once : ((accepted bs (newWith bs sz) ops).map (·.1)).Nodup)
    (hdone : done (run bs (newWith bs sz) ops) = true) :
    (∀ i, i < numBlocks bs sz → ∃ data, (i, data) ∈ accepted bs (newWith bs sz) ops) ∧
    (run bs (newWith bs sz) ops).bytes = assembled bs sz (accepted bs (newWith bs sz) ops) := by
  have h0 : HInv bs sz (newWith bs sz) [] := ⟨wf_new hbs, by simp [newWith], by simp⟩
  have hI := hinv_run hbs ops h0 (by simpa using once)
  simp only [List.nil_append] at hI
  generalize run bs (newWith bs sz) ops = d at hI hdone
  generalize accepted bs (newWith bs sz) ops = A at hI once
  simp only [done, Bool.and_eq_true, beq_iff_eq] at hdone
  have hnext : d.next = numBlocks bs sz := by rw [hdone.1, hI.wf.nblk]
  have hlen : A.length = numBlocks bs sz := by
    have := hI.pend; rw [hdone.2] at this; omega
  have hall : ∀ i, i < numBlocks bs sz → i ∈ A.map (·.1) :=
    mem_of_nodup_lt once (by
      intro x hx
      obtain ⟨p, hp, rfl⟩ := List.mem_map.1 hx
      have := (hI.ans p hp).1; omega) (by simpa using hlen)
  constructor
  · intro i hi
    obtain ⟨p, hp, rfl⟩ := List.mem_map.1 (hall i hi)
    exact ⟨p.2, hp⟩
  · unfold assembled
    rw [flatMap_congr' _ (answerOf A) (fun i => slice d.bytes (i * bs) (blockLen bs sz i))]
    · exact (flatMap_blocks d.bytes bs sz hbs hI.wf.blen).symm
    · intro i hi
      have hi := List.mem_range.1 hi
      obtain ⟨p, hp, hpi⟩ := List.mem_map.1 (hall i hi)
      unfold answerOf
      cases hf : A.find? (fun p => p.1 == i) with
      | none =>
        have := List.find?_eq_none.1 hf p hp
        simp [hpi] at this
      | some p' =>
        have hm := List.mem_of_find?_eq_some hf
        have hp'i : p'.1 = i := by simpa using List.find?_some hf
        simp only [Option.map_some, Option.getD_some]
        rw [← hp'i]
        exact ((hI.ans p' hm).2).symm

/-- Non-vacuity of `id_assembled_honest`: an honest out-of-order exchange (block size 2, 5 bytes). -/
example :
    let ops := [Op.req 2, .got 1 [3, 4], .got 0 [1, 2], .req 2, .got 2 [5]]
    ((accepted 2 (newWith 2 5) ops).map (·.1)).Nodup ∧ done (run 2 (newWith 2 5) ops) = true ∧
    (run 2 (newWith 2 5) ops).bytes = [1, 2, 3, 4, 5] := by decide

/-- The behaviour the model deliberately keeps: a *repeated* answer is accepted again and
decrements `pending`, so `Done()` can become true with a piece never received (here piece 1 stays
zero).  This is why `id_assembled_honest` needs the `once` hypothesis, and why the safety of
adoption rests on the hash gate alone (`adopt_only_if_hash`). -/
theorem id_done_premature_by_repeat :
    let ops := [Op.req 2, .got 0 [1, 2], .got 0 [1, 2]]
    done (run 2 (newWith 2 4) ops) = true ∧ (run 2 (newWith 2 4) ops).bytes = [1, 2, 0, 0] ∧
    ¬ ((accepted 2 (newWith 2 4) ops).map (·.1)).Nodup := by decide

end Rain.Props.C13
