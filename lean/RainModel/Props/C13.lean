import RainModel.Model.InfoDownloader
import RainModel.Lemmas.InfoDownloader
import RainModel.Model.Adopt
import RainModel.Lemmas.Adopt
import RainModel.Model.Magnet
import RainModel.Lemmas.Magnet
/-!
C13 — magnet metadata is adopted only if it hashes to the link's info-hash.
Property theorems only; helper lemmas live in `Lemmas/`.
-/
namespace Rain.Props.C13
open Rain.InfoDL

/-! ## InfoDownloader (`internal/infodownloader`) -/

/-- **id_accept.** After *any* history of `RequestBlocks`/`GotBlock` calls on a fresh downloader
for a `sz`-byte info, a further `GotBlock(i, data)`
* never panics (no slice-bounds failure, no `uint32` wrap: the byte range fits in `sz`);
* if it returns nil, then `i` is an index that was passed to `RequestMetadataPiece` in that
  history, `i` is a valid piece index, `data` has exactly that piece's size, and the buffer changes
  to `splice old (i*bs) data` — i.e. bytes before `i*bs` and from `i*bs + len(data)` on are untouched;
* if it returns an error, the downloader (buffer, pending, cursor) is unchanged. -/
theorem id_accept (bs sz : Nat) (hbs : 0 < bs) (ops : List Op) (i : Nat) (data : Bytes) :
    let d := run bs (newWith bs sz) ops
    let r := gotBlock bs d i data
    r.2 ≠ .panic ∧
    (r.2 = .ok →
      i ∈ requestedIdx bs (newWith bs sz) ops ∧ i < numBlocks bs sz ∧
      data.length = blockLen bs sz i ∧ i * bs + data.length ≤ sz ∧
      r.1.bytes = splice d.bytes (i * bs) data ∧ r.1.bytes.length = sz) ∧
    (r.2 ≠ .ok → r.1 = d) := by
  intro d r
  have w : WF bs sz d := wf_run hbs ops (wf_new hbs)
  have hspec := gotBlock_spec hbs w i data
  have hmem := mem_requestedIdx hbs ops (wf_new (sz := sz) hbs) i
  have w' : WF bs sz r.1 := wf_gotBlock hbs w i data
  show (gotBlock bs d i data).2 ≠ .panic ∧ ((gotBlock bs d i data).2 = .ok → _ ∧ _ ∧ _ ∧ _ ∧ (gotBlock bs d i data).1.bytes = _ ∧ (gotBlock bs d i data).1.bytes.length = sz) ∧
    ((gotBlock bs d i data).2 ≠ .ok → (gotBlock bs d i data).1 = d)
  have hlen : (gotBlock bs d i data).1.bytes.length = sz := w'.blen
  rw [hspec] at hlen ⊢
  split
  · simp
  split
  · simp
  split
  · simp
  split
  · simp
  · rename_i h1 h2 h3 h4
    have hi : i < numBlocks bs sz := by omega
    have hr := range_le (sz := sz) hbs hi
    have hl : data.length = blockLen bs sz i := by omega
    simp only [h1, h2, h3, h4, Bool.false_eq_true, ↓reduceIte] at hlen
    refine ⟨by simp, fun _ => ⟨?_, hi, hl, by omega, rfl, hlen⟩, by simp⟩
    rw [hmem]
    exact ⟨Nat.zero_le _, by simpa using h2⟩

/-- Non-vacuity of `id_accept` (block size 2, 5-byte info): an accepted answer for the short last
piece, and the four rejections. -/
example :
    let d := run 2 (newWith 2 5) [.req 3]
    (gotBlock 2 d 2 [9]).2 = .ok ∧ (gotBlock 2 d 2 [9]).1.bytes = [0, 0, 0, 0, 9] ∧
    (gotBlock 2 d 2 [9, 9]).2 = .err .size ∧ (gotBlock 2 d 3 [9]).2 = .err .index ∧
    (gotBlock 2 (run 2 (newWith 2 5) [.req 2]) 2 [9]).2 = .err .unrequested ∧
    (gotBlock 2 (run 2 (newWith 2 5) [.req 3, .got 2 [9]]) 2 [8]).2 = .err .duplicate := by decide

/-- **id_accepted_once.** With the repaired `GotBlock` no index is accepted twice, in every history
(before the repair this was a hypothesis about the peer, `once` below). -/
theorem id_accepted_once (bs sz : Nat) (hbs : 0 < bs) (ops : List Op) :
    ((accepted bs (newWith bs sz) ops).map (·.1)).Nodup := by
  have hI := hinv_run hbs ops (hinv_new (sz := sz) hbs)
  simpa using hI.nd

/-- **id_assembled.** For every history from a fresh downloader: if `Done()` is true at the end,
then every piece index has an accepted answer and `Bytes` is the concatenation of the accepted
answers in index order. -/
theorem id_assembled (bs sz : Nat) (hbs : 0 < bs) (ops : List Op)
    (hdone : done (run bs (newWith bs sz) ops) = true) :
    (∀ i, i < numBlocks bs sz → ∃ data, (i, data) ∈ accepted bs (newWith bs sz) ops) ∧
    (run bs (newWith bs sz) ops).bytes = assembled bs sz (accepted bs (newWith bs sz) ops) := by
  have once := id_accepted_once bs sz hbs ops
  have hI := hinv_run hbs ops (hinv_new (sz := sz) hbs)
  simp only [List.nil_append] at hI
  generalize run bs (newWith bs sz) ops = d at hI hdone
  generalize accepted bs (newWith bs sz) ops = A at hI once
  simp only [done, Bool.and_eq_true, beq_iff_eq] at hdone
  have hnext : d.next = numBlocks bs sz := by rw [hdone.1, hI.wf.nblk]
  have hlen : A.length = numBlocks bs sz := by
    have := hI.pend; rw [hdone.2] at this; omega
  have hall : ∀ i, i < numBlocks bs sz → i ∈ A.map (·.1) :=
    mem_of_nodup_lt once (by
      intro x hx
      obtain ⟨p, hp, rfl⟩ := List.mem_map.1 hx
      have := (hI.ans p hp).1; omega) (by simpa using hlen)
  constructor
  · intro i hi
    obtain ⟨p, hp, rfl⟩ := List.mem_map.1 (hall i hi)
    exact ⟨p.2, hp⟩
  · unfold assembled
    rw [flatMap_congr' _ (answerOf A) (fun i => slice d.bytes (i * bs) (blockLen bs sz i))]
    · exact (flatMap_blocks d.bytes bs sz hbs hI.wf.blen).symm
    · intro i hi
      have hi := List.mem_range.1 hi
      obtain ⟨p, hp, hpi⟩ := List.mem_map.1 (hall i hi)
      unfold answerOf
      cases hf : A.find? (fun p => p.1 == i) with
      | none =>
        have := List.find?_eq_none.1 hf p hp
        simp [hpi] at this
      | some p' =>
        have hm := List.mem_of_find?_eq_some hf
        have hp'i : p'.1 = i := by simpa using List.find?_some hf
        simp only [Option.map_some, Option.getD_some]
        rw [← hp'i]
        exact ((hI.ans p' hm).2).symm

/-- **id_assembled_honest.** The statement as it was before the repair of `GotBlock`, with the
hypothesis `once` (no index accepted twice) that `id_accepted_once` now discharges. -/
theorem id_assembled_honest (bs sz : Nat) (hbs : 0 < bs) (ops : List Op)
    (_once : ((accepted bs (newWith bs sz) ops).map (·.1)).Nodup)
    (hdone : done (run bs (newWith bs sz) ops) = true) :
    (∀ i, i < numBlocks bs sz → ∃ data, (i, data) ∈ accepted bs (newWith bs sz) ops) ∧
    (run bs (newWith bs sz) ops).bytes = assembled bs sz (accepted bs (newWith bs sz) ops) :=
  id_assembled bs sz hbs ops hdone

/-- Non-vacuity of `id_assembled`: an out-of-order exchange with a repeated and a late answer
(block size 2, 5 bytes); the repeats are refused and change nothing. -/
example :
    let ops := [Op.req 2, .got 1 [3, 4], .got 1 [9, 9], .got 0 [1, 2], .req 2, .got 0 [7, 7], .got 2 [5]]
    done (run 2 (newWith 2 5) ops) = true ∧
    (run 2 (newWith 2 5) ops).bytes = [1, 2, 3, 4, 5] ∧
    accepted 2 (newWith 2 5) ops = [(1, [3, 4]), (0, [1, 2]), (2, [5])] := by decide

/-! ### The repaired accounting of `pending` (finding C17-F6) -/

/-- Largest window ever passed to `RequestBlocks` in a history (0 if none was positive). -/
def maxQ : List Op → Int
  | [] => 0
  | .req q :: rest => max q (maxQ rest)
  | .got _ _ :: rest => maxQ rest

/-- **idl_pending_counts_outstanding.** In every reachable state `pending` is the number of blocks
that were requested and whose answer has not been stored (`outstanding`), so it is never negative;
and only requested blocks are marked received. -/
theorem idl_pending_counts_outstanding (bs sz : Nat) (hbs : 0 < bs) (ops : List Op) :
    let d := run bs (newWith bs sz) ops
    d.pending = ((d.blocks.countP fun b => b.requested && !b.received : Nat) : Int) ∧
    0 ≤ d.pending ∧
    ∀ b ∈ d.blocks, b.received = true → b.requested = true := by
  intro d
  have hI := hinv_run hbs ops (hinv_new (sz := sz) hbs)
  refine ⟨hI.cnt, by rw [hI.cnt]; omega, ?_⟩
  intro b hb hr
  obtain ⟨i, hi, rfl⟩ := List.mem_iff_getElem.1 hb
  have hi' : i < numBlocks bs sz := by rw [← hI.wf.nblk]; exact hi
  obtain ⟨hg, himp⟩ := hI.wf.blk i hi'
  rw [List.getElem?_eq_getElem hi] at hg
  simp only [Option.some.injEq] at hg
  show (run bs (newWith bs sz) ops).blocks[i].requested = true
  have hr' : recvd (run bs (newWith bs sz) ops) i = true := by
    have : (run bs (newWith bs sz) ops).blocks[i].received = true := hr
    rw [hg] at this; exact this
  rw [hg]
  simpa using himp hr'

/-- **idl_pending_within_window.** `RequestBlocks(q)` from any reachable state: `pending` afterwards
is at most `max q (pending before)`; the requests it sends plus those already outstanding stay
within the window (`≤ max q outstanding`), and every request sent is counted as outstanding. -/
theorem idl_pending_within_window (bs sz : Nat) (hbs : 0 < bs) (ops : List Op) (q : Int) :
    let d := run bs (newWith bs sz) ops
    let r := requestBlocks d q
    r.1.pending ≤ max q d.pending ∧
    (outstanding d : Int) + r.2.length ≤ max q (outstanding d) ∧
    (outstanding r.1 : Int) = outstanding d + r.2.length := by
  intro d r
  have hI := hinv_run hbs ops (hinv_new (sz := sz) hbs)
  obtain ⟨_, _, hnx, hs, hp, _, hout⟩ := requestBlocks_spec hI.wf q
  have hle := (requestLoop_pending_le q (d.blocks.length - d.next) d []).1
  have hlen : r.2.length = r.1.next - d.next := by
    show (requestBlocks d q).2.length = _
    rw [hs, List.length_range']
  have hcnt : d.pending = (outstanding d : Int) := hI.cnt
  have hp' : r.1.pending = d.pending + ((r.1.next - d.next : Nat) : Int) := hp
  have hle' : r.1.pending ≤ max q d.pending := hle
  refine ⟨hle', ?_, ?_⟩
  · rw [hlen, ← hcnt, ← hp']; exact hle'
  · rw [hlen]; exact hout

/-- **idl_pending_bound** (for C17). After every history, `pending` — which is the number of requests
without an answer — lies between 0 and the largest window ever passed to `RequestBlocks`. -/
theorem idl_pending_bound (bs sz : Nat) (hbs : 0 < bs) (ops : List Op) :
    let d := run bs (newWith bs sz) ops
    0 ≤ d.pending ∧ d.pending ≤ maxQ ops ∧ (outstanding d : Int) ≤ maxQ ops := by
  intro d
  have hI := hinv_run hbs ops (hinv_new (sz := sz) hbs)
  have key : ∀ (ops : List Op) (d0 : ID) (B : Int), 0 ≤ B → d0.pending ≤ B →
      (run bs d0 ops).pending ≤ max B (maxQ ops) := by
    intro ops
    induction ops with
    | nil => intro d0 B _ h; simp only [run, List.foldl_nil, maxQ]; omega
    | cons op rest ih =>
      intro d0 B hB h
      cases op with
      | req q =>
        have h1 := (requestLoop_pending_le q (d0.blocks.length - d0.next) d0 []).1
        have := ih (requestBlocks d0 q).1 (max B q) (by omega) (by
          show (requestLoop q (d0.blocks.length - d0.next) d0 []).1.pending ≤ _; omega)
        simp only [run, List.foldl_cons, step, maxQ] at this ⊢
        omega
      | got i data =>
        have h1 : (gotBlock bs d0 i data).1.pending ≤ d0.pending := by
          unfold gotBlock
          repeat' split
          all_goals first
            | exact Int.le_refl _
            | (show d0.pending - 1 ≤ d0.pending; omega)
            | (simp only []; split <;> (show d0.pending - 1 ≤ d0.pending; omega))
        have := ih (gotBlock bs d0 i data).1 B hB (by omega)
        simp only [run, List.foldl_cons, step, maxQ] at this ⊢
        exact this
  have hk := key ops (newWith bs sz) 0 (Int.le_refl _) (by simp [newWith])
  have hq : 0 ≤ maxQ ops := by
    clear hk hI key d
    induction ops with
    | nil => simp [maxQ]
    | cons op rest ih => cases op <;> simp only [maxQ] <;> omega
  have hcnt : d.pending = (outstanding d : Int) := hI.cnt
  have hk' : d.pending ≤ max 0 (maxQ ops) := hk
  refine ⟨by omega, by omega, by omega⟩

/-- **idl_done_iff_all_received.** In every reachable state `Done()` is true exactly when every
block has a stored answer: never before (no premature `Done`), and as soon as the last answer is
stored. -/
theorem idl_done_iff_all_received (bs sz : Nat) (hbs : 0 < bs) (ops : List Op) :
    let d := run bs (newWith bs sz) ops
    done d = true ↔ ∀ b ∈ d.blocks, b.received = true := by
  intro d
  have hI := hinv_run hbs ops (hinv_new (sz := sz) hbs)
  have hcnt : d.pending = (outstanding d : Int) := hI.cnt
  have hnb : d.blocks.length = numBlocks bs sz := hI.wf.nblk
  have hnl : d.next ≤ numBlocks bs sz := hI.wf.next_le
  -- block `i` as the invariant describes it
  have hget : ∀ i (hi : i < d.blocks.length),
      d.blocks[i] = ⟨blockLen bs sz i, decide (i < d.next), recvd d i⟩ := by
    intro i hi
    have := (hI.wf.blk i (by omega)).1
    rw [List.getElem?_eq_getElem hi] at this
    simpa using this
  simp only [done, Bool.and_eq_true, beq_iff_eq]
  constructor
  · rintro ⟨hn, hp⟩ b hb
    have h0 : outstanding d = 0 := by omega
    simp only [outstanding, List.countP_eq_zero] at h0
    have := h0 b hb
    obtain ⟨i, hi, rfl⟩ := List.mem_iff_getElem.1 hb
    rw [hget i hi] at this ⊢
    have hlt : i < d.next := by omega
    simpa [hlt] using this
  · intro hall
    have hreq : ∀ i, i < d.blocks.length → i < d.next := by
      intro i hi
      have h1 := hall _ (List.getElem_mem hi)
      rw [hget i hi] at h1
      exact (hI.wf.blk i (by omega)).2 h1
    have hn : d.next = d.blocks.length := by
      by_cases h0 : d.blocks.length = 0
      · omega
      · have := hreq (d.blocks.length - 1) (by omega); omega
    refine ⟨hn, ?_⟩
    have h0 : outstanding d = 0 := by
      simp only [outstanding, List.countP_eq_zero]
      intro b hb
      simp [hall b hb]
    omega

/-- Non-vacuity (block size 2, 5 bytes, windows 2 and 1): `pending` follows the outstanding
requests through a repeated answer, the window is respected, `Done()` turns true with the last
answer and not earlier. -/
example :
    let ops := [Op.req 2, .got 0 [1, 2], .got 0 [1, 2], .req 1]
    let d := run 2 (newWith 2 5) ops
    d.pending = 1 ∧ outstanding d = 1 ∧ maxQ ops = 2 ∧ done d = false ∧
    (requestBlocks d 2).2 = [2] ∧ (requestBlocks d 2).1.pending = 2 ∧
    done (run 2 d [.req 2, .got 1 [3, 4]]) = false ∧
    done (run 2 d [.req 2, .got 1 [3, 4], .got 2 [5]]) = true := by decide

/-- `GotBlock` as it was before the repair: no memory of stored answers, every accepted answer
decrements `pending`. -/
def gotBlockOld (bs : Nat) (d : ID) (index : Nat) (data : Bytes) : ID × GotRes :=
  if index ≥ d.blocks.length then (d, .err .index) else
  match d.blocks[index]? with
  | none => (d, .panic)
  | some b =>
    if !b.requested then (d, .err .unrequested) else
    if data.length ≠ b.size then (d, .err .size) else
    let d1 := { d with pending := d.pending - 1 }
    let begin := index * bs
    let end_ := begin + b.size
    if end_ > d.bytes.length then (d1, .panic) else
    ({ d1 with bytes := d.bytes.take begin ++ data ++ d.bytes.drop end_ }, .ok)

def stepOld (bs : Nat) (d : ID) : Op → ID
  | .req q => (requestBlocks d q).1
  | .got i data => (gotBlockOld bs d i data).1

def runOld (bs : Nat) (d : ID) (ops : List Op) : ID := ops.foldl (stepOld bs) d

/-- **idl_repeat_unfixed_counterexample** (finding C17-F6). With the old `GotBlock` (block size 4,
a 12-byte info, three blocks), a peer that repeats its answers
* drives `pending` below zero,
* makes `RequestBlocks(1)` send two requests at once (window 1, two requests outstanding),
* makes `Done()` true although blocks 1 and 2 never arrived (their bytes are still zero),
and a peer that repeats only its first answer leaves `pending` at −1 when everything has arrived,
so that `Done()` is never true.  The same histories on the repaired model refuse the repeats. -/
theorem idl_repeat_unfixed_counterexample :
    let d0 := newWith 4 12
    -- pending below zero
    (runOld 4 d0 [.req 1, .got 0 [1, 2, 3, 4], .got 0 [1, 2, 3, 4], .got 0 [1, 2, 3, 4]]).pending = -2 ∧
    -- window 1, two requests in one call
    (requestBlocks (runOld 4 d0 [.req 1, .got 0 [1, 2, 3, 4], .got 0 [1, 2, 3, 4]]) 1).2 = [1, 2] ∧
    -- premature Done
    (let d := runOld 4 d0 [.req 1, .got 0 [1, 2, 3, 4], .got 0 [1, 2, 3, 4], .req 1, .got 0 [1, 2, 3, 4]]
     done d = true ∧ d.bytes = [1, 2, 3, 4, 0, 0, 0, 0, 0, 0, 0, 0]) ∧
    -- Done never
    (let d := runOld 4 d0 [.req 3, .got 0 [1, 2, 3, 4], .got 0 [1, 2, 3, 4], .got 1 [5, 6, 7, 8], .got 2 [9, 10, 11, 12]]
     done d = false ∧ d.pending = -1 ∧ d.bytes = [1, 2, 3, 4, 5, 6, 7, 8, 9, 10, 11, 12]) ∧
    -- the repaired model on the same histories
    (run 4 d0 [.req 1, .got 0 [1, 2, 3, 4], .got 0 [1, 2, 3, 4], .got 0 [1, 2, 3, 4]]).pending = 0 ∧
    (gotBlock 4 (run 4 d0 [.req 1, .got 0 [1, 2, 3, 4]]) 0 [1, 2, 3, 4]).2 = .err .duplicate ∧
    (requestBlocks (run 4 d0 [.req 1, .got 0 [1, 2, 3, 4], .got 0 [1, 2, 3, 4]]) 1).2 = [1] ∧
    done (run 4 d0 [.req 1, .got 0 [1, 2, 3, 4], .got 0 [1, 2, 3, 4], .req 1, .got 0 [1, 2, 3, 4]]) = false ∧
    done (run 4 d0 [.req 3, .got 0 [1, 2, 3, 4], .got 0 [1, 2, 3, 4], .got 1 [5, 6, 7, 8], .got 2 [9, 10, 11, 12]]) = true := by
  decide

/-- The former `id_done_premature_by_repeat` (a repeated answer makes `Done()` true with a piece
missing) now holds only of the old `GotBlock`; the repaired one refuses the repeat. -/
theorem id_done_premature_by_repeat :
    let ops := [Op.req 2, .got 0 [1, 2], .got 0 [1, 2]]
    (done (runOld 2 (newWith 2 4) ops) = true ∧ (runOld 2 (newWith 2 4) ops).bytes = [1, 2, 0, 0]) ∧
    (done (run 2 (newWith 2 4) ops) = false ∧ accepted 2 (newWith 2 4) ops = [(0, [1, 2])]) := by decide

/-! ## Adoption (`torrent/torrent_metadataextension.go`, `torrent_infodownload.go`) -/
section Adopt
open Rain.Adopt
variable {Hash : Type} [DecidableEq Hash]

/-- **adopt_only_if_hash.** For every hash function `H`, every info-hash, every behaviour of
`parseInfo`/`WriteInfo`, every configuration, and **every history** of connects, extension
handshakes, metadata data/reject messages (any index, any size, any duplication, from any number
of peers), snub time-outs and disconnects, with every resolution of the map-iteration
nondeterminism: if the torrent ends up with metadata `b`, then `H b = infoHash`. -/
theorem adopt_only_if_hash (env : Env Hash) (es : List Event) (b : Bytes) :
    (Adopt.run env State.init es).info = some b → env.H b = env.infoHash :=
  fun h => ((inv_run env es State.init (inv_init env)).hash b h).1

/-- **private_refused** (with C19). In every history, metadata whose info dictionary carries the
private flag (or does not parse) is never adopted from peers. -/
theorem private_refused (env : Env Hash) (es : List Event) (b : Bytes) :
    (Adopt.run env State.init es).info = some b → env.parseInfo b = some false :=
  fun h => ((inv_run env es State.init (inv_init env)).hash b h).2

/-- The decision function on its own: it answers `adopt` (or sets `info` while stopping on a
resume-write error) only if the assembled bytes hash to the info-hash, and never for a private
torrent or unparsable bytes. -/
theorem decide_adopt_iff (env : Env Hash) (bytes : Bytes) :
    (decide_ env bytes = .adopt ↔
      env.H bytes = env.infoHash ∧ env.parseInfo bytes = some false ∧ env.writeOk bytes = true) ∧
    (∀ r, decide_ env bytes = .stop r true → env.H bytes = env.infoHash) := by
  unfold decide_
  constructor
  · by_cases hH : env.H bytes = env.infoHash
    · simp only [hH, ne_eq, not_true_eq_false, ↓reduceIte, true_and]
      cases env.parseInfo bytes with
      | none => simp
      | some pv => cases pv <;> simp
    · simp [hH]
  · intro r
    by_cases hH : env.H bytes = env.infoHash
    · intro _; exact hH
    · simp [hH]

/-- **size_cap.** For every history and every next event, every `RequestMetadataPiece(i)` the
client sends goes to a connected peer whose extension handshake announced a metadata size with
`0 < size ≤ MaxMetadataSize` (and `ut_metadata` support), and `i` is a valid piece index for that
size.  Together with the decoder's clamp this covers negative, zero and oversized announcements. -/
theorem size_cap (env : Env Hash) (es : List Event) (e : Event) (p : PeerId) (i : Nat) :
    let s := Adopt.run env State.init es
    Out.request p i ∈ (Adopt.step env s e).2 →
    ∃ pe ∈ (Adopt.step env s e).1.peers, pe.id = p ∧ ∃ h, pe.hs = some h ∧
      0 < h.msize ∧ h.msize ≤ env.maxSize ∧ h.hasMeta = true ∧
      i < numBlocks blockSize (peerMetadataSize h) := by
  intro s hmem
  have hI := inv_run env es State.init (inv_init env)
  obtain ⟨pe, hpe, hid, h, hh, hg, hi⟩ := (step_spec env s e hI).2 _ hmem p i rfl
  exact ⟨pe, hpe, hid, h, hh, hg.1, hg.2.1, hg.2.2, hi⟩

/-- With `MaxMetadataSize < 2^32` (default 30 MiB) the buffer allocated for such a peer has exactly
the announced size, hence at most `MaxMetadataSize` bytes. -/
theorem size_cap_alloc (h : Handshake) (maxSize : Int) (hm : maxSize < 2 ^ 32)
    (h0 : 0 < h.msize) (h1 : h.msize ≤ maxSize) :
    (new (peerMetadataSize h)).bytes.length = h.msize.toNat := by
  simp only [new, newWith, List.length_replicate, peerMetadataSize]
  rw [Int.emod_eq_of_lt (by omega) (by omega)]

/-- The slice-bounds panic of `GotBlock` is unreachable in every history. -/
theorem metadata_never_panics (env : Env Hash) (es : List Event) :
    (Adopt.run env State.init es).panicked = false :=
  (inv_run env es State.init (inv_init env)).nopanic

/-- Non-vacuity: with the identity as "hash", block size 16 KiB and a 3-byte info, a lying peer
(1) is dropped on hash mismatch and an honest peer (2) gets the metadata adopted; requests are
really sent. -/
def demoEnv : Env Bytes :=
  { H := id, infoHash := [7, 8, 9], parseInfo := fun _ => some false, writeOk := fun _ => true,
    queue := fun _ => 2, maxSize := 100, parallel := 1 }

example :
    let es := [Event.connect 1, .connect 2, .handshake 1 3 true [], .handshake 2 3 true [],
               .data 1 0 [1, 1, 1] [], .data 2 0 [7, 8, 9] []]
    (Adopt.run demoEnv State.init es).info = some [7, 8, 9] ∧
    (Adopt.step demoEnv (Adopt.run demoEnv State.init (es.take 2)) (es.getD 2 (.connect 0))).2 = [Out.request 1 0] ∧
    (Adopt.step demoEnv (Adopt.run demoEnv State.init (es.take 4)) (es.getD 4 (.connect 0))).2 =
      [Out.closePeer 1, Out.request 2 0] := by decide

/-- Non-vacuity of the cap: announcements 0, −5 (clamped) and 101 > max are never asked. -/
example :
    let es := [Event.connect 1, .connect 2, .connect 3, .handshake 1 0 true [], .handshake 2 (-5) true [],
               .handshake 3 101 true []]
    (Adopt.run demoEnv State.init es).dls = [] := by decide

end Adopt

/-! ## Magnet links (`internal/magnet`) -/
section MagnetLinks
open Rain.Magnet

/-- **magnet_roundtrip.** For every magnet value `m` (20-byte info-hash; any name, any tiers, any
peer strings — at the level of decoded query parameters) and **every** iteration order of the
`url.Values` map (`order`: the distinct keys of the rendered link, each once): parsing the
rendered link succeeds and yields the same info-hash, name and peers, and a tier list that is a
permutation of the non-empty tiers of `m`, each tier unchanged (same members, same order).
Empty tiers are not representable in a link; `Session.parseTrackers` never produces one, so for
an exported link the tiers are the same multiset. -/
theorem magnet_roundtrip (m : Magnet) (hih : m.ih.length = 20) (hb : ∀ b ∈ m.ih, b < 256)
    (hlen : m.trackers.length ≤ 2 ^ 63) (order : List Str) (hnd : order.Nodup)
    (hmem : ∀ k, k ∈ order ↔ k ∈ (render m).map (·.1)) :
    ∃ m', parse [109, 97, 103, 110, 101, 116] order (render m) = .ok m' ∧
      m'.ih = m.ih ∧ m'.name = m.name ∧ m'.peers = m.peers ∧
      m'.trackers.Perm (m.trackers.filter (· ≠ [])) := by
  have hx : parseInfoHash (valuesOf kXt (render m)) false = .ok m.ih := by
    rw [values_xt]
    simp only [parseInfoHash, cutPrefix_append, infoHashString, hexEncode_length, hih,
      hexDecode_encode m.ih hb, ↓reduceIte, toIH]
    congr 1
    rw [List.take_append_of_le_length (by omega), List.take_of_length_le (by omega)]
  refine ⟨{ ih := m.ih, name := (valuesOf kDn (render m)).headD [],
            trackers := (sortTiers (rawTiers order (render m))).map (·.trackers),
            peers := valuesOf kPe (render m) }, ?_, rfl, ?_, ?_, ?_⟩
  · unfold parse
    simp only [ne_eq, not_true_eq_false, ↓reduceIte, hx]
    rw [values_xt]
    rfl
  · show (valuesOf kDn (render m)).headD [] = m.name
    rw [values_dn]
    split
    · rfl
    · rename_i h; simp only [ne_eq, Decidable.not_not] at h; simp [h]
  · exact values_pe m
  · exact rawTiers_order_perm m hlen order hnd hmem

/-- The same statement for the driver's decidable oracle `roundtripOk`. -/
theorem magnet_roundtrip_oracle (m : Magnet) (hih : m.ih.length = 20) (hb : ∀ b ∈ m.ih, b < 256)
    (hlen : m.trackers.length ≤ 2 ^ 63) (order : List Str) (hnd : order.Nodup)
    (hmem : ∀ k, k ∈ order ↔ k ∈ (render m).map (·.1)) :
    ∃ m', parse [109, 97, 103, 110, 101, 116] order (render m) = .ok m' ∧ roundtripOk m m' = true := by
  obtain ⟨m', hp, h1, h2, h3, h4⟩ := magnet_roundtrip m hih hb hlen order hnd hmem
  refine ⟨m', hp, ?_⟩
  simp only [roundtripOk, h1, h2, h3, sameTiers, decide_true, Bool.and_self, Bool.true_and]
  exact List.isPerm_iff.2 h4

/-- Non-vacuity: a link with a name needing escaping, a multi-tracker tier before a single one
(so the order of tiers changes), an empty tier and two peers; `distinctKeys` is one admissible
order. -/
example :
    let m : Magnet := { ih := List.replicate 20 171, name := [97, 32, 38, 98],
                        trackers := [[[1], [2]], [[3]], [], [[4], [5], [6]]], peers := [[49], [50]] }
    (distinctKeys (render m)).Nodup ∧ (∀ k ∈ (render m).map (·.1), k ∈ distinctKeys (render m)) ∧
    (parse [109, 97, 103, 110, 101, 116] (distinctKeys (render m)) (render m)).toOption.map (·.trackers) =
      some [[[3]], [[1], [2]], [[4], [5], [6]]] := by decide

end MagnetLinks

end Rain.Props.C13
