import RainModel.Model.Codec
import RainModel.Lemmas.Codec
import RainModel.Lemmas.Bencode
/-!
C08 (reader half) — untrusted peer bytes never crash the reader nor make it allocate more than the
maximum message size.  Property theorems only.  `run max bs` is the loop of `PeerReader.Run` on the
byte stream `bs` with `maxMsgSize = max`; its outcome type has explicit `panic` (Go run-time panic:
slice bounds in `blockPool.Get`, `panic("msg unset")`) and `fuel` (model loop bound exhausted) ends.
The handler half of C08 (what the torrent does with the delivered messages) is separate.
-/
namespace Rain.Props.C08Reader
open Rain.Codec
open Rain.Bencode (Bytes)

/-- **reader_total.** For every maximum message size and every byte stream — any lengths, ids,
truncations, garbage — the reader loop ends with messages-then-`eof` or messages-then-an-error that
drops the peer (`oversize`, `blockSize`, `ext`); the `panic` end is unreachable, and the model's
loop bound `|bs| + 1` is never exhausted (every trip consumes at least four bytes). -/
theorem reader_total (max : Nat) (bs : Bytes) :
    (run max bs).err ≠ .panic ∧ (run max bs).err ≠ .fuel := by
  have := runAux_ok max (bs.length + 1) bs (by omega)
  exact ⟨this.1, this.2.1⟩

/-- The same as a closed list of possible ends. -/
theorem reader_ends (max : Nat) (bs : Bytes) :
    (run max bs).err = .eof ∨ (run max bs).err = .oversize ∨ (run max bs).err = .blockSize ∨ (run max bs).err = .ext := by
  have := reader_total max bs
  cases h : (run max bs).err <;> simp_all

/-- **reader_alloc_bound.** Every allocation the reader performs while decoding any byte stream is
within the limits: a `make([]byte, n)` (bitfield body, extension body, every string the bencode
decoder materialises from an extension payload) has `n ≤ maxMsgSize`; a block buffer taken from
the pool has `n ≤ 16384`. -/
theorem reader_alloc_bound (max : Nat) (bs : Bytes) :
    ∀ e ∈ (run max bs).effs, EffOk max e :=
  (runAux_ok max (bs.length + 1) bs (by omega)).2.2.1

/-- Unfolded form: explicit numbers. -/
theorem reader_alloc_bound' (max : Nat) (bs : Bytes) :
    (∀ n, Eff.make n ∈ (run max bs).effs → n ≤ max) ∧
    (∀ n, Eff.poolGet n ∈ (run max bs).effs → n ≤ 16384) :=
  ⟨fun _ h => reader_alloc_bound max bs _ h, fun _ h => reader_alloc_bound max bs _ h⟩

/-- **reader_delivers_bounded.** Whatever is handed on to the torrent respects the size limits:
bitfields ≤ `maxMsgSize`, blocks ≤ 16 KiB, request lengths ≤ 16 KiB. -/
theorem reader_delivers_bounded (max : Nat) (bs : Bytes) :
    ∀ m ∈ (run max bs).msgs, MsgOk max m :=
  (runAux_ok max (bs.length + 1) bs (by omega)).2.2.2

/-- **validate_bounds.** The guard in front of the bencode decoder (`validateBencode`, model
`tokenize`) accepts a payload only if every string in it announces at most as many bytes as the
payload has; what follows the first value is a suffix of the payload. -/
theorem validate_bounds (payload : Bytes) (toks : List Rain.Bencode.Tok) (rest : Bytes)
    (h : Rain.Bencode.tokenize payload = some (toks, rest)) :
    (∀ n ∈ Rain.Bencode.strLens toks, n ≤ payload.length) ∧ rest.length ≤ payload.length :=
  Rain.Bencode.tokenize_bound h

/-- **validate_depth.** A payload accepted by the guard never opens more than 32 nested lists /
dictionaries (`nestMax` = deepest level entered while walking the tokens), so the decoder, which
recurses once per level, recurses at most 32 deep on it. -/
theorem validate_depth (payload : Bytes) (toks : List Rain.Bencode.Tok) (rest : Bytes)
    (h : Rain.Bencode.tokenize payload = some (toks, rest)) :
    Rain.Bencode.nestMax toks 0 ≤ 32 :=
  Rain.Bencode.tokenize_depth h

/-- Non-vacuity / witnesses: a string announcing 2^31-1 bytes and a nesting of 33 lists are
refused by the guard (before the fix they reached the decoder: 2 GiB allocation, unbounded
recursion — findings F-C08R-1, F-C08R-2); 32 levels are accepted. -/
example : (run 65536 ([0, 0, 0, 17, 20, 0] ++ [100, 49, 58, 118, 50, 49, 52, 55, 52, 56, 51, 54, 52, 55, 58, 101])).err = .ext := by decide

example : Rain.Bencode.tokenize (List.replicate 33 108 ++ List.replicate 33 101) = none := by decide

example : (Rain.Bencode.tokenize (List.replicate 32 108 ++ List.replicate 32 101)).isSome = true := by decide

/-- The `uint32` wrap of `length -= 8` for a piece frame shorter than its header is caught by the
block-size guard, not by a panic. -/
example : (run 100 [0, 0, 0, 4, 7, 0, 0, 0, 1, 0, 0, 0, 2]).err = .blockSize := by decide

end Rain.Props.C08Reader
